import Np.Proofs.Dispatch
import Np.Model.Multiply
open MvPolynomial
namespace Np
variable {S : Type} [CommSemiring S]

/-- sum of the values stored under key `k` in a list of (key, value) pairs -/
def sumFor (k : Expo) (l : List (Expo × S)) : S := ((l.filter fun kv => kv.1 == k).map (·.2)).sum

def cellOf (done : List (Expo × S)) (k : Expo) : Cell S :=
  if done.any (fun kv => kv.1 == k) then Cell.val (sumFor k done) else Cell.uninit

theorem sumFor_append (k : Expo) (l1 l2 : List (Expo × S)) : sumFor k (l1 ++ l2) = sumFor k l1 + sumFor k l2 := by
  simp [sumFor]

/-- loop invariant: after processing `done`, every cell holds the sum of what was sent to its key -/
theorem cmulStep_inv (keys : List Expo) (done : List (Expo × S)) (seen : List Expo) (x : Expo × S)
    (hseen : ∀ k, k ∈ seen ↔ done.any (fun kv => kv.1 == k) = true) :
    (cmulStep (keys.map fun k => (k, cellOf done k), seen) x).1
        = (keys.map fun k => (k, cellOf (done ++ [x]) k)) ∧
      ∀ k, k ∈ (cmulStep (keys.map fun k => (k, cellOf done k), seen) x).2
        ↔ (done ++ [x]).any (fun kv => kv.1 == k) = true := by
  obtain ⟨kx, vx⟩ := x
  have hcell : ∀ k, k ≠ kx → cellOf (done ++ [(kx, vx)]) k = cellOf done k := by
    intro k hk
    have hk'' : (kx == k) = false := by simpa using (Ne.symm hk)
    have hany : (done ++ [(kx, vx)]).any (fun kv => kv.1 == k) = done.any (fun kv => kv.1 == k) := by
      simp [hk'']
    have hsum : sumFor k (done ++ [(kx, vx)]) = sumFor k done := by simp [sumFor, hk'']
    unfold cellOf
    rw [hany, hsum]
  by_cases hin : kx ∈ seen
  · -- accumulate
    have hc : seen.contains kx = true := by simpa using hin
    have hany : done.any (fun kv => kv.1 == kx) = true := (hseen kx).1 hin
    simp only [cmulStep, hc, if_true]
    refine ⟨?_, ?_⟩
    · simp only [cadd, List.map_map]
      apply List.map_congr_left
      intro k _
      by_cases hk : k = kx
      · subst hk
        have h2 : (done ++ [(k, vx)]).any (fun kv => kv.1 == k) = true := by simp [hany]
        simp only [Function.comp, beq_self_eq_true, if_true, cellOf, hany, h2]
        simp [sumFor]
      · have hk' : (k == kx) = false := by simpa using hk
        simp only [Function.comp, hk', Bool.false_eq_true, if_false, hcell k hk]
    · intro k
      rw [hseen k]
      by_cases hk : kx = k
      · subst hk; simp [hany]
      · have : (kx == k) = false := by simpa using hk
        simp [this]
  · -- first write
    have hc : seen.contains kx = false := by simpa using hin
    have hany : done.any (fun kv => kv.1 == kx) = false := by
      cases h : done.any (fun kv => kv.1 == kx)
      · rfl
      · exact absurd ((hseen kx).2 h) hin
    simp only [cmulStep, hc, Bool.false_eq_true, if_false]
    refine ⟨?_, ?_⟩
    · simp only [cset, List.map_map]
      apply List.map_congr_left
      intro k _
      by_cases hk : k = kx
      · subst hk
        have hfil : done.filter (fun kv => kv.1 == k) = [] := by
          rw [List.filter_eq_nil_iff]; intro a ha
          have := List.any_eq_false.1 hany a ha; simpa using this
        have h2 : (done ++ [(k, vx)]).any (fun kv => kv.1 == k) = true := by simp
        simp only [Function.comp, beq_self_eq_true, if_true, cellOf, h2]
        simp [sumFor, hfil]
      · have hk' : (k == kx) = false := by simpa using hk
        simp only [Function.comp, hk', Bool.false_eq_true, if_false, hcell k hk]
    · intro k
      simp only [List.mem_cons, hseen k]
      by_cases hk : kx = k
      · subst hk; simp
      · have h1 : (kx == k) = false := by simpa using hk
        have h2 : ¬ k = kx := fun h => hk h.symm
        simp [h1, h2]

theorem cmul_fold (keys : List Expo) (todo done : List (Expo × S)) (seen : List Expo)
    (hseen : ∀ k, k ∈ seen ↔ done.any (fun kv => kv.1 == k) = true) :
    (todo.foldl cmulStep (keys.map fun k => (k, cellOf done k), seen)).1
      = keys.map fun k => (k, cellOf (done ++ todo) k) := by
  induction todo generalizing done seen with
  | nil => simp
  | cons x todo ih =>
    obtain ⟨h1, h2⟩ := cmulStep_inv keys done seen x hseen
    simp only [List.foldl_cons]
    have : cmulStep (keys.map fun k => (k, cellOf done k), seen) x
        = (keys.map fun k => (k, cellOf (done ++ [x]) k), (cmulStep (keys.map fun k => (k, cellOf done k), seen) x).2) := by
      rw [← h1]
    rw [this, ih (done ++ [x]) _ h2]
    simp

theorem cmultiply_eq (keys : List Expo) (a b : List (Expo × S)) :
    cmultiply keys a b = keys.map fun k => (k, cellOf (pairProducts a b) k) := by
  unfold cmultiply allocBuf
  have := cmul_fold keys (pairProducts a b) [] [] (by intro k; simp)
  have h0 : (keys.map fun k => (k, cellOf ([] : List (Expo × S)) k)) = keys.map fun k => (k, Cell.uninit) := by
    apply List.map_congr_left; intro k _; simp [cellOf]
  rw [h0] at this
  simpa using this

/-- C12 for `multiply`: when the keys are exactly the pair sums, no cell is left unwritten -/
theorem freeze_cmultiply (keys : List Expo) (a b : List (Expo × S))
    (hcov : ∀ k ∈ keys, k ∈ (pairProducts a b).map (·.1)) :
    freeze (cmultiply keys a b) = some (keys.map fun k => (k, sumFor k (pairProducts a b))) := by
  rw [cmultiply_eq]
  induction keys with
  | nil => simp [freeze]
  | cons k keys ih =>
    have hk : (pairProducts a b).any (fun kv => kv.1 == k) = true := by
      have := hcov k (by simp)
      simp only [List.mem_map] at this
      obtain ⟨kv, hkv, rfl⟩ := this
      exact List.any_eq_true.2 ⟨kv, hkv, by simp⟩
    have hc : cellOf (pairProducts a b) k = Cell.val (sumFor k (pairProducts a b)) := by simp [cellOf, hk]
    simp only [List.map_cons, hc, freeze]
    rw [ih (fun k' hk' => hcov k' (by simp [hk']))]
    simp


/-- merging the values sent to equal keys does not change the denotation -/
theorem denT_merge (ns : List Name) (keys : List Expo) (l : List (Expo × S)) (hk : keys.Nodup)
    (hsub : ∀ kv ∈ l, kv.1 ∈ keys) :
    denT ns (keys.map fun k => (k, sumFor k l)) = denT ns l := by
  induction l with
  | nil =>
    have : ∀ keys : List Expo, denT ns (keys.map fun k => (k, sumFor k ([] : List (Expo × S)))) = 0 := by
      intro keys; induction keys with
      | nil => rfl
      | cons k ks ih => simp [sumFor] at ih ⊢; exact ih
    simpa using this keys
  | cons x l ih =>
    obtain ⟨kx, vx⟩ := x
    have hx : kx ∈ keys := hsub (kx, vx) (by simp)
    have ih' := ih (fun kv h => hsub kv (by simp [h]))
    rw [denT_cons, ← ih']
    -- split keys around kx
    obtain ⟨l1, l2, rfl⟩ := List.append_of_mem hx
    rw [List.nodup_append] at hk
    have h1 : kx ∉ l1 := fun h => (hk.2.2 kx h kx (by simp)) rfl
    have h2 : kx ∉ l2 := (List.nodup_cons.1 hk.2.1).1
    have key : ∀ lst : List Expo, kx ∉ lst →
        (lst.map fun k => (k, sumFor k ((kx, vx) :: l))) = (lst.map fun k => (k, sumFor k l)) := by
      intro lst hl
      apply List.map_congr_left
      intro k hkm
      have : (kx == k) = false := by
        have : kx ≠ k := fun h => hl (h ▸ hkm)
        simpa using this
      simp [sumFor, this]
    simp only [List.map_append, List.map_cons, denT_append, denT_cons, key l1 h1, key l2 h2]
    have : sumFor kx ((kx, vx) :: l) = vx + sumFor kx l := by simp [sumFor]
    rw [this, map_add]
    abel


theorem fsN_zipWith_add (ns : List Name) (e1 e2 : Expo) (h1 : e1.length = ns.length) (h2 : e2.length = ns.length) :
    fsN ns (List.zipWith (· + ·) e1 e2) = fsN ns e1 + fsN ns e2 := by
  induction ns generalizing e1 e2 with
  | nil => simp [fsN]
  | cons n ns ih =>
    cases e1 with
    | nil => simp at h1
    | cons x xs =>
      cases e2 with
      | nil => simp at h2
      | cons y ys =>
        simp only [List.zipWith_cons_cons, fsN, Finsupp.single_add]
        rw [ih xs ys (by simpa using h1) (by simpa using h2)]
        abel

theorem denT_pairProducts (ns : List Name) (a b : List (Expo × S))
    (ha : ∀ t ∈ a, t.1.length = ns.length) (hb : ∀ t ∈ b, t.1.length = ns.length) :
    denT ns (pairProducts a b) = denT ns a * denT ns b := by
  induction a with
  | nil => simp [pairProducts]
  | cons t a ih =>
    have ih' := ih (fun x hx => ha x (by simp [hx]))
    have hmap : denT ns (b.map fun t2 => (List.zipWith (· + ·) t.1 t2.1, t.2 * t2.2))
        = monomial (fsN ns t.1) t.2 * denT ns b := by
      clear ih ih'
      induction b with
      | nil => simp
      | cons u b ihb =>
        simp only [List.map_cons, denT_cons, mul_add, ihb (fun x hx => hb x (by simp [hx]))]
        congr 1
        rw [monomial_mul, fsN_zipWith_add ns t.1 u.1 (ha t (by simp)) (hb u (by simp))]
    simp only [pairProducts, List.flatMap_cons, denT_append, denT_cons, add_mul] at ih' ⊢
    rw [ih', hmap]

/-- C01 (product) + C12: `multiply` returns a fully written buffer whose denotation is the product -/
theorem mul_den [BEq S] [LawfulBEq S] (rc rn : Bool) (a b : Poly S) (ha : WF a) (hb : WF b) :
    ∃ r, multiply rc rn a b = some r ∧ den r = den a * den b := by
  have hc := commonNames_nodup a b
  have hsa : ∀ n ∈ a.names, n ∈ commonNames a b := fun n h => (mem_commonNames a b n).2 (Or.inl h)
  have hsb : ∀ n ∈ b.names, n ∈ commonNames a b := fun n h => (mem_commonNames a b n).2 (Or.inr h)
  have wa := WF_alignIndet (commonNames a b) a ha hc hsa
  have wb := WF_alignIndet (commonNames a b) b hb hc hsb
  have da := den_alignIndet (commonNames a b) a ha.names_nodup hc
    (fun t _ n hn => expoAt_not_mem a.names t.1 n (fun h => hn (hsa n h)))
  have db := den_alignIndet (commonNames a b) b hb.names_nodup hc
    (fun t _ n hn => expoAt_not_mem b.names t.1 n (fun h => hn (hsb n h)))
  set a' := alignIndet (commonNames a b) a with ha'
  set b' := alignIndet (commonNames a b) b with hb'
  set pp := pairProducts a'.terms b'.terms with hpp
  set keys := sortDedup expoLt (pp.map (·.1)) with hkeys
  have hknd : keys.Nodup := nodup_of_sortedLt expoLt_strictTotal _ (sortedLt_sortDedup expoLt_strictTotal _)
  have hkmem : ∀ k, k ∈ keys ↔ k ∈ pp.map (·.1) := fun k => mem_sortDedup expoLt_strictTotal k _
  have hfr := freeze_cmultiply keys a'.terms b'.terms (fun k hk => (hkmem k).1 hk)
  have hla : ∀ t ∈ a'.terms, t.1.length = (commonNames a b).length := fun t ht =>
    wa.row_len t.1 (List.mem_map_of_mem ht)
  have hlb : ∀ t ∈ b'.terms, t.1.length = (commonNames a b).length := fun t ht =>
    wb.row_len t.1 (List.mem_map_of_mem ht)
  set r0 : Poly S := { names := commonNames a b, terms := keys.map fun k => (k, sumFor k pp) } with hr0
  have hden0 : den r0 = den a * den b := by
    show denT (commonNames a b) (keys.map fun k => (k, sumFor k pp)) = _
    rw [denT_merge _ keys pp hknd (fun kv hkv => (hkmem kv.1).2 (List.mem_map_of_mem hkv)),
      hpp, denT_pairProducts _ _ _ hla hlb]
    show den a' * den b' = _
    rw [da, db]
  have hw0 : WF r0 := by
    refine ⟨hc, ?_, ?_⟩
    · simpa [Poly.expos, hr0, List.map_map, Function.comp_def] using hknd
    · intro e he
      have he' : e ∈ keys := by simpa [Poly.expos, hr0, List.map_map, Function.comp_def] using he
      have := (hkmem e).1 he'
      simp only [hpp, pairProducts, List.map_flatMap, List.map_map, List.mem_flatMap, List.mem_map,
        Function.comp] at this
      obtain ⟨t1, ht1, t2, ht2, rfl⟩ := this
      simp [hla t1 ht1, hlb t2 ht2, hr0]
  refine ⟨clean rc rn r0, ?_, ?_⟩
  · show (freeze (cmultiply keys a'.terms b'.terms)).map _ = _
    rw [hfr]; rfl
  · rw [den_clean rc rn r0 hw0 (WF_dropZeroCols r0 hw0), hden0]

end Np

import Np.Proofs.Walk
/-! C19: `lead_exponent` / `lead_coefficient` — ascending walk, overwrite where the coefficient is non-zero -/
namespace Np.Ord
variable {α R : Type} [LinearOrder α] [DecidableEq R] [Zero R]

/-- `out[coefficients[idx] != 0] = exponents[idx]` over rows in ascending monomial order, from zeros -/
def leadWalk (zero : α) (rows : List (α × R)) : α × R :=
  walk (zero, 0) (fun t => decide (t.2 ≠ 0)) id rows

/-- the result is the largest row with a non-zero coefficient; `(zero, 0)` for the zero polynomial -/
theorem leadWalk_spec (zero : α) (rows : List (α × R)) (hs : rows.Pairwise (fun s t => s.1 < t.1)) :
    (∀ t ∈ rows, t.2 = 0) ∧ leadWalk zero rows = (zero, 0) ∨
    ∃ t ∈ rows, t.2 ≠ 0 ∧ leadWalk zero rows = t ∧ ∀ u ∈ rows, u.2 ≠ 0 → u.1 ≤ t.1 := by
  unfold leadWalk
  rw [walk_last]
  cases hfind : rows.reverse.find? (fun t => decide (t.2 ≠ 0)) with
  | none =>
    left
    refine ⟨?_, rfl⟩
    intro t ht
    have := List.find?_eq_none.1 hfind t (List.mem_reverse.2 ht)
    simpa using this
  | some t =>
    right
    have htmem : t ∈ rows := List.mem_reverse.1 (List.mem_of_find?_eq_some hfind)
    have htnz : t.2 ≠ 0 := by have := List.find?_some hfind; simpa using this
    refine ⟨t, htmem, htnz, rfl, ?_⟩
    intro u hu hunz
    obtain ⟨_, as, bs, hsplit, hno⟩ := List.find?_eq_some_iff_append.1 hfind
    have hrows : rows = bs.reverse ++ t :: as.reverse := by
      have := congrArg List.reverse hsplit
      simpa using this
    rw [hrows, List.pairwise_append] at hs
    rw [hrows, List.mem_append, List.mem_cons] at hu
    rcases hu with hu | rfl | hu
    · exact le_of_lt (hs.2.2 u hu t (by simp))
    · exact le_refl _
    · have := hno u (List.mem_reverse.1 hu)
      simp [hunz] at this
end Np.Ord

import Np.Proofs.Multiply
import Np.Model.Arr
/-! C03 (structural part): the representation invariant is preserved by cleaning, addition, multiplication, powers -/
namespace Np
open MvPolynomial
variable {S : Type} [CommSemiring S]

/-- two rows that agree on every *used* name agree everywhere: dropping the unused names is injective on the rows -/
theorem WF_dropUnusedNames (p : Poly S) (hw : WF p) : WF (dropUnusedNames p) := by
  have hc := usedNames_nodup p hw
  have hex : (dropUnusedNames p).expos = p.expos.map (scatter p.names (usedNames p)) := by
    simp [dropUnusedNames, Poly.expos, alignIndet, List.map_map, Function.comp_def]
  refine ⟨hc, ?_, ?_⟩
  · rw [hex]
    apply List.Nodup.map_on _ hw.expos_nodup
    intro e1 h1 e2 h2 heq
    obtain ⟨t1, ht1, rfl⟩ := List.mem_map.1 h1
    obtain ⟨t2, ht2, rfl⟩ := List.mem_map.1 h2
    apply row_ext p.names hw.names_nodup t1.1 t2.1 (hw.row_len _ h1) (hw.row_len _ h2)
    intro n hn
    by_cases hu : n ∈ usedNames p
    · rw [← expoAt_scatter p.names (usedNames p) t1.1 n hu hc,
        ← expoAt_scatter p.names (usedNames p) t2.1 n hu hc, heq]
    · rw [usedNames_keep p t1 ht1 n hu, usedNames_keep p t2 ht2 n hu]
  · intro e he
    rw [hex] at he
    obtain ⟨t, _, rfl⟩ := List.mem_map.1 he
    simp [scatter, dropUnusedNames, alignIndet]

theorem WF_clean [BEq S] [LawfulBEq S] (rc rn : Bool) (p : Poly S) (hw : WF p) : WF (clean rc rn p) := by
  unfold clean
  cases rc <;> cases rn <;>
    simp only [Bool.false_eq_true, if_false, if_true] <;>
    first
      | exact hw
      | exact WF_dropZeroCols p hw
      | exact WF_dropUnusedNames p hw
      | exact WF_dropUnusedNames _ (WF_dropZeroCols p hw)

/-- C03 for sums: the result of `add` is well-formed -/
theorem WF_add [BEq S] [LawfulBEq S] (rc rn : Bool) (a b : Poly S) (ha : WF a) (hb : WF b) :
    WF (add rc rn a b) := WF_clean rc rn _ (add_den rc rn a b ha hb).2

/-- C01 + C03 for products: fully written, denotes the product, and is well-formed -/
theorem mul_den_WF [BEq S] [LawfulBEq S] (rc rn : Bool) (a b : Poly S) (ha : WF a) (hb : WF b) :
    ∃ r, multiply rc rn a b = some r ∧ den r = den a * den b ∧ WF r := by
  have hc := commonNames_nodup a b
  have hsa : ∀ n ∈ a.names, n ∈ commonNames a b := fun n h => (mem_commonNames a b n).2 (Or.inl h)
  have hsb : ∀ n ∈ b.names, n ∈ commonNames a b := fun n h => (mem_commonNames a b n).2 (Or.inr h)
  have wa := WF_alignIndet (commonNames a b) a ha hc hsa
  have wb := WF_alignIndet (commonNames a b) b hb hc hsb
  obtain ⟨r, hr, hd⟩ := mul_den rc rn a b ha hb
  refine ⟨r, hr, hd, ?_⟩
  -- r = clean rc rn r0 where r0 has the sorted, duplicate-free pair sums as rows
  set a' := alignIndet (commonNames a b) a
  set b' := alignIndet (commonNames a b) b
  set pp := pairProducts a'.terms b'.terms with hpp
  set keys := sortDedup expoLt (pp.map (·.1)) with hkeys
  have hknd : keys.Nodup := nodup_of_sortedLt expoLt_strictTotal _ (sortedLt_sortDedup expoLt_strictTotal _)
  have hkmem : ∀ k, k ∈ keys ↔ k ∈ pp.map (·.1) := fun k => mem_sortDedup expoLt_strictTotal k _
  have hfr := freeze_cmultiply keys a'.terms b'.terms (fun k hk => (hkmem k).1 hk)
  have hla : ∀ t ∈ a'.terms, t.1.length = (commonNames a b).length := fun t ht =>
    wa.row_len t.1 (List.mem_map_of_mem ht)
  have hlb : ∀ t ∈ b'.terms, t.1.length = (commonNames a b).length := fun t ht =>
    wb.row_len t.1 (List.mem_map_of_mem ht)
  set r0 : Poly S := { names := commonNames a b, terms := keys.map fun k => (k, sumFor k pp) } with hr0
  have hw0 : WF r0 := by
    refine ⟨hc, ?_, ?_⟩
    · simpa [Poly.expos, hr0, List.map_map, Function.comp_def] using hknd
    · intro e he
      have he' : e ∈ keys := by simpa [Poly.expos, hr0, List.map_map, Function.comp_def] using he
      have := (hkmem e).1 he'
      simp only [hpp, pairProducts, List.map_flatMap, List.map_map, List.mem_flatMap, List.mem_map,
        Function.comp] at this
      obtain ⟨t1, ht1, t2, ht2, rfl⟩ := this
      simp [hla t1 ht1, hlb t2 ht2, hr0]
  have hres : multiply rc rn a b = some (clean rc rn r0) := by
    show (freeze (cmultiply keys a'.terms b'.terms)).map _ = _
    rw [hfr]; rfl
  rw [hres] at hr
  injection hr with hr
  rw [← hr]
  exact WF_clean rc rn r0 hw0
end Np

namespace Np
open MvPolynomial
variable {S : Type} [CommSemiring S]

theorem fsN_replicate (ns : List Name) (k : Nat) : fsN ns (List.replicate k 0) = 0 := by
  induction ns generalizing k with
  | nil => simp [fsN]
  | cons n ns ih =>
    cases k with
    | zero => simp [fsN]
    | succ k => simp [fsN, List.replicate_succ, ih]

theorem fsN_zeros (ns : List Name) : fsN ns (ns.map fun _ => 0) = 0 := by
  rw [List.map_const']; exact fsN_replicate ns _

/-- the constant one over `names[:1]` that `power` starts from -/
theorem den_one_WF (ns : List Name) (hn : ns.Nodup) :
    den ({ names := ns.take 1, terms := [((ns.take 1).map fun _ => 0, (1 : S))] } : Poly S) = 1 ∧
    WF ({ names := ns.take 1, terms := [((ns.take 1).map fun _ => 0, (1 : S))] } : Poly S) := by
  refine ⟨?_, ⟨hn.sublist (List.take_sublist 1 ns), by simp [Poly.expos], ?_⟩⟩
  · simp only [den, denT, List.map_cons, List.map_nil, List.sum_cons, List.sum_nil, add_zero, fsN_zeros]
    rfl
  · intro e he
    simp only [Poly.expos, List.map_cons, List.map_nil, List.mem_singleton] at he
    simp [he]

/-- C01 (powers): `power` with a scalar exponent — `k` multiplications starting from one — is fully written,
denotes the `k`-th power and is well-formed, for every `k` -/
theorem pow_den_WF [BEq S] [LawfulBEq S] (rc rn : Bool) (p : Poly S) (hp : WF p) :
    ∀ k : Nat, ∃ r, powS rc rn p k = some r ∧ den r = den p ^ k ∧ WF r
  | 0 => ⟨_, rfl, by rw [pow_zero]; exact (den_one_WF p.names hp.names_nodup).1, (den_one_WF p.names hp.names_nodup).2⟩
  | k + 1 => by
    obtain ⟨r, hr, hd, hw⟩ := pow_den_WF rc rn p hp k
    obtain ⟨r', hr', hd', hw'⟩ := mul_den_WF rc rn r p hw hp
    refine ⟨r', ?_, ?_, hw'⟩
    · simp [powS, hr, hr']
    · rw [hd', hd, pow_succ]
end Np

import Np.Proofs.Den
import Np.Model.Call
import Mathlib.Algebra.MvPolynomial.Eval
open MvPolynomial
namespace Np
variable {R : Type} [CommSemiring R]

theorem prod_fsN (arg : Name → R) (ns : List Name) (e : Expo) :
    (fsN ns e).prod (fun n k => arg n ^ k) = termValue arg ns e := by
  induction ns generalizing e with
  | nil => simp [fsN, termValue]
  | cons n ns ih =>
    cases e with
    | nil => simp [fsN, termValue]
    | cons x xs =>
      simp only [fsN, termValue]
      rw [Finsupp.prod_add_index' (by simp) (by intro a b1 b2; exact pow_add _ _ _), ih xs]
      simp [Finsupp.prod_single_index]

/-- C02 core: the evaluation loop computes `MvPolynomial.eval` of the denotation -/
theorem evalTerms_eq_eval (arg : Name → R) (ns : List Name) (ts : List (Expo × R)) :
    evalTerms arg ns ts = eval arg (denT ns ts) := by
  induction ts with
  | nil => simp [evalTerms]
  | cons t ts ih =>
    simp only [evalTerms, List.foldr_cons] at ih ⊢
    rw [ih, denT_cons, map_add, eval_monomial, prod_fsN]
end Np

import Np.Model.TextFile
import Np.Proofs.Text
import Mathlib.Data.List.Basic
/-! C13 — the whole text file: `load (save h cols) = some (h, cols)` (header line, data rows, numpy's squeeze,
`reshape(-1, nkeys)`, split into columns), for 0-d arrays, size-1 arrays, a single term and the general case alike. -/
namespace Np.TextFile
open Np.Text

variable {α : Type}

/-! ### reading a list of lists along the other axis -/

theorem getElem?_filterMap_get (i : Nat) : ∀ (xss : List (List α)), (∀ xs ∈ xss, i < xs.length) → ∀ j : Nat,
    (xss.filterMap (fun xs : List α => xs[i]?))[j]? = xss[j]?.bind (fun xs : List α => xs[i]?)
  | [], _, j => by simp
  | xs :: rest, h, j => by
    have hi : i < xs.length := h xs (by simp)
    have e : xs[i]? = some xs[i] := List.getElem?_eq_getElem hi
    have ih := getElem?_filterMap_get i rest (fun ys hy => h ys (by simp [hy]))
    rw [List.filterMap_cons, e]
    cases j with
    | zero => simp [e]
    | succ j => simpa using ih j

theorem length_filterMap_get (i : Nat) : ∀ (xss : List (List α)), (∀ xs ∈ xss, i < xs.length) →
    (xss.filterMap (·[i]?)).length = xss.length
  | [], _ => by simp
  | xs :: rest, h => by
    have hi : i < xs.length := h xs (by simp)
    have e : xs[i]? = some xs[i] := List.getElem?_eq_getElem hi
    rw [List.filterMap_cons, e]
    simp [length_filterMap_get i rest (fun ys hy => h ys (by simp [hy]))]

theorem length_transposeN (n : Nat) (xss : List (List α)) : (transposeN n xss).length = n := by
  simp [transposeN]

/-- every member of the transposed list has as many entries as there were lists -/
theorem length_of_mem_transposeN (n : Nat) (xss : List (List α)) (hu : ∀ xs ∈ xss, xs.length = n) :
    ∀ r ∈ transposeN n xss, r.length = xss.length := by
  intro r hr
  simp only [transposeN, List.mem_map, List.mem_range] at hr
  obtain ⟨i, hi, rfl⟩ := hr
  exact length_filterMap_get i xss (fun xs hx => by rw [hu xs hx]; exact hi)

theorem getElem?_transposeN (n : Nat) (xss : List (List α)) (i : Nat) :
    (transposeN n xss)[i]? = if i < n then some (xss.filterMap (·[i]?)) else none := by
  simp only [transposeN, List.getElem?_map]
  by_cases h : i < n
  · simp [h]
  · simp [h]

/-- transposing twice gives the lists back (all of the same length `n`) -/
theorem transposeN_transposeN (n : Nat) (xss : List (List α)) (hu : ∀ xs ∈ xss, xs.length = n) :
    transposeN xss.length (transposeN n xss) = xss := by
  apply List.ext_getElem?
  intro j
  rw [getElem?_transposeN]
  split
  · rename_i hj
    rw [List.getElem?_eq_getElem hj]
    congr 1
    apply List.ext_getElem?
    intro i
    rw [getElem?_filterMap_get j _ (fun r hr => by rw [length_of_mem_transposeN n xss hu r hr]; exact hj),
      getElem?_transposeN]
    have hl : xss[j].length = n := hu _ (List.getElem_mem hj)
    split
    · rename_i hi
      rw [Option.bind_some, getElem?_filterMap_get i xss (fun xs hx => by rw [hu xs hx]; exact hi),
        List.getElem?_eq_getElem hj, Option.bind_some]
    · rename_i hi
      rw [Option.bind_none, List.getElem?_eq_none (by omega)]
  · rename_i hj
    rw [List.getElem?_eq_none (by omega)]

/-! ### flatten and chunk -/

theorem length_flatten_uniform (k : Nat) : ∀ (rows : List (List α)), (∀ r ∈ rows, r.length = k) →
    rows.flatten.length = rows.length * k
  | [], _ => by simp
  | r :: rs, h => by
    rw [List.flatten_cons, List.length_append, h r (by simp),
      length_flatten_uniform k rs (fun x hx => h x (by simp [hx])), List.length_cons]
    rw [Nat.succ_mul]; omega

theorem chunkAux_flatten (k : Nat) : ∀ (rows : List (List α)), (∀ r ∈ rows, r.length = k) →
    chunkAux k rows.length rows.flatten = rows
  | [], _ => rfl
  | r :: rs, h => by
    have hr : r.length = k := h r (by simp)
    rw [List.length_cons, chunkAux, List.flatten_cons, List.take_left' hr, List.drop_left' hr,
      chunkAux_flatten k rs (fun x hx => h x (by simp [hx]))]

/-- squeeze + `reshape(-1, k)` of the flattened table gives the table back -/
theorem reshapeRows_flatten (k : Nat) (hk : 0 < k) (sh : List Nat) (rows : List (List α))
    (h : ∀ r ∈ rows, r.length = k) : reshapeRows k (squeeze ⟨sh, rows.flatten⟩) = some rows := by
  unfold reshapeRows squeeze
  simp only [length_flatten_uniform k rows h, Nat.mul_mod_left, Nat.mul_div_cancel _ hk]
  rw [if_neg (by omega), chunkAux_flatten k rows h]

/-! ### one line -/

theorem cutComment_of_not_mem : ∀ s : Str, hash ∉ s → cutComment s = s
  | [], _ => rfl
  | [_], _ => rfl
  | c :: d :: rest, h => by
    simp only [List.mem_cons, not_or] at h
    have hc : (c == hash) = false := by simpa using (fun e : c = hash => h.1 e.symm)
    have ih := cutComment_of_not_mem (d :: rest) (by simp only [List.mem_cons, not_or]; exact h.2)
    simp [cutComment, hc, ih]

theorem cutComment_header (s : Str) : cutComment (commentPrefix ++ s) = [] := by
  cases s <;> simp [commentPrefix, cutComment]

theorem stripPrefix_append : ∀ p s : Str, stripPrefix p (p ++ s) = some s
  | [], s => by cases s <;> rfl
  | c :: p, s => by simp [stripPrefix, stripPrefix_append p s]

theorem joinSep_ne_nil (sep : Nat) : ∀ xs : List Str, xs ≠ [] → (∀ x ∈ xs, x ≠ []) → joinSep sep xs ≠ []
  | [], h, _ => absurd rfl h
  | [x], _, hx => by simpa [joinSep] using hx x (by simp)
  | x :: y :: rest, _, _ => by simp [joinSep]

theorem mapM_dec_enc (enc : α → Str) (dec : Str → Option α) (hdec : ∀ x, dec (enc x) = some x) :
    ∀ row : List α, (row.map enc).mapM dec = some row
  | [] => rfl
  | x :: xs => by simp [List.mapM_cons, hdec, mapM_dec_enc enc dec hdec xs]

/-- the hypotheses on the number codec: decoding inverts encoding; an encoded number is not empty and contains
neither the delimiter nor `#` -/
structure Codec (enc : α → Str) (dec : Str → Option α) (delim : Nat) : Prop where
  dec_enc : ∀ x, dec (enc x) = some x
  ne_nil : ∀ x, enc x ≠ []
  no_delim : ∀ x, delim ∉ enc x
  no_hash : ∀ x, hash ∉ enc x
  delim_ne : hash ≠ delim

section
variable {enc : α → Str} {dec : Str → Option α} {delim : Nat} (C : Codec enc dec delim)
include C

/-- a written line splits and decodes to the row it was written from -/
theorem line_decodes (row : List α) (hr : row ≠ []) :
    (splitSep delim (joinSep delim (row.map enc))).mapM dec = some row := by
  rw [splitSep_joinSep delim _ (by simpa using hr)
    (fun x hx => by obtain ⟨a, _, rfl⟩ := List.mem_map.1 hx; exact C.no_delim a)]
  exact mapM_dec_enc enc dec C.dec_enc row

theorem line_no_hash (row : List α) : hash ∉ joinSep delim (row.map enc) :=
  joinSep_not_mem delim hash C.delim_ne _
    (fun x hx => by obtain ⟨a, _, rfl⟩ := List.mem_map.1 hx; exact C.no_hash a)

theorem line_ne_nil (row : List α) (hr : row ≠ []) : joinSep delim (row.map enc) ≠ [] :=
  joinSep_ne_nil delim _ (by simpa using hr)
    (fun x hx => by obtain ⟨a, _, rfl⟩ := List.mem_map.1 hx; exact C.ne_nil a)

/-- the data lines survive comment removal and the skipping of empty lines -/
theorem lines_kept : ∀ rows : List (List α), (∀ r ∈ rows, r ≠ []) →
    ((rows.map fun row => joinSep delim (row.map enc)).map cutComment).filter (fun l => !l.isEmpty)
      = rows.map fun row => joinSep delim (row.map enc)
  | [], _ => rfl
  | r :: rs, h => by
    have h1 := cutComment_of_not_mem _ (line_no_hash C r)
    have h2 := line_ne_nil C r (h r (by simp))
    have ih := lines_kept rs (fun x hx => h x (by simp [hx]))
    simp only [List.map_cons, h1]
    rw [List.filter_cons_of_pos (by
      cases hl : joinSep delim (r.map enc) with
      | nil => exact absurd hl h2
      | cons _ _ => rfl)]
    simp only [List.map_map] at ih ⊢
    rw [ih]

theorem lines_decode : ∀ rows : List (List α), (∀ r ∈ rows, r ≠ []) →
    (rows.map fun row => joinSep delim (row.map enc)).mapM (fun l => (splitSep delim l).mapM dec) = some rows
  | [], _ => rfl
  | r :: rs, h => by
    simp [List.mapM_cons, line_decodes C r (h r (by simp)), lines_decode rs (fun x hx => h x (by simp [hx]))]
end

/-! ### the data part -/

theorem sizeOf_eq (n : Nat) : ∀ (cols : List (List α)), cols ≠ [] → (∀ c ∈ cols, c.length = n) → sizeOf cols = n
  | [], h, _ => absurd rfl h
  | c :: _, _, hu => by simpa [sizeOf] using hu c (by simp)

/-- the table written has `size` rows of `nterms` entries each -/
theorem table_facts (n : Nat) (cols : List (List α)) (h0 : cols ≠ []) (hu : ∀ c ∈ cols, c.length = n) :
    table cols = transposeN n cols ∧ (table cols).length = n ∧ ∀ r ∈ table cols, r.length = cols.length := by
  have e : table cols = transposeN n cols := by rw [table, sizeOf_eq n cols h0 hu]
  rw [e]
  exact ⟨rfl, length_transposeN n cols, length_of_mem_transposeN n cols hu⟩

/-- `savetxt` writes one line per array element (one line for a 0-d array, where `size [] = 1`) -/
theorem saveRows_length (enc : α → Str) (delim n : Nat) (cols : List (List α)) (h0 : cols ≠ [])
    (hu : ∀ c ∈ cols, c.length = n) : (saveRows enc delim cols).length = n := by
  rw [saveRows, List.length_map]
  exact (table_facts n cols h0 hu).2.1

section
variable {enc : α → Str} {dec : Str → Option α} {delim : Nat} (C : Codec enc dec delim)
include C

/-- every written line has `nterms` delimiter-separated fields -/
theorem saveRows_fields (n : Nat) (cols : List (List α)) (h0 : cols ≠ []) (hu : ∀ c ∈ cols, c.length = n) :
    ∀ l ∈ saveRows enc delim cols, (splitSep delim l).length = cols.length := by
  intro l hl
  simp only [saveRows, List.mem_map] at hl
  obtain ⟨r, hr, rfl⟩ := hl
  have hlen := (table_facts n cols h0 hu).2.2 r hr
  have hne : r ≠ [] := by
    intro e; rw [e] at hlen; exact h0 (List.length_eq_zero_iff.1 hlen.symm)
  rw [splitSep_joinSep delim _ (by simpa using hne)
    (fun x hx => by obtain ⟨a, _, rfl⟩ := List.mem_map.1 hx; exact C.no_delim a), List.length_map, hlen]

/-- `numpy.loadtxt` on the whole file (comment line first) returns the table that was written, flattened -/
theorem loadtxt2_save (n : Nat) (cols : List (List α)) (h0 : cols ≠ []) (hu : ∀ c ∈ cols, c.length = n)
    (hdr : Str) : ∃ sh, loadtxt2 dec delim ((commentPrefix ++ hdr) :: saveRows enc delim cols)
      = some ⟨sh, (table cols).flatten⟩ := by
  obtain ⟨-, -, hrow⟩ := table_facts n cols h0 hu
  have hne : ∀ r ∈ table cols, r ≠ [] := by
    intro r hr e
    have := hrow r hr
    rw [e] at this; exact h0 (List.length_eq_zero_iff.1 this.symm)
  unfold loadtxt2
  rw [List.map_cons, cutComment_header, List.filter_cons_of_neg (by simp), saveRows, lines_kept C _ hne,
    lines_decode C _ hne]
  have hall : (table cols).all (fun r => r.length == sizeOf (table cols)) = true := by
    rw [List.all_eq_true]
    intro r hr
    have hs : sizeOf (table cols) = cols.length :=
      sizeOf_eq cols.length (table cols) (List.ne_nil_of_mem hr) hrow
    simp [hs, hrow r hr]
  simp only [hall, if_true]
  exact ⟨_, rfl⟩

/-- the data part of the round trip: header/comment line skipped, squeeze, `reshape(-1, nterms)`, columns -/
theorem loadRows_save (n : Nat) (cols : List (List α)) (h0 : cols ≠ []) (hu : ∀ c ∈ cols, c.length = n)
    (hdr : Str) : loadRows dec delim cols.length ((commentPrefix ++ hdr) :: saveRows enc delim cols) = some cols := by
  obtain ⟨sh, e⟩ := loadtxt2_save C n cols h0 hu hdr
  obtain ⟨ht, -, hrow⟩ := table_facts n cols h0 hu
  have hk : 0 < cols.length := List.length_pos_iff.2 h0
  unfold loadRows
  rw [e]
  simp only
  rw [reshapeRows_flatten cols.length hk sh (table cols) hrow]
  simp only
  rw [ht, transposeN_transposeN n cols hu]

/-- **the file round trip**: what `savetxt` writes, `loadtxt` reads back as the same header (names, keys, shape)
and the same coefficient columns — 0-d arrays (`shape = []`, one line), size-1 arrays, a single term (one number per
line, which numpy squeezes to 1-d), empty arrays (no data line) and the general case alike.  `hh` is the header
round trip (`Np.Props.C13.header_roundtrip`, see `load_save_clean`). -/
theorem load_save (h : Header) (cols : List (List α)) (hh : parse (format h) = some h)
    (hu : ∀ c ∈ cols, c.length = Shape.size h.shape) (hk : cols.length = h.keys.length) (h0 : 0 < cols.length) :
    load dec delim (save enc delim h cols) = some (h, cols) := by
  have hne : cols ≠ [] := List.length_pos_iff.1 h0
  have hl := loadRows_save C _ cols hne hu (format h)
  unfold load save
  simp only [stripPrefix_append, hh]
  rw [← hk, hl]
  simp only
  rw [if_pos (by rw [List.all_eq_true]; intro c hc; simp [hu c hc])]
end

/-! ### the header hypothesis discharged; the decimal codec; concrete files -/

/-- names / keys a header can carry: at least one, none containing the comma or the blank -/
def Clean (xs : List Str) : Prop := xs ≠ [] ∧ ∀ x ∈ xs, comma ∉ x ∧ blank ∉ x

theorem mapM_ofDigits_digits : ∀ ns : List Nat, (ns.map digits).mapM ofDigits = some ns
  | [] => rfl
  | n :: ns => by simp [List.mapM_cons, ofDigits_digits, mapM_ofDigits_digits ns]

/-- the header line reads back (same statement and proof as `Np.Props.C13.header_roundtrip`, repeated here so that
this file does not depend on the property files) -/
theorem parse_format (h : Header) (hn : Clean h.names) (hk : Clean h.keys) : parse (format h) = some h := by
  obtain ⟨hn0, hn1⟩ := hn
  obtain ⟨hk0, hk1⟩ := hk
  have nb : ∀ (xs : List Str), (∀ x ∈ xs, blank ∉ x) → blank ∉ joinSep comma xs :=
    fun xs hx => joinSep_not_mem comma blank (by decide) xs hx
  have dig : ∀ c, c = comma ∨ c = blank → ∀ x ∈ h.shape.map digits, c ∉ x := fun c hc x hx => by
    obtain ⟨n, _, rfl⟩ := List.mem_map.1 hx; exact digits_clean n c hc
  have hsplit : splitSep blank (format h) =
      [joinSep comma h.names, joinSep comma h.keys, joinSep comma (h.shape.map digits)] := by
    unfold format
    apply splitSep_joinSep blank _ (by simp)
    intro x hx
    simp only [List.mem_cons, List.not_mem_nil, or_false] at hx
    rcases hx with rfl | rfl | rfl
    · exact nb _ (fun x hx => (hn1 x hx).2)
    · exact nb _ (fun x hx => (hk1 x hx).2)
    · exact nb _ (dig blank (Or.inr rfl))
  have hshape : ((splitSep comma (joinSep comma (h.shape.map digits))).filter (fun d => !d.isEmpty)).mapM ofDigits
      = some h.shape := by
    by_cases he : h.shape = []
    · simp [he, joinSep, splitSep]
    · rw [splitSep_joinSep comma _ (by simpa using he) (dig comma (Or.inl rfl)), List.filter_eq_self.2,
        mapM_ofDigits_digits]
      intro d hd
      obtain ⟨n, _, rfl⟩ := List.mem_map.1 hd
      cases hdn : digits n with
      | nil => exact absurd hdn (digits_ne_nil n)
      | cons _ _ => rfl
  unfold parse
  rw [hsplit]
  simp only [splitSep_joinSep comma _ hn0 (fun x hx => (hn1 x hx).1),
    splitSep_joinSep comma _ hk0 (fun x hx => (hk1 x hx).1), hshape]

/-- the file round trip with the header hypothesis spelled out -/
theorem load_save_clean {enc : α → Str} {dec : Str → Option α} {delim : Nat} (C : Codec enc dec delim)
    (h : Header) (cols : List (List α)) (hn : Clean h.names) (hkeys : Clean h.keys)
    (hu : ∀ c ∈ cols, c.length = Shape.size h.shape) (hk : cols.length = h.keys.length) (h0 : 0 < cols.length) :
    load dec delim (save enc delim h cols) = some (h, cols) :=
  load_save C h cols (parse_format h hn hkeys) hu hk h0

theorem digits_ge (n c : Nat) (hmem : c ∈ digits n) : 48 ≤ c := by
  unfold digits at hmem
  obtain ⟨ch, hch, rfl⟩ := List.mem_map.1 hmem
  have hd := Nat.isDigit_of_mem_toDigits (b := 10) (by decide) (by decide) hch
  simp only [Char.isDigit, Bool.and_eq_true, decide_eq_true_eq] at hd
  exact hd.1

/-- the decimal codec on `Nat` satisfies the codec hypotheses for every delimiter below `'0'` other than `#` -/
theorem digitsCodec (delim : Nat) (h1 : delim < 48) (h2 : hash ≠ delim) : Codec digits ofDigits delim where
  dec_enc := ofDigits_digits
  ne_nil := digits_ne_nil
  no_delim := fun n hm => by have := digits_ge n delim hm; omega
  no_hash := fun n hm => by have := digits_ge n hash hm; simp only [hash] at this; omega
  delim_ne := h2

/-- a single term (key `;`), shape (3,): one number per line; numpy squeezes the 3×1 table to 1-d -/
example : save digits blank ⟨[[113, 48]], [[59]], [3]⟩ [[1, 20, 3]]
    = [[35, 32, 113, 48, 32, 59, 32, 51], [49], [50, 48], [51]] := by decide +kernel
example : load ofDigits blank (save digits blank ⟨[[113, 48]], [[59]], [3]⟩ [[1, 20, 3]])
    = some (⟨[[113, 48]], [[59]], [3]⟩, [[1, 20, 3]]) := by decide +kernel
/-- a 0-d array with two terms: one line of two numbers (a 1×2 table, squeezed to 1-d), empty shape field -/
example : save digits blank ⟨[[113, 48]], [[59], [60]], []⟩ [[7], [12]]
    = [[35, 32, 113, 48, 32, 59, 44, 60, 32], [55, 32, 49, 50]] := by decide +kernel
example : load ofDigits blank (save digits blank ⟨[[113, 48]], [[59], [60]], []⟩ [[7], [12]])
    = some (⟨[[113, 48]], [[59], [60]], []⟩, [[7], [12]]) := by decide +kernel
/-- 0-d and a single term: the file holds one number, numpy returns a 0-d array -/
example : load ofDigits blank (save digits blank ⟨[[113, 48]], [[59]], []⟩ [[5]])
    = some (⟨[[113, 48]], [[59]], []⟩, [[5]]) := by decide +kernel
/-- general case 2×2 with three terms, comma as delimiter -/
example : load ofDigits comma (save digits comma ⟨[[113, 48], [113, 49]], [[59, 59], [60, 59], [59, 60]], [2, 2]⟩
      [[1, 2, 3, 4], [5, 6, 7, 8], [9, 10, 11, 12]])
    = some (⟨[[113, 48], [113, 49]], [[59, 59], [60, 59], [59, 60]], [2, 2]⟩,
      [[1, 2, 3, 4], [5, 6, 7, 8], [9, 10, 11, 12]]) := by decide +kernel
/-- the instances above are covered by the theorem -/
example : load ofDigits blank (save digits blank ⟨[[113, 48]], [[59]], [3]⟩ [[1, 20, 3]])
    = some (⟨[[113, 48]], [[59]], [3]⟩, [[1, 20, 3]]) :=
  load_save_clean (digitsCodec blank (by decide) (by decide)) _ _ (by simp [Clean, comma, blank])
    (by simp [Clean, comma, blank]) (by simp [Shape.size]) rfl (by decide)
/-- a column of the wrong length is refused by the final reshape: 2 numbers for shape (3,) -/
example : load ofDigits blank (save digits blank ⟨[[113, 48]], [[59]], [3]⟩ [[1, 2]]) = none := by decide +kernel
/-- the hypothesis `enc x ≠ []` is needed: with a codec that writes 0 as the empty string, a single-term file has
an empty line, which `numpy.loadtxt` skips — the array comes back one element short and the reshape fails -/
example : load (fun s => if s.isEmpty then some 0 else ofDigits s) blank
    (save (fun n => if n = 0 then [] else digits n) blank ⟨[[113, 48]], [[59]], [3]⟩ [[1, 0, 3]]) = none := by
  decide +kernel

end Np.TextFile

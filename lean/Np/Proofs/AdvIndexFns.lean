import Np.Proofs.SelectFns
import Np.Model.AdvIndexFns
/-! C09: the index arithmetic of advanced (integer-array) indexing, of `repeat` with an array of repeats and of
`take` (`Np/Model/AdvIndexFns.lean`) in terms of multi-indices.  For every function: (a) one entry per output
position, (b) every entry is a position of the operand, (c) the output multi-index reads the stated operand
multi-index, (d) the relations `repeatsF` / `repeatF` and `takeF` / `mixedIndexF`.  No positivity assumption on
the dimensions. -/
namespace Np.AdvIndexFns
open Np.Shape Np.ShapeFns Np.SelectFns

/-! ### 0. multi-indices of concatenated shapes -/

theorem valid_append : ∀ {s t x y : List Nat}, Valid s x → Valid t y → Valid (s ++ t) (x ++ y)
  | [], _, _, _, hx, hy => by rw [valid_nil.1 hx]; simpa using hy
  | _ :: _, _, [], _, hx, _ => by simp [Valid] at hx
  | _ :: _, _, _ :: _, _, hx, hy => by
    obtain ⟨h1, h2⟩ := valid_cons.1 hx
    exact valid_cons.2 ⟨h1, valid_append h2 hy⟩

theorem valid_split : ∀ {s t j : List Nat}, Valid (s ++ t) j →
    Valid s (j.take s.length) ∧ Valid t (j.drop s.length)
  | [], _, _, h => by simpa [valid_nil] using h
  | _ :: _, _, [], h => by have := h.1; simp at this
  | _ :: _, _, _ :: _, h => by
    obtain ⟨h1, h2⟩ := valid_cons.1 h
    obtain ⟨h3, h4⟩ := valid_split h2
    exact ⟨by simpa using valid_cons.2 ⟨h1, h3⟩, by simpa using h4⟩

theorem valid_split3 {s₁ s₂ s₃ j : List Nat} (h : Valid (s₁ ++ s₂ ++ s₃) j) :
    Valid s₁ (j.take s₁.length) ∧ Valid s₂ ((j.drop s₁.length).take s₂.length) ∧
    Valid s₃ (j.drop (s₁.length + s₂.length)) := by
  rw [List.append_assoc] at h
  obtain ⟨h1, h23⟩ := valid_split h
  obtain ⟨h2, h3⟩ := valid_split h23
  exact ⟨h1, h2, by simpa using h3⟩

theorem valid_parts {s₁ s₂ s₃ j : List Nat} (hj : Valid (s₁ ++ s₂ ++ s₃) j) :
    ∃ pre b post, j = pre ++ b ++ post ∧ Valid s₁ pre ∧ Valid s₂ b ∧ Valid s₃ post := by
  obtain ⟨h1, h2, h3⟩ := valid_split3 hj
  refine ⟨_, _, _, ?_, h1, h2, h3⟩
  rw [List.append_assoc, ← List.drop_drop, List.take_append_drop, List.take_append_drop]

theorem gatherBy_congr {inn out : List Nat} {f g : List Nat → List Nat} (h : ∀ j, Valid out j → f j = g j) :
    gatherBy inn out f = gatherBy inn out g := by
  apply List.map_congr_left
  intro i hi
  rw [List.mem_range] at hi
  rw [h _ (unravel_valid (pos_of_size_pos (Nat.zero_lt_of_lt hi)) i)]

theorem size_pos_of_valid {s j : List Nat} (h : Valid s j) : 0 < size s :=
  Nat.zero_lt_of_lt (ravel_lt_of_valid h)

theorem chk_of_valid {s j : List Nat} (h : Valid s j) : (size s != 0) = true := by
  have := size_pos_of_valid h
  simp
  omega

/-- a valid multi-index is its own broadcast multi-index -/
theorem bmulti_self {s b : List Nat} (h : Valid s b) : bmulti s b = b := by
  have key : ∀ {s b : List Nat}, Valid s b → List.zipWith (fun d x => if d == 1 then 0 else x) s b = b := by
    intro s
    induction s with
    | nil => intro b h; rw [valid_nil.1 h]; rfl
    | cons d s ih =>
      intro b h
      obtain ⟨x, xs, rfl, hx, hr⟩ := valid_cons' h
      rw [List.zipWith_cons_cons, ih hr]
      by_cases hd : d = 1
      · subst hd; simp; omega
      · simp [hd]
  unfold bmulti
  simp only [h.1, Nat.sub_self, List.drop_zero]
  exact key h

theorem split_at {shape : List Nat} {a : Nat} (ha : a < shape.length) :
    shape = shape.take a ++ shape.getD a 0 :: shape.drop (a + 1) := by
  conv_lhs => rw [← List.take_append_drop a shape, List.drop_eq_getElem_cons ha]
  simp [List.getD_eq_getElem?_getD, ha]

/-! ### 1. the entry an index array holds -/

theorem normAt_lt {n : Nat} {i : Int} (h : inRange n i = true) : normAt n i < n := by
  simp only [inRange, Bool.and_eq_true, decide_eq_true_eq] at h
  unfold normAt
  split <;> omega

/-- the entry at a valid multi-index `b` of the index array exists, is in range, and `normAt` is numpy's
normalisation (negative entries count from the end) -/
theorem entry_spec {n : Nat} {ix : Ix} {b : List Nat} (hok : ixOK true n ix = true) (hv : Valid ix.1 b) :
    ∃ v : Int, ix.2[ravel ix.1 b]? = some v ∧ -(n : Int) ≤ v ∧ v < n ∧
      normAt n (ix.2.getD (ravel ix.1 b) 0) < n ∧
      ((normAt n (ix.2.getD (ravel ix.1 b) 0) : Nat) : Int) = if v < 0 then v + n else v := by
  simp only [ixOK, Bool.and_eq_true, beq_iff_eq, Bool.not_true, Bool.false_or, List.all_eq_true] at hok
  obtain ⟨hl, hall⟩ := hok
  have h1 := ravel_lt_of_valid hv
  rw [← hl] at h1
  have hr := hall _ (List.getElem_mem h1)
  refine ⟨ix.2[ravel ix.1 b], List.getElem?_eq_getElem h1, ?_⟩
  rw [List.getD_eq_getElem?_getD, List.getElem?_eq_getElem h1, Option.getD_some]
  refine ⟨?_, ?_, normAt_lt hr, ?_⟩
  · simp only [inRange, Bool.and_eq_true, decide_eq_true_eq] at hr; exact hr.1
  · simp only [inRange, Bool.and_eq_true, decide_eq_true_eq] at hr; exact hr.2
  · simp only [inRange, Bool.and_eq_true, decide_eq_true_eq] at hr
    unfold normAt
    split <;> omega

/-- the entry a broadcast multi-index reads: `ix` is read at `bmulti ix.1 b`, a valid multi-index of `ix` -/
theorem ixAt_spec {n : Nat} {ix : Ix} {B b : List Nat} (hok : ixOK true n ix = true) (hb : BcastTo ix.1 B)
    (hv : Valid B b) :
    Valid ix.1 (bmulti ix.1 b) ∧ ixAt n ix b < n ∧
    ∃ v : Int, ix.2[ravel ix.1 (bmulti ix.1 b)]? = some v ∧ -(n : Int) ≤ v ∧ v < n ∧
      ((ixAt n ix b : Nat) : Int) = if v < 0 then v + n else v := by
  have hv' := bmulti_valid hb hv
  obtain ⟨v, h1, h2, h3, h4, h5⟩ := entry_spec hok hv'
  exact ⟨hv', h4, v, h1, h2, h3, h5⟩

theorem ixAt_lt {n : Nat} {ix : Ix} {B b : List Nat} (hok : ixOK true n ix = true) (hb : BcastTo ix.1 B)
    (hv : Valid B b) : ixAt n ix b < n := (ixAt_spec hok hb hv).2.1

/-! ### 2. `advIndexF` -/

theorem advOK_length {chk : Bool} : ∀ {shape : List Nat} {ixs : List Ix}, advOK chk shape ixs = true →
    ixs.length ≤ shape.length
  | _, [], _ => by simp
  | [], _ :: _, h => by simp [advOK] at h
  | _ :: _, _ :: _, h => by
    simp only [advOK, Bool.and_eq_true] at h
    simpa using advOK_length h.2

theorem adv_valid {B b : List Nat} (hv : Valid B b) : ∀ {shape : List Nat} {ixs : List Ix},
    advOK true shape ixs = true → (∀ ix ∈ ixs, BcastTo ix.1 B) →
    Valid (shape.take ixs.length) (List.zipWith (fun n ix => ixAt n ix b) shape ixs)
  | _, [], _, _ => by simp [valid_nil]
  | [], _ :: _, h, _ => by simp [advOK] at h
  | n :: shape, ix :: ixs, h, hb => by
    simp only [advOK, Bool.and_eq_true] at h
    simp only [List.length_cons, List.take_succ_cons, List.zipWith_cons_cons]
    exact valid_cons.2 ⟨ixAt_lt h.1 (hb ix (by simp)) hv,
      adv_valid hv h.2 fun ix' h' => hb ix' (by simp [h'])⟩

theorem advIndexF_eq {shape : List Nat} {ixs : List Ix} {out idx : List Nat}
    (h : advIndexF shape ixs = some (out, idx)) :
    ∃ B, bshapeAll (ixs.map (·.1)) = some B ∧ advOK (size B != 0) shape ixs = true ∧
      out = B ++ shape.drop ixs.length ∧ idx = gatherBy shape out (advIn shape ixs B.length) := by
  unfold advIndexF at h
  split at h
  · simp at h
  · rename_i B hB
    split at h
    · simp only [Option.some.injEq, Prod.mk.injEq] at h
      obtain ⟨rfl, rfl⟩ := h
      exact ⟨B, hB, ‹_›, rfl, rfl⟩
    · simp at h

/-- numpy raises exactly when the index arrays do not broadcast together, there are more of them than axes, or
(unless they broadcast to an empty shape) some entry is out of range -/
theorem advIndexF_isSome (shape : List Nat) (ixs : List Ix) :
    (advIndexF shape ixs).isSome = true ↔
      ∃ B, bshapeAll (ixs.map (·.1)) = some B ∧ advOK (size B != 0) shape ixs = true := by
  constructor
  · intro h
    obtain ⟨⟨out, idx⟩, hr⟩ := Option.isSome_iff_exists.1 h
    obtain ⟨B, h1, h2, -, -⟩ := advIndexF_eq hr
    exact ⟨B, h1, h2⟩
  · rintro ⟨B, h1, h2⟩
    simp [advIndexF, h1, h2]

theorem advIn_valid {shape : List Nat} {ixs : List Ix} {B j : List Nat}
    (hok : advOK (size B != 0) shape ixs = true) (hb : ∀ ix ∈ ixs, BcastTo ix.1 B)
    (hj : Valid (B ++ shape.drop ixs.length) j) : Valid shape (advIn shape ixs B.length j) := by
  obtain ⟨h1, h2⟩ := valid_split hj
  rw [chk_of_valid h1] at hok
  have := valid_append (adv_valid h1 hok hb) h2
  rwa [List.take_append_drop] at this

theorem advIndexF_bcast {ixs : List Ix} {B : List Nat}
    (hB : bshapeAll (ixs.map (·.1)) = some B) : ∀ ix ∈ ixs, BcastTo ix.1 B :=
  fun ix hix => bshapeAll_bcastTo hB ix.1 (List.mem_map_of_mem hix)

/-- (a) -/
theorem advIndexF_length {shape : List Nat} {ixs : List Ix} {out idx : List Nat}
    (h : advIndexF shape ixs = some (out, idx)) : idx.length = size out := by
  obtain ⟨B, -, -, -, rfl⟩ := advIndexF_eq h
  exact gatherBy_length _ _ _

/-- (b) -/
theorem advIndexF_lt {shape : List Nat} {ixs : List Ix} {out idx : List Nat}
    (h : advIndexF shape ixs = some (out, idx)) : ∀ k ∈ idx, k < size shape := by
  obtain ⟨B, hB, hok, rfl, rfl⟩ := advIndexF_eq h
  exact gatherBy_lt fun j hj => advIn_valid hok (advIndexF_bcast hB) hj

/-- (c) the output shape is the broadcast shape `B` of the index arrays followed by the axes that are not
indexed; output multi-index `b ++ rest` reads the operand at `[i_0[b], .., i_{k-1}[b]] ++ rest` (every `i_m[b]`
normalised, see `ixAt_spec`) -/
theorem advIndexF_spec {shape : List Nat} {ixs : List Ix} {out idx : List Nat}
    (h : advIndexF shape ixs = some (out, idx)) :
    ∃ B, bshapeAll (ixs.map (·.1)) = some B ∧ (∀ ix ∈ ixs, BcastTo ix.1 B) ∧ ixs.length ≤ shape.length ∧
      out = B ++ shape.drop ixs.length ∧
      ∀ b rest, Valid B b → Valid (shape.drop ixs.length) rest →
        idx[ravel out (b ++ rest)]? =
          some (ravel shape (List.zipWith (fun n ix => ixAt n ix b) shape ixs ++ rest)) ∧
        Valid shape (List.zipWith (fun n ix => ixAt n ix b) shape ixs ++ rest) ∧
        advOK true shape ixs = true := by
  obtain ⟨B, hB, hok, rfl, rfl⟩ := advIndexF_eq h
  have hb := advIndexF_bcast hB
  refine ⟨B, hB, hb, advOK_length hok, rfl, fun b rest hvb hvr => ?_⟩
  have hj := valid_append hvb hvr
  have he : advIn shape ixs B.length (b ++ rest) =
      List.zipWith (fun n ix => ixAt n ix b) shape ixs ++ rest := by
    rw [advIn, List.take_left' hvb.1, List.drop_left' hvb.1]
  have hv := advIn_valid hok hb hj
  rw [he] at hv
  refine ⟨by rw [gatherBy_spec hj, he], hv, ?_⟩
  rwa [chk_of_valid hvb] at hok

/-! ### 3. `repeatsF` -/

theorem repeatsF_eq {shape reps out idx : List Nat} {axis : Nat} (h : repeatsF shape reps axis = some (out, idx)) :
    axis < shape.length ∧ (effReps (shape.getD axis 0) reps).length = shape.getD axis 0 ∧
    out = shape.set axis (effReps (shape.getD axis 0) reps).sum ∧
    idx = gatherBy shape out fun j =>
      j.set axis (locate (effReps (shape.getD axis 0) reps) (j.getD axis 0)).1 := by
  unfold repeatsF at h
  simp only at h
  split at h
  · rename_i hc
    simp only [Bool.and_eq_true, decide_eq_true_eq, beq_iff_eq] at hc
    simp only [Option.some.injEq, Prod.mk.injEq] at h
    obtain ⟨rfl, rfl⟩ := h
    exact ⟨hc.1, hc.2, rfl, rfl⟩
  · simp at h

/-- numpy raises exactly when `axis` is out of range or the number of repeats is neither 1 nor the extent -/
theorem repeatsF_isSome (shape reps : List Nat) (axis : Nat) :
    (repeatsF shape reps axis).isSome =
      (decide (axis < shape.length) && (effReps (shape.getD axis 0) reps).length == shape.getD axis 0) := by
  unfold repeatsF
  simp only
  split
  · rename_i hc; rw [hc]; rfl
  · rename_i hc; rw [Bool.not_eq_true] at hc; rw [hc]; rfl

theorem effReps_eq (n : Nat) (reps : List Nat) :
    effReps n reps = if reps.length = 1 then List.replicate n (reps.getD 0 0) else reps := by
  rcases reps with _ | ⟨k, _ | ⟨k', t⟩⟩ <;> simp [effReps]

theorem reps_valid {shape r j : List Nat} {axis : Nat} (ha : axis < shape.length)
    (hr : r.length = shape.getD axis 0) (hj : Valid (shape.set axis r.sum) j) :
    Valid shape (j.set axis (locate r (j.getD axis 0)).1) ∧ (locate r (j.getD axis 0)).1 < r.length ∧
    (locate r (j.getD axis 0)).2 < r.getD (locate r (j.getD axis 0)).1 0 ∧
    j.getD axis 0 = (r.take (locate r (j.getD axis 0)).1).sum + (locate r (j.getD axis 0)).2 := by
  obtain ⟨hl, hv⟩ := hj
  rw [List.length_set] at hl hv
  have hx := hv axis ha
  rw [getD_set ha, if_pos rfl] at hx
  obtain ⟨h1, h2, h3⟩ := locate_spec r _ hx
  refine ⟨⟨by rw [List.length_set, hl], fun a h => ?_⟩, h1, h2, h3⟩
  rw [getD_set (by omega)]
  by_cases hxa : a = axis
  · subst hxa
    rw [if_pos rfl]
    omega
  · have := hv a h
    rw [getD_set ha, if_neg hxa] at this
    rwa [if_neg hxa]

/-- (a) -/
theorem repeatsF_length {shape reps out idx : List Nat} {axis : Nat}
    (h : repeatsF shape reps axis = some (out, idx)) : idx.length = size out := by
  obtain ⟨-, -, -, rfl⟩ := repeatsF_eq h
  exact gatherBy_length _ _ _

/-- (b) -/
theorem repeatsF_lt {shape reps out idx : List Nat} {axis : Nat}
    (h : repeatsF shape reps axis = some (out, idx)) : ∀ p ∈ idx, p < size shape := by
  obtain ⟨ha, hr, rfl, rfl⟩ := repeatsF_eq h
  exact gatherBy_lt fun j hj => (reps_valid ha hr hj).1

/-- the output extent along `axis` is the sum of the repeats, so the output has `Σ reps` slices -/
theorem repeatsF_size {shape reps out idx : List Nat} {axis : Nat}
    (h : repeatsF shape reps axis = some (out, idx)) :
    out = shape.set axis (effReps (shape.getD axis 0) reps).sum ∧
    size out = (effReps (shape.getD axis 0) reps).sum * size (shape.eraseIdx axis) := by
  obtain ⟨ha, -, rfl, -⟩ := repeatsF_eq h
  exact ⟨rfl, size_set _ _ _ ha⟩

/-- (c) with `r` the repeats (a single one broadcast to the extent): output multi-index `j` reads `j` with its
`axis` component `u` replaced by the position `t` whose block contains `u`:
`r[0] + .. + r[t-1] ≤ u < r[0] + .. + r[t]` -/
theorem repeatsF_spec {shape reps out idx : List Nat} {axis : Nat}
    (h : repeatsF shape reps axis = some (out, idx)) {j : List Nat} (hj : Valid out j) :
    ∃ r t q, r = effReps (shape.getD axis 0) reps ∧ r.length = shape.getD axis 0 ∧
      idx[ravel out j]? = some (ravel shape (j.set axis t)) ∧ Valid shape (j.set axis t) ∧
      t < r.length ∧ q < r.getD t 0 ∧ j.getD axis 0 = (r.take t).sum + q := by
  obtain ⟨ha, hr, rfl, rfl⟩ := repeatsF_eq h
  obtain ⟨h1, h2, h3, h4⟩ := reps_valid ha hr hj
  exact ⟨_, _, _, rfl, hr, gatherBy_spec hj, h1, h2, h3, h4⟩

theorem locate_replicate (k : Nat) : ∀ (n u : Nat), u < n * k → (locate (List.replicate n k) u).1 = u / k
  | 0, u, h => by simp at h
  | n + 1, u, h => by
    rw [List.replicate_succ, locate]
    split
    · rename_i hu
      rw [Nat.div_eq_of_lt hu]
    · rename_i hu
      have hk : 0 < k := by
        rcases Nat.eq_zero_or_pos k with rfl | hk
        · simp at h
        · exact hk
      have : u - k < n * k := by rw [Nat.succ_mul] at h; omega
      simp only [locate_replicate k n (u - k) this]
      have he : u = (u - k) + k := by omega
      conv_rhs => rw [he, Nat.add_div_right _ hk]

theorem effReps_replicate (n k : Nat) : effReps n (List.replicate n k) = List.replicate n k := by
  rcases n with _ | _ | n <;> simp [effReps, List.replicate_succ]

/-- (d) with all repeats equal to `k` it is `numpy.repeat(a, k, axis)` -/
theorem repeatsF_replicate (shape : List Nat) (k axis : Nat) :
    repeatsF shape (List.replicate (shape.getD axis 0) k) axis = repeatF shape k axis := by
  unfold repeatsF repeatF
  simp only [effReps_replicate, List.length_replicate, beq_self_eq_true, Bool.and_true, List.sum_replicate_nat]
  by_cases ha : axis < shape.length
  · simp only [ha, decide_true, if_true, Option.some.injEq, Prod.mk.injEq, true_and]
    apply List.map_congr_left
    intro i hi
    rw [List.mem_range] at hi
    have hv := unravel_valid (pos_of_size_pos (Nat.zero_lt_of_lt hi)) i
    have := hv.2 axis (by rw [List.length_set]; exact ha)
    rw [getD_set ha, if_pos rfl] at this
    simp only [locate_replicate k _ _ this]
  · simp [ha]

/-- a single repeat count is broadcast: `numpy.repeat(a, [k], axis)` is `numpy.repeat(a, k, axis)` -/
theorem repeatsF_singleton (shape : List Nat) (k axis : Nat) :
    repeatsF shape [k] axis = repeatF shape k axis := by
  rw [← repeatsF_replicate]
  unfold repeatsF
  rw [effReps_replicate]
  rfl

/-! ### 4. `takeF` -/

theorem takeF_eq {shape : List Nat} {ix : Ix} {axis : Nat} {out idx : List Nat}
    (h : takeF shape ix axis = some (out, idx)) :
    axis < shape.length ∧ ixOK (size (shape.take axis) != 0) (shape.getD axis 0) ix = true ∧
    out = shape.take axis ++ ix.1 ++ shape.drop (axis + 1) ∧
    idx = gatherBy shape out (takeIn (shape.getD axis 0) ix axis) := by
  unfold takeF at h
  split at h
  · rename_i hc
    simp only [Bool.and_eq_true, decide_eq_true_eq] at hc
    simp only [Option.some.injEq, Prod.mk.injEq] at h
    obtain ⟨rfl, rfl⟩ := h
    exact ⟨hc.1, hc.2, rfl, rfl⟩
  · simp at h

/-- numpy raises exactly when `axis` is out of range or (unless an axis before `axis` is empty) some entry of the
index array is out of range -/
theorem takeF_isSome (shape : List Nat) (ix : Ix) (axis : Nat) :
    (takeF shape ix axis).isSome =
      (decide (axis < shape.length) && ixOK (size (shape.take axis) != 0) (shape.getD axis 0) ix) := by
  unfold takeF
  split
  · rename_i hc; rw [hc]; rfl
  · rename_i hc; rw [Bool.not_eq_true] at hc; rw [hc]; rfl

theorem takeIn_append {n : Nat} {ix : Ix} {axis : Nat} {pre b post : List Nat} (h1 : pre.length = axis)
    (h2 : b.length = ix.1.length) :
    takeIn n ix axis (pre ++ b ++ post) = pre ++ normAt n (ix.2.getD (ravel ix.1 b) 0) :: post := by
  unfold takeIn
  rw [List.append_assoc, List.take_left' h1, List.drop_left' h1, List.take_left' h2,
    ← List.drop_drop, List.drop_left' h1, List.drop_left' h2]

theorem take_valid {shape : List Nat} {ix : Ix} {axis : Nat} {pre b post : List Nat} (ha : axis < shape.length)
    (hok : ixOK (size (shape.take axis) != 0) (shape.getD axis 0) ix = true)
    (h1 : Valid (shape.take axis) pre) (h2 : Valid ix.1 b) (h3 : Valid (shape.drop (axis + 1)) post) :
    Valid shape (pre ++ normAt (shape.getD axis 0) (ix.2.getD (ravel ix.1 b) 0) :: post) := by
  rw [chk_of_valid h1] at hok
  obtain ⟨v, -, -, -, hlt, -⟩ := entry_spec hok h2
  have := valid_append h1 (valid_cons.2 ⟨hlt, h3⟩)
  rwa [← split_at ha] at this

/-- (a) -/
theorem takeF_length {shape : List Nat} {ix : Ix} {axis : Nat} {out idx : List Nat}
    (h : takeF shape ix axis = some (out, idx)) : idx.length = size out := by
  obtain ⟨-, -, -, rfl⟩ := takeF_eq h
  exact gatherBy_length _ _ _

/-- (b) -/
theorem takeF_lt {shape : List Nat} {ix : Ix} {axis : Nat} {out idx : List Nat}
    (h : takeF shape ix axis = some (out, idx)) : ∀ k ∈ idx, k < size shape := by
  obtain ⟨ha, hok, rfl, rfl⟩ := takeF_eq h
  refine gatherBy_lt fun j hj => ?_
  obtain ⟨pre, b, post, rfl, h1, h2, h3⟩ := valid_parts hj
  rw [takeIn_append (by rw [h1.1, List.length_take_of_le (Nat.le_of_lt ha)]) h2.1]
  exact take_valid ha hok h1 h2 h3

/-- (c) the output shape is the operand's with the `axis` extent replaced by the shape of the index array; output
multi-index `pre ++ b ++ post` reads the operand at `pre ++ [indices[b]] ++ post` (normalised, see
`entry_spec`) -/
theorem takeF_spec {shape : List Nat} {ix : Ix} {axis : Nat} {out idx : List Nat}
    (h : takeF shape ix axis = some (out, idx)) :
    axis < shape.length ∧ out = shape.take axis ++ ix.1 ++ shape.drop (axis + 1) ∧
    ∀ pre b post, Valid (shape.take axis) pre → Valid ix.1 b → Valid (shape.drop (axis + 1)) post →
      idx[ravel out (pre ++ b ++ post)]? =
        some (ravel shape (pre ++ normAt (shape.getD axis 0) (ix.2.getD (ravel ix.1 b) 0) :: post)) ∧
      Valid shape (pre ++ normAt (shape.getD axis 0) (ix.2.getD (ravel ix.1 b) 0) :: post) ∧
      ixOK true (shape.getD axis 0) ix = true := by
  obtain ⟨ha, hok, rfl, rfl⟩ := takeF_eq h
  refine ⟨ha, rfl, fun pre b post h1 h2 h3 => ?_⟩
  have hj := valid_append (valid_append h1 h2) h3
  refine ⟨?_, take_valid ha hok h1 h2 h3, by rwa [chk_of_valid h1] at hok⟩
  rw [gatherBy_spec hj, takeIn_append (by rw [h1.1, List.length_take_of_le (Nat.le_of_lt ha)]) h2.1]

/-! ### 5. `mixedIndexF` -/

theorem slicedDims_nil (shape : List Nat) : slicedDims shape [] = shape := by
  cases shape <;> rfl

theorem mixOK_nil (chk : Bool) (shape : List Nat) : mixOK chk shape [] = true := by
  cases shape <;> rfl

/-- the operand multi-index built from a broadcast multi-index and a multi-index of the sliced axes is valid -/
theorem mix_valid {B b : List Nat} (hv : Valid B b) :
    ∀ {shape : List Nat} {items : List (Option Ix)} {s : List Nat}, mixOK true shape items = true →
      (∀ ix ∈ items.filterMap id, BcastTo ix.1 B) → Valid (slicedDims shape items) s →
      Valid shape (mixIn shape items b s)
  | [], _, _, _, _, _ => by simp [mixIn, valid_nil]
  | n :: shape, [], s, _, _, hs => by
    rw [slicedDims] at hs
    obtain ⟨x, xs, rfl, hx, hr⟩ := valid_cons' hs
    rw [mixIn]
    exact valid_cons.2 ⟨hx, mix_valid hv (mixOK_nil _ _) (by simp) (by rwa [slicedDims_nil])⟩
  | n :: shape, none :: items, s, h, hb, hs => by
    rw [slicedDims] at hs
    obtain ⟨x, xs, rfl, hx, hr⟩ := valid_cons' hs
    rw [mixOK] at h
    rw [mixIn]
    exact valid_cons.2 ⟨hx, mix_valid hv h (by simpa using hb) hr⟩
  | n :: shape, some ix :: items, s, h, hb, hs => by
    rw [slicedDims] at hs
    simp only [mixOK, Bool.and_eq_true] at h
    rw [mixIn]
    exact valid_cons.2 ⟨ixAt_lt h.1 (hb ix (by simp)) hv,
      mix_valid hv h.2 (fun ix' h' => hb ix' (by
        show ix' ∈ ix :: items.filterMap id
        exact List.mem_cons_of_mem _ h')) hs⟩

theorem lead_le {chk : Bool} : ∀ {shape : List Nat} {items : List (Option Ix)}, mixOK chk shape items = true →
    lead items ≤ (slicedDims shape items).length
  | _, [], _ => by simp [lead]
  | [], _ :: _, h => by simp [mixOK] at h
  | _ :: _, none :: _, h => by
    rw [mixOK] at h
    simp only [lead, slicedDims, List.length_cons]
    have := lead_le h
    omega
  | _ :: _, some _ :: _, _ => by simp [lead]

theorem bpos_le {chk : Bool} {shape : List Nat} {items : List (Option Ix)} (h : mixOK chk shape items = true) :
    bpos items ≤ (slicedDims shape items).length := by
  have := lead_le h
  unfold bpos
  split <;> omega

theorem mixOK_length {chk : Bool} : ∀ {shape : List Nat} {items : List (Option Ix)},
    mixOK chk shape items = true → items.length ≤ shape.length
  | _, [], _ => by simp
  | [], _ :: _, h => by simp [mixOK] at h
  | _ :: _, none :: _, h => by
    rw [mixOK] at h
    simpa using mixOK_length h
  | _ :: _, some _ :: _, h => by
    simp only [mixOK, Bool.and_eq_true] at h
    simpa using mixOK_length h.2

theorem mixedIndexF_eq {shape : List Nat} {items : List (Option Ix)} {out idx : List Nat}
    (h : mixedIndexF shape items = some (out, idx)) :
    ∃ B, bshapeAll ((items.filterMap id).map (·.1)) = some B ∧ mixOK (size B != 0) shape items = true ∧
      out = (slicedDims shape items).take (bpos items) ++ B ++ (slicedDims shape items).drop (bpos items) ∧
      idx = gatherBy shape out fun j => mixIn shape items ((j.drop (bpos items)).take B.length)
        (j.take (bpos items) ++ j.drop (bpos items + B.length)) := by
  unfold mixedIndexF at h
  split at h
  · simp at h
  · rename_i B hB
    split at h
    · simp only [Option.some.injEq, Prod.mk.injEq] at h
      obtain ⟨rfl, rfl⟩ := h
      exact ⟨B, hB, ‹_›, rfl, rfl⟩
    · simp at h

/-- numpy raises exactly when the index arrays do not broadcast together, there are more items than axes, or
(unless the index arrays broadcast to an empty shape) some entry is out of range -/
theorem mixedIndexF_isSome (shape : List Nat) (items : List (Option Ix)) :
    (mixedIndexF shape items).isSome = true ↔
      ∃ B, bshapeAll ((items.filterMap id).map (·.1)) = some B ∧ mixOK (size B != 0) shape items = true := by
  constructor
  · intro h
    obtain ⟨⟨out, idx⟩, hr⟩ := Option.isSome_iff_exists.1 h
    obtain ⟨B, h1, h2, -, -⟩ := mixedIndexF_eq hr
    exact ⟨B, h1, h2⟩
  · rintro ⟨B, h1, h2⟩
    unfold mixedIndexF
    simp only [h1, h2, if_true, Option.isSome_some]

theorem mix_args {p nb : Nat} {pre b post : List Nat} (h1 : pre.length = p) (h2 : b.length = nb) :
    ((pre ++ b ++ post).drop p).take nb = b ∧
    (pre ++ b ++ post).take p ++ (pre ++ b ++ post).drop (p + nb) = pre ++ post := by
  rw [List.append_assoc, List.take_left' h1, List.drop_left' h1, List.take_left' h2,
    ← List.drop_drop, List.drop_left' h1, List.drop_left' h2]
  exact ⟨rfl, rfl⟩

theorem mixed_bcast {items : List (Option Ix)} {B : List Nat}
    (hB : bshapeAll ((items.filterMap id).map (·.1)) = some B) : ∀ ix ∈ items.filterMap id, BcastTo ix.1 B :=
  fun ix hix => bshapeAll_bcastTo hB ix.1 (List.mem_map_of_mem hix)

/-- (a) -/
theorem mixedIndexF_length {shape : List Nat} {items : List (Option Ix)} {out idx : List Nat}
    (h : mixedIndexF shape items = some (out, idx)) : idx.length = size out := by
  obtain ⟨B, -, -, -, rfl⟩ := mixedIndexF_eq h
  exact gatherBy_length _ _ _

/-- (b) -/
theorem mixedIndexF_lt {shape : List Nat} {items : List (Option Ix)} {out idx : List Nat}
    (h : mixedIndexF shape items = some (out, idx)) : ∀ k ∈ idx, k < size shape := by
  obtain ⟨B, hB, hok, rfl, rfl⟩ := mixedIndexF_eq h
  refine gatherBy_lt fun j hj => ?_
  obtain ⟨pre, b, post, rfl, h1, h2, h3⟩ := valid_parts hj
  obtain ⟨e1, e2⟩ := mix_args (post := post) (by rw [h1.1, List.length_take_of_le (bpos_le hok)]) h2.1
  rw [e1, e2]
  rw [chk_of_valid h2] at hok
  have := valid_append h1 h3
  rw [List.take_append_drop] at this
  exact mix_valid h2 hok (mixed_bcast hB) this

/-- (c), general statement.  With `sl` the extents of the sliced axes, `B` the broadcast shape of the index
arrays and `p = bpos items` (the number of leading `:` when the advanced items are adjacent, else 0) the output
shape is `sl[:p] ++ B ++ sl[p:]`, and output multi-index `pre ++ b ++ post` reads the operand multi-index
`mixIn shape items b (pre ++ post)`: every advanced axis reads its index array at `b`, the sliced axes take the
components of `pre ++ post` in order (see `mixIn_getD_adv`, `mixIn_getD_slice`). -/
theorem mixedIndexF_spec {shape : List Nat} {items : List (Option Ix)} {out idx : List Nat}
    (h : mixedIndexF shape items = some (out, idx)) :
    ∃ B, bshapeAll ((items.filterMap id).map (·.1)) = some B ∧ (∀ ix ∈ items.filterMap id, BcastTo ix.1 B) ∧
      items.length ≤ shape.length ∧ bpos items ≤ (slicedDims shape items).length ∧
      out = (slicedDims shape items).take (bpos items) ++ B ++ (slicedDims shape items).drop (bpos items) ∧
      ∀ pre b post, Valid ((slicedDims shape items).take (bpos items)) pre → Valid B b →
        Valid ((slicedDims shape items).drop (bpos items)) post →
        idx[ravel out (pre ++ b ++ post)]? = some (ravel shape (mixIn shape items b (pre ++ post))) ∧
        Valid shape (mixIn shape items b (pre ++ post)) ∧ mixOK true shape items = true := by
  obtain ⟨B, hB, hok, rfl, rfl⟩ := mixedIndexF_eq h
  refine ⟨B, hB, mixed_bcast hB, mixOK_length hok, bpos_le hok, rfl, fun pre b post h1 h2 h3 => ?_⟩
  have hj := valid_append (valid_append h1 h2) h3
  obtain ⟨e1, e2⟩ := mix_args (post := post) (by rw [h1.1, List.length_take_of_le (bpos_le hok)]) h2.1
  rw [chk_of_valid h2] at hok
  have hs := valid_append h1 h3
  rw [List.take_append_drop] at hs
  refine ⟨?_, mix_valid h2 hok (mixed_bcast hB) hs, hok⟩
  rw [gatherBy_spec hj, e1, e2]

theorem mixIn_length (b : List Nat) : ∀ (shape : List Nat) (items : List (Option Ix)) (s : List Nat),
    (mixIn shape items b s).length = shape.length
  | [], _, _ => by simp [mixIn]
  | _ :: shape, [], s => by simp [mixIn, mixIn_length b shape]
  | _ :: shape, none :: items, s => by simp [mixIn, mixIn_length b shape]
  | _ :: shape, some _ :: items, s => by simp [mixIn, mixIn_length b shape]

/-- `mixIn` axis by axis: an advanced axis `a` reads its index array at `b` -/
theorem mixIn_getD_adv (b : List Nat) : ∀ (shape : List Nat) (items : List (Option Ix)) (s : List Nat) (a : Nat)
    (ix : Ix), a < shape.length → items[a]? = some (some ix) →
    (mixIn shape items b s).getD a 0 = ixAt (shape.getD a 0) ix b
  | [], _, _, _, _, h, _ => by simp at h
  | _ :: _, [], _, _, _, _, hi => by simp at hi
  | _ :: _, none :: _, _, 0, _, _, hi => by simp at hi
  | _ :: _, some ix' :: _, _, 0, ix, _, hi => by
    simp only [List.getElem?_cons_zero, Option.some.injEq] at hi
    subst hi
    simp [mixIn]
  | _ :: shape, none :: items, s, a + 1, ix, h, hi => by
    rw [mixIn, List.getD_cons_succ, List.getD_cons_succ]
    exact mixIn_getD_adv b shape items s.tail a ix (by simpa using h) (by simpa using hi)
  | _ :: shape, some _ :: items, s, a + 1, ix, h, hi => by
    rw [mixIn, List.getD_cons_succ, List.getD_cons_succ]
    exact mixIn_getD_adv b shape items s a ix (by simpa using h) (by simpa using hi)

/-- `mixIn` axis by axis: a sliced axis `a` (item `:` or no item) takes the component of `s` whose number is the
number of sliced axes before `a` -/
theorem mixIn_getD_slice (b : List Nat) : ∀ (shape : List Nat) (items : List (Option Ix)) (s : List Nat) (a : Nat),
    a < shape.length → (∀ ix, items[a]? ≠ some (some ix)) →
    (mixIn shape items b s).getD a 0 = s.getD (a - ((items.take a).filterMap id).length) 0
  | [], _, _, _, h, _ => by simp at h
  | _ :: _, [], s, 0, _, _ => by cases s <;> simp [mixIn]
  | _ :: _, none :: _, s, 0, _, _ => by cases s <;> simp [mixIn]
  | _ :: _, some ix :: _, _, 0, _, hi => absurd rfl (hi ix)
  | _ :: shape, [], s, a + 1, h, _ => by
    have := mixIn_getD_slice b shape [] s.tail a (by simpa using h) (by simp)
    rw [mixIn, List.getD_cons_succ, this]
    cases s <;> simp
  | _ :: shape, none :: items, s, a + 1, h, hi => by
    have := mixIn_getD_slice b shape items s.tail a (by simpa using h) (fun ix => by simpa using hi ix)
    have hle : ((items.take a).filterMap id).length ≤ a :=
      Nat.le_trans (List.length_filterMap_le _ _) (by rw [List.length_take]; omega)
    have e : (List.take (a + 1) (none :: items)).filterMap id = (items.take a).filterMap id := rfl
    rw [mixIn, List.getD_cons_succ, this, e,
      show a + 1 - ((items.take a).filterMap id).length = (a - ((items.take a).filterMap id).length) + 1 by omega]
    cases s <;> simp
  | _ :: shape, some ix :: items, s, a + 1, h, hi => by
    have := mixIn_getD_slice b shape items s a (by simpa using h) (fun ix => by simpa using hi ix)
    have e : (List.take (a + 1) (some ix :: items)).filterMap id = ix :: (items.take a).filterMap id := rfl
    rw [mixIn, List.getD_cons_succ, this, e, List.length_cons, Nat.add_sub_add_right]

/-! #### the case of one advanced item: it is `take` -/

theorem bshapeRev_nil_right (t : List Nat) : bshapeRev t [] = some t := by
  cases t <;> rfl

theorem bshapeAll_single (s : List Nat) : bshapeAll [s] = some s := by
  simp [bshapeAll, bshape, bshapeRev_nil_right]

theorem filterMap_single (ix : Ix) : ∀ a : Nat,
    (List.replicate a (none : Option Ix) ++ [some ix]).filterMap id = [ix]
  | 0 => rfl
  | _ + 1 => by simp [List.replicate_succ]

theorem mixOK_single (chk : Bool) (ix : Ix) : ∀ (a : Nat) (shape : List Nat),
    mixOK chk shape (List.replicate a none ++ [some ix]) =
      (decide (a < shape.length) && ixOK chk (shape.getD a 0) ix)
  | 0, [] => by simp [mixOK]
  | 0, _ :: _ => by simp [mixOK, mixOK_nil]
  | _ + 1, [] => by simp [mixOK, List.replicate_succ]
  | a + 1, _ :: shape => by simp [List.replicate_succ, mixOK, mixOK_single chk ix a shape]

theorem slicedDims_single (ix : Ix) : ∀ (a : Nat) (shape : List Nat),
    slicedDims shape (List.replicate a none ++ [some ix]) = shape.take a ++ shape.drop (a + 1)
  | 0, [] => rfl
  | 0, _ :: _ => by simp [slicedDims, slicedDims_nil]
  | _ + 1, [] => by simp [slicedDims]
  | a + 1, _ :: shape => by simp [List.replicate_succ, slicedDims, slicedDims_single ix a shape]

theorem adjacent_single (ix : Ix) (a : Nat) : adjacent (List.replicate a none ++ [some ix]) = true := by
  induction a with
  | zero => rfl
  | succ a _ => simp [adjacent, List.replicate_succ]

theorem lead_single (ix : Ix) (a : Nat) : lead (List.replicate a none ++ [some ix]) = a := by
  induction a with
  | zero => rfl
  | succ a ih => simp [List.replicate_succ, lead, ih]

theorem bpos_single (ix : Ix) (a : Nat) : bpos (List.replicate a none ++ [some ix]) = a := by
  rw [bpos, adjacent_single, lead_single]
  rfl

theorem mixIn_nil (b : List Nat) : ∀ (shape s : List Nat), s.length = shape.length → mixIn shape [] b s = s
  | [], s, h => by simp [mixIn, List.length_eq_zero_iff.1 h]
  | _ :: shape, [], h => by simp at h
  | _ :: shape, x :: xs, h => by simp [mixIn, mixIn_nil b shape xs (by simpa using h)]

theorem mixIn_single (ix : Ix) (b : List Nat) : ∀ (a : Nat) (shape s : List Nat), a < shape.length →
    s.length + 1 = shape.length →
    mixIn shape (List.replicate a none ++ [some ix]) b s = s.take a ++ ixAt (shape.getD a 0) ix b :: s.drop a
  | _, [], _, h, _ => by simp at h
  | 0, _ :: shape, s, _, hl => by simp [mixIn, mixIn_nil b shape s (by simpa using hl)]
  | a + 1, _ :: shape, [], h, hl => by simp only [List.length_cons, List.length_nil] at h hl; omega
  | a + 1, _ :: shape, x :: xs, h, hl => by
    simp [List.replicate_succ, mixIn, mixIn_single ix b a shape xs (by simpa using h) (by simpa using hl)]

/-- `a[:, .., :, ix]` with `axis` leading `:` in closed form: it is `takeF` except for the condition under which
the entries are checked -/
theorem mixedIndexF_single (shape : List Nat) (ix : Ix) (axis : Nat) :
    mixedIndexF shape (List.replicate axis none ++ [some ix]) =
      if axis < shape.length && ixOK (size ix.1 != 0) (shape.getD axis 0) ix then
        some (shape.take axis ++ ix.1 ++ shape.drop (axis + 1),
          gatherBy shape (shape.take axis ++ ix.1 ++ shape.drop (axis + 1)) (takeIn (shape.getD axis 0) ix axis))
      else none := by
  unfold mixedIndexF
  simp only [filterMap_single, List.map_cons, List.map_nil, bshapeAll_single, mixOK_single, slicedDims_single,
    bpos_single]
  split
  · rename_i hc
    have ha : axis < shape.length := by
      simp only [Bool.and_eq_true, decide_eq_true_eq] at hc
      exact hc.1
    have hl : (shape.take axis).length = axis := List.length_take_of_le (Nat.le_of_lt ha)
    rw [List.take_left' hl, List.drop_left' hl]
    simp only [Option.some.injEq, Prod.mk.injEq, true_and]
    refine gatherBy_congr fun j hj => ?_
    obtain ⟨pre, b, post, rfl, h1, h2, h3⟩ := valid_parts hj
    obtain ⟨e1, e2⟩ := mix_args (post := post) (by rw [h1.1, hl]) h2.1
    have hp : pre.length = axis := by rw [h1.1, hl]
    rw [e1, e2, takeIn_append hp h2.1, mixIn_single ix b axis shape _ ha (by
      have := h3.1
      simp only [List.length_append, List.length_drop, hp] at this ⊢
      omega), List.take_left' hp, List.drop_left' hp, ixAt, bmulti_self h2]
  · rfl

theorem ixOK_of_true {chk : Bool} {n : Nat} {ix : Ix} (h : ixOK true n ix = true) : ixOK chk n ix = true := by
  simp only [ixOK, Bool.and_eq_true, Bool.not_true, Bool.false_or] at h
  simp [ixOK, h.1, h.2]

/-- the range check does not depend on the flag for an index array without entries -/
theorem ixOK_empty {n : Nat} {ix : Ix} (h : size ix.1 = 0) (c c' : Bool) : ixOK c n ix = ixOK c' n ix := by
  by_cases hl : ix.2.length = size ix.1
  · have : ix.2 = [] := List.length_eq_zero_iff.1 (by omega)
    simp [ixOK, this, h]
  · have : (ix.2.length == size ix.1) = false := by simpa using hl
    simp only [ixOK, this, Bool.false_and]

/-- (d) `numpy.take(a, ix, axis)` is `a[:, .., :, ix]` (`axis` full slices) for an index array of ANY shape, as
long as no axis before `axis` is empty -/
theorem takeF_eq_mixed {shape : List Nat} (ix : Ix) {axis : Nat} (h : size (shape.take axis) ≠ 0) :
    takeF shape ix axis = mixedIndexF shape (List.replicate axis none ++ [some ix]) := by
  rw [mixedIndexF_single, takeF]
  have : (size (shape.take axis) != 0) = true := by simpa using h
  rw [this]
  by_cases h0 : size ix.1 = 0
  · rw [ixOK_empty h0 true (size ix.1 != 0)]
  · have : (size ix.1 != 0) = true := by simpa using h0
    rw [this]

/-- (d) in particular for a 1-d index array -/
theorem takeF_eq_mixed_1d {shape : List Nat} (m : Nat) (data : List Int) {axis : Nat}
    (h : size (shape.take axis) ≠ 0) :
    takeF shape ([m], data) axis = mixedIndexF shape (List.replicate axis none ++ [some ([m], data)]) :=
  takeF_eq_mixed _ h

/-- (d) without the hypothesis: whenever the indexing expression succeeds, `take` gives the same result -/
theorem takeF_of_mixed {shape : List Nat} {ix : Ix} {axis : Nat} {r : List Nat × List Nat}
    (h : mixedIndexF shape (List.replicate axis none ++ [some ix]) = some r) : takeF shape ix axis = some r := by
  rw [mixedIndexF_single] at h
  split at h
  · rename_i hc
    simp only [Bool.and_eq_true, decide_eq_true_eq] at hc
    have hok : ixOK (size (shape.take axis) != 0) (shape.getD axis 0) ix = true := by
      by_cases h0 : size ix.1 = 0
      · rw [ixOK_empty h0 _ (size ix.1 != 0)]; exact hc.2
      · have : (size ix.1 != 0) = true := by simpa using h0
        rw [this] at hc
        exact ixOK_of_true hc.2
    rw [takeF, if_pos (by rw [hok, Bool.and_true]; exact decide_eq_true hc.1)]
    exact h
  · simp at h

/-- the hypothesis of `takeF_eq_mixed` is needed: when an axis before `axis` is empty `take` does not look at the
entries at all, while the indexing expression still checks them -/
example : takeF [0, 3] ([1], [7]) 1 = some ([0, 1], []) ∧ mixedIndexF [0, 3] [none, some ([1], [7])] = none := by
  decide

/-! #### pure advanced indexing is the case without `:` items -/

theorem mixOK_map_some (chk : Bool) : ∀ (shape : List Nat) (ixs : List Ix),
    mixOK chk shape (ixs.map some) = advOK chk shape ixs
  | shape, [] => by rw [List.map_nil, mixOK_nil]; cases shape <;> rfl
  | [], _ :: _ => rfl
  | _ :: shape, _ :: ixs => by simp [mixOK, advOK, mixOK_map_some chk shape ixs]

theorem slicedDims_map_some : ∀ (shape : List Nat) (ixs : List Ix),
    slicedDims shape (ixs.map some) = shape.drop ixs.length
  | shape, [] => by simp [slicedDims_nil]
  | [], _ :: _ => rfl
  | _ :: shape, _ :: ixs => by simp [slicedDims, slicedDims_map_some shape ixs]

theorem bpos_map_some (ixs : List Ix) : bpos (ixs.map some) = 0 := by
  cases ixs <;> simp [bpos, lead]

theorem mixIn_map_some (b : List Nat) : ∀ (shape : List Nat) (ixs : List Ix) (s : List Nat),
    ixs.length ≤ shape.length → s.length = (shape.drop ixs.length).length →
    mixIn shape (ixs.map some) b s = List.zipWith (fun n ix => ixAt n ix b) shape ixs ++ s
  | shape, [], s, _, hs => by simp [mixIn_nil b shape s (by simpa using hs)]
  | [], _ :: _, _, h, _ => by simp at h
  | _ :: shape, _ :: ixs, s, h, hs => by
    simp [mixIn, mixIn_map_some b shape ixs s (by simpa using h) (by simpa using hs)]

/-- `a[i0, .., ik-1]` is `mixedIndexF` without `:` items -/
theorem advIndexF_eq_mixed (shape : List Nat) (ixs : List Ix) :
    advIndexF shape ixs = mixedIndexF shape (ixs.map some) := by
  unfold advIndexF mixedIndexF
  have e : (ixs.map some).filterMap id = ixs := by simp
  rw [e]
  cases hB : bshapeAll (ixs.map (·.1)) with
  | none => rfl
  | some B =>
    simp only [mixOK_map_some, slicedDims_map_some, bpos_map_some, List.take_zero, List.nil_append,
      List.drop_zero, Nat.zero_add]
    split
    · rename_i hok
      simp only [Option.some.injEq, Prod.mk.injEq, true_and]
      refine gatherBy_congr fun j hj => ?_
      rw [advIn, mixIn_map_some _ shape ixs _ (advOK_length hok) (valid_split hj).2.1]
    · rfl

/-! #### the case of two advanced items separated by a slice, 3-d operand -/

/-- `a[i0, :, i2]` on a 3-d operand: the broadcast axes go first, the sliced axis last; output multi-index
`b ++ [x]` reads `a[i0[b], x, i2[b]]` -/
theorem mixedIndexF_separated {n0 n1 n2 : Nat} {i0 i2 : Ix} {out idx : List Nat}
    (h : mixedIndexF [n0, n1, n2] [some i0, none, some i2] = some (out, idx)) :
    ∃ B, bshapeAll [i0.1, i2.1] = some B ∧ BcastTo i0.1 B ∧ BcastTo i2.1 B ∧ out = B ++ [n1] ∧
      ∀ b x, Valid B b → x < n1 →
        idx[ravel out (b ++ [x])]? = some (ravel [n0, n1, n2] [ixAt n0 i0 b, x, ixAt n2 i2 b]) ∧
        ixAt n0 i0 b < n0 ∧ ixAt n2 i2 b < n2 := by
  obtain ⟨B, hB, hb, -, -, ho, hs⟩ := mixedIndexF_spec h
  have hp : bpos [some i0, none, some i2] = 0 := rfl
  have hsl : slicedDims [n0, n1, n2] [some i0, none, some i2] = [n1] := rfl
  rw [hp, hsl] at ho hs
  refine ⟨B, hB, hb i0 (by simp), hb i2 (by simp), by simpa using ho, fun b x hvb hx => ?_⟩
  obtain ⟨h1, h2, -⟩ := hs [] b [x] (by simp [valid_nil]) hvb (valid_cons.2 ⟨hx, valid_nil.2 rfl⟩)
  simp only [List.nil_append] at h1 h2
  have hm : mixIn [n0, n1, n2] [some i0, none, some i2] b [x] = [ixAt n0 i0 b, x, ixAt n2 i2 b] := rfl
  rw [hm] at h1 h2
  obtain ⟨h3, h4⟩ := valid_cons.1 h2
  obtain ⟨-, h5⟩ := valid_cons.1 h4
  exact ⟨h1, h3, (valid_cons.1 h5).1⟩

/-- `a[:, i1, i2]` on a 3-d operand (adjacent advanced items): the broadcast axes stand in place of the two
indexed axes; output multi-index `[x] ++ b` reads `a[x, i1[b], i2[b]]` -/
theorem mixedIndexF_adjacent {n0 n1 n2 : Nat} {i1 i2 : Ix} {out idx : List Nat}
    (h : mixedIndexF [n0, n1, n2] [none, some i1, some i2] = some (out, idx)) :
    ∃ B, bshapeAll [i1.1, i2.1] = some B ∧ BcastTo i1.1 B ∧ BcastTo i2.1 B ∧ out = n0 :: B ∧
      ∀ x b, x < n0 → Valid B b →
        idx[ravel out (x :: b)]? = some (ravel [n0, n1, n2] [x, ixAt n1 i1 b, ixAt n2 i2 b]) ∧
        ixAt n1 i1 b < n1 ∧ ixAt n2 i2 b < n2 := by
  obtain ⟨B, hB, hb, -, -, ho, hs⟩ := mixedIndexF_spec h
  have hp : bpos [none, some i1, some i2] = 1 := rfl
  have hsl : slicedDims [n0, n1, n2] [none, some i1, some i2] = [n0] := rfl
  rw [hp, hsl] at ho hs
  refine ⟨B, hB, hb i1 (by simp), hb i2 (by simp), by simpa using ho, fun x b hx hvb => ?_⟩
  obtain ⟨h1, h2, -⟩ := hs [x] b [] (valid_cons.2 ⟨hx, valid_nil.2 rfl⟩) hvb (by simp [valid_nil])
  simp only [List.append_nil, List.cons_append, List.nil_append] at h1 h2
  have hm : mixIn [n0, n1, n2] [none, some i1, some i2] b [x] = [x, ixAt n1 i1 b, ixAt n2 i2 b] := rfl
  rw [hm] at h1 h2
  obtain ⟨-, h4⟩ := valid_cons.1 h2
  obtain ⟨h5, h6⟩ := valid_cons.1 h4
  exact ⟨h1, h5, (valid_cons.1 h6).1⟩

end Np.AdvIndexFns

import Np.Proofs.WF
/-! C01: subtraction and negation (coefficient rings with negatives) -/
namespace Np
open MvPolynomial
variable {S : Type} [CommRing S]

theorem den_zip_sub (ns : List Name) (es : List Expo) (f g : Expo → S) :
    denT ns (List.zipWith (fun x y => (x.1, x.2 - y.2)) (es.map fun e => (e, f e)) (es.map fun e => (e, g e)))
      = denT ns (es.map fun e => (e, f e)) - denT ns (es.map fun e => (e, g e)) := by
  induction es with
  | nil => simp
  | cons e es ih =>
    simp only [List.map_cons, List.zipWith_cons_cons, denT_cons, ih, map_sub]
    abel

/-- the structural part shared by every binary `simple_dispatch`: the aligned column-wise combination is well-formed -/
theorem WF_zipCols_alignPair (g : S → S → S) (a b : Poly S) (ha : WF a) (hb : WF b) :
    WF (zipCols g (alignPair a b).1 (alignPair a b).2) := by
  have hc := commonNames_nodup a b
  have hsa : ∀ n ∈ a.names, n ∈ commonNames a b := fun n h => (mem_commonNames a b n).2 (Or.inl h)
  have hsb : ∀ n ∈ b.names, n ∈ commonNames a b := fun n h => (mem_commonNames a b n).2 (Or.inr h)
  have wa := WF_alignIndet (commonNames a b) a ha hc hsa
  have wb := WF_alignIndet (commonNames a b) b hb hc hsb
  set a' := alignIndet (commonNames a b) a
  set b' := alignIndet (commonNames a b) b
  set es := sortDedup expoLt (a'.expos ++ b'.expos) with hes
  have hesnd : es.Nodup := nodup_of_sortedLt expoLt_strictTotal _ (sortedLt_sortDedup expoLt_strictTotal _)
  have hex : (zipCols g (alignExpo es a') (alignExpo es b')).expos = es := by
    simp only [Poly.expos, zipCols, alignExpo]
    clear hesnd hes
    induction es with
    | nil => simp
    | cons e es ih => simpa using ih
  refine ⟨hc, ?_, ?_⟩
  · show (zipCols g (alignExpo es a') (alignExpo es b')).expos.Nodup
    rw [hex]; exact hesnd
  · intro e he
    have he' : e ∈ es := by
      have : e ∈ (zipCols g (alignExpo es a') (alignExpo es b')).expos := he
      rwa [hex] at this
    rw [hes, mem_sortDedup expoLt_strictTotal, List.mem_append] at he'
    rcases he' with h | h
    · exact wa.row_len e h
    · exact wb.row_len e h

theorem den_alignPair_sub (a b : Poly S) (ha : WF a) (hb : WF b) :
    den (zipCols (· - ·) (alignPair a b).1 (alignPair a b).2) = den a - den b := by
  have hc := commonNames_nodup a b
  have hsa : ∀ n ∈ a.names, n ∈ commonNames a b := fun n h => (mem_commonNames a b n).2 (Or.inl h)
  have hsb : ∀ n ∈ b.names, n ∈ commonNames a b := fun n h => (mem_commonNames a b n).2 (Or.inr h)
  have wa := WF_alignIndet (commonNames a b) a ha hc hsa
  have wb := WF_alignIndet (commonNames a b) b hb hc hsb
  have da := den_alignIndet (commonNames a b) a ha.names_nodup hc
    (fun t _ n hn => expoAt_not_mem a.names t.1 n (fun h => hn (hsa n h)))
  have db := den_alignIndet (commonNames a b) b hb.names_nodup hc
    (fun t _ n hn => expoAt_not_mem b.names t.1 n (fun h => hn (hsb n h)))
  set a' := alignIndet (commonNames a b) a with ha'
  set b' := alignIndet (commonNames a b) b with hb'
  set es := sortDedup expoLt (a'.expos ++ b'.expos) with hes
  have hesnd : es.Nodup := nodup_of_sortedLt expoLt_strictTotal _ (sortedLt_sortDedup expoLt_strictTotal _)
  have hmem : ∀ e, e ∈ es ↔ e ∈ a'.expos ∨ e ∈ b'.expos := by
    intro e; simp [hes, mem_sortDedup expoLt_strictTotal]
  have ea := den_alignExpo es a' wa.expos_nodup hesnd (fun e h => (hmem e).2 (Or.inl h))
  have eb := den_alignExpo es b' wb.expos_nodup hesnd (fun e h => (hmem e).2 (Or.inr h))
  have : alignPair a b = (alignExpo es a', alignExpo es b') := rfl
  rw [this]
  simp only [den, zipCols, alignExpo] at ea eb ⊢
  have hn : a'.names = b'.names := rfl
  rw [den_zip_sub, ea, hn, eb]
  show den a' - den b' = _
  rw [da, db]
  rfl

/-- C01 (difference) -/
theorem sub_den_WF [BEq S] [LawfulBEq S] (rc rn : Bool) (a b : Poly S) (ha : WF a) (hb : WF b) :
    den (sub rc rn a b) = den a - den b ∧ WF (sub rc rn a b) := by
  have hwz := WF_zipCols_alignPair (· - ·) a b ha hb
  refine ⟨?_, WF_clean rc rn _ hwz⟩
  show den (clean rc rn (zipCols (· - ·) (alignPair a b).1 (alignPair a b).2)) = _
  rw [den_clean rc rn _ hwz (WF_dropZeroCols _ hwz), den_alignPair_sub a b ha hb]

theorem denT_neg (ns : List Name) (ts : List (Expo × S)) :
    denT ns (ts.map fun t => (t.1, -t.2)) = - denT ns ts := by
  induction ts with
  | nil => simp
  | cons t ts ih => simp [ih, add_comm]

/-- C01 (negation) -/
theorem neg_den_WF [BEq S] [LawfulBEq S] (rc rn : Bool) (a : Poly S) (ha : WF a) :
    den (neg rc rn a) = - den a ∧ WF (neg rc rn a) := by
  have hw : WF ({ a with terms := a.terms.map fun t => (t.1, -t.2) } : Poly S) := by
    refine ⟨ha.names_nodup, ?_, ?_⟩
    · simpa [Poly.expos, List.map_map, Function.comp_def] using ha.expos_nodup
    · intro e he
      have : e ∈ a.expos := by simpa [Poly.expos, List.map_map, Function.comp_def] using he
      exact ha.row_len e this
  refine ⟨?_, WF_clean rc rn _ hw⟩
  show den (clean rc rn _) = _
  rw [den_clean rc rn _ hw (WF_dropZeroCols _ hw)]
  exact denT_neg a.names a.terms
end Np

import Np.Proofs.WF
import Np.Model.Construct
/-! C03 — exact characterisation of the constructor model `fromAttributes` / `regenerate`:
when it succeeds, what it returns, that the result is well-formed and what it denotes.

The model (as the Python source) checks for duplicate exponent rows only AFTER cleaning, so the raw input may
contain duplicate rows (which then must be all-zero terms that `remove_redundant_coefficients` drops). The
lemmas on `clean` below therefore need only "names duplicate-free" (+ "rows as long as the names"), not `WF`. -/
namespace Np
open MvPolynomial
variable {S : Type} [CommSemiring S]

/-! ### `hasDup` decides `¬ Nodup` -/

theorem hasDup_eq_false_iff {α : Type} [BEq α] [LawfulBEq α] (l : List α) : hasDup l = false ↔ l.Nodup := by
  induction l with
  | nil => simp [hasDup]
  | cons x xs ih => simp [hasDup, ih, List.nodup_cons]

theorem hasDup_eq_true_iff {α : Type} [BEq α] [LawfulBEq α] (l : List α) : hasDup l = true ↔ ¬ l.Nodup := by
  rw [← hasDup_eq_false_iff]; cases hasDup l <;> simp

/-! ### cleaning without the "rows duplicate-free" assumption -/

omit [CommSemiring S] in
theorem usedNames_sublist (p : Poly S) : (usedNames p).Sublist p.names := by
  unfold usedNames
  split
  · exact List.take_sublist 1 p.names
  · exact List.filter_sublist

omit [CommSemiring S] in
theorem usedNames_nodup' (p : Poly S) (hn : p.names.Nodup) : (usedNames p).Nodup :=
  hn.sublist (usedNames_sublist p)

/-- dropping unused names never changes the denotation: the dropped exponents are all zero -/
theorem den_dropUnusedNames' (p : Poly S) (hn : p.names.Nodup) : den (dropUnusedNames p) = den p :=
  den_alignIndet (usedNames p) p hn (usedNames_nodup' p hn) (fun t ht n h => usedNames_keep p t ht n h)

theorem dropZeroCols_names [BEq S] (p : Poly S) : (dropZeroCols p).names = p.names := by
  unfold dropZeroCols; split <;> rfl

/-- `den_clean` needing only duplicate-free names (rows may repeat, rows may have any length) -/
theorem den_clean' [BEq S] [LawfulBEq S] (rc rn : Bool) (p : Poly S) (hn : p.names.Nodup) :
    den (clean rc rn p) = den p := by
  have hn' : (dropZeroCols p).names.Nodup := by rw [dropZeroCols_names]; exact hn
  unfold clean
  cases rc <;> cases rn <;> simp only [Bool.false_eq_true, if_false, if_true]
  · rw [den_dropUnusedNames' _ hn', den_dropZeroCols]
  · exact den_dropZeroCols p
  · exact den_dropUnusedNames' p hn

/-- the names of a cleaned polynomial are a sublist of the names it had -/
theorem clean_names_sublist [BEq S] (rc rn : Bool) (p : Poly S) : (clean rc rn p).names.Sublist p.names := by
  unfold clean
  cases rc <;> cases rn <;> simp only [Bool.false_eq_true, if_false, if_true]
  · exact (usedNames_sublist _).trans (by rw [dropZeroCols_names])
  · rw [dropZeroCols_names]
  · exact usedNames_sublist p
  · exact List.Sublist.refl _

theorem clean_names_nodup [BEq S] (rc rn : Bool) (p : Poly S) (hn : p.names.Nodup) :
    (clean rc rn p).names.Nodup := hn.sublist (clean_names_sublist rc rn p)

theorem dropZeroCols_row_len [BEq S] (p : Poly S) (hl : ∀ e ∈ p.expos, e.length = p.names.length) :
    ∀ e ∈ (dropZeroCols p).expos, e.length = (dropZeroCols p).names.length := by
  intro e he
  rw [dropZeroCols_names]
  unfold dropZeroCols at he
  split at he
  · simp only [Poly.expos, List.map_cons, List.map_nil, List.mem_singleton] at he
    simp [he]
  · have hsub : (p.terms.filter fun t => !(t.2 == 0) || isZeroExpo t.1).Sublist p.terms := List.filter_sublist
    exact hl e ((hsub.map _).subset he)

omit [CommSemiring S] in
theorem dropUnusedNames_row_len (p : Poly S) :
    ∀ e ∈ (dropUnusedNames p).expos, e.length = (dropUnusedNames p).names.length := by
  intro e he
  simp only [dropUnusedNames, Poly.expos, alignIndet, List.map_map, List.mem_map, Function.comp] at he
  obtain ⟨t, _, rfl⟩ := he
  simp [scatter, dropUnusedNames, alignIndet]

/-- cleaning keeps "every row has one entry per name" (rows may repeat) -/
theorem clean_row_len [BEq S] (rc rn : Bool) (p : Poly S) (hl : ∀ e ∈ p.expos, e.length = p.names.length) :
    ∀ e ∈ (clean rc rn p).expos, e.length = (clean rc rn p).names.length := by
  unfold clean
  cases rc <;> cases rn <;> simp only [Bool.false_eq_true, if_false, if_true]
  · exact dropUnusedNames_row_len _
  · exact dropZeroCols_row_len p hl
  · exact dropUnusedNames_row_len p
  · exact hl

/-! ### the constructor -/

/-- the names the constructor works with: the ones given, else `0 .. width-1` (`q0, q1, …`) -/
def attrNames (names : Option (List Name)) (expos : List Expo) : List Name :=
  names.getD (List.range (expos.headD []).length)

/-- the uncleaned polynomial the constructor starts from: row `k` paired with coefficient `k` -/
def rawPoly (names : Option (List Name)) (expos : List Expo) (cols : List S) : Poly S :=
  { names := attrNames names expos, terms := List.zip expos cols }

/-- **1.** exact success condition and result of `polynomial_from_attributes`: as many coefficient arrays as
rows, as many names as columns, names duplicate-free, rows duplicate-free *after cleaning*; the result is the
cleaned raw polynomial -/
theorem fromAttributes_some_iff [BEq S] [LawfulBEq S] (rc rn : Bool) (names : Option (List Name))
    (expos : List Expo) (cols : List S) (r : Poly S) :
    fromAttributes rc rn names expos cols = some r ↔
      cols.length = expos.length ∧
      (attrNames names expos).length = (expos.headD []).length ∧
      (attrNames names expos).Nodup ∧
      (clean rc rn (rawPoly names expos cols)).expos.Nodup ∧
      r = clean rc rn (rawPoly names expos cols) := by
  unfold fromAttributes
  simp only [rawPoly, attrNames, bne_iff_ne, ne_eq, ite_not]
  split_ifs with h1 h2 h3 h4
  · have h3' := (hasDup_eq_true_iff _).1 h3
    exact ⟨nofun, fun ⟨_, _, hn, _⟩ => absurd hn h3'⟩
  · have h4' := (hasDup_eq_true_iff _).1 h4
    exact ⟨nofun, fun ⟨_, _, _, hn, _⟩ => absurd hn h4'⟩
  · have h3' := (hasDup_eq_false_iff _).1 (Bool.eq_false_iff.2 h3)
    have h4' := (hasDup_eq_false_iff _).1 (Bool.eq_false_iff.2 h4)
    exact ⟨fun h => ⟨h1, h2, h3', h4', (Option.some.inj h).symm⟩, fun ⟨_, _, _, _, h⟩ => by rw [h]⟩
  · exact ⟨nofun, fun ⟨_, hn, _⟩ => absurd hn h2⟩
  · exact ⟨nofun, fun ⟨hn, _⟩ => absurd hn h1⟩

/-- the constructor fails exactly when one of the four checks fails -/
theorem fromAttributes_none_iff [BEq S] [LawfulBEq S] (rc rn : Bool) (names : Option (List Name))
    (expos : List Expo) (cols : List S) :
    fromAttributes rc rn names expos cols = none ↔
      ¬ (cols.length = expos.length ∧
        (attrNames names expos).length = (expos.headD []).length ∧
        (attrNames names expos).Nodup ∧
        (clean rc rn (rawPoly names expos cols)).expos.Nodup) := by
  constructor
  · rintro h ⟨a, b, c, d⟩
    have := (fromAttributes_some_iff rc rn names expos cols _).2 ⟨a, b, c, d, rfl⟩
    rw [h] at this; exact absurd this (by simp)
  · intro h
    cases hr : fromAttributes rc rn names expos cols with
    | none => rfl
    | some r =>
      obtain ⟨a, b, c, d, _⟩ := (fromAttributes_some_iff rc rn names expos cols r).1 hr
      exact absurd ⟨a, b, c, d⟩ h

omit [CommSemiring S] in
theorem mem_zip_expos (expos : List Expo) (cols : List S) (e : Expo)
    (he : e ∈ (List.zip expos cols).map (·.1)) : e ∈ expos := by
  obtain ⟨t, ht, rfl⟩ := List.mem_map.1 he
  exact (List.of_mem_zip (show (t.1, t.2) ∈ List.zip expos cols from ht)).1

/-- **2.** on rectangular input a successfully constructed polynomial is well-formed: duplicate-free names,
duplicate-free rows, every row as long as the names — for all four retain-flag settings, and although the raw
rows may have contained duplicates -/
theorem fromAttributes_WF [BEq S] [LawfulBEq S] (rc rn : Bool) (names : Option (List Name))
    (expos : List Expo) (cols : List S) (r : Poly S)
    (h : fromAttributes rc rn names expos cols = some r)
    (hrect : ∀ e ∈ expos, e.length = (expos.headD []).length) : WF r := by
  obtain ⟨_, hlen, hnd, hrows, rfl⟩ := (fromAttributes_some_iff rc rn names expos cols r).1 h
  refine ⟨clean_names_nodup rc rn _ hnd, hrows, clean_row_len rc rn _ ?_⟩
  intro e he
  show e.length = (attrNames names expos).length
  rw [hlen]
  exact hrect e (mem_zip_expos expos cols e he)

/-- **3.** a successfully constructed polynomial denotes the sum of the terms passed in,
`Σ_k cols[k] · x^expos[k]` over the given names — whatever the retain flags, also when the raw rows repeat, and
without needing rectangular input (short rows are padded with zero exponents by `fsN`) -/
theorem fromAttributes_den [BEq S] [LawfulBEq S] (rc rn : Bool) (names : Option (List Name))
    (expos : List Expo) (cols : List S) (r : Poly S)
    (h : fromAttributes rc rn names expos cols = some r) :
    den r = denT (attrNames names expos) (List.zip expos cols) := by
  obtain ⟨_, _, hnd, _, rfl⟩ := (fromAttributes_some_iff rc rn names expos cols r).1 h
  exact den_clean' rc rn (rawPoly names expos cols) hnd

/-- the same with the sum written out -/
theorem fromAttributes_den_sum [BEq S] [LawfulBEq S] (rc rn : Bool) (names : Option (List Name))
    (expos : List Expo) (cols : List S) (r : Poly S)
    (h : fromAttributes rc rn names expos cols = some r) :
    den r = ((List.zip expos cols).map fun t => monomial (fsN (attrNames names expos) t.1) t.2).sum :=
  fromAttributes_den rc rn names expos cols r h

/-- 2 + 3 in the form asked for: rectangular input, explicit names -/
theorem fromAttributes_spec [BEq S] [LawfulBEq S] (rc rn : Bool) (names : List Name)
    (expos : List Expo) (cols : List S) (r : Poly S)
    (h : fromAttributes rc rn (some names) expos cols = some r)
    (hrect : ∀ e ∈ expos, e.length = (expos.headD []).length) :
    WF r ∧ den r = denT names (List.zip expos cols) ∧ r.names.Sublist names :=
  ⟨fromAttributes_WF rc rn _ expos cols r h hrect, fromAttributes_den rc rn _ expos cols r h, by
    obtain ⟨_, _, _, _, rfl⟩ := (fromAttributes_some_iff rc rn (some names) expos cols r).1 h
    exact clean_names_sublist rc rn _⟩

/-- on duplicate-free rectangular input with the right counts the constructor always succeeds -/
theorem fromAttributes_total [BEq S] [LawfulBEq S] (rc rn : Bool) (names : Option (List Name))
    (expos : List Expo) (cols : List S) (hc : cols.length = expos.length)
    (hlen : (attrNames names expos).length = (expos.headD []).length) (hnd : (attrNames names expos).Nodup)
    (hrows : expos.Nodup) (hrect : ∀ e ∈ expos, e.length = (expos.headD []).length) :
    fromAttributes rc rn names expos cols = some (clean rc rn (rawPoly names expos cols)) := by
  have hex : (rawPoly names expos cols).expos = expos := by
    simp only [rawPoly, Poly.expos]
    rw [← List.unzip_fst, List.unzip_zip (by omega)]
  have hw : WF (rawPoly names expos cols) :=
    ⟨hnd, by rw [hex]; exact hrows, by
      intro e he; rw [hex] at he
      show e.length = (attrNames names expos).length
      rw [hlen]; exact hrect e he⟩
  exact (fromAttributes_some_iff rc rn names expos cols _).2 ⟨hc, hlen, hnd, (WF_clean rc rn _ hw).expos_nodup, rfl⟩

/-! ### regenerating a polynomial from its own attributes -/

omit [CommSemiring S] in
theorem zip_expos_cols (p : Poly S) : List.zip p.expos p.cols = p.terms := by
  simp only [Poly.expos, Poly.cols]
  induction p.terms with
  | nil => rfl
  | cons t ts ih => simp [ih]

omit [CommSemiring S] in
theorem rawPoly_self (p : Poly S) : rawPoly (some p.names) p.expos p.cols = p := by
  cases p
  simp only [rawPoly, attrNames, Option.getD_some, zip_expos_cols]

/-- exact success condition of regeneration, no assumptions on `p` at all -/
theorem regenerate_some_iff [BEq S] [LawfulBEq S] (rc rn : Bool) (p r : Poly S) :
    regenerate rc rn p = some r ↔
      p.names.length = (p.expos.headD []).length ∧ p.names.Nodup ∧ (clean rc rn p).expos.Nodup ∧
      r = clean rc rn p := by
  unfold regenerate
  rw [fromAttributes_some_iff, rawPoly_self]
  simp [attrNames, Poly.cols, Poly.expos]

/-- **4.** rebuilding a well-formed polynomial with at least one term from `(names, exponents, coefficients)`
succeeds and gives `clean` of it; the "rows stay duplicate-free" side condition of `regenerate_attrs` is automatic -/
theorem regenerate_WF [BEq S] [LawfulBEq S] (rc rn : Bool) (p : Poly S) (hw : WF p) (hne : p.terms ≠ []) :
    regenerate rc rn p = some (clean rc rn p) := by
  refine (regenerate_some_iff rc rn p _).2 ⟨?_, hw.names_nodup, (WF_clean rc rn p hw).expos_nodup, rfl⟩
  cases hh : p.terms with
  | nil => exact absurd hh hne
  | cons t ts =>
    have : t.1 ∈ p.expos := by simp [Poly.expos, hh]
    simpa [Poly.expos, hh] using (hw.row_len t.1 this).symm

/-- `regenerate_attrs` re-exported (its third hypothesis is not needed) -/
theorem fromAttributes_regenerates [BEq S] [LawfulBEq S] (rc rn : Bool) (p : Poly S) (hw : WF p)
    (hne : p.terms ≠ []) (_hc : (clean rc rn p).expos.Nodup) : regenerate rc rn p = some (clean rc rn p) :=
  regenerate_WF rc rn p hw hne

/-- the regenerated polynomial is well-formed and denotes the same polynomial -/
theorem regenerate_den_WF [BEq S] [LawfulBEq S] (rc rn : Bool) (p : Poly S) (hw : WF p) (hne : p.terms ≠ []) :
    ∃ r, regenerate rc rn p = some r ∧ den r = den p ∧ WF r :=
  ⟨_, regenerate_WF rc rn p hw hne, den_clean' rc rn p hw.names_nodup, WF_clean rc rn p hw⟩

/-- **5.** an already clean polynomial regenerates to the very same representation … -/
theorem regenerate_fixed [BEq S] [LawfulBEq S] (rc rn : Bool) (p : Poly S) (hw : WF p) (hne : p.terms ≠ [])
    (hcl : clean rc rn p = p) : regenerate rc rn p = some p := by
  rw [regenerate_WF rc rn p hw hne, hcl]

/-- … and with both retain flags on every well-formed polynomial does -/
theorem regenerate_retain [BEq S] [LawfulBEq S] (p : Poly S) (hw : WF p) (hne : p.terms ≠ []) :
    regenerate true true p = some p :=
  regenerate_fixed true true p hw hne rfl

/-- cleaning is idempotent through the constructor: regenerating twice is regenerating once, provided the
cleaned polynomial is a fixed point of `clean` -/
theorem regenerate_twice [BEq S] [LawfulBEq S] (rc rn : Bool) (p : Poly S) (hw : WF p)
    (hne : (clean rc rn p).terms ≠ []) (hcl : clean rc rn (clean rc rn p) = clean rc rn p) :
    regenerate rc rn (clean rc rn p) = some (clean rc rn p) :=
  regenerate_fixed rc rn _ (WF_clean rc rn p hw) hne hcl

/-- the term-less representation (never produced by the library) regenerates only without names -/
theorem regenerate_no_terms [BEq S] [LawfulBEq S] (rc rn : Bool) (p : Poly S) (he : p.terms = [])
    (hn : p.names ≠ []) : regenerate rc rn p = none := by
  cases hr : regenerate rc rn p with
  | none => rfl
  | some r =>
    obtain ⟨hl, _⟩ := (regenerate_some_iff rc rn p r).1 hr
    simp only [Poly.expos, he, List.map_nil, List.headD_nil, List.length_nil, List.length_eq_zero_iff] at hl
    exact absurd hl hn

/-- non-vacuity: unsorted rows, an all-zero term and an unused name, both flags off -/
example : (fromAttributes false false (some [0, 3]) [[0, 1], [0, 0], [0, 2]] [(0 : Int), 1, 3]).map
      (fun p => (p.names, p.terms)) = some ([3], [([0], 1), ([2], 3)]) := by decide
/-- duplicate raw rows (`[0,1]` twice, once with a zero coefficient) are accepted when the zero term is removed
before the duplicate check, and rejected when coefficients are retained -/
example : (fromAttributes false true (some [0, 3]) [[0, 1], [0, 1]] [(0 : Int), 5]).map
      (fun p => (p.names, p.terms)) = some ([0, 3], [([0, 1], 5)]) := by decide
example : (fromAttributes true true (some [0, 3]) [[0, 1], [0, 1]] [(0 : Int), 5]).isNone = true := by decide
/-- default names `0 .. width-1` -/
example : (fromAttributes true true none [[1, 0], [0, 2]] [(2 : Int), 3]).map
      (fun p => (p.names, p.terms)) = some ([0, 1], [([1, 0], 2), ([0, 2], 3)]) := by decide
end Np

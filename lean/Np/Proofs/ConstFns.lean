import Np.Model.ConstFns
import Np.Proofs.ReduceFns
import Mathlib.Tactic.Ring
import Mathlib.Tactic.Linarith
import Mathlib.Data.Rat.Floor
/-! C11: the value-array functions of `Np.ConstFns` are numpy's `argmax/argmin`, `amax/amin`, `count_nonzero`,
`nonzero`, `any/all`, `floor_divide/remainder`, `floor/ceil/rint/trunc`, `isclose`, stated by their defining
properties (which determine the result uniquely) and, along an axis, in terms of multi-indices. -/
namespace Np.ConstFns
open Np.Shape Np.ReduceFns

/-! ### 1. argmax / argmin of a list -/

/-- the scan either keeps the incoming best (nothing later is larger) or ends at a later position whose value is
strictly larger than the incoming best, at least every entry, and strictly larger than every earlier entry -/
theorem argBest_max : ∀ (xs : List Int) (k bi : Nat) (bv : Int),
    (argBest (fun y b => decide (b < y)) xs k bi bv = bi ∧ ∀ x ∈ xs, x ≤ bv) ∨
    ∃ i, argBest (fun y b => decide (b < y)) xs k bi bv = k + i ∧ i < xs.length ∧ bv < xs.getD i 0 ∧
      (∀ x ∈ xs, x ≤ xs.getD i 0) ∧ ∀ t < i, xs.getD t 0 < xs.getD i 0
  | [], _, _, _ => by simp [argBest]
  | x :: xs, k, bi, bv => by
    by_cases hx : bv < x
    · have he : argBest (fun y b => decide (b < y)) (x :: xs) k bi bv =
          argBest (fun y b => decide (b < y)) xs (k + 1) k x := by simp [argBest, hx]
      rw [he]
      right
      rcases argBest_max xs (k + 1) k x with ⟨h1, h2⟩ | ⟨i, h1, h2, h3, h4, h5⟩
      · refine ⟨0, by simpa using h1, by simp, by simpa using hx, ?_, by simp⟩
        intro y hy
        rcases List.mem_cons.1 hy with rfl | hy
        · simp
        · simpa using h2 y hy
      · refine ⟨i + 1, by rw [h1]; omega, by simpa using h2, ?_, ?_, ?_⟩
        · simp only [List.getD_cons_succ]; omega
        · intro y hy
          simp only [List.getD_cons_succ]
          rcases List.mem_cons.1 hy with rfl | hy
          · omega
          · exact h4 y hy
        · intro t ht
          simp only [List.getD_cons_succ]
          cases t with
          | zero => simpa using h3
          | succ t => simpa using h5 t (by omega)
    · have he : argBest (fun y b => decide (b < y)) (x :: xs) k bi bv =
          argBest (fun y b => decide (b < y)) xs (k + 1) bi bv := by simp [argBest, hx]
      rw [he]
      rcases argBest_max xs (k + 1) bi bv with ⟨h1, h2⟩ | ⟨i, h1, h2, h3, h4, h5⟩
      · left
        refine ⟨h1, ?_⟩
        intro y hy
        rcases List.mem_cons.1 hy with rfl | hy
        · omega
        · exact h2 y hy
      · right
        refine ⟨i + 1, by rw [h1]; omega, by simpa using h2, ?_, ?_, ?_⟩
        · simpa using h3
        · intro y hy
          simp only [List.getD_cons_succ]
          rcases List.mem_cons.1 hy with rfl | hy
          · omega
          · exact h4 y hy
        · intro t ht
          simp only [List.getD_cons_succ]
          cases t with
          | zero => simp only [List.getD_cons_zero]; omega
          | succ t => simpa using h5 t (by omega)

theorem getD_of_lt {xs : List Int} {t : Nat} (ht : t < xs.length) : xs.getD t 0 = xs[t] :=
  (List.getElem_eq_getD 0).symm

theorem getD_le_of_mem {xs : List Int} {v : Int} (h : ∀ x ∈ xs, x ≤ v) {t : Nat} (ht : t < xs.length) :
    xs.getD t 0 ≤ v := by
  rw [getD_of_lt ht]
  exact h _ (List.getElem_mem ht)

/-- the defining property of `numpy.argmax` on a one-dimensional array -/
def IsArgmax (xs : List Int) (i : Nat) : Prop :=
  i < xs.length ∧ (∀ t < xs.length, xs.getD t 0 ≤ xs.getD i 0) ∧ ∀ t < i, xs.getD t 0 < xs.getD i 0
/-- the defining property of `numpy.argmin` -/
def IsArgmin (xs : List Int) (i : Nat) : Prop :=
  i < xs.length ∧ (∀ t < xs.length, xs.getD i 0 ≤ xs.getD t 0) ∧ ∀ t < i, xs.getD i 0 < xs.getD t 0

/-- **`argmaxFlat_spec`**: the returned index is in range, its entry is at least every entry, and every earlier entry
is strictly smaller (first occurrence) -/
theorem argmaxFlat_spec {xs : List Int} {i : Nat} (h : argmaxFlat xs = some i) : IsArgmax xs i := by
  cases xs with
  | nil => simp [argmaxFlat] at h
  | cons x xs =>
    simp only [argmaxFlat, Option.some.injEq] at h
    rcases argBest_max xs 1 0 x with ⟨h1, h2⟩ | ⟨j, h1, h2, h3, h4, h5⟩
    · obtain rfl : i = 0 := by omega
      refine ⟨by simp, ?_, by simp⟩
      intro t ht
      cases t with
      | zero => simp
      | succ t => simpa using getD_le_of_mem h2 (by simpa using ht)
    · obtain rfl : i = j + 1 := by omega
      refine ⟨by simpa using h2, ?_, ?_⟩
      · intro t ht
        cases t with
        | zero => simp only [List.getD_cons_zero, List.getD_cons_succ]; omega
        | succ t => simpa using getD_le_of_mem h4 (by simpa using ht)
      · intro t ht
        cases t with
        | zero => simpa using h3
        | succ t => simpa using h5 t (by omega)

theorem argmaxFlat_eq_none {xs : List Int} : argmaxFlat xs = none ↔ xs = [] := by
  cases xs <;> simp [argmaxFlat]

/-- the property determines the index: numpy's answer is the model's answer -/
theorem IsArgmax.unique {xs : List Int} {i j : Nat} (hi : IsArgmax xs i) (hj : IsArgmax xs j) : i = j := by
  rcases Nat.lt_trichotomy i j with h | h | h
  · have := hj.2.2 i h
    have := hi.2.1 j hj.1
    omega
  · exact h
  · have := hi.2.2 j h
    have := hj.2.1 i hi.1
    omega

theorem argmaxFlat_of_isArgmax {xs : List Int} {i : Nat} (h : IsArgmax xs i) : argmaxFlat xs = some i := by
  cases hx : argmaxFlat xs with
  | none => rw [argmaxFlat_eq_none.1 hx] at h; exact absurd h.1 (by simp)
  | some j => rw [(argmaxFlat_spec hx).unique h]

/-- `argmin` is `argmax` of the negated list -/
theorem argBest_neg : ∀ (xs : List Int) (k bi : Nat) (bv : Int),
    argBest (fun y b => decide (y < b)) xs k bi bv = argBest (fun y b => decide (b < y)) (xs.map (- ·)) k bi (-bv)
  | [], _, _, _ => rfl
  | x :: xs, k, bi, bv => by
    have hd : decide (x < bv) = decide (-bv < -x) := by simp
    simp only [argBest, List.map_cons, hd, argBest_neg xs]

theorem argminFlat_eq (xs : List Int) : argminFlat xs = argmaxFlat (xs.map (- ·)) := by
  cases xs with
  | nil => rfl
  | cons x xs => simp only [argminFlat, argmaxFlat, List.map_cons, argBest_neg]

theorem getD_map_neg (xs : List Int) (t : Nat) : (xs.map (- ·)).getD t 0 = -(xs.getD t 0) := by
  simp only [List.getD_eq_getElem?_getD, List.getElem?_map]
  cases xs[t]? <;> simp

/-- **`argminFlat_spec`**: in range, its entry is at most every entry, every earlier entry is strictly larger -/
theorem argminFlat_spec {xs : List Int} {i : Nat} (h : argminFlat xs = some i) : IsArgmin xs i := by
  rw [argminFlat_eq] at h
  obtain ⟨h1, h2, h3⟩ := argmaxFlat_spec h
  simp only [getD_map_neg, List.length_map] at h1 h2 h3
  exact ⟨h1, fun t ht => by have := h2 t ht; omega, fun t ht => by have := h3 t ht; omega⟩

theorem argminFlat_eq_none {xs : List Int} : argminFlat xs = none ↔ xs = [] := by
  cases xs <;> simp [argminFlat]

theorem IsArgmin.unique {xs : List Int} {i j : Nat} (hi : IsArgmin xs i) (hj : IsArgmin xs j) : i = j := by
  rcases Nat.lt_trichotomy i j with h | h | h
  · have := hj.2.2 i h
    have := hi.2.1 j hj.1
    omega
  · exact h
  · have := hi.2.2 j h
    have := hj.2.1 i hi.1
    omega

/-! ### 2. amax / amin of a list -/

theorem foldl_max_spec : ∀ (xs : List Int) (b : Int),
    (xs.foldl max b = b ∨ xs.foldl max b ∈ xs) ∧ b ≤ xs.foldl max b ∧ ∀ x ∈ xs, x ≤ xs.foldl max b
  | [], b => by simp
  | x :: xs, b => by
    obtain ⟨h1, h2, h3⟩ := foldl_max_spec xs (max b x)
    rw [List.foldl_cons]
    refine ⟨?_, by omega, ?_⟩
    · rcases h1 with h1 | h1
      · rcases Int.le_total b x with hbx | hbx
        · right; rw [h1, Int.max_eq_right hbx]; simp
        · left; rw [h1, Int.max_eq_left hbx]
      · right; exact List.mem_cons_of_mem _ h1
    · intro y hy
      rcases List.mem_cons.1 hy with rfl | hy
      · omega
      · exact h3 y hy

theorem foldl_min_neg : ∀ (xs : List Int) (b : Int), xs.foldl min b = -((xs.map (- ·)).foldl max (-b))
  | [], b => by simp
  | x :: xs, b => by
    have : -min b x = max (-b) (-x) := by omega
    rw [List.foldl_cons, foldl_min_neg xs, List.map_cons, List.foldl_cons, this]

theorem aminFlat_eq (xs : List Int) : aminFlat xs = (amaxFlat (xs.map (- ·))).map (- ·) := by
  cases xs with
  | nil => rfl
  | cons x xs => simp only [aminFlat, amaxFlat, List.map_cons, foldl_min_neg, Option.map_some]

/-- **`amax` is the value at `argmax`** -/
theorem amaxFlat_eq_argmax (xs : List Int) : amaxFlat xs = (argmaxFlat xs).map fun i => xs.getD i 0 := by
  cases hx : argmaxFlat xs with
  | none => rw [argmaxFlat_eq_none.1 hx]; rfl
  | some i =>
    obtain ⟨h1, h2, -⟩ := argmaxFlat_spec hx
    cases xs with
    | nil => simp at h1
    | cons x xs =>
      obtain ⟨m1, m2, m3⟩ := foldl_max_spec xs x
      simp only [amaxFlat, Option.map_some, Option.some.injEq]
      have hmem : xs.foldl max x ∈ x :: xs := by
        rcases m1 with m1 | m1
        · rw [m1]; simp
        · exact List.mem_cons_of_mem _ m1
      obtain ⟨t, ht, hv⟩ := List.getElem_of_mem hmem
      have ha := h2 t ht
      rw [getD_of_lt ht, hv] at ha
      have hb : (x :: xs).getD i 0 ≤ xs.foldl max x := by
        rw [getD_of_lt h1]
        rcases List.mem_cons.1 (List.getElem_mem h1) with h | h
        · rw [h]; exact m2
        · exact m3 _ h
      omega

/-- **`amin` is the value at `argmin`** -/
theorem aminFlat_eq_argmin (xs : List Int) : aminFlat xs = (argminFlat xs).map fun i => xs.getD i 0 := by
  rw [aminFlat_eq, amaxFlat_eq_argmax, argminFlat_eq]
  cases argmaxFlat (xs.map (- ·)) with
  | none => rfl
  | some i => simp only [Option.map_some, getD_map_neg, Int.neg_neg]

/-- `amax` is a member of the list that is at least every member -/
theorem amaxFlat_spec {xs : List Int} {v : Int} (h : amaxFlat xs = some v) : v ∈ xs ∧ ∀ x ∈ xs, x ≤ v := by
  rw [amaxFlat_eq_argmax] at h
  cases hx : argmaxFlat xs with
  | none => simp [hx] at h
  | some i =>
    obtain ⟨h1, h2, -⟩ := argmaxFlat_spec hx
    simp only [hx, Option.map_some, Option.some.injEq] at h
    subst h
    refine ⟨by rw [getD_of_lt h1]; exact List.getElem_mem h1, ?_⟩
    intro x hxm
    obtain ⟨t, ht, rfl⟩ := List.getElem_of_mem hxm
    have := h2 t ht
    rwa [getD_of_lt ht] at this

/-! ### 3. floor_divide / remainder -/

/-- **`floorDiv_spec`**: for `b ≠ 0`, `a = b * (a // b) + a % b` and the remainder lies between 0 and `b`, with the
sign of `b` -/
theorem floorDiv_spec (a b : Int) (hb : b ≠ 0) :
    a = b * floorDiv a b + pyMod a b ∧ ((0 ≤ pyMod a b ∧ pyMod a b < b) ∨ (b < pyMod a b ∧ pyMod a b ≤ 0)) := by
  simp only [pyMod, hb, if_false]
  refine ⟨by omega, ?_⟩
  by_cases h0 : 0 ≤ b
  · left
    have hpos : 0 < b := by omega
    simp only [floorDiv, h0, if_true, ← Int.emod_def]
    exact ⟨Int.emod_nonneg a hb, Int.emod_lt_of_pos a hpos⟩
  · right
    simp only [floorDiv, h0, if_false]
    have h1 := Int.emod_nonneg (-a) (b := -b) (by omega)
    have h2 := Int.emod_lt_of_pos (-a) (b := -b) (by omega)
    rw [Int.emod_def, Int.neg_mul] at h1 h2
    omega

/-- quotient and remainder are determined by the two properties -/
theorem floorDiv_unique {a b q r : Int} (h : a = b * q + r) (hr : (0 ≤ r ∧ r < b) ∨ (b < r ∧ r ≤ 0)) :
    q = floorDiv a b ∧ r = pyMod a b := by
  have hb : b ≠ 0 := by omega
  obtain ⟨h1, h2⟩ := floorDiv_spec a b hb
  generalize floorDiv a b = q' at h1 h2
  generalize pyMod a b = r' at h1 h2
  have hq : q = q' := by
    by_contra hne
    have hd : b * (q - q') = r' - r := by rw [Int.mul_sub]; omega
    rcases Int.lt_or_gt_of_ne hne with hlt | hgt
    · have h3 : q - q' ≤ -1 := by omega
      rcases Int.lt_or_gt_of_ne hb with hbn | hbp
      · have := Int.mul_le_mul_of_nonpos_left (a := b) (by omega) h3
        omega
      · have := Int.mul_le_mul_of_nonneg_left (c := b) h3 (by omega)
        omega
    · have h3 : 1 ≤ q - q' := by omega
      rcases Int.lt_or_gt_of_ne hb with hbn | hbp
      · have := Int.mul_le_mul_of_nonpos_left (a := b) (by omega) h3
        omega
      · have := Int.mul_le_mul_of_nonneg_left (c := b) h3 (by omega)
        omega
  subst hq
  exact ⟨rfl, by omega⟩

/-- the model's functions are Lean's floor division and remainder (`Int.fdiv`, `Int.fmod`) for `b ≠ 0` -/
theorem floorDiv_eq_fdiv (a b : Int) (hb : b ≠ 0) : floorDiv a b = Int.fdiv a b ∧ pyMod a b = Int.fmod a b := by
  have h := floorDiv_unique (a := a) (b := b) (q := a.fdiv b) (r := a.fmod b) (Int.mul_fdiv_add_fmod a b).symm ?_
  · exact ⟨h.1.symm, h.2.symm⟩
  · rcases Int.lt_or_gt_of_ne hb with hbn | hbp
    · right
      have h1 := Int.fmod_nonneg_of_pos (-a) (b := -b) (by omega)
      have h2 := Int.fmod_lt_of_pos (-a) (b := -b) (by omega)
      rw [Int.fmod_def, Int.neg_fdiv_neg, Int.neg_mul] at h1 h2
      rw [Int.fmod_def]
      omega
    · exact .inl ⟨Int.fmod_nonneg_of_pos a hbp, Int.fmod_lt_of_pos a hbp⟩

/-- `floorDiv` is the floor of the rational quotient -/
theorem floorDiv_eq_floor (a b : Int) (hb : b ≠ 0) : floorDiv a b = ⌊(a : ℚ) / (b : ℚ)⌋ := by
  by_cases h0 : 0 ≤ b
  · obtain ⟨d, rfl⟩ := Int.eq_ofNat_of_zero_le h0
    simp only [floorDiv, h0, if_true]
    exact_mod_cast (Rat.floor_intCast_div_natCast a d).symm
  · obtain ⟨d, hd⟩ := Int.eq_ofNat_of_zero_le (a := -b) (by omega)
    simp only [floorDiv, h0, if_false, hd]
    have : (a : ℚ) / (b : ℚ) = ((-a : Int) : ℚ) / ((d : Nat) : ℚ) := by
      have : (b : ℚ) = -((d : Nat) : ℚ) := by
        have : b = -(d : Int) := by omega
        rw [this]; push_cast; ring
      rw [this, Int.cast_neg, div_neg, neg_div]
    rw [this]
    exact (Rat.floor_intCast_div_natCast (-a) d).symm

theorem floorDiv_zero (a : Int) : floorDiv a 0 = 0 ∧ pyMod a 0 = 0 := by simp [floorDiv, pyMod]

/-! ### 4. rounding of fractions -/

/-- **`floorQ_spec`**: `floorQ q ≤ q < floorQ q + 1`, cross-multiplied by the denominator -/
theorem floorQ_spec (q : Int × Nat) (hd : 0 < q.2) :
    floorQ q * (q.2 : Int) ≤ q.1 ∧ q.1 < (floorQ q + 1) * (q.2 : Int) := by
  have hd' : (0 : Int) < q.2 := by exact_mod_cast hd
  have h1 := Int.mul_ediv_add_emod q.1 q.2
  have h2 := Int.emod_nonneg q.1 (b := (q.2 : Int)) (by omega)
  have h3 := Int.emod_lt_of_pos q.1 hd'
  simp only [floorQ]
  constructor <;> nlinarith

/-- **`ceilQ_spec`**: `ceilQ q - 1 < q ≤ ceilQ q` -/
theorem ceilQ_spec (q : Int × Nat) (hd : 0 < q.2) :
    (ceilQ q - 1) * (q.2 : Int) < q.1 ∧ q.1 ≤ ceilQ q * (q.2 : Int) := by
  obtain ⟨h1, h2⟩ := floorQ_spec (-q.1, q.2) hd
  simp only [floorQ] at h1 h2
  simp only [ceilQ]
  constructor <;> nlinarith

/-- an integer between `q - 1` (exclusive) and `q` is the floor -/
theorem floorQ_unique (q : Int × Nat) (hd : 0 < q.2) (z : Int) (h1 : z * (q.2 : Int) ≤ q.1)
    (h2 : q.1 < (z + 1) * (q.2 : Int)) : z = floorQ q := by
  obtain ⟨f1, f2⟩ := floorQ_spec q hd
  have hd' : (0 : Int) < q.2 := by exact_mod_cast hd
  by_contra hne
  rcases Int.lt_or_gt_of_ne hne with h | h
  · have : (z + 1) * (q.2 : Int) ≤ floorQ q * (q.2 : Int) := Int.mul_le_mul_of_nonneg_right (by omega) (by omega)
    omega
  · have : (floorQ q + 1) * (q.2 : Int) ≤ z * (q.2 : Int) := Int.mul_le_mul_of_nonneg_right (by omega) (by omega)
    omega

/-- `floorQ` / `ceilQ` are the floor / ceiling of the rational number `num / den` -/
theorem floorQ_eq_floor (q : Int × Nat) : floorQ q = ⌊(q.1 : ℚ) / (q.2 : ℚ)⌋ :=
  (Rat.floor_intCast_div_natCast q.1 q.2).symm
theorem ceilQ_eq_ceil (q : Int × Nat) : ceilQ q = ⌈(q.1 : ℚ) / (q.2 : ℚ)⌉ :=
  (Rat.ceil_intCast_div_natCast q.1 q.2).symm

/-- `truncQ` rounds towards zero: the floor of a non-negative, the ceiling of a negative fraction -/
theorem truncQ_spec (q : Int × Nat) (hd : 0 < q.2) : truncQ q = if 0 ≤ q.1 then floorQ q else ceilQ q := by
  have hd' : (0 : Int) < q.2 := by exact_mod_cast hd
  simp only [truncQ, floorQ, ceilQ]
  split
  · next h => exact Int.tdiv_eq_ediv_of_nonneg h
  · next h =>
    have := Int.tdiv_eq_ediv_of_nonneg (a := -q.1) (b := (q.2 : Int)) (by omega)
    rw [Int.neg_tdiv] at this
    omega

/-- **`rintQ_spec`**: `|q - rintQ q| ≤ 1/2` (as `|2 num - 2 r den| ≤ den`) and in the tie case the result is even -/
theorem rintQ_spec (q : Int × Nat) (hd : 0 < q.2) :
    -(q.2 : Int) ≤ 2 * q.1 - 2 * (rintQ q * (q.2 : Int)) ∧ 2 * q.1 - 2 * (rintQ q * (q.2 : Int)) ≤ (q.2 : Int) ∧
    ((2 * q.1 - 2 * (rintQ q * (q.2 : Int))).natAbs = q.2 → rintQ q % 2 = 0) := by
  obtain ⟨f1, f2⟩ := floorQ_spec q hd
  simp only [rintQ]
  generalize floorQ q = f at f1 f2 ⊢
  obtain ⟨P, hP⟩ : ∃ P, P = f * (q.2 : Int) := ⟨_, rfl⟩
  have hP1 : (f + 1) * (q.2 : Int) = P + q.2 := by rw [hP]; ring
  rw [hP1] at f2
  rw [← hP] at f1 ⊢
  split
  · rw [← hP]; omega
  · split
    · rw [hP1]; omega
    · split
      · rw [← hP]; omega
      · rw [hP1]; omega

/-- the two properties determine the result: an integer within 1/2 of `q`, even in the tie case, is `rintQ q` -/
theorem rintQ_unique (q : Int × Nat) (hd : 0 < q.2) (z : Int)
    (h1 : -(q.2 : Int) ≤ 2 * q.1 - 2 * (z * (q.2 : Int))) (h2 : 2 * q.1 - 2 * (z * (q.2 : Int)) ≤ (q.2 : Int))
    (h3 : (2 * q.1 - 2 * (z * (q.2 : Int))).natAbs = q.2 → z % 2 = 0) : z = rintQ q := by
  obtain ⟨r1, r2, r3⟩ := rintQ_spec q hd
  generalize rintQ q = r at r1 r2 r3
  have hd' : (0 : Int) < q.2 := by exact_mod_cast hd
  by_contra hne
  rcases Int.lt_or_gt_of_ne hne with h | h
  · -- z + 1 ≤ r: then z * d + d ≤ r * d, both at distance exactly d/2, and r = z + 1
    have hm : (z + 1) * (q.2 : Int) ≤ r * (q.2 : Int) := Int.mul_le_mul_of_nonneg_right (by omega) (by omega)
    have hz : (z + 1) * (q.2 : Int) = z * (q.2 : Int) + q.2 := by ring
    have hr : r = z + 1 := by
      by_contra hr
      have : (z + 2) * (q.2 : Int) ≤ r * (q.2 : Int) := Int.mul_le_mul_of_nonneg_right (by omega) (by omega)
      have hz2 : (z + 2) * (q.2 : Int) = z * (q.2 : Int) + 2 * q.2 := by ring
      omega
    subst hr
    have := h3 (by omega)
    have := r3 (by omega)
    omega
  · have hm : (r + 1) * (q.2 : Int) ≤ z * (q.2 : Int) := Int.mul_le_mul_of_nonneg_right (by omega) (by omega)
    have hz : (r + 1) * (q.2 : Int) = r * (q.2 : Int) + q.2 := by ring
    have hr : z = r + 1 := by
      by_contra hr
      have : (r + 2) * (q.2 : Int) ≤ z * (q.2 : Int) := Int.mul_le_mul_of_nonneg_right (by omega) (by omega)
      have hz2 : (r + 2) * (q.2 : Int) = r * (q.2 : Int) + 2 * q.2 := by ring
      omega
    subst hr
    have := h3 (by omega)
    have := r3 (by omega)
    omega

/-! ### 5. count_nonzero, nonzero -/

theorem foldl_count (p : Int → Bool) : ∀ (xs : List Int) (c : Nat),
    xs.foldl (fun c x => if p x then c + 1 else c) c = c + (xs.filter p).length
  | [], c => by simp
  | x :: xs, c => by
    rw [List.foldl_cons, foldl_count p xs, List.filter_cons]
    split
    · simp only [List.length_cons]; omega
    · rfl

/-- **`countNonzero`** is the length of the filter -/
theorem countNonzeroAll_eq (xs : List Int) : countNonzeroAll xs = (xs.filter (· != 0)).length := by
  exact (foldl_count (· != 0) xs 0).trans (Nat.zero_add _)

theorem anyAll_iff (xs : List Int) : anyAll xs = true ↔ ∃ x ∈ xs, x ≠ 0 := by simp [anyAll]
theorem allAll_iff (xs : List Int) : allAll xs = true ↔ ∀ x ∈ xs, x ≠ 0 := by simp [allAll]

theorem nonzeroPos_sorted (xs : List Int) : (nonzeroPos xs).Pairwise (· < ·) :=
  List.Pairwise.filter _ List.pairwise_lt_range

theorem mem_nonzeroPos {xs : List Int} {i : Nat} : i ∈ nonzeroPos xs ↔ i < xs.length ∧ xs.getD i 0 ≠ 0 := by
  simp [nonzeroPos]

/-- the multi-indices `numpy.nonzero` lists: `numpy.argwhere(a)`, the transpose of `numpy.nonzero(a)` -/
def nonzeroIdx (shape : List Nat) (xs : List Int) : List (List Nat) := (nonzeroPos xs).map (unravel shape)

/-- **`nonzeroF_spec`** for an array `xs` of shape `shape`: (a) one list per dimension, all of the same length;
(b) the `k`-th entries of the lists form the `k`-th multi-index of `nonzeroIdx`; (c) these multi-indices are inside
the shape and in strictly increasing flat (C) order; (d) a multi-index inside the shape is listed iff its entry is
non-zero -/
theorem nonzeroF_spec (shape : List Nat) (xs : List Int) (hxs : xs.length = size shape) :
    (nonzeroF shape xs).length = shape.length ∧
    (∀ l ∈ nonzeroF shape xs, l.length = (nonzeroIdx shape xs).length) ∧
    (∀ k < (nonzeroIdx shape xs).length,
      (nonzeroF shape xs).map (fun l => l.getD k 0) = (nonzeroIdx shape xs).getD k []) ∧
    (∀ idx ∈ nonzeroIdx shape xs, InR idx shape) ∧
    (nonzeroIdx shape xs).Pairwise (fun i j => ravel shape i < ravel shape j) ∧
    ∀ idx, InR idx shape → (idx ∈ nonzeroIdx shape xs ↔ xs.getD (ravel shape idx) 0 ≠ 0) := by
  have hpos : ∀ i ∈ nonzeroPos xs, ∀ d ∈ shape, 0 < d := fun i hi =>
    pos_of_size_pos (Nat.zero_lt_of_lt (hxs ▸ (mem_nonzeroPos.1 hi).1))
  refine ⟨by simp [nonzeroF], ?_, ?_, ?_, ?_, ?_⟩
  · intro l hl
    obtain ⟨d, -, rfl⟩ := List.mem_map.1 hl
    simp [nonzeroIdx]
  · intro k hk
    simp only [nonzeroIdx, List.length_map] at hk
    simp only [nonzeroF, nonzeroIdx, List.map_map, Function.comp_def, List.getD_eq_getElem?_getD, List.getElem?_map,
      List.getElem?_eq_getElem hk, Option.map_some, Option.getD_some]
    apply List.ext_getElem
    · simp [unravel_length]
    · intro d h1 h2
      simp only [List.length_map, List.length_range] at h1
      simp [List.getElem?_eq_getElem (unravel_length shape _ ▸ h1)]
  · intro idx h
    obtain ⟨i, hi, rfl⟩ := List.mem_map.1 h
    exact unravel_lt (hpos i hi) i
  · rw [nonzeroIdx, List.pairwise_map]
    refine (nonzeroPos_sorted xs).imp_of_mem ?_
    intro i j hi hj hij
    rwa [ravel_unravel (hpos i hi) (hxs ▸ (mem_nonzeroPos.1 hi).1),
      ravel_unravel (hpos j hj) (hxs ▸ (mem_nonzeroPos.1 hj).1)]
  · intro idx hidx
    constructor
    · intro h
      obtain ⟨i, hi, rfl⟩ := List.mem_map.1 h
      rw [ravel_unravel (hpos i hi) (hxs ▸ (mem_nonzeroPos.1 hi).1)]
      exact (mem_nonzeroPos.1 hi).2
    · intro h
      exact List.mem_map.2 ⟨_, mem_nonzeroPos.2 ⟨hxs ▸ hidx.ravel_lt, h⟩, unravel_ravel hidx⟩

/-! ### 6. lanes along an axis, in multi-index terms -/

/-- the values along the axis at the multi-index `x` before and `y` after it -/
def lane (a b : List Nat) (n : Nat) (xs : List Int) (x y : List Nat) : List Int :=
  (List.range n).map fun t => xs.getD (ravel (a ++ n :: b) (x ++ t :: y)) 0

theorem lane_length (a b : List Nat) (n : Nat) (xs : List Int) (x y : List Nat) : (lane a b n xs x y).length = n := by
  simp [lane]

theorem lane_getD (a b : List Nat) {n : Nat} (xs : List Int) (x y : List Nat) {t : Nat} (ht : t < n) :
    (lane a b n xs x y).getD t 0 = xs.getD (ravel (a ++ n :: b) (x ++ t :: y)) 0 := by
  simp [lane, List.getD_eq_getElem?_getD, List.getElem?_map, List.getElem?_range ht]

/-- **lanes**: on the shape `a ++ n :: b` along `axis = a.length` the result has the shape `a ++ b`, one entry per
output position, and the entry at the output multi-index `x ++ y` is `f` of the values at `x ++ t :: y`, `t < n` -/
theorem laneMap_spec {α : Type} (f : List Int → α) (a b : List Nat) (n : Nat) (xs : List Int) :
    ∃ L, laneMap f (a ++ n :: b) xs a.length = some (a ++ b, L) ∧ L.length = size (a ++ b) ∧
      ∀ x y, InR x a → InR y b → L[ravel (a ++ b) (x ++ y)]? = some (f (lane a b n xs x y)) := by
  obtain ⟨T, hT, hlen, -, hrow⟩ := sumAxisW_spec a b n false
  simp only [sumOut, sumIdx, Bool.false_eq_true, if_false] at hT hlen hrow
  refine ⟨T.map fun row => f (row.map fun iw => xs.getD iw.1 0), by simp only [laneMap, hT, Option.map_some],
    by simpa using hlen, ?_⟩
  intro x y hx hy
  have hin : InR (x ++ y) (a ++ b) := List.rel_append hx hy
  have hlt : ravel (a ++ b) (x ++ y) < T.length := hlen ▸ InR.ravel_lt hin
  have h := hrow x y hx hy
  rw [List.getD_eq_getElem?_getD, List.getElem?_eq_getElem hlt, Option.getD_some] at h
  rw [List.getElem?_map, List.getElem?_eq_getElem hlt, Option.map_some, h]
  simp [lane, List.map_map, Function.comp_def]

/-- out of range: numpy raises `AxisError` -/
theorem laneMap_none {α : Type} (f : List Int → α) (shape : List Nat) (xs : List Int) (axis : Nat)
    (h : shape.length ≤ axis) : laneMap f shape xs axis = none := by
  simp [laneMap, sumAxisW_none shape axis false h]

theorem laneMapNE_spec {α : Type} (f : List Int → α) (a b : List Nat) {n : Nat} (hn : 0 < n) (xs : List Int) :
    ∃ L, laneMapNE f (a ++ n :: b) xs a.length = some (a ++ b, L) ∧ L.length = size (a ++ b) ∧
      ∀ x y, InR x a → InR y b → L[ravel (a ++ b) (x ++ y)]? = some (f (lane a b n xs x y)) := by
  have : ¬ dimOf (a ++ n :: b) a.length = 0 := by rw [dimOf_split]; omega
  simp only [laneMapNE, this, if_false]
  exact laneMap_spec f a b n xs

/-- numpy raises for a reduction without identity over an empty axis, and for an axis out of range -/
theorem laneMapNE_none {α : Type} (f : List Int → α) (shape : List Nat) (xs : List Int) (axis : Nat)
    (h : shape.length ≤ axis ∨ shape[axis]? = some 0) : laneMapNE f shape xs axis = none := by
  rcases h with h | h
  · simp [laneMapNE, laneMap_none f shape xs axis h]
  · simp [laneMapNE, dimOf, List.getD_eq_getElem?_getD, h]

/-- **`argmaxAxis_spec`**: `numpy.argmax(a, axis)` on the shape `a ++ n :: b`, `n > 0`, along `axis = a.length`:
the shape `a ++ b`, and at the output multi-index `x ++ y` an index `i < n` with `a[x, i, y] ≥ a[x, t, y]` for all
`t < n` and `a[x, t, y] < a[x, i, y]` for all `t < i` (first occurrence) -/
theorem argmaxAxis_spec (a b : List Nat) {n : Nat} (hn : 0 < n) (xs : List Int) :
    ∃ I, argmaxAxis (a ++ n :: b) xs a.length = some (a ++ b, I) ∧ I.length = size (a ++ b) ∧
      ∀ x y, InR x a → InR y b → ∃ i, I[ravel (a ++ b) (x ++ y)]? = some i ∧ i < n ∧
        (∀ t < n, xs.getD (ravel (a ++ n :: b) (x ++ t :: y)) 0 ≤ xs.getD (ravel (a ++ n :: b) (x ++ i :: y)) 0) ∧
        ∀ t < i, xs.getD (ravel (a ++ n :: b) (x ++ t :: y)) 0 < xs.getD (ravel (a ++ n :: b) (x ++ i :: y)) 0 := by
  obtain ⟨I, hI, hlen, hrow⟩ := laneMapNE_spec (fun l => (argmaxFlat l).getD 0) a b hn xs
  refine ⟨I, hI, hlen, fun x y hx hy => ?_⟩
  cases hm : argmaxFlat (lane a b n xs x y) with
  | none =>
    have := congrArg List.length (argmaxFlat_eq_none.1 hm)
    rw [lane_length] at this
    exact absurd this (by simp; omega)
  | some i =>
    obtain ⟨h1, h2, h3⟩ := argmaxFlat_spec hm
    rw [lane_length] at h1 h2
    refine ⟨i, by rw [hrow x y hx hy, hm]; rfl, h1, ?_, ?_⟩
    · intro t ht
      have := h2 t ht
      rwa [lane_getD (t := t) _ _ _ _ _ ht, lane_getD _ _ _ _ _ h1] at this
    · intro t ht
      have := h3 t ht
      rwa [lane_getD (t := t) _ _ _ _ _ (by omega), lane_getD _ _ _ _ _ h1] at this

/-- **`argminAxis_spec`**: the same with the order reversed -/
theorem argminAxis_spec (a b : List Nat) {n : Nat} (hn : 0 < n) (xs : List Int) :
    ∃ I, argminAxis (a ++ n :: b) xs a.length = some (a ++ b, I) ∧ I.length = size (a ++ b) ∧
      ∀ x y, InR x a → InR y b → ∃ i, I[ravel (a ++ b) (x ++ y)]? = some i ∧ i < n ∧
        (∀ t < n, xs.getD (ravel (a ++ n :: b) (x ++ i :: y)) 0 ≤ xs.getD (ravel (a ++ n :: b) (x ++ t :: y)) 0) ∧
        ∀ t < i, xs.getD (ravel (a ++ n :: b) (x ++ i :: y)) 0 < xs.getD (ravel (a ++ n :: b) (x ++ t :: y)) 0 := by
  obtain ⟨I, hI, hlen, hrow⟩ := laneMapNE_spec (fun l => (argminFlat l).getD 0) a b hn xs
  refine ⟨I, hI, hlen, fun x y hx hy => ?_⟩
  cases hm : argminFlat (lane a b n xs x y) with
  | none =>
    have := congrArg List.length (argminFlat_eq_none.1 hm)
    rw [lane_length] at this
    exact absurd this (by simp; omega)
  | some i =>
    obtain ⟨h1, h2, h3⟩ := argminFlat_spec hm
    rw [lane_length] at h1 h2
    refine ⟨i, by rw [hrow x y hx hy, hm]; rfl, h1, ?_, ?_⟩
    · intro t ht
      have := h2 t ht
      rwa [lane_getD (t := t) _ _ _ _ _ ht, lane_getD _ _ _ _ _ h1] at this
    · intro t ht
      have := h3 t ht
      rwa [lane_getD (t := t) _ _ _ _ _ (by omega), lane_getD _ _ _ _ _ h1] at this

/-- **`amaxAxis` is the value at `argmaxAxis`**: same output shape, and at every output multi-index `x ++ y` the value
is `a[x, i, y]` for the index `i` that `argmaxAxis` gives there -/
theorem amaxAxis_eq_argmaxAxis (a b : List Nat) {n : Nat} (hn : 0 < n) (xs : List Int) :
    ∃ I V, argmaxAxis (a ++ n :: b) xs a.length = some (a ++ b, I) ∧ amaxAxis (a ++ n :: b) xs a.length = some (a ++ b, V) ∧
      V.length = I.length ∧ ∀ x y, InR x a → InR y b → ∃ i, I[ravel (a ++ b) (x ++ y)]? = some i ∧ i < n ∧
        V[ravel (a ++ b) (x ++ y)]? = some (xs.getD (ravel (a ++ n :: b) (x ++ i :: y)) 0) := by
  obtain ⟨I, hI, hlen, hrow⟩ := argmaxAxis_spec a b hn xs
  obtain ⟨V, hV, hlenV, hrowV⟩ := laneMapNE_spec (fun l => (amaxFlat l).getD 0) a b hn xs
  refine ⟨I, V, hI, hV, by rw [hlen, hlenV], fun x y hx hy => ?_⟩
  obtain ⟨i, hi, hin, hmax, hfirst⟩ := hrow x y hx hy
  refine ⟨i, hi, hin, ?_⟩
  have harg : argmaxFlat (lane a b n xs x y) = some i := by
    apply argmaxFlat_of_isArgmax
    refine ⟨by rwa [lane_length], ?_, ?_⟩
    · intro t ht
      rw [lane_length] at ht
      rw [lane_getD _ _ _ _ _ ht, lane_getD _ _ _ _ _ hin]
      exact hmax t ht
    · intro t ht
      rw [lane_getD _ _ _ _ _ (by omega), lane_getD _ _ _ _ _ hin]
      exact hfirst t ht
  rw [hrowV x y hx hy, amaxFlat_eq_argmax, harg, Option.map_some, Option.getD_some, lane_getD _ _ _ _ _ hin]

/-- **`aminAxis` is the value at `argminAxis`** -/
theorem aminAxis_eq_argminAxis (a b : List Nat) {n : Nat} (hn : 0 < n) (xs : List Int) :
    ∃ I V, argminAxis (a ++ n :: b) xs a.length = some (a ++ b, I) ∧ aminAxis (a ++ n :: b) xs a.length = some (a ++ b, V) ∧
      V.length = I.length ∧ ∀ x y, InR x a → InR y b → ∃ i, I[ravel (a ++ b) (x ++ y)]? = some i ∧ i < n ∧
        V[ravel (a ++ b) (x ++ y)]? = some (xs.getD (ravel (a ++ n :: b) (x ++ i :: y)) 0) := by
  obtain ⟨I, hI, hlen, hrow⟩ := laneMapNE_spec (fun l => (argminFlat l).getD 0) a b hn xs
  obtain ⟨V, hV, hlenV, hrowV⟩ := laneMapNE_spec (fun l => (aminFlat l).getD 0) a b hn xs
  refine ⟨I, V, hI, hV, by rw [hlen, hlenV], fun x y hx hy => ?_⟩
  cases hm : argminFlat (lane a b n xs x y) with
  | none =>
    have := congrArg List.length (argminFlat_eq_none.1 hm)
    rw [lane_length] at this
    exact absurd this (by simp; omega)
  | some i =>
    have hin : i < n := by simpa [lane_length] using (argminFlat_spec hm).1
    refine ⟨i, by rw [hrow x y hx hy, hm]; rfl, hin, ?_⟩
    rw [hrowV x y hx hy, aminFlat_eq_argmin, hm, Option.map_some, Option.getD_some, lane_getD _ _ _ _ _ hin]

/-- `argmax/argmin/amax/amin` raise over an empty axis or an axis out of range -/
theorem argmaxAxis_none (shape : List Nat) (xs : List Int) (axis : Nat)
    (h : shape.length ≤ axis ∨ shape[axis]? = some 0) :
    argmaxAxis shape xs axis = none ∧ argminAxis shape xs axis = none ∧ amaxAxis shape xs axis = none ∧
      aminAxis shape xs axis = none :=
  ⟨laneMapNE_none _ _ _ _ h, laneMapNE_none _ _ _ _ h, laneMapNE_none _ _ _ _ h, laneMapNE_none _ _ _ _ h⟩

/-- the form for any shape and valid axis, with `insertAt`: the entry at the output multi-index `j` (without the axis)
is `f` of the values at `j` with `t` inserted at the axis, `t < shape[axis]` -/
theorem laneMap_insertAt {α : Type} (f : List Int → α) (shape : List Nat) (xs : List Int) (axis : Nat)
    (h : axis < shape.length) :
    ∃ L, laneMap f shape xs axis = some (dropAxis shape axis, L) ∧ L.length = size (dropAxis shape axis) ∧
      ∀ j, InR j (dropAxis shape axis) → L[ravel (dropAxis shape axis) j]? =
        some (f ((List.range shape[axis]).map fun t => xs.getD (ravel shape (insertAt j axis t)) 0)) := by
  obtain ⟨hs, hl⟩ := shape_split h
  generalize shape[axis] = n at hs
  generalize shape.take axis = a at hs hl
  generalize shape.drop (axis + 1) = b at hs
  subst hs hl
  obtain ⟨L, hL, hlen, hrow⟩ := laneMap_spec f a b n xs
  refine ⟨L, by simpa using hL, by simpa using hlen, ?_⟩
  intro j hj
  rw [dropAxis_split] at hj ⊢
  have hx := List.forall₂_take_append j a b hj
  have hy := List.forall₂_drop_append j a b hj
  have := hrow _ _ hx hy
  rw [List.take_append_drop] at this
  rw [this]
  rfl

/-- **`argmaxAxis_spec`, any shape and valid non-empty axis**: at the output multi-index `j` the index `i` is in range,
`a[j with i inserted at the axis]` is at least every `a[j with t inserted]` and strictly larger for `t < i` -/
theorem argmaxAxis_insertAt (shape : List Nat) (xs : List Int) (axis : Nat) (h : axis < shape.length)
    (hn : 0 < shape[axis]) :
    ∃ I, argmaxAxis shape xs axis = some (dropAxis shape axis, I) ∧ I.length = size (dropAxis shape axis) ∧
      ∀ j, InR j (dropAxis shape axis) → ∃ i, I[ravel (dropAxis shape axis) j]? = some i ∧ i < shape[axis] ∧
        (∀ t < shape[axis], xs.getD (ravel shape (insertAt j axis t)) 0 ≤ xs.getD (ravel shape (insertAt j axis i)) 0) ∧
        ∀ t < i, xs.getD (ravel shape (insertAt j axis t)) 0 < xs.getD (ravel shape (insertAt j axis i)) 0 := by
  obtain ⟨I, hI, hlen, hrow⟩ := laneMap_insertAt (fun l => (argmaxFlat l).getD 0) shape xs axis h
  have hd : ¬ dimOf shape axis = 0 := by
    simp only [dimOf, List.getD_eq_getElem?_getD, List.getElem?_eq_getElem h, Option.getD_some]; omega
  refine ⟨I, by simp only [argmaxAxis, laneMapNE, hd, if_false, hI], hlen, fun j hj => ?_⟩
  have hg : ∀ t < shape[axis], ((List.range shape[axis]).map fun t => xs.getD (ravel shape (insertAt j axis t)) 0).getD t 0 =
      xs.getD (ravel shape (insertAt j axis t)) 0 := fun t ht => by
    simp [List.getD_eq_getElem?_getD, List.getElem?_map, List.getElem?_range ht]
  cases hm : argmaxFlat ((List.range shape[axis]).map fun t => xs.getD (ravel shape (insertAt j axis t)) 0) with
  | none =>
    have := congrArg List.length (argmaxFlat_eq_none.1 hm)
    simp at this; omega
  | some i =>
    obtain ⟨h1, h2, h3⟩ := argmaxFlat_spec hm
    simp only [List.length_map, List.length_range] at h1 h2
    refine ⟨i, by rw [hrow j hj, hm]; rfl, h1, ?_, ?_⟩
    · intro t ht
      have := h2 t ht
      rwa [hg t ht, hg i h1] at this
    · intro t ht
      have := h3 t ht
      rwa [hg t (by omega), hg i h1] at this

/-- **`countNonzeroAxis`**: at the output multi-index `x ++ y` the number of `t < n` with `a[x, t, y] ≠ 0` -/
theorem countNonzeroAxis_spec (a b : List Nat) (n : Nat) (xs : List Int) :
    ∃ C, countNonzeroAxis (a ++ n :: b) xs a.length = some (a ++ b, C) ∧ C.length = size (a ++ b) ∧
      ∀ x y, InR x a → InR y b → C[ravel (a ++ b) (x ++ y)]? =
        some ((List.range n).filter fun t => xs.getD (ravel (a ++ n :: b) (x ++ t :: y)) 0 != 0).length := by
  obtain ⟨C, hC, hlen, hrow⟩ := laneMap_spec countNonzeroAll a b n xs
  refine ⟨C, hC, hlen, fun x y hx hy => ?_⟩
  rw [hrow x y hx hy, countNonzeroAll_eq, lane, List.filter_map, List.length_map]
  rfl

/-- **`anyAxis` / `allAxis`**: at `x ++ y`, whether some / every `a[x, t, y]`, `t < n`, is non-zero -/
theorem anyAxis_spec (a b : List Nat) (n : Nat) (xs : List Int) :
    ∃ B, anyAxis (a ++ n :: b) xs a.length = some (a ++ b, B) ∧ B.length = size (a ++ b) ∧
      ∀ x y, InR x a → InR y b → ∃ v, B[ravel (a ++ b) (x ++ y)]? = some v ∧
        (v = true ↔ ∃ t < n, xs.getD (ravel (a ++ n :: b) (x ++ t :: y)) 0 ≠ 0) := by
  obtain ⟨B, hB, hlen, hrow⟩ := laneMap_spec anyAll a b n xs
  refine ⟨B, hB, hlen, fun x y hx hy => ⟨_, hrow x y hx hy, ?_⟩⟩
  simp [anyAll_iff, lane]

theorem allAxis_spec (a b : List Nat) (n : Nat) (xs : List Int) :
    ∃ B, allAxis (a ++ n :: b) xs a.length = some (a ++ b, B) ∧ B.length = size (a ++ b) ∧
      ∀ x y, InR x a → InR y b → ∃ v, B[ravel (a ++ b) (x ++ y)]? = some v ∧
        (v = true ↔ ∀ t < n, xs.getD (ravel (a ++ n :: b) (x ++ t :: y)) 0 ≠ 0) := by
  obtain ⟨B, hB, hlen, hrow⟩ := laneMap_spec allAll a b n xs
  refine ⟨B, hB, hlen, fun x y hx hy => ⟨_, hrow x y hx hy, ?_⟩⟩
  simp [allAll_iff, lane]

/-! ### 7. isclose -/

/-- the rational number a fraction stands for -/
def toQ (q : Int × Nat) : ℚ := (q.1 : ℚ) / (q.2 : ℚ)

/-- **`iscloseQ`** decides numpy's formula `|a - b| ≤ atol + rtol * |b|` over the rationals -/
theorem iscloseQ_iff (a b rtol atol : Int × Nat) (ha : 0 < a.2) (hb : 0 < b.2) (hr : 0 < rtol.2) (ht : 0 < atol.2) :
    iscloseQ a b rtol atol = true ↔ |toQ a - toQ b| ≤ toQ atol + toQ rtol * |toQ b| := by
  have ha' : (0 : ℚ) < a.2 := by exact_mod_cast ha
  have hb' : (0 : ℚ) < b.2 := by exact_mod_cast hb
  have hr' : (0 : ℚ) < rtol.2 := by exact_mod_cast hr
  have ht' : (0 : ℚ) < atol.2 := by exact_mod_cast ht
  have h1 : |toQ a - toQ b| = |(a.1 : ℚ) * b.2 - b.1 * a.2| / (a.2 * b.2) := by
    rw [toQ, toQ, div_sub_div _ _ ha'.ne' hb'.ne', mul_comm (a.2 : ℚ) (b.1 : ℚ), abs_div, abs_of_pos (mul_pos ha' hb')]
  have h2 : |toQ b| = |(b.1 : ℚ)| / b.2 := by rw [toQ, abs_div, abs_of_pos hb']
  rw [h1, h2, toQ, toQ, div_le_iff₀ (mul_pos ha' hb')]
  simp only [iscloseQ, decide_eq_true_eq]
  rw [← @Int.cast_le ℚ]
  push_cast [Nat.cast_natAbs]
  constructor
  · intro h
    have key : |(a.1 : ℚ) * b.2 - b.1 * a.2| * (atol.2 * rtol.2) ≤
        ((atol.1 : ℚ) / atol.2 + rtol.1 / rtol.2 * (|(b.1 : ℚ)| / b.2)) * (a.2 * b.2) * (atol.2 * rtol.2) := by
      have e : ((atol.1 : ℚ) / atol.2 + rtol.1 / rtol.2 * (|(b.1 : ℚ)| / b.2)) * (a.2 * b.2) * (atol.2 * rtol.2) =
          atol.1 * (a.2 * b.2 * rtol.2) + rtol.1 * (|(b.1 : ℚ)| * a.2 * atol.2) := by
        field_simp
      rw [e]
      linarith
    exact le_of_mul_le_mul_right key (mul_pos ht' hr')
  · intro h
    have e : ((atol.1 : ℚ) / atol.2 + rtol.1 / rtol.2 * (|(b.1 : ℚ)| / b.2)) * (a.2 * b.2) * (atol.2 * rtol.2) =
        atol.1 * (a.2 * b.2 * rtol.2) + rtol.1 * (|(b.1 : ℚ)| * a.2 * atol.2) := by
      field_simp
    have := mul_le_mul_of_nonneg_right h (mul_pos ht' hr').le
    rw [e] at this
    linarith

/-- `isclose` is not symmetric: `isclose(1, 3/2, rtol=3/8, atol=0)` holds, `isclose(3/2, 1, rtol=3/8, atol=0)` does not -/
example : iscloseQ (1, 1) (3, 2) (3, 8) (0, 1) = true ∧ iscloseQ (3, 2) (1, 1) (3, 8) (0, 1) = false := by decide

/-- with `rtol = 0` it is symmetric -/
theorem iscloseQ_symm_rtol0 (a b atol : Int × Nat) (d : Nat) : iscloseQ a b (0, d) atol = iscloseQ b a (0, d) atol := by
  have h : (a.1 * (b.2 : Int) - b.1 * (a.2 : Int)).natAbs = (b.1 * (a.2 : Int) - a.1 * (b.2 : Int)).natAbs := by omega
  simp only [iscloseQ, h, Int.zero_mul, Int.add_zero, Nat.mul_comm a.2 b.2]

theorem allcloseQ_iff (rtol atol : Int × Nat) : ∀ (as bs : List (Int × Nat)),
    allcloseQ as bs rtol atol = true ↔ ∀ ab ∈ as.zip bs, iscloseQ ab.1 ab.2 rtol atol = true
  | [], _ => by simp [allcloseQ]
  | _ :: _, [] => by simp [allcloseQ]
  | a :: as, b :: bs => by
    have ih := allcloseQ_iff rtol atol as bs
    simp only [allcloseQ, List.zipWith_cons_cons, List.all_cons, id, Bool.and_eq_true, List.zip_cons_cons,
      List.mem_cons, forall_eq_or_imp] at ih ⊢
    rw [ih]

end Np.ConstFns

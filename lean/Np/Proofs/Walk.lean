import Np.Proofs.Order
import Mathlib.Data.List.Basic
/-! C07: the comparison walk of `greater` computes `Gt` -/
namespace Np.Ord
variable {α R : Type} [LinearOrder α] [LinearOrder R]

/-- fold-overwrite walk used by greater/less/…/lead_exponent: overwrite the verdict where `P` holds -/
def walk {τ β : Type} (init : β) (P : τ → Bool) (v : τ → β) (xs : List τ) : β :=
  xs.foldl (fun acc x => if P x then v x else acc) init

theorem walk_last {τ β : Type} (init : β) (P : τ → Bool) (v : τ → β) (xs : List τ) :
    walk init P v xs = match (xs.reverse.find? P) with | some x => v x | none => init := by
  induction xs generalizing init with
  | nil => simp [walk]
  | cons x xs ih =>
    simp only [walk, List.foldl_cons] at ih ⊢
    rw [ih]
    simp only [List.reverse_cons, List.find?_append]
    cases h : xs.reverse.find? P <;> simp
    cases hx : P x <;> simp

/-- rows of two aligned polynomials: (monomial, coefficient of a, coefficient of b), ascending -/
abbrev Row (α R : Type) := α × R × R

def differs (t : Row α R) : Bool := t.2.1 != t.2.2

/-- the verdict of `numpy.greater` after the walk; `init` is the comparison at storage row 0 -/
def greaterWalk (init : Bool) (rows : List (Row α R)) : Bool :=
  walk init differs (fun t => decide (t.2.2 < t.2.1)) rows

theorem greaterWalk_spec (rows : List (Row α R)) (hs : rows.Pairwise (fun s t => s.1 < t.1))
    (f g : α → R) (hrow : ∀ t ∈ rows, f t.1 = t.2.1 ∧ g t.1 = t.2.2)
    (hout : ∀ m, m ∉ rows.map (·.1) → f m = g m)
    (r0 : Row α R) (h0 : r0 ∈ rows) :
    greaterWalk (decide (r0.2.2 < r0.2.1)) rows = true ↔ Gt f g := by
  unfold greaterWalk
  rw [walk_last]
  cases hfind : rows.reverse.find? differs with
  | none =>
    -- no row differs: f = g, and the initial verdict compares equal coefficients
    have hall : ∀ t ∈ rows, t.2.1 = t.2.2 := by
      intro t ht
      have := List.find?_eq_none.1 hfind t (List.mem_reverse.2 ht)
      simpa [differs] using this
    have hfg : f = g := by
      funext m
      by_cases hm : m ∈ rows.map (·.1)
      · obtain ⟨t, ht, rfl⟩ := List.mem_map.1 hm
        rw [(hrow t ht).1, (hrow t ht).2, hall t ht]
      · exact hout m hm
    simp only [hall r0 h0, lt_self_iff_false, decide_false, Bool.false_eq_true, false_iff]
    rw [hfg]; exact gt_irrefl g
  | some t =>
    have htmem : t ∈ rows := List.mem_reverse.1 (List.mem_of_find?_eq_some hfind)
    have htd : t.2.1 ≠ t.2.2 := by
      have := List.find?_some hfind; simpa [differs] using this
    -- rows above t agree
    have habove : ∀ m', t.1 < m' → f m' = g m' := by
      intro m' hm'
      by_cases hm : m' ∈ rows.map (·.1)
      · obtain ⟨u, hu, rfl⟩ := List.mem_map.1 hm
        by_contra hd
        have hud : differs u = true := by
          rw [(hrow u hu).1, (hrow u hu).2] at hd; simpa [differs] using hd
        -- u comes after t in `rows`, hence before t in the reversed list: find? would have returned it
        obtain ⟨_, as, bs, hsplit, hno⟩ := List.find?_eq_some_iff_append.1 hfind
        have hrows : rows = bs.reverse ++ t :: as.reverse := by
          have := congrArg List.reverse hsplit
          simpa using this
        rw [hrows, List.pairwise_append] at hs
        rw [hrows, List.mem_append, List.mem_cons] at hu
        rcases hu with hu | rfl | hu
        · have := hs.2.2 u hu t (by simp)
          exact lt_asymm this hm'
        · exact lt_irrefl _ hm'
        · have := hno u (List.mem_reverse.1 hu)
          simp [hud] at this
      · exact hout m' hm
    simp only [decide_eq_true_eq]
    constructor
    · intro h
      exact ⟨t.1, by rw [(hrow t htmem).1, (hrow t htmem).2]; exact h, habove⟩
    · intro hgt
      by_contra hnot
      have hlt : t.2.1 < t.2.2 := lt_of_le_of_ne (not_lt.1 hnot) htd
      exact gt_asymm f g hgt ⟨t.1, by rw [(hrow t htmem).1, (hrow t htmem).2]; exact hlt,
        fun m' hm' => (habove m' hm').symm⟩
end Np.Ord

import Np.Proofs.ShapeFns
import Np.Model.IndexFns
/-! C09: the index arithmetic of basic indexing, the split family, `diag`, `atleast_nd` and `broadcast_to`
(`Np/Model/IndexFns.lean`) in terms of multi-indices.  For every function: (a) the index list has one entry per
output position, (b) every entry is in range of the operand, (c) which operand multi-index an output multi-index
reads.  No positivity assumption on the dimensions is needed. -/
namespace Np.IndexFns
open Np.Shape Np.ShapeFns

/-! ### 1. Python slices -/

/-- where the clipped bounds of `slice.indices(n)` lie: in `[0, n]` for a positive step, in `[-1, n-1]` for a
negative one -/
theorem sliceIndices_bounds {n : Nat} {a b : Option Int} {st s e st' : Int}
    (h : sliceIndices n a b st = some (s, e, st')) :
    st ≠ 0 ∧ st' = st ∧ (0 < st → 0 ≤ s ∧ s ≤ n ∧ 0 ≤ e ∧ e ≤ n) ∧
      (st < 0 → -1 ≤ s ∧ s ≤ (n : Int) - 1 ∧ -1 ≤ e ∧ e ≤ (n : Int) - 1) := by
  unfold sliceIndices at h
  split at h
  · simp at h
  · rename_i h0
    simp only [Option.some.injEq, Prod.mk.injEq] at h
    obtain ⟨rfl, rfl, rfl⟩ := h
    refine ⟨h0, rfl, fun hp => ?_, fun hn => ?_⟩
    · have hn : ¬ st < 0 := by omega
      cases a <;> cases b <;> simp only [clip, hn, if_false] <;> omega
    · cases a <;> cases b <;> simp only [clip, hn, if_true] <;> omega

/-- the `k`-th position of `range(s, e, st)`, `k < sliceLen s e st`, lies strictly before `e` -/
theorem sliceLen_lt {s e st : Int} {k : Nat} (hk : k < sliceLen s e st) :
    (0 < st → s + k * st < e) ∧ (st < 0 → e < s + k * st) := by
  unfold sliceLen at hk
  constructor
  · intro hp
    rw [if_neg (by omega)] at hk
    split at hk
    · have h1 : (k : Int) ≤ (e - s - 1) / st := by omega
      have := Int.mul_le_of_le_ediv hp h1
      omega
    · omega
  · intro hn
    rw [if_pos hn] at hk
    split at hk
    · have h1 : (k : Int) ≤ (s - e - 1) / (-st) := by omega
      have := Int.mul_le_of_le_ediv (by omega) h1
      rw [Int.mul_neg] at this
      omega
    · omega

/-- `sliceLen` is exact: the next position is no longer before `e` -/
theorem sliceLen_max (s e st : Int) :
    (0 < st → e ≤ s + sliceLen s e st * st) ∧ (st < 0 → s + sliceLen s e st * st ≤ e) := by
  unfold sliceLen
  constructor
  · intro hp
    rw [if_neg (by omega)]
    split
    · have h0 : 0 ≤ (e - s - 1) / st := Int.ediv_nonneg (by omega) (by omega)
      have := Int.lt_ediv_add_one_mul_self (e - s - 1) hp
      rw [Int.toNat_of_nonneg (by omega)]
      omega
    · simp; omega
  · intro hn
    rw [if_pos hn]
    split
    · have h0 : 0 ≤ (s - e - 1) / (-st) := Int.ediv_nonneg (by omega) (by omega)
      have := Int.lt_ediv_add_one_mul_self (s - e - 1) (b := -st) (by omega)
      rw [Int.toNat_of_nonneg (by omega)]
      rw [Int.mul_neg] at this
      omega
    · simp; omega

/-- every position a slice reads exists: `0 ≤ start + k * step < n` for `k < sliceLen` -/
theorem sliceIndices_range {n : Nat} {a b : Option Int} {st s e st' : Int}
    (h : sliceIndices n a b st = some (s, e, st')) {k : Nat} (hk : k < sliceLen s e st') :
    0 ≤ s + k * st' ∧ s + k * st' < n := by
  obtain ⟨h0, rfl, hp, hn⟩ := sliceIndices_bounds h
  obtain ⟨lp, ln⟩ := sliceLen_lt hk
  have hk0 : (0 : Int) ≤ k := Int.natCast_nonneg k
  rcases Int.lt_or_gt_of_ne h0 with h1 | h1
  · have := ln h1
    have := hn h1
    have : (k : Int) * st' ≤ 0 := Int.mul_nonpos_of_nonneg_of_nonpos hk0 (by omega)
    omega
  · have := lp h1
    have := hp h1
    have : 0 ≤ (k : Int) * st' := Int.mul_nonneg hk0 (by omega)
    omega

/-- the slice has at most `n` positions -/
theorem sliceIndices_len_le {n : Nat} {a b : Option Int} {st s e st' : Int}
    (h : sliceIndices n a b st = some (s, e, st')) : sliceLen s e st' ≤ n := by
  obtain ⟨h0, rfl, hp, hn⟩ := sliceIndices_bounds h
  rcases Nat.eq_zero_or_pos (sliceLen s e st') with hz | hz
  · omega
  · have hr := sliceIndices_range h (k := sliceLen s e st' - 1) (by omega)
    have hc : ((sliceLen s e st' - 1 : Nat) : Int) = (sliceLen s e st' : Int) - 1 := by omega
    rw [hc] at hr
    generalize (sliceLen s e st' : Int) = L at hr hc
    rcases Int.lt_or_gt_of_ne h0 with h1 | h1
    · have := hn h1
      have : (L - 1) * st' ≤ (L - 1) * (-1) := Int.mul_le_mul_of_nonneg_left (by omega) (by omega)
      omega
    · have := hp h1
      have := (sliceLen_lt (s := s) (e := e) (st := st') (k := sliceLen s e st' - 1) (by omega)).1 h1
      have : (L - 1) * 1 ≤ (L - 1) * st' := Int.mul_le_mul_of_nonneg_left (by omega) (by omega)
      omega

theorem sliceIndices_isSome (n : Nat) (a b : Option Int) (st : Int) :
    (sliceIndices n a b st).isSome = decide (st ≠ 0) := by
  unfold sliceIndices
  split <;> simp_all

/-- the full slice `:` -/
theorem sliceIndices_full (n : Nat) : sliceIndices n none none 1 = some (0, (n : Int), 1) := by
  simp [sliceIndices]

theorem sliceLen_full (n : Nat) : sliceLen 0 n 1 = n := by
  unfold sliceLen
  rw [if_neg (by omega)]
  split
  · simp
  · omega

/-! ### 2. basic indexing -/

/-- the resolved items `ops` use up exactly the axes of `shape`, and read only existing positions -/
inductive Fits : List Nat → List AxOp → Prop
  | nil : Fits [] []
  | new {shape : List Nat} {ops : List AxOp} : Fits shape ops → Fits shape (.new :: ops)
  | fix {n : Nat} {shape : List Nat} {i : Nat} {ops : List AxOp} : i < n → Fits shape ops → Fits (n :: shape) (.fix i :: ops)
  | sl {n : Nat} {shape : List Nat} {s st : Int} {len : Nat} {ops : List AxOp} : (∀ k : Nat, k < len → 0 ≤ s + k * st ∧ s + k * st < n) → Fits shape ops →
      Fits (n :: shape) (.sl s st len :: ops)

theorem fits_full : ∀ shape : List Nat, Fits shape (shape.map fun n => .sl 0 1 n)
  | [] => .nil
  | n :: shape => .sl (fun k hk => by omega) (fits_full shape)

theorem resolve_fits : ∀ {items : List Item} {shape : List Nat} {ops : List AxOp},
    resolve shape items = some ops → Fits shape ops
  | [], shape, ops, h => by
    simp only [resolve, Option.some.injEq] at h
    subst h
    exact fits_full shape
  | .newaxis :: items, shape, ops, h => by
    simp only [resolve, Option.map_eq_some_iff] at h
    obtain ⟨ops', h', rfl⟩ := h
    exact .new (resolve_fits h')
  | .ellipsis :: items, shape, ops, h => by simp [resolve] at h
  | .int i :: items, [], ops, h => by simp [resolve] at h
  | .slice a b st :: items, [], ops, h => by simp [resolve] at h
  | .int i :: items, n :: shape, ops, h => by
    rw [resolve] at h
    split at h
    · rename_i hi
      simp only [Option.map_eq_some_iff] at h
      obtain ⟨ops', h', rfl⟩ := h
      exact .fix (by split <;> omega) (resolve_fits h')
    · simp at h
  | .slice a b st :: items, n :: shape, ops, h => by
    rw [resolve] at h
    split at h
    · simp at h
    · rename_i r hr
      obtain ⟨s, e, st'⟩ := r
      simp only [Option.map_eq_some_iff] at h
      obtain ⟨ops', h', rfl⟩ := h
      exact .sl (fun k hk => sliceIndices_range hr hk) (resolve_fits h')

theorem valid_cons_left {d : Nat} {ds j : List Nat} (h : Valid (d :: ds) j) :
    ∃ x xs, j = x :: xs ∧ x < d ∧ Valid ds xs := by
  cases j with
  | nil => simp [Valid] at h
  | cons x xs => exact ⟨x, xs, rfl, valid_cons.1 h⟩

/-- a valid output multi-index reads a valid operand multi-index -/
theorem inIndex_valid {shape : List Nat} {ops : List AxOp} (hf : Fits shape ops) :
    ∀ {j : List Nat}, Valid (outShape ops) j → Valid shape (inIndex ops j) := by
  induction hf with
  | nil => intro j _; simp [inIndex, Valid]
  | new _ ih =>
    intro j hj
    obtain ⟨x, xs, rfl, -, hxs⟩ := valid_cons_left hj
    exact ih hxs
  | fix hi _ ih =>
    intro j hj
    exact valid_cons.2 ⟨hi, ih hj⟩
  | sl hr _ ih =>
    intro j hj
    obtain ⟨x, xs, rfl, hx, hxs⟩ := valid_cons_left hj
    have := hr x hx
    exact valid_cons.2 ⟨by simp only [List.headD_cons]; omega, ih hxs⟩

theorem basicIndexF_eq {shape : List Nat} {items : List Item} {out idx : List Nat}
    (h : basicIndexF shape items = some (out, idx)) :
    ∃ items' ops, expand shape.length items = some items' ∧ resolve shape items' = some ops ∧
      out = outShape ops ∧ idx = gatherBy shape out (inIndex ops) := by
  unfold basicIndexF at h
  split at h
  · simp at h
  · rename_i items' he
    split at h
    · simp at h
    · rename_i ops hr
      simp only [Option.some.injEq, Prod.mk.injEq] at h
      obtain ⟨rfl, rfl⟩ := h
      exact ⟨items', ops, he, hr, rfl, rfl⟩

/-- (a) -/
theorem basicIndexF_length {shape : List Nat} {items : List Item} {out idx : List Nat}
    (h : basicIndexF shape items = some (out, idx)) : idx.length = size out := by
  obtain ⟨_, _, -, -, -, rfl⟩ := basicIndexF_eq h
  exact gatherBy_length _ _ _

/-- (b) -/
theorem basicIndexF_lt {shape : List Nat} {items : List Item} {out idx : List Nat}
    (h : basicIndexF shape items = some (out, idx)) : ∀ k ∈ idx, k < size shape := by
  obtain ⟨_, ops, -, hr, rfl, rfl⟩ := basicIndexF_eq h
  exact gatherBy_lt fun j hj => inIndex_valid (resolve_fits hr) hj

/-- numpy's rules for `a[items]` (ellipsis already expanded), axis by axis: `Reads shape items out j x` says that the
result has shape `out` and that its multi-index `j` reads the operand's multi-index `x` -/
inductive Reads : List Nat → List Item → List Nat → List Nat → List Nat → Prop
  | nil : Reads [] [] [] [] []
  /-- the axes left over when the items are used up are taken whole -/
  | rest {n k : Nat} {shape out j x : List Nat} : k < n → Reads shape [] out j x →
      Reads (n :: shape) [] (n :: out) (k :: j) (k :: x)
  /-- `newaxis`: an output axis of extent 1, no operand axis -/
  | newaxis {shape out j x : List Nat} {items : List Item} : Reads shape items out j x →
      Reads shape (.newaxis :: items) (1 :: out) (0 :: j) x
  /-- an integer `-n ≤ i < n`: no output axis, the operand axis is read at `i` (`i + n` if negative) -/
  | int {n xk : Nat} {i : Int} {shape out j x : List Nat} {items : List Item} : -(n : Int) ≤ i → i < n →
      (xk : Int) = (if i < 0 then i + n else i) → Reads shape items out j x →
      Reads (n :: shape) (.int i :: items) out j (xk :: x)
  /-- a slice: an output axis of extent `sliceLen`, position `k` reads operand position `start + k * step` -/
  | slice {n k xk : Nat} {a b : Option Int} {st s e st' : Int} {shape out j x : List Nat} {items : List Item} :
      sliceIndices n a b st = some (s, e, st') → k < sliceLen s e st' → (xk : Int) = s + k * st' →
      Reads shape items out j x →
      Reads (n :: shape) (.slice a b st :: items) (sliceLen s e st' :: out) (k :: j) (xk :: x)

/-- the rules only ever relate valid multi-indices -/
theorem Reads.valid {shape out j x : List Nat} {items : List Item} (h : Reads shape items out j x) :
    Valid out j ∧ Valid shape x := by
  induction h with
  | nil => simp [Valid]
  | rest hk _ ih => exact ⟨valid_cons.2 ⟨hk, ih.1⟩, valid_cons.2 ⟨hk, ih.2⟩⟩
  | newaxis _ ih => exact ⟨valid_cons.2 ⟨by omega, ih.1⟩, ih.2⟩
  | int h1 h2 hx _ ih => exact ⟨ih.1, valid_cons.2 ⟨by split at hx <;> omega, ih.2⟩⟩
  | slice hs hk hx _ ih =>
    have := sliceIndices_range hs hk
    exact ⟨valid_cons.2 ⟨hk, ih.1⟩, valid_cons.2 ⟨by omega, ih.2⟩⟩

theorem outShape_full : ∀ shape : List Nat, outShape (shape.map fun n => .sl 0 1 n) = shape
  | [] => rfl
  | n :: shape => by simp [outShape, outShape_full shape]

theorem reads_full : ∀ {shape j : List Nat}, Valid shape j →
    Reads shape [] shape j (inIndex (shape.map fun n => .sl 0 1 n) j)
  | [], j, h => by rw [valid_nil.1 h]; exact .nil
  | n :: shape, j, h => by
    obtain ⟨x, xs, rfl, hx, hxs⟩ := valid_cons_left h
    have : (0 + (x : Int) * 1).toNat = x := by omega
    simp only [List.map_cons, inIndex, List.headD_cons, List.tail_cons, this]
    exact .rest hx (reads_full hxs)

/-- (c) `resolve` follows numpy's rules -/
theorem resolve_reads : ∀ {items : List Item} {shape : List Nat} {ops : List AxOp},
    resolve shape items = some ops → ∀ {j : List Nat}, Valid (outShape ops) j →
    Reads shape items (outShape ops) j (inIndex ops j)
  | [], shape, ops, h, j, hj => by
    simp only [resolve, Option.some.injEq] at h
    subst h
    rw [outShape_full] at hj ⊢
    exact reads_full hj
  | .newaxis :: items, shape, ops, h, j, hj => by
    simp only [resolve, Option.map_eq_some_iff] at h
    obtain ⟨ops', h', rfl⟩ := h
    obtain ⟨x, xs, rfl, hx, hxs⟩ := valid_cons_left hj
    obtain rfl : x = 0 := by omega
    exact .newaxis (resolve_reads h' hxs)
  | .ellipsis :: items, shape, ops, h, _, _ => by simp [resolve] at h
  | .int i :: items, [], ops, h, _, _ => by simp [resolve] at h
  | .slice a b st :: items, [], ops, h, _, _ => by simp [resolve] at h
  | .int i :: items, n :: shape, ops, h, j, hj => by
    rw [resolve] at h
    split at h
    · rename_i hi
      simp only [Option.map_eq_some_iff] at h
      obtain ⟨ops', h', rfl⟩ := h
      exact .int hi.1 hi.2 (by split <;> omega) (resolve_reads h' hj)
    · simp at h
  | .slice a b st :: items, n :: shape, ops, h, j, hj => by
    rw [resolve] at h
    split at h
    · simp at h
    · rename_i r hr
      obtain ⟨s, e, st'⟩ := r
      simp only [Option.map_eq_some_iff] at h
      obtain ⟨ops', h', rfl⟩ := h
      obtain ⟨x, xs, rfl, hx, hxs⟩ := valid_cons_left hj
      have := sliceIndices_range hr hx
      exact .slice hr hx (by simp only [List.headD_cons]; omega) (resolve_reads h' hxs)

theorem filter_isEllipsis_eq_nil {items : List Item} (h : ∀ it ∈ items, it.isEllipsis = false) :
    items.filter Item.isEllipsis = [] := by
  simpa [List.filter_eq_nil_iff] using h

/-- without an ellipsis nothing is expanded -/
theorem expand_of_no_ellipsis (ndim : Nat) {items : List Item} (h : ∀ it ∈ items, it.isEllipsis = false) :
    expand ndim items = some items := by
  simp [expand, filter_isEllipsis_eq_nil h]

/-- (c) for `a[items]` without ellipsis: the shape and the element read follow numpy's rules `Reads` -/
theorem basicIndexF_spec {shape : List Nat} {items : List Item} {out idx : List Nat}
    (hne : ∀ it ∈ items, it.isEllipsis = false) (h : basicIndexF shape items = some (out, idx))
    {j : List Nat} (hj : Valid out j) :
    ∃ x, Reads shape items out j x ∧ Valid shape x ∧ idx[ravel out j]? = some (ravel shape x) := by
  obtain ⟨items', ops, he, hr, rfl, rfl⟩ := basicIndexF_eq h
  rw [expand_of_no_ellipsis _ hne, Option.some.injEq] at he
  subst he
  have := resolve_reads hr hj
  exact ⟨_, this, this.valid.2, gatherBy_spec hj⟩

/-- the output axis that operand axis `a` lands on when all items are integers or slices: every integer among the
first `a` items removes one axis -/
def outPos (items : List Item) (a : Nat) : Nat := a - ((items.take a).filter Item.isInt).length

theorem outPos_int (i : Int) (items : List Item) (a : Nat) : outPos (.int i :: items) (a + 1) = outPos items a := by
  simp only [outPos, List.take_succ_cons, List.filter_cons, Item.isInt, if_true, List.length_cons]
  omega

theorem outPos_slice (u v : Option Int) (w : Int) (items : List Item) (a : Nat) :
    outPos (.slice u v w :: items) (a + 1) = outPos items a + 1 := by
  have : ((items.take a).filter Item.isInt).length ≤ a :=
    Nat.le_trans (List.length_filter_le _ _) (by simp [List.length_take]; omega)
  simp only [outPos, List.take_succ_cons, List.filter_cons, Item.isInt]
  simp only [Bool.false_eq_true, if_false]
  omega

/-- (c) componentwise, for integers and slices only: on the axis of an integer item the operand is read at the
normalised integer; on the axis of a slice at `start + j_k * step` where `k` is the output axis of that slice (its
extent is `sliceLen`); the axes behind the last item are read at the same component -/
theorem Reads.getD {shape out j x : List Nat} {items : List Item} (h : Reads shape items out j x)
    (hc : ∀ it ∈ items, it.consumes = true) : ∀ a, a < shape.length →
    (∀ i, items[a]? = some (.int i) → (x.getD a 0 : Int) = if i < 0 then i + shape.getD a 0 else i) ∧
    (∀ u v w, items[a]? = some (.slice u v w) → ∃ s e, sliceIndices (shape.getD a 0) u v w = some (s, e, w) ∧
      out.getD (outPos items a) 0 = sliceLen s e w ∧ (x.getD a 0 : Int) = s + j.getD (outPos items a) 0 * w) ∧
    (items.length ≤ a → out.getD (outPos items a) 0 = shape.getD a 0 ∧ x.getD a 0 = j.getD (outPos items a) 0) := by
  induction h with
  | nil => intro a ha; simp at ha
  | rest hk _ ih =>
    intro a ha
    cases a with
    | zero => simp [outPos]
    | succ a =>
      have := (ih (by simp) a (by simpa using ha)).2.2 (by simp)
      simpa [outPos] using this
  | newaxis _ _ => simp [Item.consumes] at hc
  | @int n xk i shape out j x items h1 h2 hx _ ih =>
    intro a ha
    cases a with
    | zero =>
      refine ⟨fun i' hi => ?_, fun u v w hi => by simp at hi, fun hl => by simp at hl⟩
      simp only [List.getElem?_cons_zero, Option.some.injEq, Item.int.injEq] at hi
      subst hi
      simpa using hx
    | succ a =>
      have := ih (fun it hit => hc it (List.mem_cons_of_mem _ hit)) a (by simpa using ha)
      simp only [List.getElem?_cons_succ, List.getD_cons_succ, outPos_int, List.length_cons,
        Nat.add_le_add_iff_right]
      exact this
  | @slice n k xk u v w s e st' shape out j x items hs hk hx _ ih =>
    intro a ha
    obtain ⟨-, rfl, -, -⟩ := sliceIndices_bounds hs
    cases a with
    | zero =>
      refine ⟨fun i' hi => by simp at hi, fun u' v' w' hi => ?_, fun hl => by simp at hl⟩
      simp only [List.getElem?_cons_zero, Option.some.injEq, Item.slice.injEq] at hi
      obtain ⟨rfl, rfl, rfl⟩ := hi
      exact ⟨s, e, by simpa using hs, by simp [outPos], by simpa [outPos] using hx⟩
    | succ a =>
      have := ih (fun it hit => hc it (List.mem_cons_of_mem _ hit)) a (by simpa using ha)
      simp only [List.getElem?_cons_succ, List.getD_cons_succ, outPos_slice, List.length_cons,
        Nat.add_le_add_iff_right]
      exact this

/-- (c) for `a[i_0, .., i_m]` with integers and slices only, as `Reads.getD` -/
theorem basicIndexF_spec_getD {shape : List Nat} {items : List Item} {out idx : List Nat}
    (hc : ∀ it ∈ items, it.consumes = true) (h : basicIndexF shape items = some (out, idx))
    {j : List Nat} (hj : Valid out j) :
    ∃ x, idx[ravel out j]? = some (ravel shape x) ∧ Valid shape x ∧ ∀ a, a < shape.length →
      (∀ i, items[a]? = some (.int i) → (x.getD a 0 : Int) = if i < 0 then i + shape.getD a 0 else i) ∧
      (∀ u v w, items[a]? = some (.slice u v w) → ∃ s e, sliceIndices (shape.getD a 0) u v w = some (s, e, w) ∧
        out.getD (outPos items a) 0 = sliceLen s e w ∧ (x.getD a 0 : Int) = s + j.getD (outPos items a) 0 * w) ∧
      (items.length ≤ a → out.getD (outPos items a) 0 = shape.getD a 0 ∧ x.getD a 0 = j.getD (outPos items a) 0) := by
  have hne : ∀ it ∈ items, it.isEllipsis = false := by
    intro it hit
    have := hc it hit
    cases it <;> simp_all [Item.consumes, Item.isEllipsis]
  obtain ⟨x, hr, hv, hi⟩ := basicIndexF_spec hne h hj
  exact ⟨x, hi, hv, hr.getD hc⟩

/-! #### the ellipsis, too many indices -/

theorem flatMap_no_ellipsis (r : List Item) {items : List Item} (h : ∀ it ∈ items, it.isEllipsis = false) :
    (items.flatMap fun it => if it.isEllipsis then r else [it]) = items := by
  induction items with
  | nil => rfl
  | cons it items ih =>
    rw [List.flatMap_cons, ih fun x hx => h x (List.mem_cons_of_mem _ hx), h it (by simp)]
    simp

/-- one ellipsis stands for `ndim - (number of integers and slices)` full slices -/
theorem expand_ellipsis (ndim : Nat) {pre post : List Item} (hpre : ∀ it ∈ pre, it.isEllipsis = false)
    (hpost : ∀ it ∈ post, it.isEllipsis = false) :
    expand ndim (pre ++ .ellipsis :: post) =
      some (pre ++ List.replicate (ndim - ((pre ++ post).filter Item.consumes).length) Item.full ++ post) := by
  have h1 : ((pre ++ Item.ellipsis :: post).filter Item.isEllipsis).length = 1 := by
    simp [List.filter_append, List.filter_cons, filter_isEllipsis_eq_nil hpre, filter_isEllipsis_eq_nil hpost,
      Item.isEllipsis]
  have h2 : (pre ++ Item.ellipsis :: post).filter Item.consumes = (pre ++ post).filter Item.consumes := by
    simp [List.filter_append, Item.consumes]
  have h3 : Item.isEllipsis .ellipsis = true := rfl
  simp only [expand, h1, h2, List.flatMap_append, List.flatMap_cons, flatMap_no_ellipsis _ hpre,
    flatMap_no_ellipsis _ hpost, h3, if_true, List.append_assoc]

/-- two ellipses are an error -/
theorem expand_two (ndim : Nat) {items : List Item} (h : 2 ≤ (items.filter Item.isEllipsis).length) :
    expand ndim items = none := by
  unfold expand
  split <;> first | omega | rfl

theorem basicIndexF_two_ellipsis (shape : List Nat) {items : List Item}
    (h : 2 ≤ (items.filter Item.isEllipsis).length) : basicIndexF shape items = none := by
  simp [basicIndexF, expand_two _ h]

/-- `a[pre, ..., post]` is `a[pre, :, .., :, post]` -/
theorem basicIndexF_ellipsis (shape : List Nat) {pre post : List Item} (hpre : ∀ it ∈ pre, it.isEllipsis = false)
    (hpost : ∀ it ∈ post, it.isEllipsis = false) :
    basicIndexF shape (pre ++ .ellipsis :: post) = basicIndexF shape
      (pre ++ List.replicate (shape.length - ((pre ++ post).filter Item.consumes).length) Item.full ++ post) := by
  have hne : ∀ it ∈ pre ++ List.replicate (shape.length - ((pre ++ post).filter Item.consumes).length) Item.full ++
      post, it.isEllipsis = false := by
    intro it hit
    simp only [List.mem_append, List.mem_replicate] at hit
    rcases hit with (hit | hit) | hit
    · exact hpre it hit
    · rw [hit.2]; rfl
    · exact hpost it hit
  simp only [basicIndexF, expand_ellipsis _ hpre hpost, expand_of_no_ellipsis _ hne]

theorem resolve_consumes : ∀ {items : List Item} {shape : List Nat} {ops : List AxOp},
    resolve shape items = some ops → (items.filter Item.consumes).length ≤ shape.length
  | [], shape, ops, h => by simp
  | .newaxis :: items, shape, ops, h => by
    simp only [resolve, Option.map_eq_some_iff] at h
    obtain ⟨ops', h', rfl⟩ := h
    simpa [List.filter_cons, Item.consumes] using resolve_consumes h'
  | .ellipsis :: items, shape, ops, h => by simp [resolve] at h
  | .int i :: items, [], ops, h => by simp [resolve] at h
  | .slice a b st :: items, [], ops, h => by simp [resolve] at h
  | .int i :: items, n :: shape, ops, h => by
    rw [resolve] at h
    split at h
    · simp only [Option.map_eq_some_iff] at h
      obtain ⟨ops', h', rfl⟩ := h
      simpa [List.filter_cons, Item.consumes] using resolve_consumes h'
    · simp at h
  | .slice a b st :: items, n :: shape, ops, h => by
    rw [resolve] at h
    split at h
    · simp at h
    · simp only [Option.map_eq_some_iff] at h
      obtain ⟨ops', h', rfl⟩ := h
      simpa [List.filter_cons, Item.consumes] using resolve_consumes h'

theorem flatMap_consumes (r items : List Item) : (items.filter Item.consumes).length ≤
    ((items.flatMap fun it => if it.isEllipsis then r else [it]).filter Item.consumes).length := by
  induction items with
  | nil => simp
  | cons it items ih =>
    rw [List.flatMap_cons, List.filter_append, List.length_append, List.filter_cons]
    by_cases he : it.isEllipsis = true
    · have : it.consumes = false := by cases it <;> simp_all [Item.consumes, Item.isEllipsis]
      rw [if_pos he, this]
      simp only [Bool.false_eq_true, if_false]
      omega
    · rw [if_neg he, List.filter_cons]
      split <;> simp <;> omega

theorem expand_consumes {ndim : Nat} {items items' : List Item} (h : expand ndim items = some items') :
    (items.filter Item.consumes).length ≤ (items'.filter Item.consumes).length := by
  unfold expand at h
  split at h
  · simp only [Option.some.injEq] at h; subst h; exact Nat.le_refl _
  · simp only [Option.some.injEq] at h
    subst h
    exact flatMap_consumes _ _
  · simp at h

/-- more integers and slices than axes: numpy's "too many indices for array" -/
theorem basicIndexF_too_many {shape : List Nat} {items : List Item}
    (h : shape.length < (items.filter Item.consumes).length) : basicIndexF shape items = none := by
  cases hb : basicIndexF shape items with
  | none => rfl
  | some r =>
    obtain ⟨items', ops, he, hr, -, -⟩ := basicIndexF_eq (out := r.1) (idx := r.2) hb
    have := expand_consumes he
    have := resolve_consumes hr
    omega

/-! #### when numpy raises -/

/-- the `p`-th integer-or-slice item is acceptable on axis `p`: the axis exists, an integer is in `[-n, n)`, a
slice has a non-zero step -/
def ItemOK (shape : List Nat) (p : Nat) (it : Item) : Prop :=
  p < shape.length ∧ (∀ i, it = .int i → -(shape.getD p 0 : Int) ≤ i ∧ i < shape.getD p 0) ∧
    (∀ u v w, it = .slice u v w → w ≠ 0)

theorem itemOK_succ (n : Nat) (shape : List Nat) (p : Nat) (it : Item) :
    ItemOK (n :: shape) (p + 1) it ↔ ItemOK shape p it := by
  simp [ItemOK]

theorem forall_getElem?_cons {α : Type} (x : α) (l : List α) (P : Nat → α → Prop) :
    (∀ (p : Nat) (y : α), (x :: l)[p]? = some y → P p y) ↔ P 0 x ∧ ∀ (p : Nat) (y : α), l[p]? = some y → P (p + 1) y := by
  constructor
  · intro h
    exact ⟨h 0 x rfl, fun p y hp => h (p + 1) y (by simpa using hp)⟩
  · rintro ⟨h0, h⟩ p y hp
    cases p with
    | zero =>
      simp only [List.getElem?_cons_zero, Option.some.injEq] at hp
      subst hp
      exact h0
    | succ p => exact h p y (by simpa using hp)

/-- ellipsis-free items are accepted exactly when every integer / slice finds its axis, the integers are in range
and no slice has step 0 -/
theorem resolve_isSome : ∀ (items : List Item) (shape : List Nat), (∀ it ∈ items, it.isEllipsis = false) →
    ((resolve shape items).isSome = true ↔
      ∀ (p : Nat) (it : Item), (items.filter Item.consumes)[p]? = some it → ItemOK shape p it)
  | [], shape, _ => by simp [resolve]
  | .newaxis :: items, shape, hne => by
    have ih := resolve_isSome items shape fun it hit => hne it (List.mem_cons_of_mem _ hit)
    simpa [resolve, List.filter_cons, Item.consumes] using ih
  | .ellipsis :: items, shape, hne => by
    have := hne .ellipsis (by simp)
    simp [Item.isEllipsis] at this
  | .int i :: items, [], _ => by
    simp only [resolve, Option.isSome_none, Bool.false_eq_true, false_iff, List.filter_cons, Item.consumes, if_true]
    intro h
    exact absurd (h 0 _ rfl).1 (by simp)
  | .slice u v w :: items, [], _ => by
    simp only [resolve, Option.isSome_none, Bool.false_eq_true, false_iff, List.filter_cons, Item.consumes, if_true]
    intro h
    exact absurd (h 0 _ rfl).1 (by simp)
  | .int i :: items, n :: shape, hne => by
    have ih := resolve_isSome items shape fun it hit => hne it (List.mem_cons_of_mem _ hit)
    simp only [List.filter_cons, Item.consumes, if_true, forall_getElem?_cons, itemOK_succ, ← ih]
    have h0 : ItemOK (n :: shape) 0 (.int i) ↔ -(n : Int) ≤ i ∧ i < n := by simp [ItemOK]
    rw [h0, resolve]
    split
    · rename_i hc
      simp [hc]
    · rename_i hc
      simp [hc]
  | .slice u v w :: items, n :: shape, hne => by
    have ih := resolve_isSome items shape fun it hit => hne it (List.mem_cons_of_mem _ hit)
    simp only [List.filter_cons, Item.consumes, if_true, forall_getElem?_cons, itemOK_succ, ← ih]
    have h0 : ItemOK (n :: shape) 0 (.slice u v w) ↔ w ≠ 0 := by simp [ItemOK]
    have h1 := sliceIndices_isSome n u v w
    rw [h0, resolve]
    split
    · rename_i hs
      simp only [hs, Option.isSome_none, Bool.false_eq_true, false_iff] at h1 ⊢
      intro h
      simp [h.1] at h1
    · rename_i r hs
      simp only [hs, Option.isSome_some] at h1
      simp only [Option.isSome_map]
      have : w ≠ 0 := by simpa using h1.symm
      simp [this]

/-- `a[items]` without ellipsis raises exactly when an integer / slice finds no axis ("too many indices"), an
integer is out of range, or a slice has step 0 -/
theorem basicIndexF_isSome {shape : List Nat} {items : List Item} (hne : ∀ it ∈ items, it.isEllipsis = false) :
    (basicIndexF shape items).isSome = true ↔
      ∀ (p : Nat) (it : Item), (items.filter Item.consumes)[p]? = some it → ItemOK shape p it := by
  rw [← resolve_isSome items shape hne, basicIndexF, expand_of_no_ellipsis _ hne]
  cases hr : resolve shape items <;> simp [hr]

/-! ### 3. `splitF`, `arraySplitF`, `splitEqualF` -/

/-- the `p`-th division point of `numpy.split(a, sections)` on an axis of extent `n`: `0`, the cut points (clipped
to the extent), `n` -/
def cut (n : Nat) (sections : List Nat) (p : Nat) : Nat :=
  if p = 0 then 0 else if p ≤ sections.length then min (sections.getD (p - 1) 0) n else n

theorem pieces_length (n : Nat) : ∀ (ss : List Nat) (lo : Nat), (pieces n lo ss).length = ss.length + 1
  | [], _ => rfl
  | s :: ss, lo => by simp [pieces, pieces_length n ss]

/-- piece `p` is `[lo_p, hi_p)` with `hi_p` the clipped `p`-th cut point (the extent for the last piece) and
`lo_p = hi_{p-1}` -/
theorem pieces_getElem? (n : Nat) : ∀ (ss : List Nat) (lo p : Nat), p ≤ ss.length →
    (pieces n lo ss)[p]? = some (if p = 0 then lo else min (ss.getD (p - 1) 0) n,
      if p < ss.length then min (ss.getD p 0) n else n)
  | [], lo, p, hp => by
    obtain rfl : p = 0 := by simpa using hp
    simp [pieces]
  | s :: ss, lo, 0, _ => by simp [pieces]
  | s :: ss, lo, p + 1, hp => by
    rw [pieces, List.getElem?_cons_succ, pieces_getElem? n ss _ p (by simpa using hp)]
    cases p with
    | zero => simp
    | succ p => simp

theorem pieces_cut (n : Nat) (ss : List Nat) {p : Nat} (hp : p ≤ ss.length) :
    (pieces n 0 ss)[p]? = some (cut n ss p, cut n ss (p + 1)) := by
  have e1 : (if p = 0 then 0 else min (ss.getD (p - 1) 0) n) = cut n ss p := by
    unfold cut
    by_cases h : p = 0
    · rw [if_pos h, if_pos h]
    · rw [if_neg h, if_neg h, if_pos hp]
  have e2 : (if p < ss.length then min (ss.getD p 0) n else n) = cut n ss (p + 1) := by
    unfold cut
    rw [if_neg (Nat.add_one_ne_zero p), Nat.add_sub_cancel]
    by_cases h : p < ss.length
    · rw [if_pos h, if_pos (by omega)]
    · rw [if_neg h, if_neg (by omega)]
  rw [pieces_getElem? n ss 0 p hp, e1, e2]

theorem sortedB_cons {a b : Nat} {r : List Nat} : sortedB (a :: b :: r) = true ↔ a ≤ b ∧ sortedB (b :: r) = true := by
  simp [sortedB]

theorem sortedB_le_head {a b : Nat} (hab : a ≤ b) : ∀ {r : List Nat}, sortedB (b :: r) = true → sortedB (a :: r) = true
  | [], _ => rfl
  | c :: r, h => by
    rw [sortedB_cons] at h ⊢
    exact ⟨by omega, h.2⟩

theorem cut_le (n : Nat) (ss : List Nat) (p : Nat) : cut n ss p ≤ n := by
  unfold cut
  split
  · omega
  · split <;> omega

/-- the division points do not decrease -/
theorem pieces_mono (n : Nat) : ∀ (ss : List Nat) (lo : Nat), lo ≤ n → sortedB (lo :: ss) = true →
    ∀ q ∈ pieces n lo ss, q.1 ≤ q.2 ∧ q.2 ≤ n
  | [], lo, hlo, _, q, hq => by
    simp only [pieces, List.mem_singleton] at hq
    subst hq
    exact ⟨hlo, Nat.le_refl _⟩
  | s :: ss, lo, hlo, hs, q, hq => by
    rw [sortedB_cons] at hs
    simp only [pieces, List.mem_cons] at hq
    rcases hq with rfl | hq
    · exact ⟨by simp only; omega, by simp only; omega⟩
    · exact pieces_mono n ss _ (by omega) (sortedB_le_head (by omega) hs.2) q hq

/-- the pieces partition the positions along the axis: their ranges, one after the other, are `lo .. n-1` -/
theorem pieces_partition (n : Nat) : ∀ (ss : List Nat) (lo : Nat), lo ≤ n → sortedB (lo :: ss) = true →
    ((pieces n lo ss).map fun q => List.range' q.1 (q.2 - q.1)).flatten = List.range' lo (n - lo)
  | [], lo, _, _ => by simp [pieces]
  | s :: ss, lo, hlo, hs => by
    rw [sortedB_cons] at hs
    rw [pieces, List.map_cons, List.flatten_cons,
      pieces_partition n ss _ (by omega) (sortedB_le_head (by omega) hs.2)]
    show List.range' lo (min s n - lo) ++ List.range' (min s n) (n - min s n) = _
    obtain ⟨d, hd⟩ : ∃ d, min s n = lo + d := ⟨min s n - lo, by omega⟩
    rw [hd, Nat.add_sub_cancel_left, List.range'_append_1]
    congr 1
    omega

theorem pieces_partition_zero (n : Nat) {ss : List Nat} (hs : sortedB ss = true) :
    ((pieces n 0 ss).map fun q => List.range' q.1 (q.2 - q.1)).flatten = List.range n := by
  have h0 : sortedB (0 :: ss) = true := by
    cases ss with
    | nil => rfl
    | cons s ss => exact sortedB_cons.2 ⟨by omega, hs⟩
  rw [pieces_partition n ss 0 (by omega) h0, List.range_eq_range', Nat.sub_zero]

/-- the slice `[lo, hi)` along `axis`: a valid multi-index of the piece reads a valid multi-index of the operand -/
theorem piece_valid {shape j : List Nat} {axis lo hi : Nat} (ha : axis < shape.length)
    (hhi : hi ≤ shape.getD axis 0) (hj : Valid (shape.set axis (hi - lo)) j) :
    Valid shape (j.set axis (j.getD axis 0 + lo)) := by
  obtain ⟨hl, hv⟩ := hj
  rw [List.length_set] at hl hv
  refine ⟨by rw [List.length_set, hl], fun a h => ?_⟩
  have := hv a h
  rw [getD_set ha] at this
  rw [getD_set (by omega)]
  by_cases hx : a = axis
  · subst hx
    simp only [if_true] at this ⊢
    omega
  · simpa [hx] using this

theorem splitF_eq {shape : List Nat} {axis : Nat} {sections : List Nat} {ps : List (List Nat × List Nat)}
    (h : splitF shape axis sections = some ps) :
    axis < shape.length ∧ sortedB sections = true ∧
    ps = (pieces (shape.getD axis 0) 0 sections).map fun q => pieceF shape axis q.1 q.2 := by
  unfold splitF at h
  split at h
  · rename_i hc
    simp only [Bool.and_eq_true, decide_eq_true_eq] at hc
    simp only [Option.some.injEq] at h
    exact ⟨hc.1, hc.2, h.symm⟩
  · simp at h

/-- numpy raises when the axis is out of range (and cut points are required to be non-decreasing here) -/
theorem splitF_isSome (shape : List Nat) (axis : Nat) (sections : List Nat) :
    (splitF shape axis sections).isSome = (decide (axis < shape.length) && sortedB sections) := by
  unfold splitF
  split <;> simp_all

/-- one more piece than cut points -/
theorem splitF_length {shape : List Nat} {axis : Nat} {sections : List Nat} {ps : List (List Nat × List Nat)}
    (h : splitF shape axis sections = some ps) : ps.length = sections.length + 1 := by
  obtain ⟨-, -, rfl⟩ := splitF_eq h
  rw [List.length_map, pieces_length]

/-- (a), (b), (c) for every piece `p`: its shape is the operand's with the extent `cut (p+1) - cut p` on `axis`, and
its multi-index `j` reads the operand at `j` with `cut p` (the previous cut point) added to the `axis` component -/
theorem splitF_spec {shape : List Nat} {axis : Nat} {sections : List Nat} {ps : List (List Nat × List Nat)}
    (h : splitF shape axis sections = some ps) {p : Nat} (hp : p ≤ sections.length) :
    ∃ out idx, ps[p]? = some (out, idx) ∧
      out = shape.set axis (cut (shape.getD axis 0) sections (p + 1) - cut (shape.getD axis 0) sections p) ∧
      idx.length = size out ∧ (∀ k ∈ idx, k < size shape) ∧
      ∀ j, Valid out j →
        idx[ravel out j]? = some (ravel shape (j.set axis (j.getD axis 0 + cut (shape.getD axis 0) sections p))) ∧
        Valid shape (j.set axis (j.getD axis 0 + cut (shape.getD axis 0) sections p)) := by
  obtain ⟨ha, -, rfl⟩ := splitF_eq h
  refine ⟨_, _, by rw [List.getElem?_map, pieces_cut _ _ hp]; rfl, rfl, gatherBy_length _ _ _, ?_, fun j hj => ?_⟩
  · exact gatherBy_lt fun j hj => piece_valid ha (cut_le _ _ _) hj
  · exact ⟨gatherBy_spec hj, piece_valid ha (cut_le _ _ _) hj⟩

/-- the pieces partition the positions along the axis (`concatenate(split(a)) = a`): the ranges
`[cut p, cut (p+1))`, one after the other, are `0 .. n-1` -/
theorem splitF_partition {shape : List Nat} {axis : Nat} {sections : List Nat} {ps : List (List Nat × List Nat)}
    (h : splitF shape axis sections = some ps) :
    ((List.range (sections.length + 1)).map fun p => List.range' (cut (shape.getD axis 0) sections p)
      (cut (shape.getD axis 0) sections (p + 1) - cut (shape.getD axis 0) sections p)).flatten =
      List.range (shape.getD axis 0) := by
  obtain ⟨-, hs, -⟩ := splitF_eq h
  rw [← pieces_partition_zero (shape.getD axis 0) hs]
  congr 1
  apply List.ext_getElem?
  intro p
  by_cases hp : p ≤ sections.length
  · rw [List.getElem?_map, List.getElem?_map, pieces_cut _ _ hp, List.getElem?_range (by omega)]
    rfl
  · rw [List.getElem?_eq_none (by simp; omega), List.getElem?_eq_none (by simp [pieces_length]; omega)]

/-! #### the pieces partition the flat positions of the operand -/

/-- an injective gather never reads a position twice -/
theorem gatherBy_nodup {inn out : List Nat} {f : List Nat → List Nat}
    (hf : ∀ j, Valid out j → Valid inn (f j))
    (hinj : ∀ j j', Valid out j → Valid out j' → f j = f j' → j = j') : (gatherBy inn out f).Nodup := by
  refine List.Nodup.map_on ?_ List.nodup_range
  intro i hi i' hi' h
  rw [List.mem_range] at hi hi'
  have hp := pos_of_size_pos (s := out) (by omega)
  have hv := unravel_valid hp i
  have hv' := unravel_valid hp i'
  have h1 := congrArg (unravel inn) h
  rw [unravel_ravel (hf _ hv), unravel_ravel (hf _ hv')] at h1
  have h2 := congrArg (ravel out) (hinj _ _ hv hv' h1)
  rwa [ravel_unravel hp hi, ravel_unravel hp hi'] at h2

theorem set_getD_self {l : List Nat} {i : Nat} (hi : i < l.length) : l.set i (l.getD i 0) = l := by
  simp [List.getD_eq_getElem?_getD, hi]

theorem piece_inj {shape j j' : List Nat} {axis lo hi : Nat} (ha : axis < shape.length)
    (hj : Valid (shape.set axis (hi - lo)) j) (hj' : Valid (shape.set axis (hi - lo)) j')
    (he : j.set axis (j.getD axis 0 + lo) = j'.set axis (j'.getD axis 0 + lo)) : j = j' := by
  have hl := hj.1
  have hl' := hj'.1
  rw [List.length_set] at hl hl'
  have h1 := congrArg (fun l => l.getD axis 0) he
  simp only [getD_set (show axis < j.length by omega), getD_set (show axis < j'.length by omega), if_true] at h1
  have h2 := congrArg (fun l => l.set axis (j.getD axis 0)) he
  simp only [List.set_set] at h2
  rw [set_getD_self (by omega), show j.getD axis 0 = j'.getD axis 0 by omega, set_getD_self (by omega)] at h2
  exact h2

/-- the positions a piece reads: those whose `axis` component lies in `[lo, hi)` -/
theorem mem_piece {shape : List Nat} {axis lo hi : Nat} (ha : axis < shape.length)
    (hhi : hi ≤ shape.getD axis 0) (k : Nat) :
    k ∈ (pieceF shape axis lo hi).2 ↔
      k < size shape ∧ lo ≤ (unravel shape k).getD axis 0 ∧ (unravel shape k).getD axis 0 < hi := by
  simp only [pieceF, gatherBy, List.mem_map, List.mem_range]
  constructor
  · rintro ⟨i, hilt, rfl⟩
    have hj := unravel_valid (pos_of_size_pos (s := shape.set axis (hi - lo)) (by omega)) i
    have hv := piece_valid ha hhi hj
    have hx := hj.2 axis (by rw [List.length_set]; exact ha)
    rw [getD_set ha, if_pos rfl] at hx
    refine ⟨ravel_lt_of_valid hv, ?_⟩
    rw [unravel_ravel hv, getD_set (by rw [hj.1, List.length_set]; exact ha), if_pos rfl]
    omega
  · rintro ⟨hk, h1, h2⟩
    have hp := pos_of_size_pos (s := shape) (by omega)
    have hx := unravel_valid hp k
    generalize hxe : unravel shape k = x at hx h1 h2
    have hxl : axis < x.length := by rw [hx.1]; exact ha
    have hj : Valid (shape.set axis (hi - lo)) (x.set axis (x.getD axis 0 - lo)) := by
      refine ⟨by simp [hx.1], fun a h => ?_⟩
      rw [List.length_set] at h
      rw [getD_set ha, getD_set hxl]
      by_cases e : a = axis
      · simp only [e, if_true]; omega
      · simpa [e] using hx.2 a h
    refine ⟨ravel (shape.set axis (hi - lo)) (x.set axis (x.getD axis 0 - lo)), ravel_lt_of_valid hj, ?_⟩
    rw [unravel_ravel hj, getD_set hxl, if_pos rfl, List.set_set, Nat.sub_add_cancel h1, set_getD_self hxl, ← hxe,
      ravel_unravel hp hk]

theorem pieces_lo_le (n : Nat) : ∀ (ss : List Nat) (lo : Nat), lo ≤ n → sortedB (lo :: ss) = true →
    ∀ q ∈ pieces n lo ss, lo ≤ q.1
  | [], lo, _, _, q, hq => by
    simp only [pieces, List.mem_singleton] at hq
    subst hq
    exact Nat.le_refl _
  | s :: ss, lo, hlo, hs, q, hq => by
    rw [sortedB_cons] at hs
    simp only [pieces, List.mem_cons] at hq
    rcases hq with rfl | hq
    · exact Nat.le_refl _
    · have := pieces_lo_le n ss _ (by omega) (sortedB_le_head (by omega) hs.2) q hq
      omega

/-- a later piece starts where an earlier one has ended, or later -/
theorem pieces_pairwise (n : Nat) : ∀ (ss : List Nat) (lo : Nat), lo ≤ n → sortedB (lo :: ss) = true →
    (pieces n lo ss).Pairwise fun q q' => q.2 ≤ q'.1
  | [], lo, _, _ => by simp [pieces]
  | s :: ss, lo, hlo, hs => by
    rw [sortedB_cons] at hs
    have hs' := sortedB_le_head (a := min s n) (by omega) hs.2
    rw [pieces, List.pairwise_cons]
    exact ⟨fun q hq => pieces_lo_le n ss _ (by omega) hs' q hq, pieces_pairwise n ss _ (by omega) hs'⟩

theorem sortedB_zero_cons {ss : List Nat} (hs : sortedB ss = true) : sortedB (0 :: ss) = true := by
  cases ss with
  | nil => rfl
  | cons s ss => exact sortedB_cons.2 ⟨by omega, hs⟩

/-- the pieces partition the operand (`concatenate(split(a, sections, axis), axis)` has every element of `a` exactly
once): the gather lists of all pieces together are a permutation of the operand's flat positions -/
theorem splitF_perm {shape : List Nat} {axis : Nat} {sections : List Nat} {ps : List (List Nat × List Nat)}
    (h : splitF shape axis sections = some ps) :
    (ps.map fun q => q.2).flatten.Perm (List.range (size shape)) := by
  obtain ⟨ha, hs, rfl⟩ := splitF_eq h
  have h0 := sortedB_zero_cons hs
  have hmono := pieces_mono (shape.getD axis 0) sections 0 (by omega) h0
  rw [List.map_map]
  refine (List.perm_ext_iff_of_nodup ?_ List.nodup_range).2 fun k => ?_
  · rw [List.nodup_flatten]
    refine ⟨fun l hl => ?_, ?_⟩
    · simp only [List.mem_map, Function.comp] at hl
      obtain ⟨q, hq, rfl⟩ := hl
      exact gatherBy_nodup (fun j hj => piece_valid ha (hmono q hq).2 hj) fun j j' hj hj' => piece_inj ha hj hj'
    · rw [List.pairwise_map]
      refine (pieces_pairwise _ sections 0 (by omega) h0).imp_of_mem ?_
      intro q q' hq hq' hle k h1 h2
      simp only [Function.comp] at h1 h2
      rw [mem_piece ha (hmono q hq).2] at h1
      rw [mem_piece ha (hmono q' hq').2] at h2
      omega
  · simp only [List.mem_flatten, List.mem_map, Function.comp, List.mem_range]
    constructor
    · rintro ⟨l, ⟨q, hq, rfl⟩, hk⟩
      exact ((mem_piece ha (hmono q hq).2 k).1 hk).1
    · intro hk
      have hx := unravel_valid (pos_of_size_pos (s := shape) (by omega)) k
      have hv : (unravel shape k).getD axis 0 ∈ List.range (shape.getD axis 0) := List.mem_range.2 (hx.2 axis ha)
      rw [← pieces_partition_zero _ hs] at hv
      simp only [List.mem_flatten, List.mem_map] at hv
      obtain ⟨l, ⟨q, hq, rfl⟩, hv⟩ := hv
      rw [List.mem_range'_1] at hv
      exact ⟨_, ⟨q, hq, rfl⟩, (mem_piece ha (hmono q hq).2 k).2 ⟨hk, hv.1, by omega⟩⟩

theorem sortedB_map_range' (f : Nat → Nat) (hf : ∀ i, f i ≤ f (i + 1)) :
    ∀ m a, sortedB ((List.range' a m).map f) = true
  | 0, _ => rfl
  | 1, _ => rfl
  | m + 2, a => by
    have := sortedB_map_range' f hf (m + 1) (a + 1)
    simp only [List.range'_succ, List.map_cons] at this ⊢
    exact sortedB_cons.2 ⟨hf a, this⟩

theorem arrayCuts_length (n k : Nat) : (arrayCuts n k).length = k - 1 := by simp [arrayCuts]

theorem arrayCuts_sorted (n k : Nat) : sortedB (arrayCuts n k) = true := by
  rw [arrayCuts, List.range_eq_range']
  apply sortedB_map_range'
  intro i
  have : (i + 1) * (n / k) ≤ (i + 1 + 1) * (n / k) := Nat.mul_le_mul_right _ (by omega)
  omega

/-- the division points of `array_split(a, k)`: `p * (n / k) + min p (n % k)` -/
theorem arrayCuts_cut {n k p : Nat} (hk : 0 < k) (hp : p ≤ k) :
    cut n (arrayCuts n k) p = p * (n / k) + min p (n % k) := by
  have hn := Nat.div_add_mod n k
  have hr := Nat.mod_lt n hk
  have hm : p * (n / k) ≤ k * (n / k) := Nat.mul_le_mul_right _ hp
  unfold cut
  rw [arrayCuts_length]
  by_cases h0 : p = 0
  · subst h0; simp
  · rw [if_neg h0]
    by_cases h1 : p ≤ k - 1
    · rw [if_pos h1]
      have hg : (arrayCuts n k).getD (p - 1) 0 = p * (n / k) + min p (n % k) := by
        have : p - 1 < k - 1 := by omega
        simp only [arrayCuts, List.getD_eq_getElem?_getD, List.getElem?_map, List.getElem?_range this,
          Option.map_some, Option.getD_some]
        rw [Nat.sub_add_cancel (by omega)]
      rw [hg]
      omega
    · rw [if_neg h1]
      obtain rfl : p = k := by omega
      omega

/-- piece `p` of `array_split(a, k)` has `n / k` positions, one more for the first `n % k` pieces -/
theorem arrayCuts_extent {n k p : Nat} (hk : 0 < k) (hp : p < k) :
    cut n (arrayCuts n k) (p + 1) - cut n (arrayCuts n k) p = n / k + if p < n % k then 1 else 0 := by
  rw [arrayCuts_cut hk (by omega), arrayCuts_cut hk (by omega), Nat.succ_mul]
  generalize n / k = q
  generalize n % k = r
  split <;> omega

theorem arraySplitF_eq {shape : List Nat} {axis k : Nat} {ps : List (List Nat × List Nat)}
    (h : arraySplitF shape axis k = some ps) :
    0 < k ∧ splitF shape axis (arrayCuts (shape.getD axis 0) k) = some ps := by
  unfold arraySplitF at h
  split at h
  · simp at h
  · exact ⟨by omega, h⟩

/-- numpy raises exactly when `k = 0` or the axis is out of range -/
theorem arraySplitF_isSome (shape : List Nat) (axis k : Nat) :
    (arraySplitF shape axis k).isSome = (decide (k ≠ 0) && decide (axis < shape.length)) := by
  unfold arraySplitF
  split
  · simp_all
  · rw [splitF_isSome, arrayCuts_sorted]
    simp_all

/-- `array_split(a, k, axis)`: `k` pieces; piece `p` has extent `n / k` (+1 if `p < n % k`) on `axis` and its
multi-index `j` reads the operand at `j` with `p * (n / k) + min p (n % k)` added to the `axis` component -/
theorem arraySplitF_spec {shape : List Nat} {axis k : Nat} {ps : List (List Nat × List Nat)}
    (h : arraySplitF shape axis k = some ps) :
    ps.length = k ∧ ∀ p, p < k → ∃ out idx, ps[p]? = some (out, idx) ∧
      out = shape.set axis (shape.getD axis 0 / k + if p < shape.getD axis 0 % k then 1 else 0) ∧
      idx.length = size out ∧ (∀ i ∈ idx, i < size shape) ∧
      ∀ j, Valid out j →
        idx[ravel out j]? = some (ravel shape
          (j.set axis (j.getD axis 0 + (p * (shape.getD axis 0 / k) + min p (shape.getD axis 0 % k))))) ∧
        Valid shape (j.set axis (j.getD axis 0 + (p * (shape.getD axis 0 / k) + min p (shape.getD axis 0 % k)))) := by
  obtain ⟨hk, hs⟩ := arraySplitF_eq h
  refine ⟨by rw [splitF_length hs, arrayCuts_length]; omega, fun p hp => ?_⟩
  obtain ⟨out, idx, h1, h2, h3, h4, h5⟩ := splitF_spec hs (p := p) (by rw [arrayCuts_length]; omega)
  rw [arrayCuts_extent hk hp] at h2
  rw [arrayCuts_cut hk (by omega)] at h5
  exact ⟨out, idx, h1, h2, h3, h4, h5⟩

theorem splitEqualF_eq {shape : List Nat} {axis k : Nat} {ps : List (List Nat × List Nat)}
    (h : splitEqualF shape axis k = some ps) :
    0 < k ∧ shape.getD axis 0 % k = 0 ∧ arraySplitF shape axis k = some ps := by
  unfold splitEqualF at h
  split at h
  · simp at h
  · rename_i hc
    simp only [Bool.or_eq_true, decide_eq_true_eq, bne_iff_ne, ne_eq, not_or, Decidable.not_not] at hc
    exact ⟨by omega, hc.2, h⟩

/-- numpy raises exactly when `k = 0`, the extent is not a multiple of `k`, or the axis is out of range -/
theorem splitEqualF_isSome (shape : List Nat) (axis k : Nat) :
    (splitEqualF shape axis k).isSome =
      (decide (k ≠ 0) && decide (shape.getD axis 0 % k = 0) && decide (axis < shape.length)) := by
  unfold splitEqualF
  split
  · rename_i hc
    simp only [Bool.or_eq_true, decide_eq_true_eq, bne_iff_ne, ne_eq, List.getD_eq_getElem?_getD] at hc
    rcases hc with hc | hc <;> simp [hc]
  · rename_i hc
    simp only [Bool.or_eq_true, decide_eq_true_eq, bne_iff_ne, ne_eq, not_or, Decidable.not_not,
      List.getD_eq_getElem?_getD] at hc
    rw [arraySplitF_isSome]
    simp [hc]

/-- `split(a, k, axis)`: `k` pieces of extent `n / k`; multi-index `j` of piece `p` reads the operand at `j` with
`p * (n / k)` added to the `axis` component -/
theorem splitEqualF_spec {shape : List Nat} {axis k : Nat} {ps : List (List Nat × List Nat)}
    (h : splitEqualF shape axis k = some ps) :
    ps.length = k ∧ ∀ p, p < k → ∃ out idx, ps[p]? = some (out, idx) ∧
      out = shape.set axis (shape.getD axis 0 / k) ∧ idx.length = size out ∧ (∀ i ∈ idx, i < size shape) ∧
      ∀ j, Valid out j →
        idx[ravel out j]? = some (ravel shape (j.set axis (j.getD axis 0 + p * (shape.getD axis 0 / k)))) ∧
        Valid shape (j.set axis (j.getD axis 0 + p * (shape.getD axis 0 / k))) := by
  obtain ⟨hk, hm, ha⟩ := splitEqualF_eq h
  obtain ⟨hl, hp⟩ := arraySplitF_spec ha
  refine ⟨hl, fun p hpk => ?_⟩
  have := hp p hpk
  rw [List.getD_eq_getElem?_getD] at hm
  simpa [hm] using this

/-! ### 4. `atleastF` -/

theorem atleastF_eq {d : Nat} {shape out idx : List Nat} (h : atleastF d shape = some (out, idx)) :
    atleastShape d shape = some out ∧ idx = List.range (size shape) := by
  simp only [atleastF, Option.map_eq_some_iff, Prod.mk.injEq] at h
  obtain ⟨o, ho, rfl, rfl⟩ := h
  exact ⟨ho, rfl⟩

/-- only unit axes are added -/
theorem atleastShape_size {d : Nat} {shape out : List Nat} (h : atleastShape d shape = some out) :
    size out = size shape := by
  unfold atleastShape at h
  split at h <;> simp only [Option.some.injEq, reduceCtorEq] at h <;> subst h <;> simp [Nat.mul_comm]

/-- defined exactly for `d = 1, 2, 3` -/
theorem atleastF_isSome (d : Nat) (shape : List Nat) :
    (atleastF d shape).isSome = decide (d = 1 ∨ d = 2 ∨ d = 3) := by
  unfold atleastF atleastShape
  split <;> simp_all

/-- where the unit axes go: `() → (1) → (1,1) → (1,1,1)`, `(n) → (1,n) → (1,n,1)`, `(m,n) → (m,n,1)`; at least
`d` axes are left alone -/
theorem atleastShape_cases (shape : List Nat) :
    atleastShape 1 shape = some (if shape = [] then [1] else shape) ∧
    atleastShape 2 shape = some (match shape with | [] => [1, 1] | [n] => [1, n] | s => s) ∧
    atleastShape 3 shape = some (match shape with | [] => [1, 1, 1] | [n] => [1, n, 1] | [m, n] => [m, n, 1] | s => s) := by
  match shape with
  | [] => exact ⟨rfl, rfl, rfl⟩
  | [_] => exact ⟨rfl, rfl, rfl⟩
  | [_, _] => exact ⟨rfl, rfl, rfl⟩
  | _ :: _ :: _ :: _ => exact ⟨rfl, rfl, rfl⟩

/-- (a) -/
theorem atleastF_length {d : Nat} {shape out idx : List Nat} (h : atleastF d shape = some (out, idx)) :
    idx.length = size out := by
  obtain ⟨ho, rfl⟩ := atleastF_eq h
  rw [List.length_range, atleastShape_size ho]

/-- (b) -/
theorem atleastF_lt {d : Nat} {shape out idx : List Nat} (h : atleastF d shape = some (out, idx)) :
    ∀ k ∈ idx, k < size shape := by
  obtain ⟨-, rfl⟩ := atleastF_eq h
  exact fun k hk => List.mem_range.1 hk

/-- (c) every element keeps its flat position -/
theorem atleastF_spec {d : Nat} {shape out idx : List Nat} (h : atleastF d shape = some (out, idx))
    {j : List Nat} (hj : Valid out j) : idx[ravel out j]? = some (ravel out j) := by
  obtain ⟨ho, rfl⟩ := atleastF_eq h
  rw [List.getElem?_range]
  rw [← atleastShape_size ho]
  exact ravel_lt_of_valid hj

/-- (d) -/
theorem atleastF_perm {d : Nat} {shape out idx : List Nat} (h : atleastF d shape = some (out, idx)) :
    idx.Perm (List.range (size shape)) := by
  rw [(atleastF_eq h).2]

/-! ### 5. `broadcastToF` -/

/-- numpy's rule: not more axes than the target and, aligned at the last axis, every extent is the target's or 1 -/
theorem broadcastOK_iff (shape target : List Nat) : broadcastOK shape target = true ↔
    shape.length ≤ target.length ∧ ∀ a, a < shape.length →
      shape.getD a 0 = target.getD (target.length - shape.length + a) 0 ∨ shape.getD a 0 = 1 := by
  simp only [broadcastOK, Bool.and_eq_true, decide_eq_true_eq, List.all_eq_true, id]
  refine and_congr_right fun hl => ?_
  have hlen : (List.zipWith (fun d t => d == t || d == 1) shape (target.drop (target.length - shape.length))).length =
      shape.length := by
    simp only [List.length_zipWith, List.length_drop]; omega
  constructor
  · intro h a ha
    have := h _ (List.getElem_mem (hlen ▸ ha))
    simpa [List.getD_eq_getElem?_getD, ha, show target.length - shape.length + a < target.length by omega] using this
  · intro h x hx
    obtain ⟨a, ha, rfl⟩ := List.getElem_of_mem hx
    have := h a (hlen ▸ ha)
    rw [hlen] at ha
    simpa [List.getD_eq_getElem?_getD, ha, show target.length - shape.length + a < target.length by omega] using this

theorem bmulti_getD {s j : List Nat} {a : Nat} (ha : a < s.length) (hl : s.length ≤ j.length) :
    (bmulti s j).getD a 0 = if s.getD a 0 = 1 then 0 else j.getD (j.length - s.length + a) 0 := by
  simp only [bmulti, List.getD_eq_getElem?_getD, List.getElem?_zipWith, List.getElem?_drop,
    List.getElem?_eq_getElem ha, List.getElem?_eq_getElem (show j.length - s.length + a < j.length by omega)]
  simp

/-- a valid target multi-index reads a valid operand multi-index -/
theorem broadcast_valid {shape target j : List Nat} (hok : broadcastOK shape target = true) (hj : Valid target j) :
    Valid shape (bmulti shape j) := by
  obtain ⟨hl, hd⟩ := (broadcastOK_iff _ _).1 hok
  obtain ⟨hjl, hv⟩ := hj
  refine ⟨bmulti_length (by omega), fun a ha => ?_⟩
  rw [bmulti_getD ha (by omega)]
  split
  · omega
  · have := hv (target.length - shape.length + a) (by omega)
    rcases hd a ha with h | h
    · rw [hjl, h]; exact this
    · contradiction

theorem broadcastToF_eq {shape target out idx : List Nat} (h : broadcastToF shape target = some (out, idx)) :
    broadcastOK shape target = true ∧ out = target ∧ idx = gatherBy shape target (bmulti shape) := by
  unfold broadcastToF at h
  split at h
  · simp only [Option.some.injEq, Prod.mk.injEq] at h
    exact ⟨‹_›, h.1.symm, h.2.symm⟩
  · simp at h

/-- numpy raises exactly when the shape cannot be broadcast to the target -/
theorem broadcastToF_isSome (shape target : List Nat) :
    (broadcastToF shape target).isSome = broadcastOK shape target := by
  unfold broadcastToF
  split <;> simp_all

/-- (a) -/
theorem broadcastToF_length {shape target out idx : List Nat} (h : broadcastToF shape target = some (out, idx)) :
    idx.length = size out := by
  obtain ⟨-, rfl, rfl⟩ := broadcastToF_eq h
  exact gatherBy_length _ _ _

/-- (b) -/
theorem broadcastToF_lt {shape target out idx : List Nat} (h : broadcastToF shape target = some (out, idx)) :
    ∀ k ∈ idx, k < size shape := by
  obtain ⟨hok, rfl, rfl⟩ := broadcastToF_eq h
  exact gatherBy_lt fun j hj => broadcast_valid hok hj

/-- (c) it is `Np.Shape.bindex`, the index arithmetic the elementwise operations broadcast with -/
theorem broadcastToF_bindex {shape target out idx : List Nat} (h : broadcastToF shape target = some (out, idx)) :
    out = target ∧ idx = (List.range (size target)).map (bindex shape target) := by
  obtain ⟨-, rfl, rfl⟩ := broadcastToF_eq h
  exact ⟨rfl, rfl⟩

/-- (c) with `k = ndim target - ndim shape`, target multi-index `j` reads the operand multi-index whose component
`a` is `j[k + a]`, or `0` where the operand's extent is 1 -/
theorem broadcastToF_spec {shape target out idx : List Nat} (h : broadcastToF shape target = some (out, idx))
    {j : List Nat} (hj : Valid out j) :
    ∃ x, idx[ravel out j]? = some (ravel shape x) ∧ Valid shape x ∧ ∀ a, a < shape.length →
      x.getD a 0 = if shape.getD a 0 = 1 then 0 else j.getD (target.length - shape.length + a) 0 := by
  obtain ⟨hok, rfl, rfl⟩ := broadcastToF_eq h
  have hl := ((broadcastOK_iff _ _).1 hok).1
  refine ⟨_, gatherBy_spec hj, broadcast_valid hok hj, fun a ha => ?_⟩
  rw [bmulti_getD ha (by rw [hj.1]; exact hl), hj.1]

/-- `bshapeRev a b = some b` (lists with the last axis first): `a` is not longer and every extent is `b`'s or 1 -/
theorem bshapeRev_eq_right : ∀ (a b : List Nat), bshapeRev a b = some b ↔
    a.length ≤ b.length ∧ ∀ i, i < a.length → a.getD i 0 = b.getD i 0 ∨ a.getD i 0 = 1
  | [], b => by simp [bshapeRev]
  | x :: a, [] => by simp [bshapeRev]
  | x :: a, y :: b => by
    have ih := bshapeRev_eq_right a b
    have hcons : ((x :: a).length ≤ (y :: b).length ∧
        ∀ i, i < (x :: a).length → (x :: a).getD i 0 = (y :: b).getD i 0 ∨ (x :: a).getD i 0 = 1) ↔
        (x = y ∨ x = 1) ∧ a.length ≤ b.length ∧ ∀ i, i < a.length → a.getD i 0 = b.getD i 0 ∨ a.getD i 0 = 1 := by
      constructor
      · rintro ⟨hl, h⟩
        exact ⟨by simpa using h 0 (by simp), by simpa using hl, fun i hi => by simpa using h (i + 1) (by simpa using hi)⟩
      · rintro ⟨h0, hl, h⟩
        refine ⟨by simpa using hl, fun i hi => ?_⟩
        cases i with
        | zero => simpa using h0
        | succ i => simpa using h i (by simpa using hi)
    rw [hcons, ← ih, bshapeRev]
    cases hr : bshapeRev a b with
    | none => simp
    | some r =>
      simp only [Option.some.injEq]
      by_cases h1 : x = y
      · subst h1; simp
      · by_cases h2 : x = 1
        · subst h2; simp [h1]
        · by_cases h3 : y = 1
          · subst h3; simp [h1]
          · simp [h1, h2, h3]

/-- `broadcastOK` is numpy's `broadcast_shapes(shape, target) == target` of the elementwise operations -/
theorem broadcastOK_iff_bshape (shape target : List Nat) :
    broadcastOK shape target = true ↔ bshape shape target = some target := by
  have hb : bshape shape target = some target ↔ bshapeRev shape.reverse target.reverse = some target.reverse := by
    simp only [bshape, Option.map_eq_some_iff]
    constructor
    · rintro ⟨c, hc, rfl⟩; simpa using hc
    · intro h; exact ⟨_, h, by simp⟩
  rw [hb, bshapeRev_eq_right, broadcastOK_iff, List.length_reverse, List.length_reverse]
  refine and_congr_right fun hl => ?_
  have key : ∀ i, i < shape.length → shape.reverse.getD i 0 = shape.getD (shape.length - 1 - i) 0 ∧
      target.reverse.getD i 0 = target.getD (target.length - shape.length + (shape.length - 1 - i)) 0 := by
    intro i hi
    simp only [List.getD_eq_getElem?_getD]
    rw [List.getElem?_reverse (by omega), List.getElem?_reverse (by omega)]
    exact ⟨rfl, by congr 2; omega⟩
  constructor
  · intro h i hi
    obtain ⟨k1, k2⟩ := key i hi
    rw [k1, k2]
    exact h _ (by omega)
  · intro h a ha
    obtain ⟨k1, k2⟩ := key (shape.length - 1 - a) (by omega)
    have := h _ (show shape.length - 1 - a < shape.length by omega)
    rw [k1, k2] at this
    rwa [show shape.length - 1 - (shape.length - 1 - a) = a by omega] at this

theorem mapM_option_spec {α β : Type} (f : α → Option β) : ∀ {l : List α} {rs : List β}, l.mapM f = some rs →
    rs.length = l.length ∧ ∀ (p : Nat) (s : α), l[p]? = some s → ∃ r, rs[p]? = some r ∧ f s = some r
  | [], rs, h => by
    simp only [List.mapM_nil, Option.pure_def, Option.some.injEq] at h
    subst h
    simp
  | a :: l, rs, h => by
    rw [List.mapM_cons] at h
    cases ha : f a with
    | none => simp [ha] at h
    | some b =>
      cases hl : l.mapM f with
      | none => simp [ha, hl] at h
      | some bs =>
        simp only [ha, hl, Option.pure_def, Option.bind_eq_bind, Option.bind_some, Option.some.injEq] at h
        subst h
        obtain ⟨h1, h2⟩ := mapM_option_spec f hl
        refine ⟨by simp [h1], fun p s hp => ?_⟩
        cases p with
        | zero =>
          simp only [List.getElem?_cons_zero, Option.some.injEq] at hp
          subst hp
          exact ⟨b, by simp, ha⟩
        | succ p => simpa using h2 p s (by simpa using hp)

/-- `numpy.broadcast_arrays`: every operand is broadcast (`broadcastToF`) to the common shape `bshapeAll` -/
theorem broadcastArraysF_spec {shapes : List (List Nat)} {rs : List (List Nat × List Nat)}
    (h : broadcastArraysF shapes = some rs) : ∃ r, bshapeAll shapes = some r ∧ rs.length = shapes.length ∧
      ∀ (p : Nat) (s : List Nat), shapes[p]? = some s → ∃ idx, rs[p]? = some (r, idx) ∧ broadcastToF s r = some (r, idx) := by
  unfold broadcastArraysF at h
  split at h
  · simp at h
  · rename_i r hr
    obtain ⟨h1, h2⟩ := mapM_option_spec _ h
    refine ⟨r, hr, h1, fun p s hp => ?_⟩
    obtain ⟨⟨out, idx⟩, h3, h4⟩ := h2 p s hp
    obtain rfl := (broadcastToF_eq h4).2.1
    exact ⟨idx, h3, h4⟩

/-! ### 6. `diagF` -/

theorem ravel_pair {m m' r c : Nat} (hr : r < m) (hc : c < m') : ravel [m, m'] [r, c] = r * m' + c := by
  simp [ravel, Nat.mod_eq_of_lt hr, Nat.mod_eq_of_lt hc]

/-- `numpy.diag` of a vector of length `n`: the matrix of order `m = n + |k|` whose entry `(r, c)` is element
`r - max 0 (-k)` of the vector if `c - r = k` and the zero fill otherwise; (a) one entry per position, (b) every
element read exists -/
theorem diagF_vec (n : Nat) (k : Int) : ∃ idx, diagF [n] k = some ([n + k.natAbs, n + k.natAbs], idx) ∧
    idx.length = size [n + k.natAbs, n + k.natAbs] ∧ (∀ x, some x ∈ idx → x < n) ∧
    ∀ r c, r < n + k.natAbs → c < n + k.natAbs →
      idx[ravel [n + k.natAbs, n + k.natAbs] [r, c]]? =
        some (if (c : Int) - r = k then some (r - (-k).toNat) else none) ∧
      ((c : Int) - r = k → r - (-k).toNat < n) := by
  refine ⟨_, rfl, by simp, ?_, fun r c hr hc => ?_⟩
  · intro x hx
    simp only [List.mem_map, List.mem_range] at hx
    obtain ⟨p, hp, he⟩ := hx
    generalize hm' : n + k.natAbs = m at hp he
    split at he
    · rename_i hk
      simp only [Option.some.injEq] at he
      have hm : 0 < m := Nat.pos_of_mul_pos_left (Nat.zero_lt_of_lt hp)
      have h1 : p / m < m := Nat.div_lt_of_lt_mul hp
      have h2 : p % m < m := Nat.mod_lt _ hm
      generalize p / m = r at hk he h1
      generalize p % m = c at hk h2
      omega
    · simp at he
  · rw [ravel_pair hr hc]
    generalize hm : n + k.natAbs = m at hr hc
    have hpos : 0 < m := by omega
    have h1 : (r * m + c) / m = r := by
      rw [Nat.add_comm, Nat.add_mul_div_right _ _ hpos, Nat.div_eq_of_lt hc, Nat.zero_add]
    have h2 : (r * m + c) % m = c := by
      rw [Nat.add_comm, Nat.add_mul_mod_self_right, Nat.mod_eq_of_lt hc]
    have hlt : r * m + c < m * m := by
      have : (r + 1) * m ≤ m * m := Nat.mul_le_mul_right _ hr
      rw [Nat.succ_mul] at this
      omega
    refine ⟨by simp only [List.getElem?_map, List.getElem?_range hlt, Option.map_some, h1, h2], fun hk => ?_⟩
    omega

theorem diagF_mat_eq {a b : Nat} {k : Int} {out : List Nat} {idx : List (Option Nat)}
    (h : diagF [a, b] k = some (out, idx)) : out = [diagLen a b k] ∧
      idx = (gatherBy [a, b] [diagLen a b k] (diagonalIn 2 k 0 1)).map some := by
  simp only [diagF, diagonalF, Option.map_eq_some_iff] at h
  obtain ⟨r, hr, he⟩ := h
  simp only [Prod.mk.injEq] at he
  obtain ⟨rfl, rfl⟩ := he
  have hf : ((List.range 2).filter fun a => a != 0 && a != 1) = [] := by decide
  simp only [List.length_cons, List.length_nil, hf] at hr
  simp only [Nat.reduceAdd, show (decide (0 < 2) && decide (1 < 2) && (0 != 1)) = true from by decide, if_true,
    List.map_nil, List.nil_append, Option.some.injEq] at hr
  subst hr
  exact ⟨by simp, by simp⟩

/-- `numpy.diag` of an `a × b` matrix: the vector of length `diagLen a b k` whose entry `i` is the matrix element
`(i + max 0 (-k), i + max 0 k)`; (a) one entry per position, (b) that element exists -/
theorem diagF_mat {a b : Nat} {k : Int} {out : List Nat} {idx : List (Option Nat)}
    (h : diagF [a, b] k = some (out, idx)) : out = [diagLen a b k] ∧ idx.length = size out ∧
    ∀ i, i < diagLen a b k → i + (-k).toNat < a ∧ i + k.toNat < b ∧
      idx[ravel out [i]]? = some (some (ravel [a, b] [i + (-k).toNat, i + k.toNat])) := by
  obtain ⟨rfl, rfl⟩ := diagF_mat_eq h
  refine ⟨rfl, by simp [gatherBy_length], fun i hi => ?_⟩
  have hv : Valid [diagLen a b k] [i] := valid_cons.2 ⟨hi, valid_nil.2 rfl⟩
  have h1 : i + (-k).toNat < a ∧ i + k.toNat < b := by
    unfold diagLen at hi
    split at hi <;> omega
  refine ⟨h1.1, h1.2, ?_⟩
  rw [List.getElem?_map, gatherBy_spec hv]
  simp [diagonalIn, List.range_succ]

/-- numpy raises exactly when the operand is neither a vector nor a matrix -/
theorem diagF_isSome (shape : List Nat) (k : Int) :
    (diagF shape k).isSome = decide (shape.length = 1 ∨ shape.length = 2) := by
  match shape with
  | [] => rfl
  | [_] => rfl
  | [_, _] => simp [diagF, diagonalF]
  | _ :: _ :: _ :: _ => simp [diagF]

end Np.IndexFns

import Np.Proofs.WF
import Np.Proofs.MapCoef
import Np.Proofs.Call
import Np.Model.CallArr
import Mathlib.Algebra.MvPolynomial.Monad
/-! C02 on arrays: `call` (evaluation and substitution) with polynomial-array parameters.
`termPoly` is the product of the parameter powers, `outerPoly` is the outer product coefficient × term,
`callPoly` sums them; the right-hand side is `MvPolynomial.bind₁` of the element at the array position. -/
open MvPolynomial
namespace Np

/-! ### 1. one term: `prod(parameters[name] ** power)` -/
section term
variable {S : Type} [CommSemiring S] [BEq S] [LawfulBEq S]

omit [BEq S] [LawfulBEq S] in
/-- the start value of the product loop -/
theorem den_start_one :
    den ({ names := [0], terms := [([0], (1 : S))] } : Poly S) = 1 ∧
    WF ({ names := [0], terms := [([0], (1 : S))] } : Poly S) := by
  refine ⟨?_, ⟨by simp, by simp [Poly.expos], ?_⟩⟩
  · simp only [den, denT, List.map_cons, List.map_nil, List.sum_cons, List.sum_nil, add_zero, fsN]
    simp only [Finsupp.single_zero]
    rfl
  · intro e he
    simp only [Poly.expos, List.map_cons, List.map_nil, List.mem_singleton] at he
    simp [he]

/-- one step of the product loop -/
def termStep (rc rn : Bool) (acc : Option (Poly S)) (pe : Poly S × Nat) : Option (Poly S) :=
  acc.bind fun t => (powS rc rn pe.1 pe.2).bind fun q => multiply rc rn t q

/-- the product loop from any well-formed start value -/
theorem termFold_den (rc rn : Bool) (l : List (Poly S × Nat)) (hl : ∀ qe ∈ l, WF qe.1) (t0 : Poly S)
    (h0 : WF t0) :
    ∃ t, l.foldl (termStep rc rn) (some t0) = some t ∧ WF t ∧
      den t = den t0 * (l.map fun qe => den qe.1 ^ qe.2).prod := by
  induction l generalizing t0 with
  | nil => exact ⟨t0, rfl, h0, by simp⟩
  | cons qe l ih =>
    obtain ⟨q, hq, hdq, hwq⟩ := pow_den_WF rc rn qe.1 (hl qe (by simp)) qe.2
    obtain ⟨r, hr, hdr, hwr⟩ := mul_den_WF rc rn t0 q h0 hwq
    obtain ⟨t, ht, hwt, hdt⟩ := ih (fun x hx => hl x (by simp [hx])) r hwr
    refine ⟨t, ?_, hwt, ?_⟩
    · have : termStep rc rn (some t0) qe = some r := by simp [termStep, hq, hr]
      rw [List.foldl_cons, this]
      exact ht
    · rw [hdt, hdr, hdq, List.map_cons, List.prod_cons, mul_assoc]

theorem termPoly_eq_fold {R : Type} [CommSemiring R] [BEq R] {m : Nat} (rc rn : Bool)
    (params : List (Poly (Vec R m))) (e : Expo) :
    termPoly rc rn params e
      = (List.zip params e).foldl (termStep rc rn)
          (some ({ names := [0], terms := [([0], 1)] } : Poly (Vec R m))) := by
  unfold termPoly
  congr 1
  funext acc pe
  cases acc with
  | none => rfl
  | some t =>
    show (match powS rc rn pe.1 pe.2 with | none => none | some q => multiply rc rn t q) = _
    simp only [termStep, Option.bind_some]
    cases powS rc rn pe.1 pe.2 <;> rfl

/-- C02, one term: the product loop is fully written, well-formed and denotes the product of the powers -/
theorem termPoly_den {R : Type} [CommSemiring R] [BEq R] [LawfulBEq R] {m : Nat} (rc rn : Bool)
    (params : List (Poly (Vec R m))) (hp : ∀ q ∈ params, WF q) (e : Expo) :
    ∃ t, termPoly rc rn params e = some t ∧ WF t ∧
      den t = ((List.zip params e).map fun qe => den qe.1 ^ qe.2).prod := by
  obtain ⟨t, ht, hw, hd⟩ := termFold_den (S := Vec R m) rc rn (List.zip params e)
    (fun qe hqe => hp qe.1 (List.of_mem_zip hqe).1) _ den_start_one.2
  refine ⟨t, by rw [termPoly_eq_fold]; exact ht, hw, ?_⟩
  rw [hd, den_start_one.1, one_mul]
end term

/-! ### 2. the outer product coefficient × term -/
section outer
variable {R : Type} [CommSemiring R] {n m : Nat}

theorem WF_outerPoly (c : Vec R n) (t : Poly (Vec R m)) (hw : WF t) : WF (outerPoly c t) := by
  have hex : (outerPoly c t).expos = t.expos := by
    simp [Poly.expos, outerPoly, List.map_map, Function.comp_def]
  exact ⟨hw.names_nodup, by rw [hex]; exact hw.expos_nodup, fun e he => hw.row_len e (hex ▸ he)⟩

theorem flat_div {i j m : Nat} (hj : j < m) : (i * m + j) / m = i := by
  rw [Nat.mul_comm, Nat.mul_add_div (by omega), Nat.div_eq_of_lt hj, Nat.add_zero]

theorem flat_mod {i j m : Nat} (hj : j < m) : (i * m + j) % m = j := by
  rw [Nat.mul_comm, Nat.mul_add_mod, Nat.mod_eq_of_lt hj]

/-- position `(i, j)` of the outer product is `c[i] * t[j]` -/
theorem outerPoly_den (c : Vec R n) (t : Poly (Vec R m)) (i : Fin n) (j : Fin m) (k : Fin (n * m))
    (hk : k.val = i.val * m + j.val) :
    denAt (outerPoly c t) k = C (c.get i) * denAt t j := by
  have hdiv : k.val / m = i.val := by rw [hk]; exact flat_div j.isLt
  have hmod : k.val % m = j.val := by rw [hk]; exact flat_mod j.isLt
  simp only [denAt, den, mapCoef, outerPoly, List.map_map]
  generalize t.terms = ts
  induction ts with
  | nil => simp
  | cons u ts ih =>
    simp only [List.map_cons, denT_cons, ih, mul_add, Function.comp]
    congr 1
    rw [C_mul_monomial]
    congr 1
    simp only [Vec.evalAt_apply, Vec.get_ofFn]
    congr 2 <;> exact Fin.ext (by assumption)
end outer

/-! ### 3. the main loop -/
section call
variable {R : Type} [CommSemiring R] [BEq R] [LawfulBEq R] {n m : Nat}

theorem denAt_add (rc rn : Bool) (a b : Poly (Vec R n)) (ha : WF a) (hb : WF b) (i : Fin n) :
    denAt (add rc rn a b) i = denAt a i + denAt b i := add_denAt rc rn a b ha hb i

/-- `denAt` of a product of powers -/
theorem map_prod_pow {S T : Type} [CommSemiring S] [CommSemiring T] (φ : S →+* T) (l : List (Poly S × Nat)) :
    MvPolynomial.map φ (l.map fun qe => den qe.1 ^ qe.2).prod
      = (l.map fun qe => MvPolynomial.map φ (den qe.1) ^ qe.2).prod := by
  induction l with
  | nil => simp
  | cons x l ih => simp only [List.map_cons, List.prod_cons, map_mul, map_pow, ih]

omit [BEq R] [LawfulBEq R] in
/-- the start value of the sum loop -/
theorem den_start_zero :
    WF ({ names := [0], terms := [([0], (0 : Vec R (n * m)))] } : Poly (Vec R (n * m))) ∧
    ∀ k, denAt ({ names := [0], terms := [([0], (0 : Vec R (n * m)))] } : Poly (Vec R (n * m))) k = 0 := by
  refine ⟨⟨by simp, by simp [Poly.expos], ?_⟩, ?_⟩
  · intro e he
    simp only [Poly.expos, List.map_cons, List.map_nil, List.mem_singleton] at he
    simp [he]
  · intro k
    simp [denAt, den, mapCoef, denT]

/-- the right-hand side of C02 for element `i` of the polynomial and argument position `j` -/
noncomputable def callRhs (params : List (Poly (Vec R m))) (ts : List (Expo × Vec R n)) (i : Fin n) (j : Fin m) :
    MvPolynomial Name R :=
  (ts.map fun t => C (t.2.get i) * ((List.zip params t.1).map fun qe => denAt qe.1 j ^ qe.2).prod).sum

theorem callFold_den (rc rn : Bool) (params : List (Poly (Vec R m))) (hp : ∀ q ∈ params, WF q)
    (ts : List (Expo × Vec R n)) (out0 : Poly (Vec R (n * m))) (h0 : WF out0) :
    ∃ out, ts.foldl (fun acc t =>
        match acc, termPoly rc rn params t.1 with
        | some out, some tp => some (add rc rn out (outerPoly t.2 tp))
        | _, _ => none) (some out0) = some out ∧ WF out ∧
      ∀ (i : Fin n) (j : Fin m) (k : Fin (n * m)), k.val = i.val * m + j.val →
        denAt out k = denAt out0 k + callRhs params ts i j := by
  induction ts generalizing out0 with
  | nil => exact ⟨out0, rfl, h0, fun i j k _ => by simp [callRhs]⟩
  | cons t ts ih =>
    obtain ⟨tp, htp, hwtp, hdtp⟩ := termPoly_den rc rn params hp t.1
    have hwo := WF_outerPoly t.2 tp hwtp
    obtain ⟨out, hout, hwout, hdout⟩ := ih (add rc rn out0 (outerPoly t.2 tp)) (WF_add rc rn _ _ h0 hwo)
    refine ⟨out, ?_, hwout, ?_⟩
    · simp only [List.foldl_cons, htp]
      exact hout
    · intro i j k hk
      rw [hdout i j k hk, denAt_add rc rn _ _ h0 hwo, outerPoly_den t.2 tp i j k hk]
      have : denAt tp j = ((List.zip params t.1).map fun qe => denAt qe.1 j ^ qe.2).prod := by
        simp only [denAt, den_mapCoef, hdtp, map_prod_pow]
      rw [this]
      simp only [callRhs, List.map_cons, List.sum_cons, add_assoc]

/-- C02 (goal): `call` with polynomial-array parameters is fully written, well-formed, and position `(i, j)` of
the result is `Σ_terms coefficient[i] * Π_names parameter[j] ^ exponent` -/
theorem callPoly_den (rc rn : Bool) (p : Poly (Vec R n)) (params : List (Poly (Vec R m)))
    (hp : ∀ q ∈ params, WF q) :
    ∃ out, callPoly rc rn p params = some out ∧ WF out ∧
      ∀ (i : Fin n) (j : Fin m) (k : Fin (n * m)), k.val = i.val * m + j.val →
        denAt out k = (p.terms.map fun t => C (t.2.get i) *
          ((List.zip params t.1).map fun qe => denAt qe.1 j ^ qe.2).prod).sum := by
  obtain ⟨out, hout, hw, hd⟩ := callFold_den (n := n) rc rn params hp p.terms _ (den_start_zero (n := n)).1
  refine ⟨out, hout, hw, ?_⟩
  intro i j k hk
  rw [hd i j k hk, (den_start_zero (n := n)).2 k, zero_add]
  rfl
end call

/-! ### 4. the right-hand side is Mathlib's substitution `bind₁` -/
section bind
variable {R : Type} [CommSemiring R] {n m : Nat}

/-- the substitution: the name at position `r` of `names` goes to element `j` of parameter `r`;
other names stay as they are -/
noncomputable def substOf (j : Fin m) : List Name → List (Poly (Vec R m)) → Name → MvPolynomial Name R
  | a :: as, q :: qs, x => if a = x then denAt q j else substOf j as qs x
  | _, _, x => X x

theorem fsN_support (ns : List Name) (e : Expo) (x : Name) (h : fsN ns e x ≠ 0) : x ∈ ns := by
  induction ns generalizing e with
  | nil => simp [fsN] at h
  | cons a as ih =>
    cases e with
    | nil => simp [fsN] at h
    | cons y ys =>
      simp only [fsN, Finsupp.add_apply, Finsupp.single_apply] at h
      by_cases hax : a = x
      · simp [hax]
      · simp only [hax, if_false, zero_add] at h
        exact List.mem_cons_of_mem _ (ih ys h)

theorem prod_fsN_subst (j : Fin m) (ns : List Name) (hn : ns.Nodup) (params : List (Poly (Vec R m)))
    (hlen : params.length = ns.length) (e : Expo) :
    (fsN ns e).prod (fun a k => substOf j ns params a ^ k)
      = ((List.zip params e).map fun qe => denAt qe.1 j ^ qe.2).prod := by
  induction ns generalizing params e with
  | nil =>
    have : params = [] := List.eq_nil_of_length_eq_zero hlen
    simp [fsN, this]
  | cons a as ih =>
    cases params with
    | nil => simp at hlen
    | cons q qs =>
      cases e with
      | nil => simp [fsN]
      | cons y ys =>
        simp only [List.nodup_cons] at hn
        simp only [fsN, List.zip_cons_cons, List.map_cons, List.prod_cons]
        rw [Finsupp.prod_add_index' (by simp) (by intro a b1 b2; exact pow_add _ _ _)]
        congr 1
        · simp [Finsupp.prod_single_index, substOf]
        · rw [← ih hn.2 qs (by simpa using hlen) ys]
          apply Finsupp.prod_congr
          intro x hx
          have hxm : x ∈ as := fsN_support as ys x (Finsupp.mem_support_iff.1 hx)
          have : a ≠ x := fun h => hn.1 (h ▸ hxm)
          simp [substOf, this]

/-- C02 against Mathlib: the sum of products computed by `call` for position `(i, j)` is the substitution
`bind₁` of the parameters' elements at `j` into element `i` of the polynomial array -/
theorem call_is_bind₁ (p : Poly (Vec R n)) (params : List (Poly (Vec R m))) (hn : p.names.Nodup)
    (hlen : params.length = p.names.length) (i : Fin n) (j : Fin m) :
    (p.terms.map fun t => C (t.2.get i) *
        ((List.zip params t.1).map fun qe => denAt qe.1 j ^ qe.2).prod).sum
      = bind₁ (substOf j p.names params) (denAt p i) := by
  have hden : denAt p i = denT p.names (p.terms.map fun t => (t.1, t.2.get i)) := rfl
  rw [hden]
  generalize p.terms = ts
  induction ts with
  | nil => simp
  | cons t ts ih =>
    simp only [List.map_cons, List.sum_cons, denT_cons, map_add, ih, bind₁_monomial]
    rw [← prod_fsN_subst j p.names hn params hlen t.1]
    rfl

/-- the same statement with `aeval` / `eval₂` -/
theorem call_is_eval₂ (p : Poly (Vec R n)) (params : List (Poly (Vec R m))) (hn : p.names.Nodup)
    (hlen : params.length = p.names.length) (i : Fin n) (j : Fin m) :
    (p.terms.map fun t => C (t.2.get i) *
        ((List.zip params t.1).map fun qe => denAt qe.1 j ^ qe.2).prod).sum
      = eval₂ C (substOf j p.names params) (denAt p i) := by
  rw [call_is_bind₁ p params hn hlen i j]
  rfl

/-- C02 end to end: every position of the result of `call` is the `bind₁` substitution -/
theorem callPoly_bind₁ [BEq R] [LawfulBEq R] (rc rn : Bool) (p : Poly (Vec R n))
    (params : List (Poly (Vec R m))) (hw : WF p) (hp : ∀ q ∈ params, WF q)
    (hlen : params.length = p.names.length) :
    ∃ out, callPoly rc rn p params = some out ∧ WF out ∧
      ∀ (i : Fin n) (j : Fin m) (k : Fin (n * m)), k.val = i.val * m + j.val →
        denAt out k = bind₁ (substOf j p.names params) (denAt p i) := by
  obtain ⟨out, hout, hwo, hd⟩ := callPoly_den rc rn p params hp
  exact ⟨out, hout, hwo, fun i j k hk => by
    rw [hd i j k hk, call_is_bind₁ p params hw.names_nodup hlen i j]⟩
end bind
end Np

import Np.Model.ReduceFns
import Np.Proofs.Shape
import Np.Proofs.CallArr
import Np.Proofs.Reduce
import Mathlib.Tactic.Ring
import Mathlib.Data.List.Nodup
import Mathlib.Data.List.Forall2
/-! C10: the weight tables of `Np.ReduceFns` are what numpy's index arithmetic prescribes, in terms of multi-indices. -/
namespace Np.ReduceFns
open Np.Shape

/-- a multi-index inside a shape -/
abbrev InR (idx s : List Nat) : Prop := List.Forall₂ (· < ·) idx s

/-! ### 0. `ravel` on concatenated shapes -/

theorem size_append (a b : List Nat) : size (a ++ b) = size a * size b := by
  induction a with
  | nil => simp
  | cons d ds ih => simp [ih, Nat.mul_assoc]

theorem InR.pos {idx s : List Nat} (h : InR idx s) : ∀ d ∈ s, 0 < d := by
  induction h with
  | nil => simp
  | cons hxy _ ih =>
    intro d hd
    rcases List.mem_cons.1 hd with rfl | hd
    · omega
    · exact ih d hd

theorem InR.ravel_lt {idx s : List Nat} (h : InR idx s) : ravel s idx < size s :=
  Shape.ravel_lt h.length_eq h.pos

theorem ravel_append : ∀ (a b x y : List Nat), x.length = a.length →
    ravel (a ++ b) (x ++ y) = ravel a x * size b + ravel b y
  | [], b, [], y, _ => by simp [ravel]
  | [], _, _ :: _, _, h => by simp at h
  | _ :: _, _, [], _, h => by simp at h
  | d :: a, b, x :: xs, y, h => by
    have ih := ravel_append a b xs y (by simpa using h)
    simp only [List.cons_append, ravel, ih, size_append]
    ring

theorem ravel_mid {a x : List Nat} (b y : List Nat) {n t : Nat} (hx : InR x a) (ht : t < n) :
    ravel (a ++ n :: b) (x ++ t :: y) = (ravel a x * n + t) * size b + ravel b y := by
  rw [ravel_append _ _ _ _ hx.length_eq, ravel, Nat.mod_eq_of_lt ht, size_cons]
  ring

/-! ### 1. the generic axis table -/

theorem axisW_length (pre n post m : Nat) (K : Nat → Row) : (axisW pre n post m K).length = pre * (m * post) := by
  simp [axisW]

theorem axisW_getD (pre n post m : Nat) (K : Nat → Row) {j : Nat} (hj : j < pre * (m * post)) :
    (axisW pre n post m K).getD j [] =
      (K (j / post % m)).map fun tw => ((j / (m * post) * n + tw.1) * post + j % post, tw.2) := by
  simp [axisW, List.getD_eq_getElem?_getD, List.getElem?_map, List.getElem?_range hj]

theorem flat3 {o u r m post : Nat} (hu : u < m) (hr : r < post) :
    ((o * m + u) * post + r) / post % m = u ∧ ((o * m + u) * post + r) / (m * post) = o ∧
    ((o * m + u) * post + r) % post = r := by
  refine ⟨?_, ?_, flat_mod hr⟩
  · rw [flat_div hr, flat_mod hu]
  · rw [Nat.mul_comm m post, ← Nat.div_div_eq_div_mul, flat_div hr, flat_div hu]

theorem flat_lt {o t r pre n post : Nat} (ho : o < pre) (ht : t < n) (hr : r < post) :
    (o * n + t) * post + r < pre * (n * post) := by
  have h1 : (o + 1) * n ≤ pre * n := Nat.mul_le_mul_right _ ho
  rw [Nat.add_mul, Nat.one_mul] at h1
  have h2 : (o * n + t + 1) * post ≤ (pre * n) * post := Nat.mul_le_mul_right _ (by omega)
  rw [Nat.add_mul, Nat.one_mul, Nat.mul_assoc] at h2
  omega

/-- **generic (c)**: the row of the output multi-index `x ++ u :: y` lists, for the entries `(t, w)` of the
one-dimensional kernel at `u`, the input multi-index `x ++ t :: y` with weight `w` -/
theorem axisW_row (a b : List Nat) (n m : Nat) (K : Nat → Row) {x y : List Nat} {u : Nat}
    (hx : InR x a) (hy : InR y b) (hu : u < m) (hK : ∀ tw ∈ K u, tw.1 < n) :
    (axisW (size a) n (size b) m K).getD (ravel (a ++ m :: b) (x ++ u :: y)) [] =
      (K u).map fun tw => (ravel (a ++ n :: b) (x ++ tw.1 :: y), tw.2) := by
  obtain ⟨h1, h2, h3⟩ := flat3 (o := ravel a x) hu hy.ravel_lt
  rw [ravel_mid b y hx hu, axisW_getD _ _ _ _ _ (flat_lt hx.ravel_lt hu hy.ravel_lt), h1, h2, h3]
  apply List.map_congr_left
  intro tw htw
  rw [ravel_mid b y hx (hK tw htw)]

/-- every row of the table is the kernel at some `u < m` pushed through an injective, in-range position map -/
theorem axisW_mem {pre n post m : Nat} {K : Nat → Row} {row : Row} (h : row ∈ axisW pre n post m K) :
    ∃ u < m, ∃ f : Nat → Nat, Function.Injective f ∧ (∀ t < n, f t < pre * (n * post)) ∧
      row = (K u).map fun tw => (f tw.1, tw.2) := by
  simp only [axisW, List.mem_map, List.mem_range] at h
  obtain ⟨j, hj, rfl⟩ := h
  have hm : 0 < m := Nat.pos_of_ne_zero fun h0 => by simp [h0] at hj
  have hp : 0 < post := Nat.pos_of_ne_zero fun h0 => by simp [h0] at hj
  refine ⟨_, Nat.mod_lt _ hm, fun t => (j / (m * post) * n + t) * post + j % post, ?_, ?_, rfl⟩
  · intro s t hst
    have := Nat.eq_of_mul_eq_mul_right hp (Nat.add_right_cancel hst)
    omega
  · intro t ht
    exact flat_lt (Nat.div_lt_of_lt_mul (by rw [Nat.mul_comm]; exact hj)) ht (Nat.mod_lt _ hp)

/-- **generic (b)**, no repetition, weights: with an in-range, repetition-free kernel every row stays inside the
input and names no position twice; every weight is a weight of the kernel -/
theorem axisW_ok {pre n post m : Nat} {K : Nat → Row} (P : Int → Prop) (hK : ∀ u < m, ∀ tw ∈ K u, tw.1 < n ∧ P tw.2)
    (hN : ∀ u < m, ((K u).map Prod.fst).Nodup) {row : Row} (h : row ∈ axisW pre n post m K) :
    (row.map Prod.fst).Nodup ∧ ∀ iw ∈ row, iw.1 < pre * (n * post) ∧ P iw.2 := by
  obtain ⟨u, hu, f, hf, hr, rfl⟩ := axisW_mem h
  constructor
  · have : ((K u).map fun tw => (f tw.1, tw.2)).map Prod.fst = ((K u).map Prod.fst).map f := by
      simp [List.map_map, Function.comp_def]
    rw [this]
    exact (hN u hu).map hf
  · intro iw hiw
    obtain ⟨tw, htw, rfl⟩ := List.mem_map.1 hiw
    exact ⟨hr _ (hK u hu tw htw).1, (hK u hu tw htw).2⟩

theorem pos_of_size_pos : ∀ {s : List Nat}, 0 < size s → ∀ d ∈ s, 0 < d
  | [], _ => by simp
  | d :: ds, h => by
    rw [size_cons] at h
    intro e he
    rcases List.mem_cons.1 he with rfl | he
    · exact Nat.pos_of_mul_pos_right h
    · exact pos_of_size_pos (Nat.pos_of_mul_pos_left h) e he

/-- every flat position of a shape is the position of a multi-index inside the shape -/
theorem exists_multi {s : List Nat} {i : Nat} (h : i < size s) : ∃ idx, InR idx s ∧ ravel s idx = i :=
  have hp := pos_of_size_pos (Nat.zero_lt_of_lt h)
  ⟨unravel s i, unravel_lt hp i, ravel_unravel hp h⟩

/-- coverage: every output position is the position of some multi-index `x ++ u :: y`, so `axisW_row` describes
every row of the table -/
theorem exists_split {a b : List Nat} {m j : Nat} (h : j < size a * (m * size b)) :
    ∃ x u y, InR x a ∧ u < m ∧ InR y b ∧ ravel (a ++ m :: b) (x ++ u :: y) = j := by
  have hm : 0 < m := Nat.pos_of_ne_zero fun h0 => by simp [h0] at h
  have hp : 0 < size b := Nat.pos_of_ne_zero fun h0 => by simp [h0] at h
  obtain ⟨x, hx, hxr⟩ := exists_multi (s := a) (i := j / (m * size b))
    (Nat.div_lt_of_lt_mul (by rw [Nat.mul_comm]; exact h))
  obtain ⟨y, hy, hyr⟩ := exists_multi (s := b) (i := j % size b) (Nat.mod_lt _ hp)
  refine ⟨x, j / size b % m, y, hx, Nat.mod_lt _ hm, hy, ?_⟩
  rw [ravel_mid b y hx (Nat.mod_lt _ hm), hxr, hyr, Nat.mul_comm m, ← Nat.div_div_eq_div_mul,
    Nat.div_add_mod' (j / size b) m, Nat.div_add_mod']

/-! ### 2. shapes split at an axis -/

/-- every shape with a valid axis is `a ++ n :: b` with `axis = a.length`; the theorems below are stated in this form -/
theorem shape_split {shape : List Nat} {axis : Nat} (h : axis < shape.length) :
    shape = shape.take axis ++ shape[axis] :: shape.drop (axis + 1) ∧ (shape.take axis).length = axis := by
  refine ⟨?_, by simp; omega⟩
  rw [List.getElem_cons_drop, List.take_append_drop]

variable (a b : List Nat) (n : Nat)
@[simp] theorem preOf_split : preOf (a ++ n :: b) a.length = size a := by simp [preOf]
@[simp] theorem dimOf_split : dimOf (a ++ n :: b) a.length = n := by simp [dimOf]
@[simp] theorem postOf_split : postOf (a ++ n :: b) a.length = size b := by simp [postOf]
@[simp] theorem setAxis_split (m : Nat) : setAxis (a ++ n :: b) a.length m = a ++ m :: b := by simp [setAxis]
@[simp] theorem dropAxis_split : dropAxis (a ++ n :: b) a.length = a ++ b := by simp [dropAxis]
@[simp] theorem insertAt_split (x y : List Nat) (t : Nat) : insertAt (x ++ y) x.length t = x ++ t :: y := by
  simp [insertAt]
theorem size_split : size (a ++ n :: b) = size a * (n * size b) := by rw [size_append, size_cons]

theorem ravel_one {x y : List Nat} (hx : InR x a) : ravel (a ++ 1 :: b) (x ++ 0 :: y) = ravel (a ++ b) (x ++ y) := by
  rw [ravel_mid b y hx Nat.one_pos, ravel_append _ _ _ _ hx.length_eq]
  simp

/-! ### 3. `sumAxisW` -/

theorem sumK_ok (u : Nat) : (∀ tw ∈ sumK n u, tw.1 < n ∧ tw.2 = 1) ∧ ((sumK n u).map Prod.fst).Nodup := by
  constructor
  · intro tw h
    obtain ⟨t, ht, rfl⟩ := List.mem_map.1 h
    exact ⟨List.mem_range.1 ht, rfl⟩
  · simp only [sumK, List.map_map, Function.comp_def, List.map_id']
    exact List.nodup_range

/-- the output shape of `sum` along an axis -/
def sumOut (keepdims : Bool) : List Nat := if keepdims then a ++ 1 :: b else a ++ b
/-- the output multi-index with coordinates `x` before and `y` after the summed axis -/
def sumIdx (keepdims : Bool) (x y : List Nat) : List Nat := if keepdims then x ++ 0 :: y else x ++ y

theorem size_sumOut (k : Bool) : size (sumOut a b k) = size a * (1 * size b) := by
  cases k <;> simp [sumOut, size_append]

/-- **`numpy.sum(a, axis, keepdims)`** on the shape `a ++ n :: b` along `axis = a.length`: (a) one row per output
position; (b) every listed position is inside the input, with weight 1, none twice; (c) the row of the output
multi-index `x ++ y` (`x ++ 0 :: y` with `keepdims`) lists exactly the positions of `x ++ t :: y` for `t < n` -/
theorem sumAxisW_spec (k : Bool) : ∃ T, sumAxisW (a ++ n :: b) a.length k = some (sumOut a b k, T) ∧
    T.length = size (sumOut a b k) ∧
    (∀ row ∈ T, (row.map Prod.fst).Nodup ∧ ∀ iw ∈ row, iw.1 < size (a ++ n :: b) ∧ iw.2 = 1) ∧
    ∀ x y, InR x a → InR y b → T.getD (ravel (sumOut a b k) (sumIdx k x y)) [] =
      (List.range n).map fun t => (ravel (a ++ n :: b) (x ++ t :: y), 1) := by
  refine ⟨axisW (size a) n (size b) 1 (sumK n), ?_, ?_, ?_, ?_⟩
  · simp [sumAxisW, sumOut]
  · rw [axisW_length, size_sumOut]
  · intro row h
    rw [size_split]
    exact axisW_ok (· = 1) (fun u _ => (sumK_ok n u).1) (fun u _ => (sumK_ok n u).2) h
  · intro x y hx hy
    have h1 : ravel (sumOut a b k) (sumIdx k x y) = ravel (a ++ 1 :: b) (x ++ 0 :: y) := by
      cases k
      · exact (ravel_one a b hx).symm
      · rfl
    rw [h1, axisW_row a b n 1 (sumK n) hx hy Nat.one_pos fun tw h => ((sumK_ok n 0).1 tw h).1]
    simp [sumK, List.map_map, Function.comp_def]

/-- out of range: numpy raises `AxisError` -/
theorem sumAxisW_none (shape : List Nat) (axis : Nat) (k : Bool) (h : shape.length ≤ axis) :
    sumAxisW shape axis k = none := by
  simp [sumAxisW, Nat.not_lt.2 h]

/-- the form with `insertAt`: for a valid axis and an output multi-index `j` (without the axis), the row lists the
positions of `j` with `t` inserted at the axis, `t < shape[axis]` -/
theorem sumAxisW_insertAt (shape : List Nat) (axis : Nat) (h : axis < shape.length) :
    ∃ T, sumAxisW shape axis false = some (dropAxis shape axis, T) ∧ T.length = size (dropAxis shape axis) ∧
      ∀ j, InR j (dropAxis shape axis) → T.getD (ravel (dropAxis shape axis) j) [] =
        (List.range shape[axis]).map fun t => (ravel shape (insertAt j axis t), 1) := by
  obtain ⟨hs, hl⟩ := shape_split h
  generalize shape[axis] = n at hs
  generalize shape.take axis = a at hs hl
  generalize shape.drop (axis + 1) = b at hs
  subst hs hl
  obtain ⟨T, hT, hlen, -, hrow⟩ := sumAxisW_spec a b n false
  refine ⟨T, by simpa [sumOut] using hT, by simpa [sumOut] using hlen, ?_⟩
  intro j hj
  rw [dropAxis_split] at hj ⊢
  have hx := List.forall₂_take_append j a b hj
  have hy := List.forall₂_drop_append j a b hj
  have := hrow _ _ hx hy
  simp only [sumOut, sumIdx, Bool.false_eq_true, if_false, List.take_append_drop] at this
  rw [this]
  apply List.map_congr_left
  intro t _
  rfl

/-! ### 4. `sumAllW` -/

theorem size_ones (s : List Nat) : size (s.map fun _ => 1) = 1 := by
  induction s with
  | nil => rfl
  | cons d ds ih => rw [List.map_cons, size_cons, ih]

/-- **`numpy.sum(a)`** (axis=None): one output position; its row lists every input position exactly once (so the
position of every multi-index inside the shape), ascending, with weight 1 -/
theorem sumAllW_spec (shape : List Nat) (k : Bool) : ∃ out row, sumAllW shape k = some (out, [row]) ∧
    [row].length = size out ∧ out = (if k then shape.map fun _ => 1 else []) ∧
    (row.map Prod.fst) = List.range (size shape) ∧ (∀ iw ∈ row, iw.1 < size shape ∧ iw.2 = 1) ∧
    (∀ idx, InR idx shape → (ravel shape idx, 1) ∈ row) := by
  refine ⟨_, _, rfl, ?_, rfl, ?_, ?_, ?_⟩
  · cases k
    · rfl
    · simp only [if_true, size_ones, List.length_singleton]
  · simp [List.map_map, Function.comp_def]
  · intro iw h
    obtain ⟨i, hi, rfl⟩ := List.mem_map.1 h
    exact ⟨List.mem_range.1 hi, rfl⟩
  · intro idx h
    exact List.mem_map.2 ⟨_, List.mem_range.2 h.ravel_lt, rfl⟩

/-! ### 5. `cumsumAxisW` -/

theorem cumsumK_ok (u : Nat) (hu : u < n) :
    (∀ tw ∈ cumsumK u, tw.1 < n ∧ tw.2 = 1) ∧ ((cumsumK u).map Prod.fst).Nodup := by
  constructor
  · intro tw h
    obtain ⟨t, ht, rfl⟩ := List.mem_map.1 h
    exact ⟨by have := List.mem_range.1 ht; omega, rfl⟩
  · simp only [cumsumK, List.map_map, Function.comp_def, List.map_id']
    exact List.nodup_range

/-- **`numpy.cumsum(a, axis)`** on `a ++ n :: b` along `axis = a.length`: same shape; positions inside the input,
weight 1, none twice; the row of `x ++ u :: y` lists exactly the positions of `x ++ t :: y` for `t ≤ u` -/
theorem cumsumAxisW_spec : ∃ T, cumsumAxisW (a ++ n :: b) a.length = some (a ++ n :: b, T) ∧
    T.length = size (a ++ n :: b) ∧
    (∀ row ∈ T, (row.map Prod.fst).Nodup ∧ ∀ iw ∈ row, iw.1 < size (a ++ n :: b) ∧ iw.2 = 1) ∧
    ∀ x y u, InR x a → InR y b → u < n → T.getD (ravel (a ++ n :: b) (x ++ u :: y)) [] =
      (List.range (u + 1)).map fun t => (ravel (a ++ n :: b) (x ++ t :: y), 1) := by
  refine ⟨axisW (size a) n (size b) n cumsumK, ?_, ?_, ?_, ?_⟩
  · simp [cumsumAxisW]
  · rw [axisW_length, size_split]
  · intro row h
    rw [size_split]
    exact axisW_ok (· = 1) (fun u hu => (cumsumK_ok n u hu).1) (fun u hu => (cumsumK_ok n u hu).2) h
  · intro x y u hx hy hu
    rw [axisW_row a b n n cumsumK hx hy hu fun tw h => ((cumsumK_ok n u hu).1 tw h).1]
    simp [cumsumK, List.map_map, Function.comp_def]

theorem cumsumAxisW_none (shape : List Nat) (axis : Nat) (h : shape.length ≤ axis) :
    cumsumAxisW shape axis = none := by
  simp [cumsumAxisW, Nat.not_lt.2 h]

/-! ### 6. `diffW` -/

theorem diffK_ok (u : Nat) (hu : u < n - 1) :
    (∀ tw ∈ diffK u, tw.1 < n ∧ (tw.2 = 1 ∨ tw.2 = -1)) ∧ ((diffK u).map Prod.fst).Nodup := by
  simp [diffK]
  omega

/-- **`numpy.diff(a, n=1, axis)`** on `a ++ n :: b` along `axis = a.length`: the axis shrinks to `n - 1`; positions
inside the input, weights ±1, none twice; the row of `x ++ u :: y` is `+ a[x, u+1, y] - a[x, u, y]` -/
theorem diffW_spec : ∃ T, diffW (a ++ n :: b) a.length = some (a ++ (n - 1) :: b, T) ∧
    T.length = size (a ++ (n - 1) :: b) ∧
    (∀ row ∈ T, (row.map Prod.fst).Nodup ∧ ∀ iw ∈ row, iw.1 < size (a ++ n :: b) ∧ (iw.2 = 1 ∨ iw.2 = -1)) ∧
    ∀ x y u, InR x a → InR y b → u < n - 1 → T.getD (ravel (a ++ (n - 1) :: b) (x ++ u :: y)) [] =
      [(ravel (a ++ n :: b) (x ++ (u + 1) :: y), 1), (ravel (a ++ n :: b) (x ++ u :: y), -1)] := by
  refine ⟨axisW (size a) n (size b) (n - 1) diffK, ?_, ?_, ?_, ?_⟩
  · simp [diffW]
  · rw [axisW_length, size_split]
  · intro row h
    rw [size_split]
    exact axisW_ok (fun w => w = 1 ∨ w = -1) (fun u hu => (diffK_ok n u hu).1) (fun u hu => (diffK_ok n u hu).2) h
  · intro x y u hx hy hu
    rw [axisW_row a b n (n - 1) diffK hx hy hu fun tw h => ((diffK_ok n u hu).1 tw h).1]
    rfl

theorem diffW_none (shape : List Nat) (axis : Nat) (h : shape.length ≤ axis) : diffW shape axis = none := by
  simp [diffW, Nat.not_lt.2 h]

/-! ### 7. `ediff1dW`, `cumsumFlatW` -/

/-- **`numpy.ediff1d(a)`**: `size - 1` rows; row `j` is `+ a.flat[j+1] - a.flat[j]`, both inside the input, and
`a.flat[i]` is the element at the multi-index `unravel shape i` -/
theorem ediff1dW_spec (shape : List Nat) : ∃ T, ediff1dW shape = some ([size shape - 1], T) ∧
    T.length = size [size shape - 1] ∧
    (∀ row ∈ T, (row.map Prod.fst).Nodup ∧ ∀ iw ∈ row, iw.1 < size shape ∧ (iw.2 = 1 ∨ iw.2 = -1)) ∧
    ∀ j, j < size shape - 1 → T.getD j [] = [(j + 1, 1), (j, -1)] ∧
      T.getD j [] = [(ravel shape (unravel shape (j + 1)), 1), (ravel shape (unravel shape j), -1)] ∧
      InR (unravel shape (j + 1)) shape ∧ InR (unravel shape j) shape := by
  refine ⟨_, rfl, by simp, ?_, ?_⟩
  · intro row h
    obtain ⟨j, hj, rfl⟩ := List.mem_map.1 h
    have := List.mem_range.1 hj
    simp
    omega
  · intro j hj
    have hp := pos_of_size_pos (s := shape) (by omega)
    have h1 : (List.map (fun j => [(j + 1, (1 : Int)), (j, -1)]) (List.range (size shape - 1))).getD j [] =
        [(j + 1, 1), (j, -1)] := by
      simp [List.getD_eq_getElem?_getD, List.getElem?_map, List.getElem?_range hj]
    refine ⟨h1, ?_, unravel_lt hp _, unravel_lt hp _⟩
    rw [h1, ravel_unravel hp (by omega), ravel_unravel hp (by omega)]

/-- **`numpy.cumsum(a)`** (axis=None): `size` rows; row `j` lists the flat positions `0..j` (weight 1) -/
theorem cumsumFlatW_spec (shape : List Nat) : ∃ T, cumsumFlatW shape = some ([size shape], T) ∧
    T.length = size [size shape] ∧
    (∀ row ∈ T, (row.map Prod.fst).Nodup ∧ ∀ iw ∈ row, iw.1 < size shape ∧ iw.2 = 1) ∧
    ∀ j, j < size shape → T.getD j [] = (List.range (j + 1)).map fun t => (t, 1) := by
  refine ⟨_, rfl, by simp, ?_, ?_⟩
  · intro row h
    obtain ⟨j, hj, rfl⟩ := List.mem_map.1 h
    have := List.mem_range.1 hj
    refine ⟨by simpa [List.map_map, Function.comp_def] using List.nodup_range, ?_⟩
    intro iw hiw
    obtain ⟨t, ht, rfl⟩ := List.mem_map.1 hiw
    have := List.mem_range.1 ht
    exact ⟨by omega, rfl⟩
  · intro j hj
    simp [List.getD_eq_getElem?_getD, List.getElem?_map, List.getElem?_range hj]

/-! ### 8. `prodAxisG` -/

/-- **`numpy.prod(a, axis, keepdims)`**: the group of the output multi-index `x ++ y` lists exactly the positions of
`x ++ t :: y` for `t < n`, inside the input, none twice -/
theorem prodAxisG_spec (k : Bool) : ∃ G, prodAxisG (a ++ n :: b) a.length k = some (sumOut a b k, G) ∧
    G.length = size (sumOut a b k) ∧
    (∀ g ∈ G, g.Nodup ∧ ∀ i ∈ g, i < size (a ++ n :: b)) ∧
    ∀ x y, InR x a → InR y b → G.getD (ravel (sumOut a b k) (sumIdx k x y)) [] =
      (List.range n).map fun t => ravel (a ++ n :: b) (x ++ t :: y) := by
  obtain ⟨T, hT, hlen, hmem, hrow⟩ := sumAxisW_spec a b n k
  refine ⟨T.map fun row => row.map Prod.fst, by simp [prodAxisG, hT], by simpa using hlen, ?_, ?_⟩
  · intro g hg
    obtain ⟨row, hr, rfl⟩ := List.mem_map.1 hg
    refine ⟨(hmem row hr).1, ?_⟩
    intro i hi
    obtain ⟨iw, hiw, rfl⟩ := List.mem_map.1 hi
    exact ((hmem row hr).2 iw hiw).1
  · intro x y hx hy
    have h := hrow x y hx hy
    have hg : ∀ j, (T.map fun row => row.map Prod.fst).getD j [] = (T.getD j []).map Prod.fst := by
      intro j
      simp only [List.getD_eq_getElem?_getD, List.getElem?_map]
      cases T[j]? <;> simp
    rw [hg, h]
    simp [List.map_map, Function.comp_def]

/-! ### 9. `sumAxesW` -/

theorem unravel_ravel {idx s : List Nat} (h : InR idx s) : unravel s (ravel s idx) = idx := by
  induction h with
  | nil => rfl
  | @cons x d xs ds hxd ht ih =>
    have hr : ravel ds xs < size ds := InR.ravel_lt ht
    rw [ravel, unravel, Nat.mod_eq_of_lt hxd, flat_div hr, flat_mod hr, Nat.mod_eq_of_lt hxd, ih]

theorem size_keep_drop (axes : List Nat) : ∀ (s : List Nat) (k : Nat),
    size (keepShape axes s k) = size (dropShape axes s k)
  | [], _ => rfl
  | d :: ds, k => by
    simp only [keepShape, maskAxes, dropShape]
    split <;> simp [size_keep_drop axes ds (k + 1)]

theorem nodupB_iff : ∀ (l : List Nat), nodupB l = true ↔ l.Nodup
  | [] => by simp [nodupB]
  | x :: xs => by simp [nodupB, nodupB_iff xs]

/-- **`numpy.sum(a, axis=tuple(axes), keepdims)`** for distinct axes in range: the output shape drops the axes (or
sets them to 1; the flat positions are the same); (a) one row per output position; (b) positions inside the input,
ascending (so none twice), weight 1; (c) for an output multi-index `jdx` (in the shape with the axes set to 1) the row
contains the position of an input multi-index `idx` iff `idx` agrees with `jdx` outside the axes -/
theorem sumAxesW_spec (shape axes : List Nat) (k : Bool) (h1 : ∀ ax ∈ axes, ax < shape.length) (h2 : axes.Nodup) :
    ∃ T, sumAxesW shape axes k = some (if k then keepShape axes shape 0 else dropShape axes shape 0, T) ∧
    T.length = size (keepShape axes shape 0) ∧ T.length = size (dropShape axes shape 0) ∧
    (∀ row ∈ T, (row.map Prod.fst).Pairwise (· < ·) ∧ ∀ iw ∈ row, iw.1 < size shape ∧ iw.2 = 1) ∧
    ∀ jdx, InR jdx (keepShape axes shape 0) → ∀ idx, InR idx shape →
      ((ravel shape idx, 1) ∈ T.getD (ravel (keepShape axes shape 0) jdx) [] ↔ projIdx axes idx 0 = jdx) := by
  have hc : (axes.all (· < shape.length) && nodupB axes) = true := by
    simp only [Bool.and_eq_true, List.all_eq_true, decide_eq_true_eq, nodupB_iff]
    exact ⟨h1, h2⟩
  refine ⟨_, by simp only [sumAxesW, hc, if_true]; rfl, by simp, by simp [size_keep_drop], ?_, ?_⟩
  · intro row h
    obtain ⟨j, -, rfl⟩ := List.mem_map.1 h
    constructor
    · simp only [List.map_map, Function.comp_def, List.map_id']
      exact List.Pairwise.filter _ List.pairwise_lt_range
    · intro iw hiw
      obtain ⟨i, hi, rfl⟩ := List.mem_map.1 hiw
      exact ⟨List.mem_range.1 (List.mem_filter.1 hi).1, rfl⟩
  · intro jdx hj idx hi
    rw [List.getD_eq_getElem?_getD, List.getElem?_map, List.getElem?_range hj.ravel_lt]
    simp only [Option.map_some, Option.getD_some, List.mem_map, List.mem_filter, List.mem_range, Prod.mk.injEq,
      and_true, beq_iff_eq]
    rw [unravel_ravel hj]
    constructor
    · rintro ⟨i, ⟨-, hp⟩, rfl⟩
      rwa [unravel_ravel hi] at hp
    · intro hp
      exact ⟨_, ⟨hi.ravel_lt, by rwa [unravel_ravel hi]⟩, rfl⟩

theorem sumAxesW_none (shape axes : List Nat) (k : Bool)
    (h : (∃ ax ∈ axes, shape.length ≤ ax) ∨ ¬ axes.Nodup) : sumAxesW shape axes k = none := by
  have hc : (axes.all (· < shape.length) && nodupB axes) = false := by
    rw [Bool.and_eq_false_iff]
    rcases h with ⟨ax, hax, hl⟩ | h
    · left
      rw [Bool.eq_false_iff]
      intro hall
      have := List.all_eq_true.1 hall ax hax
      simp at this
      omega
    · right
      rw [Bool.eq_false_iff, ne_eq, nodupB_iff]
      exact h
  simp only [sumAxesW, hc]
  rfl

/-! ### 10. `sumAxesW` with one axis is `sumAxisW` -/

theorem InR.mid {x a y b : List Nat} {t n : Nat} (hx : InR x a) (ht : t < n) (hy : InR y b) :
    InR (x ++ t :: y) (a ++ n :: b) := by
  induction hx with
  | nil => exact .cons ht hy
  | cons h _ ih => exact .cons h ih

theorem InR.split {b : List Nat} {n : Nat} : ∀ {a idx : List Nat}, InR idx (a ++ n :: b) →
    ∃ x t y, idx = x ++ t :: y ∧ InR x a ∧ t < n ∧ InR y b
  | [], _, h => by
    cases h with
    | cons ht hy => exact ⟨[], _, _, rfl, .nil, ht, hy⟩
  | d :: a, _, h => by
    cases h with
    | cons hd hr =>
      obtain ⟨x, t, y, rfl, hx, ht, hy⟩ := InR.split hr
      exact ⟨_ :: x, t, y, rfl, .cons hd hx, ht, hy⟩

theorem maskAxes_tail (c v : Nat) : ∀ (l : List Nat) (k : Nat), c < k → maskAxes [c] v l k = l
  | [], _, _ => rfl
  | d :: ds, k, h => by
    have hc : ([c].contains k) = false := by simp; omega
    rw [maskAxes, hc, maskAxes_tail c v ds (k + 1) (by omega)]
    simp

theorem maskAxes_single (v : Nat) (b : List Nat) (t : Nat) : ∀ (a : List Nat) (k : Nat),
    maskAxes [k + a.length] v (a ++ t :: b) k = a ++ v :: b
  | [], k => by simp [maskAxes, maskAxes_tail k v b (k + 1)]
  | d :: a, k => by
    have h : k + (d :: a).length = (k + 1) + a.length := by simp; omega
    have hc : ([k + 1 + a.length].contains k) = false := by simp; omega
    rw [h, List.cons_append, maskAxes, hc, maskAxes_single v b t a (k + 1)]
    simp

theorem dropShape_tail (c : Nat) : ∀ (l : List Nat) (k : Nat), c < k → dropShape [c] l k = l
  | [], _, _ => rfl
  | d :: ds, k, h => by
    have hc : ([c].contains k) = false := by simp; omega
    rw [dropShape, hc, dropShape_tail c ds (k + 1) (by omega)]
    simp

theorem dropShape_single (b : List Nat) (t : Nat) : ∀ (a : List Nat) (k : Nat),
    dropShape [k + a.length] (a ++ t :: b) k = a ++ b
  | [], k => by simp [dropShape, dropShape_tail k b (k + 1)]
  | d :: a, k => by
    have h : k + (d :: a).length = (k + 1) + a.length := by simp; omega
    have hc : ([k + 1 + a.length].contains k) = false := by simp; omega
    rw [h, List.cons_append, dropShape, hc, dropShape_single b t a (k + 1)]
    simp

/-- the positions selected by the filter of `sumAxesW` for one axis are those listed by `sumAxisW`, in the same order -/
theorem filter_single {x y : List Nat} (hx : InR x a) (hy : InR y b) :
    (List.range (size (a ++ n :: b))).filter
        (fun i => maskAxes [a.length] 0 (unravel (a ++ n :: b) i) 0 == x ++ 0 :: y) =
      (List.range n).map fun t => ravel (a ++ n :: b) (x ++ t :: y) := by
  have hm := fun (l : List Nat) t => by simpa using maskAxes_single 0 l t
  apply List.Subset.antisymm_of_pairwise (r := (· < ·))
  · exact List.Pairwise.filter _ List.pairwise_lt_range
  · rw [List.pairwise_map]
    refine List.pairwise_lt_range.imp_of_mem ?_
    intro s t hs ht hst
    rw [ravel_mid b y hx (List.mem_range.1 hs), ravel_mid b y hx (List.mem_range.1 ht)]
    have := Nat.mul_lt_mul_of_pos_right (show ravel a x * n + s < ravel a x * n + t by omega)
      (Nat.zero_lt_of_lt hy.ravel_lt)
    omega
  · intro i hi
    obtain ⟨hlt, hp⟩ := List.mem_filter.1 hi
    obtain ⟨idx, hidx, rfl⟩ := exists_multi (List.mem_range.1 hlt)
    obtain ⟨x', t, y', rfl, hx', ht, hy'⟩ := InR.split hidx
    rw [unravel_ravel hidx, beq_iff_eq] at hp
    have h0 : maskAxes [0 + x'.length] 0 (x' ++ t :: y') 0 = x' ++ 0 :: y' := maskAxes_single 0 y' t x' 0
    rw [Nat.zero_add, hx'.length_eq] at h0
    rw [h0] at hp
    obtain ⟨rfl, h3⟩ := List.append_inj hp (by rw [hx'.length_eq, hx.length_eq])
    obtain rfl : y' = y := by simpa using h3
    exact List.mem_map.2 ⟨t, List.mem_range.2 ht, rfl⟩
  · intro i hi
    obtain ⟨t, ht, rfl⟩ := List.mem_map.1 hi
    have hidx := InR.mid hx (List.mem_range.1 ht) hy
    refine List.mem_filter.2 ⟨List.mem_range.2 hidx.ravel_lt, ?_⟩
    have h0 : maskAxes [0 + x.length] 0 (x ++ t :: y) 0 = x ++ 0 :: y := maskAxes_single 0 y t x 0
    rw [Nat.zero_add, hx.length_eq] at h0
    rw [unravel_ravel hidx, h0, beq_self_eq_true]

/-- **(d)** `numpy.sum(a, axis=(k,))` is `numpy.sum(a, axis=k)`: the same output shape and the same table -/
theorem sumAxesW_single (k : Bool) :
    sumAxesW (a ++ n :: b) [a.length] k = sumAxisW (a ++ n :: b) a.length k := by
  have hk : keepShape [a.length] (a ++ n :: b) 0 = a ++ 1 :: b := by
    simpa using maskAxes_single 1 b n a 0
  have hd : dropShape [a.length] (a ++ n :: b) 0 = a ++ b := by
    simpa using dropShape_single b n a 0
  obtain ⟨T, hT, hlen, -, hrow⟩ := sumAxisW_spec a b n true
  obtain ⟨T', hT', -⟩ := sumAxisW_spec a b n k
  have hTT : T' = T := by
    have h1 : (sumAxisW (a ++ n :: b) a.length k).map Prod.snd = (sumAxisW (a ++ n :: b) a.length true).map Prod.snd := by
      simp [sumAxisW]
    simpa [hT, hT'] using h1
  subst hTT
  have hc : (([a.length].all (· < (a ++ n :: b).length)) && nodupB [a.length]) = true := by simp [nodupB]
  rw [hT']
  simp only [sumAxesW, hc, if_true, hk, hd, sumOut]
  congr 2
  apply List.ext_getElem
  · simpa [sumOut] using hlen.symm
  · intro j h1 h2
    rw [List.length_map, List.length_range, size_split] at h1
    obtain ⟨x, u, y, hx, hu, hy, rfl⟩ := exists_split h1
    obtain rfl : u = 0 := by omega
    have h3 := hrow x y hx hy
    simp only [sumOut, sumIdx, if_true] at h3
    rw [List.getElem_eq_getD (h := h2) [], h3, List.getElem_map, List.getElem_range,
      unravel_ravel (InR.mid hx Nat.one_pos hy), filter_single a b n hx hy, List.map_map]
    rfl

/-! ### 11. composition of tables; `diff` twice; `diffNW` -/

/-- composition of one-dimensional kernels -/
def composeK (K2 K1 : Nat → Row) : Nat → Row :=
  fun u => (K2 u).flatMap fun tw => (K1 tw.1).map fun sv => (sv.1, tw.2 * sv.2)

/-- composing two tables along the same axis composes their kernels -/
theorem composeW_axis (pre n post m m' : Nat) (K1 K2 : Nat → Row) (hK : ∀ u < m', ∀ tw ∈ K2 u, tw.1 < m) :
    composeW (axisW pre m post m' K2) (axisW pre n post m K1) = axisW pre n post m' (composeK K2 K1) := by
  simp only [composeW, axisW, List.map_map]
  apply List.map_congr_left
  intro j hj
  have hj := List.mem_range.1 hj
  have hm : 0 < m' := Nat.pos_of_ne_zero fun h0 => by simp [h0] at hj
  have hp : 0 < post := Nat.pos_of_ne_zero fun h0 => by simp [h0] at hj
  have ho : j / (m' * post) < pre := Nat.div_lt_of_lt_mul (by rw [Nat.mul_comm]; exact hj)
  simp only [Function.comp, composeK, List.flatMap_map, List.map_flatMap, List.map_map]
  apply List.flatMap_congr
  intro tw htw
  have ht := hK _ (Nat.mod_lt _ hm) tw htw
  have hr := Nat.mod_lt j hp
  obtain ⟨h1, h2, h3⟩ := flat3 (o := j / (m' * post)) ht hr
  have := axisW_getD pre n post m K1 (flat_lt ho ht hr)
  simp only [axisW] at this
  rw [this, h1, h2, h3, List.map_map]
  rfl

theorem composeW_id (T : Table) (N : Nat) (h : ∀ row ∈ T, ∀ kw ∈ row, kw.1 < N) : composeW T (idW N) = T := by
  simp only [composeW]
  conv_rhs => rw [← List.map_id T]
  apply List.map_congr_left
  intro row hrow
  have h := h row hrow
  clear hrow
  induction row with
  | nil => rfl
  | cons kw rest ih =>
    have hk : (idW N).getD kw.1 [] = [(kw.1, 1)] := by
      simp [idW, List.getD_eq_getElem?_getD, List.getElem?_map, List.getElem?_range (h kw (by simp))]
    rw [List.flatMap_cons, hk, ih fun kw' hk' => h kw' (by simp [hk'])]
    simp

theorem ravel_mid_ne {x y : List Nat} (hx : InR x a) (hy : InR y b) {s t : Nat} (hs : s < n) (ht : t < n)
    (hst : s ≠ t) : ravel (a ++ n :: b) (x ++ s :: y) ≠ ravel (a ++ n :: b) (x ++ t :: y) := by
  rw [ravel_mid b y hx hs, ravel_mid b y hx ht]
  intro h
  have := Nat.eq_of_mul_eq_mul_right (Nat.zero_lt_of_lt hy.ravel_lt) (Nat.add_right_cancel h)
  omega

theorem merge3 {p2 p1 p0 : Nat} (h21 : p2 ≠ p1) (h10 : p1 ≠ p0) (h20 : p2 ≠ p0) :
    mergeRow [(p2, 1), (p1, -1), (p1, -1), (p0, 1)] = [(p2, 1), (p1, -2), (p0, 1)] := by
  simp [mergeRow, addEntry, h21, h10, h20]

theorem diffK2 (u : Nat) : composeK diffK diffK u = [(u + 2, 1), (u + 1, -1), (u + 1, -1), (u, 1)] := by
  simp [composeK, diffK]

/-- **(d)** `diff` twice along an axis: the second table composed with the first has, at the output multi-index
`x ++ u :: y`, after merging equal positions, the weights `(1, -2, 1)` on `a[x, u+2, y]`, `a[x, u+1, y]`, `a[x, u, y]` -/
theorem diffW_twice : ∃ T1 T2, diffW (a ++ n :: b) a.length = some (a ++ (n - 1) :: b, T1) ∧
    diffW (a ++ (n - 1) :: b) a.length = some (a ++ (n - 1 - 1) :: b, T2) ∧
    (composeW T2 T1).length = size (a ++ (n - 1 - 1) :: b) ∧
    ∀ x y u, InR x a → InR y b → u + 2 < n →
      mergeRow ((composeW T2 T1).getD (ravel (a ++ (n - 1 - 1) :: b) (x ++ u :: y)) []) =
        [(ravel (a ++ n :: b) (x ++ (u + 2) :: y), 1), (ravel (a ++ n :: b) (x ++ (u + 1) :: y), -2),
          (ravel (a ++ n :: b) (x ++ u :: y), 1)] := by
  refine ⟨axisW (size a) n (size b) (n - 1) diffK, axisW (size a) (n - 1) (size b) (n - 1 - 1) diffK,
    by simp [diffW], by simp [diffW], ?_, ?_⟩
  · simp [composeW, axisW_length, size_split]
  · intro x y u hx hy hu
    have hK : ∀ v < n - 1 - 1, ∀ tw ∈ diffK v, tw.1 < n - 1 := by
      intro v hv tw htw
      simp only [diffK, List.mem_cons, List.not_mem_nil, or_false] at htw
      rcases htw with rfl | rfl <;> simp <;> omega
    rw [composeW_axis _ _ _ _ _ _ _ hK, axisW_row a b n (n - 1 - 1) _ hx hy (by omega)]
    · rw [diffK2]
      exact merge3 (ravel_mid_ne a b n hx hy (by omega) (by omega) (by omega))
        (ravel_mid_ne a b n hx hy (by omega) (by omega) (by omega))
        (ravel_mid_ne a b n hx hy (by omega) (by omega) (by omega))
    · intro tw htw
      rw [diffK2] at htw
      simp only [List.mem_cons, List.not_mem_nil, or_false] at htw
      rcases htw with rfl | rfl | rfl | rfl <;> simp <;> omega

/-- the one-dimensional kernel of the `k`-fold difference (not merged) -/
def iterK : Nat → Nat → Row
  | 0 => fun u => [(u, 1)]
  | k + 1 => composeK diffK (iterK k)

theorem iterK_le : ∀ (k u : Nat), ∀ tw ∈ iterK k u, tw.1 ≤ u + k
  | 0, u, tw, h => by
    simp only [iterK, List.mem_singleton] at h
    subst h
    simp
  | k + 1, u, tw, h => by
    simp only [iterK, composeK, diffK, List.flatMap_cons, List.flatMap_nil, List.append_nil, List.mem_append,
      List.mem_map] at h
    rcases h with ⟨sv, hsv, rfl⟩ | ⟨sv, hsv, rfl⟩
    · have := iterK_le k (u + 1) sv hsv
      simp only
      omega
    · have := iterK_le k u sv hsv
      simp only
      omega

theorem idW_axis (pre post : Nat) : idW (pre * (n * post)) = axisW pre n post n (iterK 0) := by
  simp only [idW, axisW, iterK]
  apply List.map_congr_left
  intro j _
  rw [List.map_singleton, Nat.mul_comm n post, ← Nat.div_div_eq_div_mul, Nat.div_add_mod' (j / post) n,
    Nat.div_add_mod']

/-- the `k`-fold composition of `diffW` is the axis table of the `k`-fold composed kernel, on the axis shrunk by `k` -/
theorem diffNRaw_eq : ∀ k : Nat, diffNRaw (a ++ n :: b) k a.length =
    some (a ++ (n - k) :: b, axisW (size a) n (size b) (n - k) (iterK k))
  | 0 => by simp [diffNRaw, size_split, idW_axis]
  | k + 1 => by
    have hK : ∀ u < n - k - 1, ∀ tw ∈ diffK u, tw.1 < n - k := by
      intro v hv tw htw
      simp only [diffK, List.mem_cons, List.not_mem_nil, or_false] at htw
      rcases htw with rfl | rfl <;> simp <;> omega
    have hd : diffW (a ++ (n - k) :: b) a.length =
        some (a ++ (n - k - 1) :: b, axisW (size a) (n - k) (size b) (n - k - 1) diffK) := by simp [diffW]
    simp only [diffNRaw, diffNRaw_eq k, hd, Nat.sub_sub, iterK]
    rw [← Nat.sub_sub, composeW_axis _ _ _ _ _ _ _ hK]

theorem addEntry_fst (p : Nat) (w : Int) : ∀ (r : Row), ∀ q ∈ (addEntry p w r).map Prod.fst, q = p ∨ q ∈ r.map Prod.fst
  | [], q, h => by simpa [addEntry] using h
  | qv :: rest, q, h => by
    rw [addEntry] at h
    split at h
    · right; simpa using h
    · rw [List.map_cons, List.mem_cons] at h
      rcases h with rfl | h
      · right; simp
      · rcases addEntry_fst p w rest q h with h | h
        · exact .inl h
        · right
          rw [List.map_cons, List.mem_cons]
          exact .inr h

theorem mergeRow_fst (r : Row) : ∀ q ∈ (mergeRow r).map Prod.fst, q ∈ r.map Prod.fst := by
  have key : ∀ (r acc : Row), ∀ q ∈ (r.foldl (fun acc pw => addEntry pw.1 pw.2 acc) acc).map Prod.fst,
      q ∈ acc.map Prod.fst ∨ q ∈ r.map Prod.fst := by
    intro r
    induction r with
    | nil => intro acc q h; exact .inl h
    | cons pw rest ih =>
      intro acc q h
      rcases ih _ q h with h | h
      · rcases addEntry_fst _ _ _ q h with rfl | h
        · right; simp
        · exact .inl h
      · right
        rw [List.map_cons, List.mem_cons]
        exact .inr h
  intro q h
  simpa using key r [] q h

/-- **`numpy.diff(a, n=k, axis)`** as `k`-fold composition: the axis shrinks to `n - k`; (a) one row per output
position; (b) positions inside the input; (c) the row of `x ++ u :: y` is the merged `k`-fold difference kernel at `u`
(entries `(t, w)` with `t ≤ u + k`) read at the input multi-indices `x ++ t :: y` -/
theorem diffNW_spec (k : Nat) : ∃ T, diffNW (a ++ n :: b) k a.length = some (a ++ (n - k) :: b, T) ∧
    T.length = size (a ++ (n - k) :: b) ∧
    (∀ row ∈ T, ∀ iw ∈ row, iw.1 < size (a ++ n :: b)) ∧
    ∀ x y u, InR x a → InR y b → u + k < n → T.getD (ravel (a ++ (n - k) :: b) (x ++ u :: y)) [] =
      mergeRow ((iterK k u).map fun tw => (ravel (a ++ n :: b) (x ++ tw.1 :: y), tw.2)) := by
  have hK : ∀ u < n - k, ∀ tw ∈ iterK k u, tw.1 < n ∧ True := fun u hu tw h =>
    ⟨by have := iterK_le k u tw h; omega, trivial⟩
  refine ⟨(axisW (size a) n (size b) (n - k) (iterK k)).map mergeRow,
    by simp only [diffNW, diffNRaw_eq, Option.map_some], ?_, ?_, ?_⟩
  · simp [axisW_length, size_split]
  · intro row hrow iw hiw
    obtain ⟨raw, hraw, rfl⟩ := List.mem_map.1 hrow
    have hq := mergeRow_fst raw iw.1 (List.mem_map.2 ⟨iw, hiw, rfl⟩)
    obtain ⟨iw', hiw', he⟩ := List.mem_map.1 hq
    obtain ⟨u, hu, f, -, hf, rfl⟩ := axisW_mem hraw
    obtain ⟨tw, htw, rfl⟩ := List.mem_map.1 hiw'
    rw [← he, size_split]
    exact hf _ (hK u hu tw htw).1
  · intro x y u hx hy hu
    rw [List.getD_eq_getElem?_getD, List.getElem?_map, ← axisW_row a b n (n - k) (iterK k) hx hy (by omega)
      fun tw h => (hK u (by omega) tw h).1, List.getD_eq_getElem?_getD]
    have hlt : ravel (a ++ (n - k) :: b) (x ++ u :: y) < (axisW (size a) n (size b) (n - k) (iterK k)).length := by
      rw [axisW_length, ← size_split]
      exact (InR.mid hx (by omega) hy).ravel_lt
    rw [List.getElem?_eq_getElem hlt]
    rfl

/-- **(d)** `numpy.diff(a, n=2, axis)`: the weights `(1, -2, 1)` on `a[x, u+2, y]`, `a[x, u+1, y]`, `a[x, u, y]` -/
theorem diffNW_two : ∃ T, diffNW (a ++ n :: b) 2 a.length = some (a ++ (n - 2) :: b, T) ∧
    ∀ x y u, InR x a → InR y b → u + 2 < n → T.getD (ravel (a ++ (n - 2) :: b) (x ++ u :: y)) [] =
      [(ravel (a ++ n :: b) (x ++ (u + 2) :: y), 1), (ravel (a ++ n :: b) (x ++ (u + 1) :: y), -2),
        (ravel (a ++ n :: b) (x ++ u :: y), 1)] := by
  obtain ⟨T, hT, -, -, hrow⟩ := diffNW_spec a b n 2
  refine ⟨T, hT, fun x y u hx hy hu => ?_⟩
  rw [hrow x y u hx hy hu]
  have h2 : iterK 2 u = [(u + 2, 1), (u + 1, -1), (u + 1, -1), (u, 1)] := by
    simp [iterK, composeK, diffK]
  rw [h2]
  exact merge3 (ravel_mid_ne a b n hx hy (by omega) (by omega) (by omega))
    (ravel_mid_ne a b n hx hy (by omega) (by omega) (by omega))
    (ravel_mid_ne a b n hx hy (by omega) (by omega) (by omega))

/-- `n = 0` returns the array unchanged whatever the axis; `n > 0` with the axis out of range raises -/
theorem diffNW_zero (shape : List Nat) (axis : Nat) :
    diffNW shape 0 axis = some (shape, (idW (size shape)).map mergeRow) := rfl

theorem diffNW_none (shape : List Nat) (axis : Nat) (h : shape.length ≤ axis) :
    ∀ k, diffNW shape (k + 1) axis = none
  | 0 => by simp [diffNW, diffNRaw, diffW_none shape axis h]
  | k + 1 => by
    have := diffNW_none shape axis h k
    simp only [diffNW, Option.map_eq_none_iff] at this ⊢
    simp only [diffNRaw] at this ⊢
    simp only [this]

/-! ### 12. the layouts the executable operations consume -/

theorem sumIdx_InR {x y : List Nat} (k : Bool) (hx : InR x a) (hy : InR y b) : InR (sumIdx k x y) (sumOut a b k) := by
  cases k
  · exact List.rel_append hx hy
  · exact InR.mid hx Nat.one_pos hy

/-- `prodAxisGroups` (the layout of `prodOp`: one list per factor, 1-based positions): factor `t < n` at the output
multi-index `x ++ y` is the element at `x ++ t :: y` -/
theorem prodAxisGroups_spec (k : Bool) : ∃ G, prodAxisGroups (a ++ n :: b) a.length k = some (sumOut a b k, G) ∧
    G.length = n ∧ ∀ x y t, InR x a → InR y b → t < n →
      (G.getD t []).getD (ravel (sumOut a b k) (sumIdx k x y)) 0 = ravel (a ++ n :: b) (x ++ t :: y) + 1 := by
  obtain ⟨G, hG, hlen, -, hrow⟩ := prodAxisG_spec a b n k
  refine ⟨(List.range n).map fun t => G.map fun g => g.getD t 0 + 1,
    by simp only [prodAxisGroups, hG, Option.map_some, dimOf_split], by simp, ?_⟩
  intro x y t hx hy ht
  have hp : ravel (sumOut a b k) (sumIdx k x y) < G.length := hlen ▸ (sumIdx_InR a b k hx hy).ravel_lt
  have h := hrow x y hx hy
  rw [List.getD_eq_getElem?_getD, List.getElem?_eq_getElem hp, Option.getD_some] at h
  simp [List.getD_eq_getElem?_getD, List.getElem?_map, List.getElem?_eq_getElem hp, h, ht]

section exec
open MvPolynomial
variable {R : Type} [CommRing R] [BEq R] [LawfulBEq R]

/-- **C10 for `sum` along an axis, executable model end to end**: `linearOp` run with the table computed by
`sumAxisW` puts at the output multi-index `x ++ y` the sum of the elements at `x ++ t :: y`, `t < n` -/
theorem linearOp_sumAxisW (rc rn : Bool) (arr : Arr R) (ha : arr.WF) (hs : arr.shape = a ++ n :: b) (k : Bool) :
    ∃ T, sumAxisW arr.shape a.length k = some (sumOut a b k, T) ∧
      ∀ x y, InR x a → InR y b → ∀ i : Fin (size (sumOut a b k)), i.val = ravel (sumOut a b k) (sumIdx k x y) →
        (linearOp rc rn arr (sumOut a b k) (castW T)).elem i =
          ((List.range n).map fun t => elemD arr (ravel arr.shape (x ++ t :: y))).sum := by
  obtain ⟨T, hT, -, -, hrow⟩ := sumAxisW_spec a b n k
  refine ⟨T, hs ▸ hT, ?_⟩
  intro x y hx hy i hi
  have hc : (castW (R := R) T).getD i.val [] = (T.getD i.val []).map fun iw => (iw.1, (iw.2 : R)) := by
    simp only [castW, List.getD_eq_getElem?_getD, List.getElem?_map]
    cases T[i.val]? <;> simp
  rw [linearOp_elem rc rn arr ha, hc, hi, hrow x y hx hy, hs]
  simp [List.map_map, Function.comp_def]
end exec
end Np.ReduceFns

import Np.Proofs.CallTop
import Np.Proofs.GradArr
import Np.Proofs.Gather
import Np.Model.Align
/-! C04, top level: `align_shape`, `align_indeterminants`, `align_exponents`, `align_polynomials` on any number
of polynomial ARRAYS (`alignShapeAll`, `alignIndetAll`, `alignExpoAll`, `alignPolynomialsAll`).

Elements of arrays whose shapes are only propositionally equal are related through
`b.elem i = a.elem j` for all `i j` with `j.val = …` (no casts in the statements). -/
open MvPolynomial
set_option linter.unusedSectionVars false
namespace Np
open Shape

/-! ### 0. `mapM` in `Except` -/
section mapM
variable {ε α β : Type}

theorem mapM_except_cons (f : α → Except ε β) (a : α) (l : List α) :
    (a :: l).mapM f = match f a with
      | .error e => .error e
      | .ok b => match l.mapM f with
        | .error e => .error e
        | .ok bs => .ok (b :: bs) := by
  rw [List.mapM_cons]
  cases f a with
  | error e => rfl
  | ok b =>
    cases l.mapM f with
    | error e => rfl
    | ok bs => rfl

/-- a successful `mapM` maps position by position -/
theorem mapM_except_spec (f : α → Except ε β) : ∀ (l : List α) (bs : List β), l.mapM f = .ok bs →
    bs.length = l.length ∧ ∀ k (hk : k < l.length) (hk' : k < bs.length), f l[k] = .ok bs[k]
  | [], bs, h => by
    simp only [List.mapM_nil, pure, Except.pure, Except.ok.injEq] at h
    subst h
    exact ⟨rfl, fun k hk => absurd hk (by simp)⟩
  | a :: l, bs, h => by
    rw [mapM_except_cons] at h
    cases hf : f a with
    | error e => simp [hf] at h
    | ok b =>
      cases hl : l.mapM f with
      | error e => simp [hf, hl] at h
      | ok bs' =>
        simp only [hf, hl, Except.ok.injEq] at h
        subst h
        obtain ⟨h1, h2⟩ := mapM_except_spec f l bs' hl
        refine ⟨by simp [h1], fun k hk hk' => ?_⟩
        cases k with
        | zero => simpa using hf
        | succ k => simpa using h2 k (by simpa using hk) (by simpa using hk')

theorem mapM_except_total (f : α → Except ε β) : ∀ (l : List α), (∀ a ∈ l, ∃ b, f a = .ok b) →
    ∃ bs, l.mapM f = .ok bs
  | [], _ => ⟨[], rfl⟩
  | a :: l, h => by
    obtain ⟨b, hb⟩ := h a (by simp)
    obtain ⟨bs, hbs⟩ := mapM_except_total f l fun x hx => h x (by simp [hx])
    exact ⟨b :: bs, by rw [mapM_except_cons, hb, hbs]⟩

theorem mapM_except_id (f : α → Except ε α) : ∀ (l : List α), (∀ a ∈ l, f a = .ok a) → l.mapM f = .ok l
  | [], _ => rfl
  | a :: l, h => by
    rw [mapM_except_cons, h a (by simp), mapM_except_id f l fun x hx => h x (by simp [hx])]
end mapM

variable {R : Type} [CommSemiring R] [BEq R] [LawfulBEq R]

/-! ### 1. `align_shape` -/

/-- what `alignShapeAll` does to one operand once the common shape `s` is known -/
def shapeStep (rc rn : Bool) (s : List Nat) (a : Arr R) : Except Err (Arr R) :=
  if a.shape == s then .ok a
  else match a.bcast s with
    | some p => .ok ⟨s, clean rc rn p⟩
    | none => .error .internal

theorem alignShapeAll_eq (rc rn : Bool) (as : List (Arr R)) :
    alignShapeAll rc rn as =
      match bshapeAll (as.map (·.shape)) with
      | none => .error .valueError
      | some s => as.mapM (shapeStep rc rn s) := rfl

/-- one operand: never an error; the result has shape `s`, is well-formed, is the operand itself when it already
has shape `s`, and its element `i` is element `bindex a.shape s i` of the operand -/
theorem shapeStep_spec (rc rn : Bool) (s : List Nat) (a : Arr R) (ha : a.WF) (hp : Pos a.shape)
    (hb : BcastTo a.shape s) :
    ∃ b, shapeStep rc rn s a = .ok b ∧ b.shape = s ∧ b.WF ∧ (a.shape = s → b = a) ∧
      ∀ (i : Fin (size b.shape)) (j : Fin (size a.shape)), j.val = bindex a.shape s i.val → b.elem i = a.elem j := by
  unfold shapeStep
  by_cases hs : a.shape = s
  · subst hs
    refine ⟨a, by simp, rfl, ha, fun _ => rfl, fun i j hj => ?_⟩
    rw [bindex_same hp i.isLt] at hj
    rw [Fin.ext hj]
  · have hs' : (a.shape == s) = false := by simpa using hs
    obtain ⟨q, hq⟩ := Arr.bcast_of_bcastTo a hb hp
    obtain ⟨σ, hσ, rfl⟩ := Arr.bcast_spec a s q hq
    have hw : WF (mapCoef (Vec.gatherHom σ) a.poly) := WF_mapCoef _ _ ha
    refine ⟨⟨s, clean rc rn (mapCoef (Vec.gatherHom σ) a.poly)⟩, by simp [hs', hq], rfl, WF_clean rc rn _ hw,
      fun h => absurd h hs, fun i j hj => ?_⟩
    show denAt (clean rc rn (mapCoef (Vec.gatherHom σ) a.poly)) i = denAt a.poly j
    rw [denAt_clean rc rn _ hw, gather_denAt]
    congr 1
    exact Fin.ext ((hσ i).trans hj.symm)

/-- **1a.** the only error of `align_shape` is `valueError`, raised exactly when the shapes do not broadcast
(in particular never `.internal`) -/
theorem alignShapeAll_error_iff (rc rn : Bool) (as : List (Arr R)) (hw : ∀ a ∈ as, a.WF)
    (hp : ∀ a ∈ as, Pos a.shape) (e : Err) :
    alignShapeAll rc rn as = .error e ↔ e = .valueError ∧ bshapeAll (as.map (·.shape)) = none := by
  rw [alignShapeAll_eq]
  cases hs : bshapeAll (as.map (·.shape)) with
  | none =>
    constructor
    · intro h; cases h; exact ⟨rfl, rfl⟩
    · rintro ⟨rfl, _⟩; rfl
  | some s =>
    obtain ⟨bs, hbs⟩ := mapM_except_total (shapeStep rc rn s) as fun a ha => by
      obtain ⟨b, hb, _⟩ := shapeStep_spec rc rn s a (hw a ha) (hp a ha)
        (bshapeAll_bcastTo hs a.shape (List.mem_map_of_mem ha))
      exact ⟨b, hb⟩
    simp only [hbs]
    constructor
    · intro h; cases h
    · rintro ⟨_, h⟩; cases h

theorem alignShapeAll_valueError_iff (rc rn : Bool) (as : List (Arr R)) (hw : ∀ a ∈ as, a.WF)
    (hp : ∀ a ∈ as, Pos a.shape) :
    alignShapeAll rc rn as = .error .valueError ↔ bshapeAll (as.map (·.shape)) = none := by
  rw [alignShapeAll_error_iff rc rn as hw hp]; simp

theorem alignShapeAll_ne_internal (rc rn : Bool) (as : List (Arr R)) (hw : ∀ a ∈ as, a.WF)
    (hp : ∀ a ∈ as, Pos a.shape) : alignShapeAll rc rn as ≠ .error .internal := fun h => by
  have := ((alignShapeAll_error_iff rc rn as hw hp _).1 h).1; cases this

/-- **1b.** a successful `align_shape`: one output per input, every output has the common shape `s`
(`numpy.broadcast_shapes`), is well-formed, is the input itself when that already has shape `s`, and element `i`
of output `k` is element `bindex as[k].shape s i` of input `k` -/
theorem alignShapeAll_ok (rc rn : Bool) (as bs : List (Arr R)) (hw : ∀ a ∈ as, a.WF)
    (hp : ∀ a ∈ as, Pos a.shape) (h : alignShapeAll rc rn as = .ok bs) :
    ∃ s, bshapeAll (as.map (·.shape)) = some s ∧ bs.length = as.length ∧
      ∀ k (hk : k < as.length) (hk' : k < bs.length),
        bs[k].shape = s ∧ bs[k].WF ∧ (as[k].shape = s → bs[k] = as[k]) ∧
        ∀ (i : Fin (size bs[k].shape)) (j : Fin (size as[k].shape)),
          j.val = bindex as[k].shape s i.val → bs[k].elem i = as[k].elem j := by
  rw [alignShapeAll_eq] at h
  cases hs : bshapeAll (as.map (·.shape)) with
  | none => simp [hs] at h
  | some s =>
    simp only [hs] at h
    obtain ⟨hl, hk⟩ := mapM_except_spec _ as bs h
    refine ⟨s, rfl, hl, fun k h1 h2 => ?_⟩
    have hm : as[k] ∈ as := List.getElem_mem h1
    obtain ⟨b, hb, r1, r2, r3, r4⟩ := shapeStep_spec rc rn s as[k] (hw _ hm) (hp _ hm)
      (bshapeAll_bcastTo hs _ (List.mem_map_of_mem hm))
    have : b = bs[k] := by
      have := hk k h1 h2
      rw [hb] at this
      exact Except.ok.inj this
    subst this
    exact ⟨r1, r2, r3, r4⟩

/-- **1.** `alignShapeAll_spec` -/
theorem alignShapeAll_spec (rc rn : Bool) (as : List (Arr R)) (hw : ∀ a ∈ as, a.WF)
    (hp : ∀ a ∈ as, Pos a.shape) :
    (alignShapeAll rc rn as = .error .valueError ↔ bshapeAll (as.map (·.shape)) = none) ∧
    alignShapeAll rc rn as ≠ .error .internal ∧
    ∀ bs, alignShapeAll rc rn as = .ok bs →
      ∃ s, bshapeAll (as.map (·.shape)) = some s ∧ bs.length = as.length ∧
        ∀ k (hk : k < as.length) (hk' : k < bs.length),
          bs[k].shape = s ∧ bs[k].WF ∧ (as[k].shape = s → bs[k] = as[k]) ∧
          ∀ (i : Fin (size bs[k].shape)) (j : Fin (size as[k].shape)),
            j.val = bindex as[k].shape s i.val → bs[k].elem i = as[k].elem j :=
  ⟨alignShapeAll_valueError_iff rc rn as hw hp, alignShapeAll_ne_internal rc rn as hw hp,
    fun bs h => alignShapeAll_ok rc rn as bs hw hp h⟩

/-- the common shape has no zero-length axis either, so the outputs can be aligned further -/
theorem alignShapeAll_pos (rc rn : Bool) (as bs : List (Arr R)) (hw : ∀ a ∈ as, a.WF)
    (hp : ∀ a ∈ as, Pos a.shape) (h : alignShapeAll rc rn as = .ok bs) : ∀ b ∈ bs, Pos b.shape := by
  obtain ⟨s, hs, hl, hk⟩ := alignShapeAll_ok rc rn as bs hw hp h
  intro b hb
  obtain ⟨k, hk', rfl⟩ := List.getElem_of_mem hb
  rw [(hk k (hl ▸ hk') hk').1]
  exact bshapeAll_pos hs fun t ht => by
    obtain ⟨a, ha, rfl⟩ := List.mem_map.1 ht
    exact hp a ha

/-! ### 2. `align_indeterminants` -/

/-- the index-ordered union of the names of all operands -/
def unionNames (as : List (Arr R)) : List Name := sortDedup natLt (as.flatMap (·.poly.names))

/-- what `alignIndetAll` does to one operand -/
def indetStep (common : List Name) (a : Arr R) : Arr R :=
  if a.poly.names == common then a else ⟨a.shape, alignIndet common a.poly⟩

theorem alignIndetAll_eq (as : List (Arr R)) : alignIndetAll as = as.map (indetStep (unionNames as)) := rfl

theorem unionNames_nodup (as : List (Arr R)) : (unionNames as).Nodup :=
  nodup_of_sortedLt natLt_strictTotal _ (sortedLt_sortDedup natLt_strictTotal _)

theorem unionNames_sorted (as : List (Arr R)) : (unionNames as).Pairwise (· < ·) :=
  (sortedLt_sortDedup natLt_strictTotal _).imp (fun {a b} hab => by simpa [natLt] using hab)

theorem mem_unionNames (as : List (Arr R)) (x : Name) : x ∈ unionNames as ↔ ∃ a ∈ as, x ∈ a.poly.names := by
  simp [unionNames, mem_sortDedup natLt_strictTotal]

theorem indetStep_spec (common : List Name) (a : Arr R) (ha : a.WF) (hc : common.Nodup)
    (hsub : ∀ x ∈ a.poly.names, x ∈ common) :
    (indetStep common a).shape = a.shape ∧ (indetStep common a).poly.names = common ∧ (indetStep common a).WF ∧
      (a.poly.names = common → indetStep common a = a) ∧
      ∀ (i : Fin (size (indetStep common a).shape)) (j : Fin (size a.shape)), i.val = j.val →
        (indetStep common a).elem i = a.elem j := by
  unfold indetStep
  by_cases hn : a.poly.names = common
  · rw [if_pos (by simpa using hn)]
    exact ⟨rfl, hn, ha, fun _ => rfl, fun i j hij => by rw [Fin.ext hij]⟩
  · rw [if_neg (by simpa using hn)]
    refine ⟨rfl, rfl, WF_alignIndet _ _ ha hc hsub, fun h => absurd h hn, fun i j hij => ?_⟩
    have : i = j := Fin.ext hij
    subst this
    show denAt (alignIndet common a.poly) i = denAt a.poly i
    simp only [denAt, den_mapCoef]
    rw [den_alignIndet _ _ ha.names_nodup hc]
    intro t _ x hx
    exact expoAt_not_mem _ _ _ fun hm => hx (hsub x hm)

theorem alignIndetAll_length (as : List (Arr R)) : (alignIndetAll as).length = as.length := by
  simp [alignIndetAll_eq]

/-- **2.** `align_indeterminants`: one output per input; output `k` carries the index-ordered union of all names,
has the shape of input `k`, is well-formed, IS input `k` when that already carries exactly those names, and has the
same elements -/
theorem alignIndetAll_spec (as : List (Arr R)) (hw : ∀ a ∈ as, a.WF) :
    (alignIndetAll as).length = as.length ∧
    ∀ k (hk : k < as.length) (hk' : k < (alignIndetAll as).length),
      (alignIndetAll as)[k].poly.names = sortDedup natLt (as.flatMap (·.poly.names)) ∧
      (alignIndetAll as)[k].shape = as[k].shape ∧ (alignIndetAll as)[k].WF ∧
      (as[k].poly.names = sortDedup natLt (as.flatMap (·.poly.names)) → (alignIndetAll as)[k] = as[k]) ∧
      ∀ (i : Fin (size (alignIndetAll as)[k].shape)) (j : Fin (size as[k].shape)), i.val = j.val →
        (alignIndetAll as)[k].elem i = as[k].elem j := by
  refine ⟨alignIndetAll_length as, fun k hk hk' => ?_⟩
  have hm : as[k] ∈ as := List.getElem_mem hk
  have e : (alignIndetAll as)[k] = indetStep (unionNames as) as[k] := by simp [alignIndetAll_eq]
  obtain ⟨r1, r2, r3, r4, r5⟩ := indetStep_spec (unionNames as) as[k] (hw _ hm) (unionNames_nodup as)
    (fun x hx => (mem_unionNames as x).2 ⟨_, hm, hx⟩)
  rw [e]
  exact ⟨r2, r1, r3, r4, r5⟩

theorem alignIndetAll_mem (as : List (Arr R)) (hw : ∀ a ∈ as, a.WF) (b : Arr R) (hb : b ∈ alignIndetAll as) :
    b.WF ∧ b.poly.names = unionNames as := by
  obtain ⟨hl, hk⟩ := alignIndetAll_spec as hw
  obtain ⟨k, hk', rfl⟩ := List.getElem_of_mem hb
  obtain ⟨r1, _, r3, _⟩ := hk k (hl ▸ hk') hk'
  exact ⟨r3, r1⟩

/-! ### 3. `align_exponents` -/

/-- the operands `alignExpoAll` gives common rows to: the inputs when they all carry the names of the first one,
otherwise the inputs after `align_indeterminants` -/
def preExpo (as : List (Arr R)) : List (Arr R) :=
  if as.all (fun a => a.poly.names == (as.headD ⟨[], { names := [], terms := [] }⟩).poly.names) then as
  else alignIndetAll as

/-- the names every output of `alignExpoAll` carries -/
def alignedNames (as : List (Arr R)) : List Name :=
  if as.all (fun a => a.poly.names == (as.headD ⟨[], { names := [], terms := [] }⟩).poly.names)
  then (as.headD ⟨[], { names := [], terms := [] }⟩).poly.names
  else unionNames as

/-- the exponent rows every output of `alignExpoAll` carries: the sorted union of the rows -/
def alignedRows (as : List (Arr R)) : List Expo := sortDedup expoLt ((preExpo as).flatMap (·.poly.expos))

theorem alignExpoAll_eq (as : List (Arr R)) :
    alignExpoAll as = (preExpo as).map fun a => ⟨a.shape, alignExpo (alignedRows as) a.poly⟩ := rfl

theorem alignedRows_nodup (as : List (Arr R)) : (alignedRows as).Nodup :=
  nodup_of_sortedLt expoLt_strictTotal _ (sortedLt_sortDedup expoLt_strictTotal _)

/-- the common rows are strictly ascending in the row order of `numpy.unique(axis=0)` -/
theorem alignedRows_sorted (as : List (Arr R)) : SortedLt expoLt (alignedRows as) :=
  sortedLt_sortDedup expoLt_strictTotal _

theorem mem_alignedRows (as : List (Arr R)) (e : Expo) :
    e ∈ alignedRows as ↔ ∃ a ∈ preExpo as, e ∈ a.poly.expos := by
  simp [alignedRows, mem_sortDedup expoLt_strictTotal]

theorem preExpo_length (as : List (Arr R)) : (preExpo as).length = as.length := by
  unfold preExpo; split
  · rfl
  · exact alignIndetAll_length as

/-- the operands before the row alignment: same shapes and elements as the inputs, well-formed, common names -/
theorem preExpo_spec (as : List (Arr R)) (hw : ∀ a ∈ as, a.WF) :
    ∀ k (hk : k < as.length) (hk' : k < (preExpo as).length),
      (preExpo as)[k].poly.names = alignedNames as ∧ (preExpo as)[k].shape = as[k].shape ∧ (preExpo as)[k].WF ∧
      ∀ (i : Fin (size (preExpo as)[k].shape)) (j : Fin (size as[k].shape)), i.val = j.val →
        (preExpo as)[k].elem i = as[k].elem j := by
  intro k hk hk'
  by_cases hall : as.all (fun a => a.poly.names == (as.headD ⟨[], { names := [], terms := [] }⟩).poly.names) = true
  · have e : preExpo as = as := by unfold preExpo; rw [if_pos hall]
    have en : alignedNames as = (as.headD ⟨[], { names := [], terms := [] }⟩).poly.names := by
      unfold alignedNames; rw [if_pos hall]
    have hm : as[k] ∈ as := List.getElem_mem hk
    have hn := List.all_eq_true.1 hall _ hm
    revert hk'
    rw [e, en]
    intro hk'
    exact ⟨by simpa using hn, rfl, hw _ hm, fun i j hij => by rw [Fin.ext hij]⟩
  · have e : preExpo as = alignIndetAll as := by unfold preExpo; rw [if_neg hall]
    have en : alignedNames as = unionNames as := by unfold alignedNames; rw [if_neg hall]
    obtain ⟨_, h2⟩ := alignIndetAll_spec as hw
    obtain ⟨r1, r2, r3, _, r5⟩ := h2 k hk (by rw [alignIndetAll_length]; exact hk)
    revert hk'
    rw [e, en]
    intro hk'
    exact ⟨r1, r2, r3, r5⟩

theorem alignExpoAll_length (as : List (Arr R)) : (alignExpoAll as).length = as.length := by
  simp [alignExpoAll_eq, preExpo_length]

/-- **3.** `align_exponents`: one output per input; all outputs carry the same names (`alignedNames as`) and the
same exponent rows in the same order (`alignedRows as`, the sorted union); output `k` has the shape of input `k`,
is well-formed and has the same elements -/
theorem alignExpoAll_spec (as : List (Arr R)) (hw : ∀ a ∈ as, a.WF) :
    (alignExpoAll as).length = as.length ∧
    ∀ k (hk : k < as.length) (hk' : k < (alignExpoAll as).length),
      (alignExpoAll as)[k].poly.names = alignedNames as ∧ (alignExpoAll as)[k].poly.expos = alignedRows as ∧
      (alignExpoAll as)[k].shape = as[k].shape ∧ (alignExpoAll as)[k].WF ∧
      ∀ (i : Fin (size (alignExpoAll as)[k].shape)) (j : Fin (size as[k].shape)), i.val = j.val →
        (alignExpoAll as)[k].elem i = as[k].elem j := by
  refine ⟨alignExpoAll_length as, fun k hk hk' => ?_⟩
  have hkp : k < (preExpo as).length := by rw [preExpo_length]; exact hk
  obtain ⟨p1, p2, p3, p4⟩ := preExpo_spec as hw k hk hkp
  have e : (alignExpoAll as)[k] = ⟨(preExpo as)[k].shape, alignExpo (alignedRows as) (preExpo as)[k].poly⟩ := by
    simp [alignExpoAll_eq]
  rw [e]
  have hsub : ∀ e ∈ (preExpo as)[k].poly.expos, e ∈ alignedRows as := fun e he =>
    (mem_alignedRows as e).2 ⟨_, List.getElem_mem hkp, he⟩
  refine ⟨p1, expos_alignExpo _ _, p2, ⟨p3.names_nodup, ?_, ?_⟩, fun i j hij => ?_⟩
  · show (alignExpo (alignedRows as) (preExpo as)[k].poly).expos.Nodup
    rw [expos_alignExpo]; exact alignedRows_nodup as
  · intro r hr
    have hr' : r ∈ alignedRows as := by
      have : r ∈ (alignExpo (alignedRows as) (preExpo as)[k].poly).expos := hr
      rwa [expos_alignExpo] at this
    obtain ⟨a, ha, hra⟩ := (mem_alignedRows as r).1 hr'
    obtain ⟨m, hm, rfl⟩ := List.getElem_of_mem ha
    obtain ⟨q1, _, q3, _⟩ := preExpo_spec as hw m (by rw [← preExpo_length]; exact hm) hm
    show r.length = (preExpo as)[k].poly.names.length
    rw [p1, ← q1]
    exact q3.row_len r hra
  · rw [← p4 i j hij]
    show denAt (alignExpo (alignedRows as) (preExpo as)[k].poly) i = denAt (preExpo as)[k].poly i
    simp only [denAt, den_mapCoef]
    rw [den_alignExpo _ _ p3.expos_nodup (alignedRows_nodup as) hsub]

/-- the common names are exactly the names that occur in some operand -/
theorem mem_alignedNames (as : List (Arr R)) (x : Name) :
    x ∈ alignedNames as ↔ ∃ a ∈ as, x ∈ a.poly.names := by
  unfold alignedNames
  split
  · rename_i hall
    cases as with
    | nil => simp
    | cons a0 rest =>
      simp only [List.headD_cons]
      constructor
      · intro hx; exact ⟨a0, by simp, hx⟩
      · rintro ⟨a, ha, hx⟩
        have := List.all_eq_true.1 hall a ha
        simp only [List.headD_cons, beq_iff_eq] at this
        rwa [← this]
  · exact mem_unionNames as x

/-! ### 4. `align_polynomials` -/

theorem alignPolynomialsAll_eq (rc rn : Bool) (as : List (Arr R)) :
    alignPolynomialsAll rc rn as =
      match alignShapeAll rc rn as with
      | .error e => .error e
      | .ok bs => .ok (alignExpoAll bs) := by
  unfold alignPolynomialsAll
  cases alignShapeAll rc rn as <;> rfl

/-- **4a.** the only error of `align_polynomials` is `valueError`, exactly when the shapes do not broadcast -/
theorem alignPolynomialsAll_error_iff (rc rn : Bool) (as : List (Arr R)) (hw : ∀ a ∈ as, a.WF)
    (hp : ∀ a ∈ as, Pos a.shape) (e : Err) :
    alignPolynomialsAll rc rn as = .error e ↔ e = .valueError ∧ bshapeAll (as.map (·.shape)) = none := by
  rw [alignPolynomialsAll_eq, ← alignShapeAll_error_iff rc rn as hw hp]
  cases alignShapeAll rc rn as with
  | error e' => simp
  | ok bs => simp

/-- **4b.** a successful `align_polynomials`: one output per input; all outputs share the shape `s`
(`numpy.broadcast_shapes`), the names `ns` and the exponent rows `es` (strictly ascending); every output is
well-formed and element `i` of output `k` is element `bindex as[k].shape s i` of input `k` -/
theorem alignPolynomialsAll_ok (rc rn : Bool) (as cs : List (Arr R)) (hw : ∀ a ∈ as, a.WF)
    (hp : ∀ a ∈ as, Pos a.shape) (h : alignPolynomialsAll rc rn as = .ok cs) :
    ∃ (s : List Nat) (ns : List Name) (es : List Expo),
      bshapeAll (as.map (·.shape)) = some s ∧ cs.length = as.length ∧ SortedLt expoLt es ∧
      ∀ k (hk : k < as.length) (hk' : k < cs.length),
        cs[k].shape = s ∧ cs[k].poly.names = ns ∧ cs[k].poly.expos = es ∧ cs[k].WF ∧
        ∀ (i : Fin (size cs[k].shape)) (j : Fin (size as[k].shape)),
          j.val = bindex as[k].shape s i.val → cs[k].elem i = as[k].elem j := by
  rw [alignPolynomialsAll_eq] at h
  cases hb : alignShapeAll rc rn as with
  | error e => simp [hb] at h
  | ok bs =>
    simp only [hb, Except.ok.injEq] at h
    subst h
    obtain ⟨s, hs, hl, hk⟩ := alignShapeAll_ok rc rn as bs hw hp hb
    have hwb : ∀ b ∈ bs, b.WF := fun b hbm => by
      obtain ⟨k, hk', rfl⟩ := List.getElem_of_mem hbm
      exact (hk k (hl ▸ hk') hk').2.1
    obtain ⟨hl2, hk2⟩ := alignExpoAll_spec bs hwb
    refine ⟨s, alignedNames bs, alignedRows bs, hs, hl2.trans hl, alignedRows_sorted bs, fun k h1 h2 => ?_⟩
    have h1b : k < bs.length := hl ▸ h1
    obtain ⟨r1, r2, r3, r4⟩ := hk k h1 h1b
    obtain ⟨q1, q2, q3, q4, q5⟩ := hk2 k h1b h2
    refine ⟨q3.trans r1, q1, q2, q4, fun i j hj => ?_⟩
    have hi : i.val < size bs[k].shape := by rw [← q3]; exact i.isLt
    rw [q5 i ⟨i.val, hi⟩ rfl]
    exact r4 ⟨i.val, hi⟩ j hj

/-- **4.** `alignPolynomialsAll_spec` -/
theorem alignPolynomialsAll_spec (rc rn : Bool) (as : List (Arr R)) (hw : ∀ a ∈ as, a.WF)
    (hp : ∀ a ∈ as, Pos a.shape) :
    (alignPolynomialsAll rc rn as = .error .valueError ↔ bshapeAll (as.map (·.shape)) = none) ∧
    (∀ e, alignPolynomialsAll rc rn as = .error e → e = .valueError) ∧
    ∀ cs, alignPolynomialsAll rc rn as = .ok cs →
      ∃ (s : List Nat) (ns : List Name) (es : List Expo),
        bshapeAll (as.map (·.shape)) = some s ∧ cs.length = as.length ∧ SortedLt expoLt es ∧
        ∀ k (hk : k < as.length) (hk' : k < cs.length),
          cs[k].shape = s ∧ cs[k].poly.names = ns ∧ cs[k].poly.expos = es ∧ cs[k].WF ∧
          ∀ (i : Fin (size cs[k].shape)) (j : Fin (size as[k].shape)),
            j.val = bindex as[k].shape s i.val → cs[k].elem i = as[k].elem j :=
  ⟨by rw [alignPolynomialsAll_error_iff rc rn as hw hp]; simp,
    fun e h => ((alignPolynomialsAll_error_iff rc rn as hw hp e).1 h).1,
    fun cs h => alignPolynomialsAll_ok rc rn as cs hw hp h⟩
/-! ### 5. idempotence: aligned operands are returned as they are (whatever the retain flags) -/

theorem bshapeRev_self : ∀ (a : List Nat), bshapeRev a a = some a
  | [] => rfl
  | x :: a => by cases a <;> simp [bshapeRev, bshapeRev_self]

theorem bshape_self (s : List Nat) : bshape s s = some s := by simp [bshape, bshapeRev_self]

theorem bshape_nil_right (s : List Nat) : bshape s [] = some s := by
  simp [bshape, bshapeRev_nil_right]

theorem bshapeAll_same (s : List Nat) : ∀ (l : List (List Nat)), l ≠ [] → (∀ t ∈ l, t = s) → bshapeAll l = some s
  | [], h, _ => absurd rfl h
  | [t], _, h => by
    rw [h t (by simp)]
    simp [bshapeAll, bshape_nil_right]
  | t :: u :: l, _, h => by
    rw [bshapeAll, bshapeAll_same s (u :: l) (by simp) (fun x hx => h x (by simp [hx])), h t (by simp)]
    exact bshape_self s

/-- operands that already share one shape pass through `align_shape` untouched -/
theorem alignShapeAll_fixed (rc rn : Bool) (cs : List (Arr R)) (s : List Nat) (h : ∀ c ∈ cs, c.shape = s) :
    alignShapeAll rc rn cs = .ok cs := by
  rw [alignShapeAll_eq]
  cases cs with
  | nil => rfl
  | cons c rest =>
    rw [bshapeAll_same s _ (by simp) (by
      intro t ht
      obtain ⟨a, ha, rfl⟩ := List.mem_map.1 ht
      exact h a ha)]
    exact mapM_except_id _ _ fun a ha => by simp [shapeStep, h a ha]

theorem foldr_insertSorted_of_subset {α : Type} {lt : α → α → Bool} (hlt : StrictTotal lt) (l : List α)
    (hl : SortedLt lt l) : ∀ (xs : List α), (∀ x ∈ xs, x ∈ l) → xs.foldr (insertSorted lt) l = l
  | [], _ => rfl
  | x :: xs, h => by
    rw [List.foldr_cons, foldr_insertSorted_of_subset hlt l hl xs fun y hy => h y (by simp [hy])]
    exact insertSorted_of_mem hlt x l hl (h x (by simp))

/-- the sorted union of several copies of one sorted list is that list -/
theorem sortDedup_flatMap_same {α β : Type} {lt : α → α → Bool} (hlt : StrictTotal lt) (f : β → List α)
    (es : List α) (hs : SortedLt lt es) : ∀ (l : List β), l ≠ [] → (∀ b ∈ l, f b = es) →
    sortDedup lt (l.flatMap f) = es
  | [], h, _ => absurd rfl h
  | [b], _, h => by
    simp only [List.flatMap_cons, List.flatMap_nil, List.append_nil, h b (by simp)]
    exact sortDedup_of_sorted es hs
  | b :: c :: l, _, h => by
    have ih := sortDedup_flatMap_same hlt f es hs (c :: l) (by simp) fun x hx => h x (by simp [hx])
    rw [List.flatMap_cons, sortDedup, List.foldr_append]
    rw [sortDedup] at ih
    rw [ih, h b (by simp)]
    exact foldr_insertSorted_of_subset hlt es hs es fun _ hx => hx

theorem lookup_self_terms {S : Type} [CommSemiring S] : ∀ (ts : List (Expo × S)), (ts.map (·.1)).Nodup →
    (ts.map (·.1)).map (fun e => (e, lookup ts e)) = ts
  | [], _ => rfl
  | t :: ts, h => by
    rw [List.map_cons, List.nodup_cons] at h
    have ih := lookup_self_terms ts h.2
    rw [List.map_cons, List.map_cons, lookup_cons_self]
    congr 1
    conv => rhs; rw [← ih]
    apply List.map_congr_left
    intro e he
    have hne : t.1 ≠ e := fun h0 => h.1 (h0 ▸ he)
    rw [lookup_cons_ne e t.1 t.2 ts hne]

/-- giving a polynomial the rows it already has changes nothing -/
theorem alignExpo_self {S : Type} [CommSemiring S] (p : Poly S) (hn : p.expos.Nodup) : alignExpo p.expos p = p := by
  cases p with
  | mk names terms =>
    simp only [alignExpo, Poly.expos] at hn ⊢
    rw [lookup_self_terms terms hn]

/-- operands that already share names and (strictly ascending) rows pass through `align_exponents` untouched -/
theorem alignExpoAll_fixed (cs : List (Arr R)) (ns : List Name) (es : List Expo)
    (hn : ∀ c ∈ cs, c.poly.names = ns) (he : ∀ c ∈ cs, c.poly.expos = es) (hs : SortedLt expoLt es) :
    alignExpoAll cs = cs := by
  cases cs with
  | nil => rfl
  | cons c0 rest =>
    have hpre : preExpo (c0 :: rest) = c0 :: rest := by
      unfold preExpo
      rw [if_pos]
      rw [List.all_eq_true]
      intro a ha
      simp only [List.headD_cons, beq_iff_eq]
      rw [hn a ha, hn c0 (by simp)]
    have hrows : alignedRows (c0 :: rest) = es := by
      unfold alignedRows
      rw [hpre]
      exact sortDedup_flatMap_same expoLt_strictTotal _ es hs _ (by simp) he
    rw [alignExpoAll_eq, hrows, hpre]
    conv => rhs; rw [← List.map_id (c0 :: rest)]
    apply List.map_congr_left
    intro a ha
    have h1 : alignExpo es a.poly = a.poly := by
      rw [← he a ha]
      exact alignExpo_self a.poly (by rw [he a ha]; exact nodup_of_sortedLt expoLt_strictTotal es hs)
    rw [h1]; rfl

/-- **5.** idempotence: the outputs of a successful `align_polynomials` are returned unchanged by a second
`align_polynomials`, whatever the retain flags of either call (no side condition: operands of the common shape are
not rebuilt, hence not cleaned) -/
theorem alignPolynomialsAll_idem (rc rn rc' rn' : Bool) (as cs : List (Arr R)) (hw : ∀ a ∈ as, a.WF)
    (hp : ∀ a ∈ as, Pos a.shape) (h : alignPolynomialsAll rc rn as = .ok cs) :
    alignPolynomialsAll rc' rn' cs = .ok cs := by
  obtain ⟨s, ns, es, _, hl, hs, hk⟩ := alignPolynomialsAll_ok rc rn as cs hw hp h
  have hall : ∀ c ∈ cs, c.shape = s ∧ c.poly.names = ns ∧ c.poly.expos = es := fun c hc => by
    obtain ⟨k, hk', rfl⟩ := List.getElem_of_mem hc
    obtain ⟨r1, r2, r3, _⟩ := hk k (hl ▸ hk') hk'
    exact ⟨r1, r2, r3⟩
  rw [alignPolynomialsAll_eq, alignShapeAll_fixed rc' rn' cs s fun c hc => (hall c hc).1]
  simp only
  rw [alignExpoAll_fixed cs ns es (fun c hc => (hall c hc).2.1) (fun c hc => (hall c hc).2.2) hs]
end Np

import Np.Proofs.Dispatch
import Np.Model.Deriv
import Mathlib.Algebra.MvPolynomial.PDeriv
open MvPolynomial
namespace Np
variable {S : Type} [CommSemiring S]

theorem expoAt_modify (ns : List Name) (hn : ns.Nodup) (e : Expo) (he : e.length = ns.length) (j : Nat)
    (hj : j < ns.length) (f : Nat → Nat) (n : Name) :
    expoAt ns (e.modify j f) n = if n = ns[j] then f (e.getD j 0) else expoAt ns e n := by
  induction ns generalizing e j with
  | nil => simp at hj
  | cons m ms ih =>
    cases e with
    | nil => simp at he
    | cons x xs =>
      simp only [List.nodup_cons] at hn
      cases j with
      | zero =>
        simp only [List.modify_zero_cons, expoAt, List.getElem_cons_zero, List.getD_cons_zero]
        by_cases h : m = n
        · subst h; simp
        · have h' : ¬ n = m := fun hh => h hh.symm
          have : (m == n) = false := by simpa using h
          simp [this, h']
      | succ j =>
        simp only [List.length_cons, Nat.add_lt_add_iff_right] at hj
        simp only [List.modify_succ_cons, expoAt, List.getElem_cons_succ, List.getD_cons_succ]
        by_cases h : m = n
        · subst h
          have hne : ¬ m = ms[j] := fun hh => hn.1 (hh ▸ List.getElem_mem hj)
          simp [hne]
        · have : (m == n) = false := by simpa using h
          simp only [this, Bool.false_eq_true, if_false]
          exact ih hn.2 xs (by simpa using he) j hj

theorem fsN_decAt (ns : List Name) (hn : ns.Nodup) (e : Expo) (he : e.length = ns.length) (j : Nat)
    (hj : j < ns.length) (hpos : e.getD j 0 ≠ 0) :
    fsN ns (decAt j e) = fsN ns e - Finsupp.single ns[j] 1 := by
  ext n
  have hl : (decAt j e).length = ns.length := by simp [decAt, he]
  rw [fsN_apply ns hn, decAt, expoAt_modify ns hn e he j hj, Finsupp.tsub_apply, fsN_apply ns hn,
    Finsupp.single_apply]
  by_cases h : n = ns[j]
  · subst h
    have : expoAt ns e ns[j] = e.getD j 0 := expoAt_eq_getD ns hn e he j hj
    simp only [List.getD_eq_getElem?_getD] at hpos this ⊢
    simp [decU32, hpos, this]
  · have h' : ¬ ns[j] = n := fun hh => h hh.symm
    simp [h, h']

/-- C06 core: the rows produced by `derivative` denote the formal partial derivative -/
theorem denT_derivTerms (ns : List Name) (hn : ns.Nodup) (j : Nat) (hj : j < ns.length)
    (ts : List (Expo × S)) (hlen : ∀ t ∈ ts, t.1.length = ns.length) :
    denT ns (derivTerms j ts) = pderiv ns[j] (denT ns ts) := by
  induction ts with
  | nil => simp [derivTerms]
  | cons t ts ih =>
    have ht := hlen t (by simp)
    have ih' := ih (fun x hx => hlen x (by simp [hx]))
    simp only [derivTerms, List.map_cons, denT_cons, map_add] at ih' ⊢
    rw [ih', pderiv_monomial]
    congr 1
    have hv : (fsN ns t.1) ns[j] = t.1.getD j 0 := by
      rw [fsN_apply ns hn, expoAt_eq_getD ns hn t.1 ht j hj]
    by_cases hz : t.1.getD j 0 = 0
    · rw [hv, hz]; simp
    · rw [fsN_decAt ns hn t.1 ht j hj hz, hv, mul_comm]
end Np

import Np.Proofs.Multiply
import Np.Model.Div
import Mathlib.Algebra.MvPolynomial.CommRing
import Mathlib.Algebra.Field.Defs
import Mathlib.Tactic.Ring
/-! C05: polynomial long division (`poly_divmod`, one array element) over a coefficient field.
`f = q * d + r` for every terminating run of the model loop, and the remainder is reduced. -/
open MvPolynomial
set_option linter.unusedSectionVars false
namespace Np.Div
open Np

/-! ### `maxTerm` -/

theorem maxTerm_some {R : Type} (p : Expo × R → Bool) (ts : List (Expo × R)) (t : Expo × R) :
    maxTerm p ts = some t → t ∈ ts ∧ p t = true := by
  induction ts generalizing t with
  | nil => simp [maxTerm]
  | cons a ts ih =>
    simp only [maxTerm]
    cases h : maxTerm p ts with
    | none =>
      simp only
      split
      · intro h'; cases h'; simp [*]
      · simp
    | some u =>
      simp only
      split
      · rename_i hc
        intro h'; cases h'
        simp only [Bool.and_eq_true] at hc
        simp [hc.1]
      · intro h'; cases h'
        have := ih _ h
        simp [this]

theorem maxTerm_none {R : Type} (p : Expo × R → Bool) (ts : List (Expo × R)) :
    maxTerm p ts = none → ∀ t ∈ ts, p t = false := by
  induction ts with
  | nil => simp
  | cons a ts ih =>
    simp only [maxTerm]
    cases h : maxTerm p ts with
    | none =>
      simp only
      split
      · simp
      · rename_i hp
        intro _ t ht
        rcases List.mem_cons.1 ht with rfl | ht
        · simpa using hp
        · exact ih h t ht
    | some u =>
      simp only
      split <;> simp

variable {K : Type} [Field K] [BEq K] [LawfulBEq K]

/-! ### `addTerm` -/

theorem denT_filter_nz (ns : List Name) (ts : List (Expo × K)) :
    denT ns (ts.filter fun t => !(t.2 == 0)) = denT ns ts := by
  induction ts with
  | nil => simp
  | cons t ts ih =>
    simp only [List.filter_cons]
    split
    · simp [ih]
    · rename_i h
      have : t.2 = 0 := by simpa using h
      simp [ih, this]

theorem nodup_filter_rows (ts : List (Expo × K)) (p : Expo × K → Bool) (h : (ts.map (·.1)).Nodup) :
    ((ts.filter p).map (·.1)).Nodup :=
  h.sublist (List.filter_sublist.map _)

theorem denT_mapAdd (ns : List Name) (ts : List (Expo × K)) (e : Expo) (c : K)
    (hnd : (ts.map (·.1)).Nodup) :
    denT ns (ts.map fun t => if t.1 == e then (t.1, t.2 + c) else t) =
      denT ns ts + if e ∈ ts.map (·.1) then monomial (fsN ns e) c else 0 := by
  induction ts with
  | nil => simp
  | cons t ts ih =>
    simp only [List.map_cons, List.nodup_cons] at hnd
    simp only [List.map_cons, denT_cons, ih hnd.2, List.mem_cons]
    by_cases h : t.1 = e
    · subst h
      have : t.1 ∉ ts.map (·.1) := hnd.1
      simp only [beq_self_eq_true, if_true, this, true_or, if_false, map_add]
      abel
    · have h' : ¬ e = t.1 := fun x => h x.symm
      have hb : (t.1 == e) = false := by simpa using h
      simp only [hb, h', false_or]
      simp only [Bool.false_eq_true, if_false]
      abel

theorem map_fst_mapAdd (ts : List (Expo × K)) (e : Expo) (c : K) :
    (ts.map fun t => if t.1 == e then (t.1, t.2 + c) else t).map (·.1) = ts.map (·.1) := by
  rw [List.map_map]
  apply List.map_congr_left
  intro t _
  simp only [Function.comp]
  split <;> rfl

/-- every row of `addTerm ts e c` is `e` or a row of `ts` -/
theorem addTerm_rows (ts : List (Expo × K)) (e : Expo) (c : K) (P : Expo → Prop)
    (hts : ∀ t ∈ ts, P t.1) (he : P e) : ∀ t ∈ addTerm ts e c, P t.1 := by
  intro t ht
  unfold addTerm at ht
  split at ht
  · have ht' := (List.mem_filter.1 ht).1
    have : t.1 ∈ (ts.map fun t => if t.1 == e then (t.1, t.2 + c) else t).map (·.1) :=
      List.mem_map_of_mem ht'
    rw [map_fst_mapAdd] at this
    obtain ⟨t0, h0, h1⟩ := List.mem_map.1 this
    exact h1 ▸ hts t0 h0
  · split at ht
    · exact hts t ht
    · rcases List.mem_append.1 ht with h | h
      · exact hts t h
      · simp only [List.mem_singleton] at h
        subst h; exact he

/-- (1) `addTerm` adds the monomial `c·x^e` and keeps the rows pairwise distinct -/
theorem denT_addTerm (ns : List Name) (ts : List (Expo × K)) (e : Expo) (c : K)
    (hnd : (ts.map (·.1)).Nodup) :
    denT ns (addTerm ts e c) = denT ns ts + monomial (fsN ns e) c ∧
      ((addTerm ts e c).map (·.1)).Nodup := by
  unfold addTerm
  by_cases hany : ts.any (fun t => t.1 == e) = true
  · have hmem : e ∈ ts.map (·.1) := by
      obtain ⟨t, ht, hte⟩ := List.any_eq_true.1 hany
      have : t.1 = e := by simpa using hte
      exact this ▸ List.mem_map_of_mem ht
    simp only [hany, if_true]
    refine ⟨?_, ?_⟩
    · rw [denT_filter_nz, denT_mapAdd ns ts e c hnd, if_pos hmem]
    · apply nodup_filter_rows
      rw [map_fst_mapAdd]; exact hnd
  · have hmem : e ∉ ts.map (·.1) := by
      intro h
      obtain ⟨t, ht, hte⟩ := List.mem_map.1 h
      exact hany (List.any_eq_true.2 ⟨t, ht, by simp [hte]⟩)
    simp only [hany, Bool.false_eq_true, if_false]
    by_cases hc : c = 0
    · subst hc
      simp [hnd]
    · have : (c == 0) = false := by simpa using hc
      simp only [this, Bool.false_eq_true, if_false, denT_append, denT_cons, denT_nil, add_zero,
        List.map_append, List.map_cons, List.map_nil, true_and]
      rw [List.nodup_append]
      refine ⟨hnd, by simp, ?_⟩
      intro a ha b hb
      simp only [List.mem_singleton] at hb
      subst hb
      exact fun h => hmem (h ▸ ha)

/-! ### `subScaled` -/

/-- (2) `subScaled f d m c` denotes `f - c·x^m·d`; rows stay distinct and keep their length -/
theorem denT_subScaled (ns : List Name) (f d : List (Expo × K)) (m : Expo) (c : K)
    (hf : (f.map (·.1)).Nodup) (hd : ∀ t ∈ d, t.1.length = ns.length) (hm : m.length = ns.length) :
    denT ns (subScaled f d m c) = denT ns f - monomial (fsN ns m) c * denT ns d ∧
      ((subScaled f d m c).map (·.1)).Nodup ∧
      ((∀ t ∈ f, t.1.length = ns.length) → ∀ t ∈ subScaled f d m c, t.1.length = ns.length) := by
  unfold subScaled
  induction d generalizing f with
  | nil => simp [hf]
  | cons t d ih =>
    simp only [List.foldl_cons]
    have hA := denT_addTerm ns f (List.zipWith (· + ·) m t.1) ((0 : K) - c * t.2) hf
    have ht : t.1.length = ns.length := hd t (by simp)
    obtain ⟨h1, h2, h3⟩ := ih (addTerm f (List.zipWith (· + ·) m t.1) ((0 : K) - c * t.2)) hA.2
      (fun u hu => hd u (by simp [hu]))
    refine ⟨?_, h2, ?_⟩
    · rw [h1, hA.1, fsN_zipWith_add ns m t.1 hm ht, denT_cons, mul_add, monomial_mul, zero_sub,
        map_neg]
      abel
    · intro hlen
      apply h3
      apply addTerm_rows f _ _ (fun e => e.length = ns.length) hlen
      simp [hm, ht]

/-! ### one division step -/

/-- for a divisible row, `(k - lead) + lead = k` as monomials -/
theorem fsN_zipWith_sub (ns : List Name) (k l : Expo) (hk : k.length = ns.length)
    (hl : l.length = ns.length) (hdiv : divides l k = true) :
    fsN ns (List.zipWith (· - ·) k l) + fsN ns l = fsN ns k := by
  induction ns generalizing k l with
  | nil => simp [fsN]
  | cons n ns ih =>
    cases k with
    | nil => simp at hk
    | cons x xs =>
      cases l with
      | nil => simp at hl
      | cons y ys =>
        simp only [divides, List.zipWith_cons_cons, List.all_cons, id, Bool.and_eq_true,
          decide_eq_true_eq] at hdiv
        have := ih xs ys (by simpa using hk) (by simpa using hl) hdiv.2
        simp only [List.zipWith_cons_cons, fsN]
        rw [← this, show x = (x - y) + y by omega, Finsupp.single_add]
        simp only [Nat.add_sub_cancel]
        abel

/-- the invariant carried by the division loop -/
structure Inv (ns : List Name) (ts : List (Expo × K)) : Prop where
  nodup : (ts.map (·.1)).Nodup
  len : ∀ t ∈ ts, t.1.length = ns.length

/-- (3) one step preserves `q * d + f` and the invariants -/
theorem step_identity_model (ns : List Name) (d q f q' f' : List (Expo × K))
    (hd : ∀ t ∈ d, t.1.length = ns.length) (hq : Inv ns q) (hf : Inv ns f)
    (h : step d (q, f) = some (q', f')) :
    denT ns q' * denT ns d + denT ns f' = denT ns q * denT ns d + denT ns f ∧
      Inv ns q' ∧ Inv ns f' := by
  unfold step at h
  split at h
  · cases h
  · rename_i lead hlead
    split at h
    · cases h
    · rename_i k hk
      simp only [Option.some.injEq, Prod.mk.injEq] at h
      obtain ⟨rfl, rfl⟩ := h
      have hl := maxTerm_some _ _ _ hlead
      have hk' := maxTerm_some _ _ _ hk
      have hm : (List.zipWith (· - ·) k.1 lead.1).length = ns.length := by
        simp [hf.len k hk'.1, hd lead hl.1]
      have hA := denT_addTerm ns q (List.zipWith (· - ·) k.1 lead.1) (k.2 / lead.2) hq.nodup
      have hS := denT_subScaled ns f d (List.zipWith (· - ·) k.1 lead.1) (k.2 / lead.2)
        hf.nodup hd hm
      refine ⟨?_, ⟨hA.2, ?_⟩, ⟨hS.2.1, hS.2.2 hf.len⟩⟩
      · rw [hA.1, hS.1]; ring
      · exact addTerm_rows q _ _ (fun e => e.length = ns.length) hq.len hm

/-- the quotient monomial of a step times the leading monomial is the cancelled monomial -/
theorem step_cancels (ns : List Name) (d f : List (Expo × K)) (lead k : Expo × K)
    (hd : ∀ t ∈ d, t.1.length = ns.length) (hf : ∀ t ∈ f, t.1.length = ns.length)
    (hlead : maxTerm (fun t => !(t.2 == 0)) d = some lead)
    (hk : maxTerm (fun t => !(t.2 == 0) && divides lead.1 t.1) f = some k) :
    monomial (fsN ns (List.zipWith (· - ·) k.1 lead.1)) (k.2 / lead.2) *
      monomial (fsN ns lead.1) lead.2 = monomial (fsN ns k.1) k.2 := by
  have hl := maxTerm_some _ _ _ hlead
  have hk' := maxTerm_some _ _ _ hk
  simp only [Bool.and_eq_true, Bool.not_eq_eq_eq_not, Bool.not_true, beq_eq_false_iff_ne] at hl hk'
  rw [monomial_mul, fsN_zipWith_sub ns k.1 lead.1 (hf k hk'.1) (hd lead hl.1) hk'.2.2,
    div_mul_cancel₀ _ hl.2]

/-! ### the loop -/

theorem divmodFuel_identity (ns : List Name) (d : List (Expo × K)) (fuel : Nat)
    (q f q' r : List (Expo × K)) (hd : ∀ t ∈ d, t.1.length = ns.length)
    (hq : Inv ns q) (hf : Inv ns f) (h : divmodFuel d fuel (q, f) = some (q', r)) :
    denT ns q' * denT ns d + denT ns r = denT ns q * denT ns d + denT ns f ∧
      Inv ns q' ∧ Inv ns r := by
  induction fuel generalizing q f with
  | zero => simp [divmodFuel] at h
  | succ fuel ih =>
    simp only [divmodFuel] at h
    split at h
    · simp only [Option.some.injEq, Prod.mk.injEq] at h
      obtain ⟨rfl, rfl⟩ := h
      exact ⟨rfl, hq, hf⟩
    · rename_i qf' hstep
      obtain ⟨q1, f1⟩ := qf'
      obtain ⟨e1, i1, i2⟩ := step_identity_model ns d q f q1 f1 hd hq hf hstep
      obtain ⟨e2, j1, j2⟩ := ih q1 f1 i1 i2 h
      exact ⟨e2.trans e1, j1, j2⟩

/-- (4) C05: `f = q * d + r` for every terminating run of `divmod` -/
theorem divmod_identity (ns : List Name) (fuel : Nat) (f d q r : List (Expo × K))
    (hf : (f.map (·.1)).Nodup) (hfl : ∀ t ∈ f, t.1.length = ns.length)
    (hdl : ∀ t ∈ d, t.1.length = ns.length)
    (h : divmod fuel f d = some (q, r)) :
    denT ns f = denT ns q * denT ns d + denT ns r := by
  unfold divmod at h
  have h0 : Inv ns ([] : List (Expo × K)) := ⟨by simp, by simp⟩
  have h1 : Inv ns (f.filter fun t => !(t.2 == 0)) :=
    ⟨nodup_filter_rows f _ hf, fun t ht => hfl t (List.mem_filter.1 ht).1⟩
  have := (divmodFuel_identity ns d fuel [] _ q r hdl h0 h1 h).1
  rw [this, denT_filter_nz]
  simp

/-- quotient and remainder again have pairwise distinct rows of the right length -/
theorem divmod_inv (ns : List Name) (fuel : Nat) (f d q r : List (Expo × K))
    (hf : (f.map (·.1)).Nodup) (hfl : ∀ t ∈ f, t.1.length = ns.length)
    (hdl : ∀ t ∈ d, t.1.length = ns.length)
    (h : divmod fuel f d = some (q, r)) : Inv ns q ∧ Inv ns r := by
  unfold divmod at h
  have h0 : Inv ns ([] : List (Expo × K)) := ⟨by simp, by simp⟩
  have h1 : Inv ns (f.filter fun t => !(t.2 == 0)) :=
    ⟨nodup_filter_rows f _ hf, fun t ht => hfl t (List.mem_filter.1 ht).1⟩
  exact (divmodFuel_identity ns d fuel [] _ q r hdl h0 h1 h).2

/-! ### the remainder is reduced -/

theorem divmodFuel_stops (d : List (Expo × K)) (fuel : Nat) (qf qr : List (Expo × K) × List (Expo × K))
    (h : divmodFuel d fuel qf = some qr) : step d qr = none := by
  induction fuel generalizing qf with
  | zero => simp [divmodFuel] at h
  | succ fuel ih =>
    simp only [divmodFuel] at h
    split at h
    · rename_i hs
      cases h; exact hs
    · exact ih _ h

/-- (5) the loop only stops when no non-zero term of the remainder is divisible by the leading term -/
theorem divmod_remainder_reduced (fuel : Nat) (f d q r : List (Expo × K)) (lead : Expo × K)
    (hlead : maxTerm (fun t => !(t.2 == 0)) d = some lead)
    (h : divmod fuel f d = some (q, r)) :
    maxTerm (fun t => !(t.2 == 0) && divides lead.1 t.1) r = none := by
  have hs := divmodFuel_stops d fuel _ _ h
  unfold step at hs
  rw [hlead] at hs
  simp only at hs
  split at hs
  · assumption
  · cases hs

/-- a divisor with a non-zero term has a leading term -/
theorem maxTerm_isSome {R : Type} (p : Expo × R → Bool) (ts : List (Expo × R)) (t : Expo × R)
    (ht : t ∈ ts) (hp : p t = true) : ∃ u, maxTerm p ts = some u := by
  cases h : maxTerm p ts with
  | none => have := maxTerm_none p ts h t ht; simp [hp] at this
  | some u => exact ⟨u, rfl⟩

/-- (5′) pointwise: `d` has a non-zero term ⇒ a leading term exists and divides no non-zero term of `r` -/
theorem divmod_remainder_reduced' (fuel : Nat) (f d q r : List (Expo × K)) (t0 : Expo × K)
    (ht0 : t0 ∈ d) (hnz : t0.2 ≠ 0) (h : divmod fuel f d = some (q, r)) :
    ∃ lead, maxTerm (fun t => !(t.2 == 0)) d = some lead ∧ lead ∈ d ∧ lead.2 ≠ 0 ∧
      ∀ t ∈ r, t.2 ≠ 0 → divides lead.1 t.1 = false := by
  obtain ⟨lead, hlead⟩ := maxTerm_isSome (fun t : Expo × K => !(t.2 == 0)) d t0 ht0 (by simpa using hnz)
  have hl := maxTerm_some _ _ _ hlead
  refine ⟨lead, hlead, hl.1, by simpa using hl.2, ?_⟩
  intro t ht hne
  have := maxTerm_none _ _ (divmod_remainder_reduced fuel f d q r lead hlead h) t ht
  have hb : (t.2 == 0) = false := by simpa using hne
  simpa [hb] using this
end Np.Div

import Np.Proofs.Arr
import Np.Proofs.WF
import Np.Model.Maps
/-! C09 / C10: gathers with fill positions, joins of several operands (`superOperand`), and the generic shape
function `gatherOp`, element by element. -/
open MvPolynomial
set_option linter.unusedSectionVars false
namespace Np
open Shape
variable {R : Type} [CommSemiring R]

/-! ### 1. `gatherFill` and `embedCol` are additive -/

theorem get_gatherFill {N : Nat} (m : Nat) (idx : List Nat) (v : Vec R N) (i : Fin m) :
    (gatherFill m idx v).get i =
      if h : 0 < idx.getD i.val 0 ∧ idx.getD i.val 0 - 1 < N then v.get ⟨idx.getD i.val 0 - 1, h.2⟩ else 0 := by
  simp only [gatherFill, Vec.get_ofFn]

theorem get_embedCol {n : Nat} (off N : Nat) (v : Vec R n) (i : Fin N) :
    (embedCol off N v).get i = if h : off ≤ i.val ∧ i.val - off < n then v.get ⟨i.val - off, h.2⟩ else 0 := by
  simp only [embedCol, Vec.get_ofFn]

/-- a gather with fill positions is an additive map on columns -/
def gatherFillHom {N : Nat} (m : Nat) (idx : List Nat) : Vec R N →+ Vec R m where
  toFun := gatherFill m idx
  map_zero' := by
    apply Vec.ext'; intro i
    simp only [get_gatherFill, Vec.get_zero]; split <;> rfl
  map_add' u v := by
    apply Vec.ext'; intro i
    simp only [get_gatherFill, Vec.get_add]; split <;> simp

/-- placing a block inside a longer column of zeros is an additive map on columns -/
def embedHom {n : Nat} (off N : Nat) : Vec R n →+ Vec R N where
  toFun := embedCol off N
  map_zero' := by
    apply Vec.ext'; intro i
    simp only [get_embedCol, Vec.get_zero]; split <;> rfl
  map_add' u v := by
    apply Vec.ext'; intro i
    simp only [get_embedCol, Vec.get_add]; split <;> simp

@[simp] theorem gatherFillHom_apply {N : Nat} (m : Nat) (idx : List Nat) (v : Vec R N) :
    gatherFillHom m idx v = gatherFill m idx v := rfl
@[simp] theorem embedHom_apply {n : Nat} (off N : Nat) (v : Vec R n) : embedHom off N v = embedCol off N v := rfl

/-! ### 2. additive maps act coefficient-wise -/

theorem coeff_mapCoef_add {S T : Type} [CommSemiring S] [CommSemiring T] (φ : S →+ T) (p : Poly S)
    (mono : Name →₀ ℕ) : coeff mono (den (mapCoef φ p)) = φ (coeff mono (den p)) := by
  simp only [den, mapCoef]
  generalize p.terms = ts
  induction ts with
  | nil => simp
  | cons t ts ih =>
    simp only [List.map_cons, denT_cons, coeff_add, map_add, ih, coeff_monomial]
    split <;> simp

/-- a coefficient of the element at position `k` is entry `k` of the coefficient column -/
theorem coeff_denAt {n : Nat} (p : Poly (Vec R n)) (k : Fin n) (mono : Name →₀ ℕ) :
    coeff mono (denAt p k) = (coeff mono (den p)).get k := by
  simp only [denAt, den_mapCoef, coeff_map, Vec.evalAt_apply]

theorem coeff_denAt_mapCoef {n m : Nat} (φ : Vec R n →+ Vec R m) (p : Poly (Vec R n)) (k : Fin m)
    (mono : Name →₀ ℕ) : coeff mono (denAt (mapCoef φ p) k) = (φ (coeff mono (den p))).get k := by
  rw [coeff_denAt, coeff_mapCoef_add]

/-! ### 3. element-wise meaning of a gather with fill and of an embedding -/

theorem coeff_denAt_gatherFill {N : Nat} (m : Nat) (idx : List Nat) (p : Poly (Vec R N)) (k : Fin m)
    (mono : Name →₀ ℕ) :
    coeff mono (denAt (mapCoef (gatherFill m idx) p) k) = (gatherFill m idx (coeff mono (den p))).get k :=
  coeff_denAt_mapCoef (gatherFillHom m idx) p k mono

theorem coeff_denAt_embedCol {n : Nat} (off N : Nat) (p : Poly (Vec R n)) (j : Fin N) (mono : Name →₀ ℕ) :
    coeff mono (denAt (mapCoef (embedCol off N) p) j) = (embedCol off N (coeff mono (den p))).get j :=
  coeff_denAt_mapCoef (embedHom off N) p j mono

/-- a position whose (1-based) index is 0 holds the zero polynomial -/
theorem gatherFill_elem_fill {N : Nat} (m : Nat) (idx : List Nat) (p : Poly (Vec R N)) (k : Fin m)
    (h : idx.getD k.val 0 = 0) : denAt (mapCoef (gatherFill m idx) p) k = 0 := by
  ext mono
  rw [coeff_denAt_gatherFill, get_gatherFill, dif_neg (by omega)]; simp

/-- a position whose index is `j + 1` with `j` in range holds element `j` of the source -/
theorem gatherFill_elem_copy {N : Nat} (m : Nat) (idx : List Nat) (p : Poly (Vec R N)) (k : Fin m) (j : Nat)
    (h : idx.getD k.val 0 = j + 1) (hj : j < N) : denAt (mapCoef (gatherFill m idx) p) k = denAt p ⟨j, hj⟩ := by
  ext mono
  rw [coeff_denAt_gatherFill, get_gatherFill, dif_pos (by omega), coeff_denAt]
  congr 1; apply Fin.ext; simp only [h]; omega

/-- an index beyond the source also gives zero (the model never reads out of range) -/
theorem gatherFill_elem_out {N : Nat} (m : Nat) (idx : List Nat) (p : Poly (Vec R N)) (k : Fin m)
    (h : N < idx.getD k.val 0) : denAt (mapCoef (gatherFill m idx) p) k = 0 := by
  ext mono
  rw [coeff_denAt_gatherFill, get_gatherFill, dif_neg (by omega)]; simp

/-- the two cases requested, as one statement -/
theorem gatherFill_elem {N : Nat} (m : Nat) (idx : List Nat) (p : Poly (Vec R N)) (k : Fin m) :
    (idx.getD k.val 0 = 0 → denAt (mapCoef (gatherFill m idx) p) k = 0) ∧
    (∀ j (hj : j < N), idx.getD k.val 0 = j + 1 → denAt (mapCoef (gatherFill m idx) p) k = denAt p ⟨j, hj⟩) :=
  ⟨gatherFill_elem_fill m idx p k, fun j hj h => gatherFill_elem_copy m idx p k j h hj⟩

/-- element-wise meaning of an embedding at offset `off` -/
theorem embedCol_elem {n : Nat} (off N : Nat) (p : Poly (Vec R n)) (j : Fin N) :
    denAt (mapCoef (embedCol off N) p) j =
      if h : off ≤ j.val ∧ j.val - off < n then denAt p ⟨j.val - off, h.2⟩ else 0 := by
  ext mono
  rw [coeff_denAt_embedCol, get_embedCol]
  split
  · rw [coeff_denAt]
  · simp

/-! ### 4. the join of several operands -/

section join
variable [BEq R] [LawfulBEq R]

/-- the polynomial of the empty join: well-formed and zero -/
theorem WF_zeroPoly {S : Type} [CommSemiring S] : WF ({ names := [0], terms := [([0], 0)] } : Poly S) := by
  refine ⟨by simp, by simp [Poly.expos], ?_⟩
  intro e he
  simp only [Poly.expos, List.map_cons, List.map_nil, List.mem_singleton] at he
  simp [he]

theorem denAt_zeroPoly {N : Nat} (j : Fin N) :
    denAt ({ names := [0], terms := [([0], 0)] } : Poly (Vec R N)) j = 0 := by
  simp [denAt, den, mapCoef]

/-- the join is well-formed when every operand is -/
theorem WF_superOperand (N : Nat) (ops : List (Arr R)) (hw : ∀ a ∈ ops, a.WF) (off : Nat) :
    WF (superOperand N ops off) := by
  induction ops generalizing off with
  | nil => exact WF_zeroPoly
  | cons a rest ih =>
    exact WF_add true true _ _ (WF_mapCoef _ _ (hw a (by simp)))
      (ih (fun b hb => hw b (by simp [hb])) _)

/-- one step: the first operand's block plus the join of the others -/
theorem superOperand_step (N : Nat) (a : Arr R) (rest : List (Arr R)) (hw : ∀ b ∈ a :: rest, b.WF) (off : Nat)
    (j : Fin N) :
    denAt (superOperand N (a :: rest) off) j =
      (if h : off ≤ j.val ∧ j.val - off < size a.shape then a.elem ⟨j.val - off, h.2⟩ else 0)
        + denAt (superOperand N rest (off + size a.shape)) j := by
  show denAt (add true true (mapCoef (embedCol off N) a.poly) (superOperand N rest (off + size a.shape))) j = _
  rw [add_denAt true true _ _ (WF_mapCoef _ _ (hw a (by simp)))
    (WF_superOperand N rest (fun b hb => hw b (by simp [hb])) _), embedCol_elem]
  rfl

/-- positions before the first block hold 0 -/
theorem superOperand_below (N : Nat) (ops : List (Arr R)) (hw : ∀ a ∈ ops, a.WF) (off : Nat) (j : Fin N)
    (h : j.val < off) : denAt (superOperand N ops off) j = 0 := by
  induction ops generalizing off with
  | nil => exact denAt_zeroPoly j
  | cons a rest ih =>
    rw [superOperand_step N a rest hw off j, dif_neg (by omega),
      ih (fun b hb => hw b (by simp [hb])) _ (by omega), add_zero]

/-- offset of the `k`-th block relative to the start of the join -/
def blockOff (ops : List (Arr R)) (k : Nat) : Nat := ((ops.take k).map fun a => size a.shape).sum

theorem foldl_add_eq_sum (l : List Nat) (c : Nat) : l.foldl (· + ·) c = c + l.sum := by
  induction l generalizing c with
  | nil => simp
  | cons x xs ih => simp only [List.foldl_cons, List.sum_cons, ih]; omega

/-- total number of positions of the join (literally the expression `gatherOp` computes) -/
def totalSize (ops : List (Arr R)) : Nat := (ops.map fun a => size a.shape).foldl (· + ·) 0

theorem totalSize_eq_sum (ops : List (Arr R)) : totalSize ops = (ops.map fun a => size a.shape).sum := by
  simp [totalSize, foldl_add_eq_sum]

@[simp] theorem blockOff_zero (ops : List (Arr R)) : blockOff ops 0 = 0 := by simp [blockOff]
@[simp] theorem blockOff_succ (a : Arr R) (rest : List (Arr R)) (k : Nat) :
    blockOff (a :: rest) (k + 1) = size a.shape + blockOff rest k := by simp [blockOff]
@[simp] theorem totalSize_cons (a : Arr R) (rest : List (Arr R)) :
    totalSize (a :: rest) = size a.shape + totalSize rest := by simp [totalSize_eq_sum]

/-- positions after the last block hold 0 -/
theorem superOperand_above (N : Nat) (ops : List (Arr R)) (hw : ∀ a ∈ ops, a.WF) (off : Nat) (j : Fin N)
    (h : off + totalSize ops ≤ j.val) : denAt (superOperand N ops off) j = 0 := by
  induction ops generalizing off with
  | nil => exact denAt_zeroPoly j
  | cons a rest ih =>
    rw [totalSize_cons] at h
    rw [superOperand_step N a rest hw off j, dif_neg (by omega),
      ih (fun b hb => hw b (by simp [hb])) _ (by omega), add_zero]

/-- general form: position `j = off + blockOff ops k + i` holds element `i` of the `k`-th operand -/
theorem superOperand_elem' (N : Nat) (ops : List (Arr R)) (hw : ∀ a ∈ ops, a.WF) (off k : Nat) (a : Arr R)
    (hk : ops[k]? = some a) (i : Fin (size a.shape)) (j : Fin N) (hj : j.val = off + blockOff ops k + i.val) :
    denAt (superOperand N ops off) j = a.elem i := by
  induction ops generalizing off k with
  | nil => simp at hk
  | cons b rest ih =>
    have hwr : ∀ c ∈ rest, c.WF := fun c hc => hw c (by simp [hc])
    rw [superOperand_step N b rest hw off j]
    cases k with
    | zero =>
      simp only [List.getElem?_cons_zero, Option.some.injEq] at hk
      subst hk
      simp only [blockOff_zero] at hj
      rw [dif_pos (by have := i.isLt; omega), superOperand_below N rest hwr _ j (by have := i.isLt; omega), add_zero]
      congr 1; apply Fin.ext; simp only; omega
    | succ k =>
      simp only [List.getElem?_cons_succ] at hk
      simp only [blockOff_succ] at hj
      rw [dif_neg (by omega), zero_add]
      exact ih hwr _ k hk (by omega)

/-- the join, as requested: the block of the `k`-th operand starts at `off + (sizes of earlier operands)` -/
theorem superOperand_elem (N : Nat) (ops : List (Arr R)) (hw : ∀ a ∈ ops, a.WF) (off k : Nat) (a : Arr R)
    (hk : ops[k]? = some a) (i : Fin (size a.shape)) (h : off + blockOff ops k + i.val < N) :
    denAt (superOperand N ops off) ⟨off + blockOff ops k + i.val, h⟩ = a.elem i :=
  superOperand_elem' N ops hw off k a hk i _ rfl

/-- every block lies inside the total size -/
theorem blockOff_add_le_totalSize (ops : List (Arr R)) (k : Nat) (a : Arr R) (hk : ops[k]? = some a) :
    blockOff ops k + size a.shape ≤ totalSize ops := by
  induction ops generalizing k with
  | nil => simp at hk
  | cons b rest ih =>
    cases k with
    | zero =>
      simp only [List.getElem?_cons_zero, Option.some.injEq] at hk
      subst hk; simp
    | succ k =>
      simp only [List.getElem?_cons_succ] at hk
      have := ih k hk
      simp only [blockOff_succ, totalSize_cons]; omega

/-! ### 5. the generic shape function -/

theorem denAt_clean {n : Nat} (rc rn : Bool) (p : Poly (Vec R n)) (hw : WF p) (k : Fin n) :
    denAt (clean rc rn p) k = denAt p k := by
  simp only [denAt, den_mapCoef, den_clean rc rn p hw (WF_dropZeroCols _ hw)]

theorem gatherOp_poly (rc rn : Bool) (ops : List (Arr R)) (outShape idx : List Nat) :
    (gatherOp rc rn ops outShape idx).poly =
      clean rc rn (mapCoef (gatherFill (size outShape) idx) (superOperand (totalSize ops) ops 0)) := rfl

/-- the result of a shape function is well-formed and has the requested shape -/
theorem gatherOp_WF (rc rn : Bool) (ops : List (Arr R)) (hw : ∀ a ∈ ops, a.WF) (outShape idx : List Nat) :
    (gatherOp rc rn ops outShape idx).WF ∧ (gatherOp rc rn ops outShape idx).shape = outShape := by
  refine ⟨?_, rfl⟩
  show WF (clean rc rn (mapCoef (gatherFill (size outShape) idx) (superOperand (totalSize ops) ops 0)))
  exact WF_clean rc rn _ (WF_mapCoef _ _ (WF_superOperand _ ops hw 0))

theorem gatherOp_elem_eq (rc rn : Bool) (ops : List (Arr R)) (hw : ∀ a ∈ ops, a.WF) (outShape idx : List Nat)
    (k : Fin (size outShape)) :
    (gatherOp rc rn ops outShape idx).elem k =
      denAt (mapCoef (gatherFill (size outShape) idx) (superOperand (totalSize ops) ops 0)) k := by
  show denAt (clean rc rn (mapCoef (gatherFill (size outShape) idx) (superOperand (totalSize ops) ops 0))) k = _
  exact denAt_clean rc rn _ (WF_mapCoef _ _ (WF_superOperand _ ops hw 0)) k

/-- fill positions (index 0) of any shape function hold the zero polynomial -/
theorem gatherOp_elem_fill (rc rn : Bool) (ops : List (Arr R)) (hw : ∀ a ∈ ops, a.WF) (outShape idx : List Nat)
    (k : Fin (size outShape)) (h : idx.getD k.val 0 = 0) : (gatherOp rc rn ops outShape idx).elem k = 0 := by
  rw [gatherOp_elem_eq rc rn ops hw, gatherFill_elem_fill _ idx _ k h]

/-- a position whose index is `1 +` global position `blockOff ops t + i` holds element `i` of operand `t` -/
theorem gatherOp_elem_copy (rc rn : Bool) (ops : List (Arr R)) (hw : ∀ a ∈ ops, a.WF) (outShape idx : List Nat)
    (k : Fin (size outShape)) (t : Nat) (a : Arr R) (ht : ops[t]? = some a) (i : Fin (size a.shape))
    (h : idx.getD k.val 0 = blockOff ops t + i.val + 1) : (gatherOp rc rn ops outShape idx).elem k = a.elem i := by
  have hlt : blockOff ops t + i.val < totalSize ops := by
    have := blockOff_add_le_totalSize ops t a ht; have := i.isLt; omega
  rw [gatherOp_elem_eq rc rn ops hw, gatherFill_elem_copy _ idx _ k _ h hlt]
  exact superOperand_elem' _ ops hw 0 t a ht i _ (by simp)

/-- an index beyond the joined operands gives zero -/
theorem gatherOp_elem_out (rc rn : Bool) (ops : List (Arr R)) (hw : ∀ a ∈ ops, a.WF) (outShape idx : List Nat)
    (k : Fin (size outShape)) (h : totalSize ops < idx.getD k.val 0) :
    (gatherOp rc rn ops outShape idx).elem k = 0 := by
  rw [gatherOp_elem_eq rc rn ops hw, gatherFill_elem_out _ idx _ k h]

/-- every global position `g < totalSize ops` is owned by exactly one operand: the decomposition exists -/
theorem owner_exists (ops : List (Arr R)) (g : Nat) (hg : g < totalSize ops) :
    ∃ t a, ops[t]? = some a ∧ ∃ i : Fin (size a.shape), g = blockOff ops t + i.val := by
  induction ops generalizing g with
  | nil => simp [totalSize_eq_sum] at hg
  | cons b rest ih =>
    rw [totalSize_cons] at hg
    by_cases hb : g < size b.shape
    · exact ⟨0, b, by simp, ⟨g, hb⟩, by simp⟩
    · obtain ⟨t, a, ht, i, hi⟩ := ih (g - size b.shape) (by omega)
      exact ⟨t + 1, a, by simpa using ht, i, by simp only [blockOff_succ]; omega⟩

/-- goal: every element of `gatherOp` is either 0 (fill or out of range) or the element of the operand that owns
the global position `idx k - 1` -/
theorem gatherOp_elem (rc rn : Bool) (ops : List (Arr R)) (hw : ∀ a ∈ ops, a.WF) (outShape idx : List Nat)
    (k : Fin (size outShape)) :
    ((idx.getD k.val 0 = 0 ∨ totalSize ops < idx.getD k.val 0) ∧ (gatherOp rc rn ops outShape idx).elem k = 0) ∨
    (∃ t a, ops[t]? = some a ∧ ∃ i : Fin (size a.shape),
      idx.getD k.val 0 - 1 = blockOff ops t + i.val ∧ (gatherOp rc rn ops outShape idx).elem k = a.elem i) := by
  by_cases h0 : idx.getD k.val 0 = 0
  · exact Or.inl ⟨Or.inl h0, gatherOp_elem_fill rc rn ops hw outShape idx k h0⟩
  by_cases h1 : totalSize ops < idx.getD k.val 0
  · exact Or.inl ⟨Or.inr h1, gatherOp_elem_out rc rn ops hw outShape idx k h1⟩
  obtain ⟨t, a, ht, i, hi⟩ := owner_exists ops (idx.getD k.val 0 - 1) (by omega)
  exact Or.inr ⟨t, a, ht, i, hi, gatherOp_elem_copy rc rn ops hw outShape idx k t a ht i (by omega)⟩
end join
end Np

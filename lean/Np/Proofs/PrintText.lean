import Np.Model.PrintText
import Np.Proofs.Text
import Mathlib.Data.List.Basic
/-! C16: the printed text of a polynomial reads back as exactly its terms - for every coefficient type whose texts are
"safe tokens" (`Codec.Lawful`: an optional minus, then a non-empty text free of `+`, `-`, `*` that does not start with `q`,
which the codec's reader reads back): integers (`intCodec_lawful`), and any other type whose `str()` meets that contract.
Layers: (a) `readInt_showInt`, (b) `readFactor_factor`, (c) `readTerm_termStr`, (d) `readStr_renderStr`. -/
namespace Np.PrintText
open Np.Text Np.Print

/-! ### characters -/

theorem digits_range (n c : Nat) (h : c ∈ digits n) : 48 ≤ c ∧ c ≤ 57 := by
  unfold digits at h
  obtain ⟨ch, hch, rfl⟩ := List.mem_map.1 h
  have hd := Nat.isDigit_of_mem_toDigits (b := 10) (by decide) (by decide) hch
  simp only [Char.isDigit, Bool.and_eq_true, decide_eq_true_eq] at hd
  exact ⟨hd.1, hd.2⟩

theorem digits_cons (n : Nat) : ∃ d ds, digits n = d :: ds ∧ 48 ≤ d ∧ d ≤ 57 := by
  cases h : digits n with
  | nil => exact absurd h (digits_ne_nil n)
  | cons d ds => exact ⟨d, ds, rfl, digits_range n d (by simp [h])⟩

/-- letters, digits: what the pieces between the signs and multiplication signs are made of -/
def Alnum (s : Str) : Prop := ∀ c ∈ s, (48 ≤ c ∧ c ≤ 57) ∨ c = qch

theorem alnum_nil : Alnum [] := by simp [Alnum]
theorem alnum_digits (n : Nat) : Alnum (digits n) := fun c h => Or.inl (digits_range n c h)
theorem alnum_name (n : Nat) : Alnum (nameStr n) := by
  intro c h
  simp only [nameStr, List.mem_cons] at h
  rcases h with h | h
  · exact Or.inr h
  · exact Or.inl (digits_range n c h)

theorem Alnum.not_star {s : Str} (h : Alnum s) : star ∉ s := by
  intro hm; rcases h _ hm with h | h <;> simp [star, qch] at h

/-- free of `+` and `-` -/
def SignFree (s : Str) : Prop := ∀ c ∈ s, c ≠ plus ∧ c ≠ minus

theorem Alnum.signFree {s : Str} (h : Alnum s) : SignFree s := by
  intro c hc
  rcases h c hc with h | h <;> simp only [plus, minus, qch] at * <;> omega

theorem SignFree.append {a b : Str} (ha : SignFree a) (hb : SignFree b) : SignFree (a ++ b) := by
  intro c hc
  rcases List.mem_append.1 hc with h | h
  · exact ha c h
  · exact hb c h

theorem signFree_join (ps : List Str) (h : ∀ p ∈ ps, Alnum p) : SignFree (ps.flatMap (star :: ·)) := by
  intro c hc
  obtain ⟨p, hp, hcp⟩ := List.mem_flatMap.1 hc
  rcases List.mem_cons.1 hcp with rfl | hcp
  · simp [star, plus, minus]
  · exact (h p hp).signFree c hcp

/-- free of `+`, `-` and `*`: what a coefficient text may consist of after its optional leading minus -/
def Safe (s : Str) : Prop := ∀ c ∈ s, c ≠ plus ∧ c ≠ minus ∧ c ≠ star

theorem Safe.not_star {s : Str} (h : Safe s) : star ∉ s := fun hm => (h _ hm).2.2 rfl
theorem Safe.signFree {s : Str} (h : Safe s) : SignFree s := fun c hc => ⟨(h c hc).1, (h c hc).2.1⟩
theorem Alnum.safe {s : Str} (h : Alnum s) : Safe s := by
  intro c hc
  rcases h c hc with h | h <;> simp only [plus, minus, star, qch] at * <;> omega

/-- the contract of a coefficient codec: the reader reads back what the printer writes, and every coefficient text is
an optional `-` followed by a non-empty safe text that does not start with `q` -/
structure Codec.Lawful {C : Type} (K : Codec C) : Prop where
  read_show : ∀ c, K.readC (K.showC c) = some c
  shape : ∀ c, ∃ d ds, d ≠ qch ∧ Safe (d :: ds) ∧ (K.showC c = d :: ds ∨ K.showC c = minus :: d :: ds)

/-! ### (a) integers -/

theorem readInt_showInt (c : Int) : readInt (showInt c) = some c := by
  unfold showInt
  split
  · rename_i h
    simp only [readInt, beq_self_eq_true, if_true, ofDigits_digits, Option.map_some]
    congr 1; simp only [Int.ofNat_eq_natCast]; omega
  · rename_i h
    obtain ⟨d, ds, hd, h1, h2⟩ := digits_cons c.natAbs
    have hne : (d == minus) = false := by simp [minus]; omega
    rw [hd, readInt]
    simp only [hne, Bool.false_eq_true, if_false]
    rw [← hd, ofDigits_digits, Option.map_some]
    congr 1; simp only [Int.ofNat_eq_natCast]; omega

/-! ### the term text as a list of `*`-separated pieces -/

/-- the pieces a power contributes after the name: `**k` is an empty piece and `k` -/
def powPieces (e : Nat) : List Str := if e > 1 then [[], digits e] else []
def pieces (en : Nat × Nat) : List Str := nameStr en.2 :: powPieces en.1
/-- the (exponent, name) pairs that are printed -/
def nz (zs : List (Nat × Nat)) : List (Nat × Nat) := zs.filter fun en => en.1 != 0

theorem termStep_zero (out : Str) (en : Nat × Nat) (h : en.1 = 0) : termStep out en = out := by
  simp [termStep, h]

theorem termStep_nosep (out : Str) (en : Nat × Nat) (ho : out = [] ∨ out = [minus]) (h : en.1 ≠ 0) :
    termStep out en = out ++ nameStr en.2 ++ (powPieces en.1).flatMap (star :: ·) := by
  have h0 : (en.1 == 0) = false := by simpa using h
  rcases ho with rfl | rfl <;> by_cases h1 : en.1 > 1 <;> simp [termStep, h0, h1, powPieces]

theorem termStep_sep (out : Str) (en : Nat × Nat) (h1 : out ≠ []) (h2 : out ≠ [minus]) (h : en.1 ≠ 0) :
    termStep out en = out ++ (pieces en).flatMap (star :: ·) := by
  have h0 : (en.1 == 0) = false := by simpa using h
  by_cases h3 : en.1 > 1 <;> simp [termStep, h0, h1, h2, h3, pieces, powPieces]

theorem fold_sep (zs : List (Nat × Nat)) : ∀ out : Str, out ≠ [] → out ≠ [minus] →
    zs.foldl termStep out = out ++ ((nz zs).flatMap pieces).flatMap (star :: ·) := by
  induction zs with
  | nil => intro out _ _; simp [nz]
  | cons en zs ih =>
    intro out h1 h2
    rw [List.foldl_cons]
    by_cases h : en.1 = 0
    · rw [termStep_zero out en h, ih out h1 h2]; simp [nz, h]
    · rw [termStep_sep out en h1 h2 h, ih]
      · have : nz (en :: zs) = en :: nz zs := by simp [nz, h]
        rw [this]; simp
      · simp [h1]
      · intro hc
        have := congrArg List.length hc
        cases out with
        | nil => exact h1 rfl
        | cons a as => simp [pieces, nameStr] at this

theorem fold_nosep (zs : List (Nat × Nat)) : ∀ out : Str, (out = [] ∨ out = [minus]) →
    zs.foldl termStep out = match nz zs with
      | [] => out
      | en :: F => out ++ nameStr en.2 ++ (powPieces en.1 ++ F.flatMap pieces).flatMap (star :: ·) := by
  induction zs with
  | nil => intro out _; simp [nz]
  | cons en zs ih =>
    intro out ho
    rw [List.foldl_cons]
    by_cases h : en.1 = 0
    · rw [termStep_zero out en h, ih out ho]; simp [nz, h]
    · have hn : nz (en :: zs) = en :: nz zs := by simp [nz, h]
      rw [termStep_nosep out en ho h, fold_sep, hn]
      · simp
      · simp [nameStr]
      · intro hc
        have := congrArg List.length hc
        rcases ho with rfl | rfl
        · simp [nameStr, minus, qch] at hc
        · simp [nameStr] at this

/-! ### lexer lemmas: `*` -/

theorem splitSep_flat : ∀ (xs : List Str) (x : Str), star ∉ x → (∀ p ∈ xs, star ∉ p) →
    splitSep star (x ++ xs.flatMap (star :: ·)) = x :: xs
  | [], x, hx, _ => by simpa using splitSep_of_not_mem star x hx
  | y :: ys, x, hx, h => by
    have := splitSep_flat ys y (h y (by simp)) (fun p hp => h p (by simp [hp]))
    simp only [List.flatMap_cons, List.cons_append]
    rw [splitSep_append star x _ hx, this]

theorem regroup_pow (p k : Str) (rest : List Str) : regroup (p :: [] :: k :: rest) = (p, some k) :: regroup rest := by
  simp [regroup]

theorem regroup_plain (p r : Str) (rest : List Str) (hr : r ≠ []) :
    regroup (p :: r :: rest) = (p, none) :: regroup (r :: rest) := by
  cases rest with
  | nil => simp [regroup]
  | cons k rest => simp [regroup, hr]

def powOpt (e : Nat) : Option Str := if e > 1 then some (digits e) else none
def gOf (en : Nat × Nat) : Str × Option Str := (nameStr en.2, powOpt en.1)

theorem regroup_fp : ∀ (F : List (Nat × Nat)) (p0 : Str) (e : Nat),
    regroup (p0 :: (powPieces e ++ F.flatMap pieces)) = (p0, powOpt e) :: F.map gOf
  | [], p0, e => by
    by_cases h : e > 1 <;> simp [powPieces, powOpt, h, regroup]
  | en :: F, p0, e => by
    have ih := regroup_fp F (nameStr en.2) en.1
    by_cases h : e > 1
    · simp only [powPieces, h, if_true, List.flatMap_cons, pieces, List.cons_append, List.nil_append, powOpt]
      rw [regroup_pow]
      simp only [powPieces] at ih
      rw [ih]; simp [gOf]
    · simp only [powPieces, h, if_false, List.flatMap_cons, pieces, List.cons_append, List.nil_append, powOpt]
      rw [regroup_plain _ _ _ (by simp [nameStr])]
      simp only [powPieces] at ih
      rw [ih]; simp [gOf]

/-! ### (b) one factor -/

theorem readFactor_factor (n e : Nat) (he : e ≠ 0) : readFactor (nameStr n, powOpt e) = some (n, e) := by
  by_cases h : e > 1
  · simp [readFactor, nameStr, powOpt, h, ofDigits_digits]
  · have : e = 1 := by omega
    simp [readFactor, nameStr, powOpt, this, ofDigits_digits]

theorem readFactors_map : ∀ F : List (Nat × Nat), (∀ en ∈ F, en.1 ≠ 0) →
    readFactors (F.map gOf) = some (F.map fun en => (en.2, en.1))
  | [], _ => rfl
  | en :: F, h => by
    have ih := readFactors_map F (fun x hx => h x (by simp [hx]))
    simp only [List.map_cons, readFactors, gOf, readFactor_factor en.2 en.1 (h en (by simp))]
    rw [ih]

/-- (b) on text: `q<n>` and `q<n>**<e>` lex and read back as `(n, e)` -/
theorem readFactor_text (n e : Nat) (he : e ≠ 0) :
    (regroup (splitSep star (nameStr n ++ (powPieces e).flatMap (star :: ·)))).map readFactor = [some (n, e)] := by
  have hs : ∀ p ∈ powPieces e, star ∉ p := by
    intro p hp
    unfold powPieces at hp
    split at hp
    · rcases List.mem_cons.1 hp with rfl | hp
      · simp
      · simp only [List.mem_singleton] at hp; subst hp; exact (alnum_digits e).not_star
    · simp at hp
  rw [splitSep_flat _ _ (alnum_name n).not_star hs]
  have := regroup_fp [] (nameStr n) e
  simp only [List.flatMap_nil, List.append_nil, List.map_nil] at this
  rw [this]
  simp [readFactor_factor n e he]

/-! ### the exponent row -/

def swap (en : Nat × Nat) : Nat × Nat := (en.2, en.1)

theorem lookup_none (n : Nat) : ∀ l : List (Nat × Nat), n ∉ l.map (·.1) → l.lookup n = none
  | [], _ => rfl
  | (k, v) :: l, h => by
    simp only [List.map_cons, List.mem_cons, not_or] at h
    have : (n == k) = false := by simpa using h.1
    simp [List.lookup, this, lookup_none n l h.2]

theorem distinct_of_nodup : ∀ l : List Nat, l.Nodup → distinct l = true
  | [], _ => rfl
  | x :: xs, h => by
    rw [List.nodup_cons] at h
    simp [distinct, h.1, distinct_of_nodup xs h.2]

theorem names_nz_zip (es ns : List Nat) : ∀ m ∈ ((nz (List.zip es ns)).map swap).map (·.1), m ∈ ns := by
  intro m hm
  simp only [List.map_map, List.mem_map, nz, List.mem_filter] at hm
  obtain ⟨en, ⟨hz, _⟩, rfl⟩ := hm
  exact (List.of_mem_zip (a := en.1) (b := en.2) hz).2

theorem lookup_row : ∀ es ns : List Nat, es.length = ns.length → ns.Nodup →
    ns.map (fun n => (((nz (List.zip es ns)).map swap).lookup n).getD 0) = es
  | [], [], _, _ => rfl
  | [], _ :: _, h, _ => by simp at h
  | _ :: _, [], h, _ => by simp at h
  | e :: es, n :: ns, hl, hn => by
    rw [List.nodup_cons] at hn
    have ih := lookup_row es ns (by simpa using hl) hn.2
    have hnone : ((nz (List.zip es ns)).map swap).lookup n = none :=
      lookup_none n _ (fun hm => hn.1 (names_nz_zip es ns n hm))
    have hz : e = 0 → nz (List.zip (e :: es) (n :: ns)) = nz (List.zip es ns) := by
      intro he; simp [nz, he]
    have hnz : e ≠ 0 → nz (List.zip (e :: es) (n :: ns)) = (e, n) :: nz (List.zip es ns) := by
      intro he; simp [nz, he]
    rw [List.map_cons]
    congr 1
    · by_cases he : e = 0
      · rw [hz he, hnone, he]; rfl
      · rw [hnz he]; simp [swap]
    · conv_rhs => rw [← ih]
      apply List.map_congr_left
      intro m hm
      have hmn : (m == n) = false := by
        simp only [beq_eq_false_iff_ne]; rintro rfl; exact hn.1 hm
      by_cases he : e = 0
      · rw [hz he]
      · rw [hnz he]; simp [swap, List.lookup, hmn]

theorem nodup_nz_zip (es ns : List Nat) (hl : es.length = ns.length) (hn : ns.Nodup) :
    (((nz (List.zip es ns)).map swap).map (·.1)).Nodup := by
  have h1 : ((nz (List.zip es ns)).map swap).map (·.1) = (nz (List.zip es ns)).map (·.2) := by
    simp [List.map_map, swap, Function.comp_def]
  rw [h1]
  have h2 : List.Sublist ((nz (List.zip es ns)).map (·.2)) ((List.zip es ns).map (·.2)) :=
    List.Sublist.map _ List.filter_sublist
  rw [List.map_snd_zip (by omega)] at h2
  exact hn.sublist h2

theorem buildExpo_row (es ns : List Nat) (hl : es.length = ns.length) (hn : ns.Nodup) :
    buildExpo ns ((nz (List.zip es ns)).map swap) = some es := by
  unfold buildExpo
  have h1 : (((nz (List.zip es ns)).map swap).all fun f => ns.contains f.1) = true := by
    rw [List.all_eq_true]
    intro f hf
    simpa using names_nz_zip es ns f.1 (List.mem_map.2 ⟨f, hf, rfl⟩)
  rw [h1, distinct_of_nodup _ (nodup_nz_zip es ns hl hn)]
  simp [lookup_row es ns hl hn]

theorem finish_row {C : Type} (es ns : List Nat) (c : C) (hl : es.length = ns.length) (hn : ns.Nodup) :
    finish ns c ((nz (List.zip es ns)).map gOf) = some (c, es) := by
  have hF : ∀ en ∈ nz (List.zip es ns), en.1 ≠ 0 := by
    intro en h; simp only [nz, List.mem_filter] at h; simpa using h.2
  have := buildExpo_row es ns hl hn
  unfold swap at this
  simp only [finish, readFactors_map _ hF, this, Option.map_some]

/-! ### (c) one term -/

/-- what the printer's tokens satisfy (`printTokens_wf`) -/
structure TokWF {C : Type} (K : Codec C) (names : List Nat) (t : Tok C) : Prop where
  len : t.expo.length = names.length
  shown : t.coefShown = false ↔ (t.expo.any (· != 0) = true ∧ (t.coef = K.one ∨ t.coef = K.negOne))
  bare : t.bareMinus = true ↔ (t.coefShown = false ∧ t.coef = K.negOne)

theorem alnum_powPieces (e : Nat) : ∀ p ∈ powPieces e, Alnum p := by
  intro p hp
  unfold powPieces at hp
  split at hp
  · rcases List.mem_cons.1 hp with rfl | hp
    · exact alnum_nil
    · simp only [List.mem_singleton] at hp; subst hp; exact alnum_digits e
  · simp at hp

theorem alnum_pieces (F : List (Nat × Nat)) : ∀ p ∈ F.flatMap pieces, Alnum p := by
  intro p hp
  obtain ⟨en, _, hp⟩ := List.mem_flatMap.1 hp
  rcases List.mem_cons.1 hp with rfl | hp
  · exact alnum_name _
  · exact alnum_powPieces _ p hp

theorem showInt_cases (c : Int) : ∃ d ds, 48 ≤ d ∧ d ≤ 57 ∧ Alnum (d :: ds) ∧
    ((0 ≤ c ∧ showInt c = d :: ds) ∨ (c < 0 ∧ showInt c = minus :: d :: ds)) := by
  obtain ⟨d, ds, hd, h1, h2⟩ := digits_cons c.natAbs
  refine ⟨d, ds, h1, h2, hd ▸ alnum_digits _, ?_⟩
  unfold showInt
  by_cases h : c < 0
  · right; simp [h, hd]
  · left; simp [h, hd]; omega

theorem intCodec_lawful : intCodec.Lawful where
  read_show := readInt_showInt
  shape := fun c => by
    obtain ⟨d, ds, h1, h2, hal, hc⟩ := showInt_cases c
    refine ⟨d, ds, by simp only [qch]; omega, hal.safe, ?_⟩
    rcases hc with ⟨_, hc⟩ | ⟨_, hc⟩
    · exact Or.inl hc
    · exact Or.inr hc

theorem nz_ne_nil : ∀ es ns : List Nat, es.length = ns.length → es.any (· != 0) = true → nz (List.zip es ns) ≠ []
  | [], _, _, h => by simp at h
  | _ :: _, [], h, _ => by simp at h
  | e :: es, n :: ns, hl, h => by
    by_cases he : e = 0
    · have := nz_ne_nil es ns (by simpa using hl) (by simpa [he] using h)
      simpa [nz, he] using this
    · simp [nz, he]

/-- the text of a term whose coefficient is shown: the coefficient and the pieces, `*` in front of every piece -/
theorem termStr_shown {C : Type} (K : Codec C) (hK : K.Lawful) (names : List Nat) (t : Tok C) (h : t.coefShown = true) :
    termStr K names t = K.showC t.coef ++ ((nz (List.zip t.expo names)).flatMap pieces).flatMap (star :: ·) := by
  obtain ⟨d, ds, _, _, hc⟩ := hK.shape t.coef
  unfold termStr
  simp only [h, if_true]
  apply fold_sep
  · rcases hc with hc | hc <;> simp [hc]
  · rcases hc with hc | hc <;> simp [hc]
    intro hd
    exact absurd hd (‹Safe (d :: ds)› d (by simp)).2.1

/-- the text of a term with elided coefficient: optional bare minus, then the factors -/
theorem termStr_elided {C : Type} (K : Codec C) (names : List Nat) (t : Tok C) (h : t.coefShown = false) (en : Nat × Nat)
    (F : List (Nat × Nat)) (hF : nz (List.zip t.expo names) = en :: F) :
    termStr K names t = ((if t.bareMinus then [minus] else []) ++ nameStr en.2)
      ++ (powPieces en.1 ++ F.flatMap pieces).flatMap (star :: ·) := by
  unfold termStr
  simp only [h, Bool.false_eq_true, if_false]
  rw [fold_nosep _ _ (by cases t.bareMinus <;> simp), hF]

theorem readTerm_termStr {C : Type} (K : Codec C) (hK : K.Lawful) (names : List Nat) (hn : names.Nodup) (t : Tok C) (wf : TokWF K names t) :
    readTerm K names (termStr K names t) = some (t.coef, t.expo) := by
  have hfin := fun (c : C) => finish_row t.expo names c wf.len hn
  cases hs : t.coefShown with
  | true =>
    obtain ⟨d, ds, hdq, hal, hc⟩ := hK.shape t.coef
    have hdm : d ≠ minus := (hal d (by simp)).2.1
    have hstar : star ∉ K.showC t.coef := by
      rcases hc with hc | hc <;> rw [hc]
      · exact hal.not_star
      · have := hal.not_star
        simp only [List.mem_cons, not_or] at this ⊢
        exact ⟨by simp [star, minus], this⟩
    have hrg := regroup_fp (nz (List.zip t.expo names)) (K.showC t.coef) 1
    simp only [powPieces, powOpt, Nat.lt_irrefl, if_false, List.nil_append, gt_iff_lt] at hrg
    have hint := hK.read_show t.coef
    rw [termStr_shown K hK names t hs, readTerm,
      splitSep_flat _ _ hstar (fun p hp => (alnum_pieces _ p hp).not_star), hrg]
    rcases hc with hc | hc
    · have hq : (d == qch) = false := by simpa using hdq
      have hm : (d == minus) = false := by simpa using hdm
      rw [hc] at hint ⊢
      simp only [hq, hm, Bool.false_and, Bool.false_eq_true, if_false, hint, hfin]
    · have hq : (d == qch) = false := by simpa using hdq
      rw [hc] at hint ⊢
      simp only [List.head?_cons, hq, show (minus == qch) = false from rfl,
        Bool.and_false, Bool.false_eq_true, if_false, hint, hfin, Option.some_beq_some]
  | false =>
    obtain ⟨hany, hcoef⟩ := wf.shown.1 hs
    cases hF : nz (List.zip t.expo names) with
    | nil => exact absurd hF (nz_ne_nil _ _ wf.len hany)
    | cons en F =>
      have hrg := regroup_fp F ((if t.bareMinus then [minus] else []) ++ nameStr en.2) en.1
      have hx : star ∉ (if t.bareMinus then [minus] else []) ++ nameStr en.2 := by
        have := (alnum_name en.2).not_star
        cases t.bareMinus <;> simp [star, minus] <;> simpa [star] using this
      have hps : ∀ p ∈ powPieces en.1 ++ F.flatMap pieces, star ∉ p := by
        intro p hp
        rcases List.mem_append.1 hp with hp | hp
        · exact (alnum_powPieces _ p hp).not_star
        · exact (alnum_pieces _ p hp).not_star
      have hfin' := fun c => hfin c
      simp only [hF, List.map_cons, gOf] at hfin'
      rw [termStr_elided K names t hs en F hF, readTerm, splitSep_flat _ _ hx hps, hrg]
      cases hb : t.bareMinus with
      | false =>
        have : t.coef = K.one := by
          rcases hcoef with h | h
          · exact h
          · exact absurd (wf.bare.2 ⟨hs, h⟩) (by simp [hb])
        simp only [Bool.false_eq_true, if_false, List.nil_append, nameStr, beq_self_eq_true, if_true]
        simp only [nameStr] at hfin'
        rw [hfin', this]
      | true =>
        have : t.coef = K.negOne := (wf.bare.1 hb).2
        simp only [if_true, nameStr, List.cons_append, List.nil_append, show (minus == qch) = false from rfl,
          Bool.false_eq_true, if_false, beq_self_eq_true, List.head?_cons, Bool.and_self]
        simp only [nameStr] at hfin'
        rw [hfin', this]

/-! ### (d) the whole text -/

/-- every term text is an optional `-` followed by a non-empty text free of `+` and `-` -/
theorem termStr_shape {C : Type} (K : Codec C) (hK : K.Lawful) (names : List Nat) (t : Tok C) (wf : TokWF K names t) :
    ∃ b : Str, SignFree b ∧ b ≠ [] ∧ (termStr K names t = b ∨ termStr K names t = minus :: b) := by
  cases hs : t.coefShown with
  | true =>
    obtain ⟨d, ds, _, hal, hc⟩ := hK.shape t.coef
    have hj := signFree_join _ (alnum_pieces (nz (List.zip t.expo names)))
    refine ⟨(d :: ds) ++ ((nz (List.zip t.expo names)).flatMap pieces).flatMap (star :: ·),
      hal.signFree.append hj, by simp, ?_⟩
    rw [termStr_shown K hK names t hs]
    rcases hc with hc | hc <;> simp [hc]
  | false =>
    obtain ⟨hany, _⟩ := wf.shown.1 hs
    cases hF : nz (List.zip t.expo names) with
    | nil => exact absurd hF (nz_ne_nil _ _ wf.len hany)
    | cons en F =>
      have hj : SignFree ((powPieces en.1 ++ F.flatMap pieces).flatMap (star :: ·)) := by
        apply signFree_join
        intro p hp
        rcases List.mem_append.1 hp with hp | hp
        · exact alnum_powPieces _ p hp
        · exact alnum_pieces _ p hp
      refine ⟨nameStr en.2 ++ (powPieces en.1 ++ F.flatMap pieces).flatMap (star :: ·),
        (alnum_name _).signFree.append hj, by simp [nameStr], ?_⟩
      rw [termStr_elided K names t hs en F hF]
      cases t.bareMinus <;> simp

/-- what the loop over the terms appends for every term but the first -/
def pre (s : Str) : Str := if startsMinus s then s else plus :: s

theorem render_fold {C : Type} (K : Codec C) (names : List Nat) : ∀ (ts : List (Tok C)) (acc : Str),
    ts.foldl (renderStep K names) (acc, true) = (acc ++ ts.flatMap (fun t => pre (termStr K names t)), true)
  | [], acc => by simp
  | t :: ts, acc => by
    rw [List.foldl_cons]
    have : renderStep K names (acc, true) t = (acc ++ pre (termStr K names t), true) := by
      simp only [renderStep, pre, Bool.true_and]
      cases startsMinus (termStr K names t) <;> simp
    rw [this, render_fold K names ts]; simp

theorem renderStr_cons {C : Type} (K : Codec C) (names : List Nat) (t : Tok C) (ts : List (Tok C)) :
    renderStr K names (t :: ts) = termStr K names t ++ ts.flatMap (fun t => pre (termStr K names t)) := by
  have : renderStep K names ([], false) t = (termStr K names t, true) := by simp [renderStep]
  simp only [renderStr, List.isEmpty_cons, Bool.false_eq_true, if_false, List.foldl_cons, this, render_fold]

theorem splitSigns_signFree : ∀ (x rest : Str), SignFree x →
    splitSigns (x ++ rest) = (x ++ (splitSigns rest).1, (splitSigns rest).2)
  | [], rest, _ => by simp
  | c :: cs, rest, h => by
    have hc := h c (by simp)
    have h1 : (c == plus) = false := by simpa using hc.1
    have h2 : (c == minus) = false := by simpa using hc.2
    have ih := splitSigns_signFree cs rest (fun a ha => h a (by simp [ha]))
    simp only [List.cons_append, splitSigns, h1, h2, Bool.false_eq_true, if_false, ih]

theorem pre_pos (b : Str) (hb : SignFree b) : pre b = plus :: b := by
  cases b with
  | nil => simp [pre, startsMinus]
  | cons c cs =>
    have := (hb c (by simp)).2
    simp [pre, startsMinus, this]

theorem pre_neg (b : Str) : pre (minus :: b) = minus :: b := by simp [pre, startsMinus]

theorem splitSigns_tail {C : Type} (K : Codec C) (hK : K.Lawful) (names : List Nat) : ∀ ts : List (Tok C), (∀ t ∈ ts, TokWF K names t) →
    splitSigns (ts.flatMap fun t => pre (termStr K names t)) = ([], ts.map (termStr K names))
  | [], _ => rfl
  | t :: ts, h => by
    have ih := splitSigns_tail K hK names ts (fun x hx => h x (by simp [hx]))
    obtain ⟨b, hb, _, hc⟩ := termStr_shape K hK names t (h t (by simp))
    have hsf := splitSigns_signFree b (ts.flatMap fun t => pre (termStr K names t)) hb
    rw [ih] at hsf
    simp only [List.flatMap_cons, List.map_cons]
    rcases hc with hc | hc
    · rw [hc, pre_pos b hb, List.cons_append, splitSigns, hsf]; simp
    · rw [hc, pre_neg, List.cons_append, splitSigns, hsf]; simp [plus, minus]

/-- the lexer finds exactly the printed term texts -/
theorem cutTerms_renderStr {C : Type} (K : Codec C) (hK : K.Lawful) (names : List Nat) (toks : List (Tok C)) (hne : toks ≠ [])
    (h : ∀ t ∈ toks, TokWF K names t) : cutTerms (renderStr K names toks) = toks.map (termStr K names) := by
  cases toks with
  | nil => exact absurd rfl hne
  | cons t ts =>
    have ht := splitSigns_tail K hK names ts (fun x hx => h x (by simp [hx]))
    obtain ⟨b, hb, hbne, hc⟩ := termStr_shape K hK names t (h t (by simp))
    have hsf := splitSigns_signFree b (ts.flatMap fun t => pre (termStr K names t)) hb
    rw [ht] at hsf
    rw [renderStr_cons K, cutTerms]
    rcases hc with hc | hc
    · rw [hc, hsf]; cases b with
      | nil => exact absurd rfl hbne
      | cons c cs => simp [hc]
    · rw [hc, List.cons_append, splitSigns, hsf]; simp [plus, minus, hc]

theorem readTerms_map {C : Type} (K : Codec C) (hK : K.Lawful) (names : List Nat) (hn : names.Nodup) : ∀ ts : List (Tok C), (∀ t ∈ ts, TokWF K names t) →
    readTerms K names (ts.map (termStr K names)) = some (ts.map fun t => (t.coef, t.expo))
  | [], _ => rfl
  | t :: ts, h => by
    simp only [List.map_cons, readTerms, readTerm_termStr K hK names hn t (h t (by simp)),
      readTerms_map K hK names hn ts (fun x hx => h x (by simp [hx]))]

/-- C16 (text): the printed text of a non-zero polynomial reads back as exactly its printed terms -/
theorem readStr_renderStr {C : Type} (K : Codec C) (hK : K.Lawful) (names : List Nat) (hn : names.Nodup) (toks : List (Tok C)) (hne : toks ≠ [])
    (h : ∀ t ∈ toks, TokWF K names t) :
    readStr K names (renderStr K names toks) = some (toks.map fun t => (t.coef, t.expo)) := by
  rw [readStr, cutTerms_renderStr K hK names toks hne h]
  cases toks with
  | nil => exact absurd rfl hne
  | cons t ts => exact readTerms_map K hK names hn (t :: ts) h

/-- the zero polynomial prints `0`, which reads back as the single constant term `0` -/
theorem readStr_renderStr_nil (names : List Nat) :
    readStr intCodec names (renderStr intCodec names []) = some [((0 : Int), names.map fun _ => 0)] := by
  simp [renderStr, readStr, intCodec, cutTerms, splitSigns, plus, minus, readTerms, readTerm, splitSep, star, regroup, qch,
    readInt, ofDigits, finish, readFactors, buildExpo, distinct]

/-! ### the printer's tokens are well formed -/

theorem mem_printOrder (g r i : Bool) (ts : List (Expo × Int)) (t : Expo × Int)
    (h : t ∈ printOrder g r i ts) : t ∈ ts ∧ t.2 ≠ 0 := by
  simp only [printOrder, List.mem_filter, List.mem_map] at h
  obtain ⟨⟨k, _, hk⟩, h0⟩ := h
  have h0 : t.2 ≠ 0 := by simpa using h0
  refine ⟨?_, h0⟩
  by_cases hlt : k < ts.length
  · rw [← hk, List.getD_eq_getElem?_getD, List.getElem?_eq_getElem hlt]; simp
  · rw [List.getD_eq_getElem?_getD, List.getElem?_eq_none (by omega)] at hk
    exact absurd (by rw [← hk]; rfl) h0

theorem printTokens_wf (names : List Nat) (g r i : Bool) (ts : List (Expo × Int))
    (hl : ∀ t ∈ ts, t.1.length = names.length) :
    ∀ tok ∈ printTokens g r i ts, TokWF intCodec names tok ∧ tok.coef ≠ 0 := by
  intro tok htok
  simp only [printTokens, List.mem_map] at htok
  obtain ⟨t, ht, rfl⟩ := htok
  obtain ⟨hm, h0⟩ := mem_printOrder g r i ts t ht
  refine ⟨⟨hl t hm, ?_, ?_⟩, h0⟩
  · by_cases h1 : t.2 = 1 <;> by_cases h2 : t.2 = -1 <;> cases t.1.any (· != 0) <;> simp [h1, h2, intCodec]
  · by_cases h1 : t.2 = 1 <;> by_cases h2 : t.2 = -1 <;> cases t.1.any (· != 0) <;> simp [h1, h2, intCodec]

/-- C16 end to end on the model: the text printed for the terms `ts` (display order and flags as in
`Print.printTokens`) reads back as the non-zero terms in printing order -/
theorem readStr_print (names : List Nat) (hn : names.Nodup) (g r i : Bool) (ts : List (Expo × Int))
    (hl : ∀ t ∈ ts, t.1.length = names.length) (hne : printOrder g r i ts ≠ []) :
    readStr intCodec names (renderStr intCodec names (printTokens g r i ts)) = some ((printOrder g r i ts).map fun t => (t.2, t.1)) := by
  rw [readStr_renderStr intCodec intCodec_lawful names hn _ (by simpa [printTokens] using hne)
    (fun t ht => (printTokens_wf names g r i ts hl t ht).1)]
  simp [printTokens, List.map_map, Function.comp_def]

end Np.PrintText

import Np.Proofs.DivArr
import Np.Proofs.DivExact
import Mathlib.Algebra.MvPolynomial.Degrees
/-! C05 on arrays, continued: the element-level consequences of the division identity + reduced remainder
(Np/Proofs/DivExact.lean) lifted to `divmodArr` (Np/Model/DivArr.lean): exact multiples, constant divisors, one
indeterminate (`deg r < deg d`), and no stored zero terms — at every flat position of the broadcast result. -/
open MvPolynomial
set_option linter.unusedSectionVars false

namespace Np
open Shape

variable {K : Type} [Field K] [BEq K] [LawfulBEq K]

/-! ### 0. what runs at one position -/

/-- a successful `divmodArr`: the names are pairwise distinct, and at every flat position `i` that finished with
`(q, r)` there are term lists `f`, `d` over the names (distinct rows of the names' length) denoting the broadcast
elements of `a` and `b` with `Div.divmod fuel f d = some (q, r)` -/
theorem divmodArr_run (fuel : Nat) (a b : Arr K) (ha : a.WF) (hb : b.WF) (s : List Nat) (names : List Name)
    (elems : List (Option (List (Expo × K) × List (Expo × K))))
    (h : divmodArr fuel a b = .ok (s, names, elems)) :
    names.Nodup ∧
    ∃ (σa : Fin (size s) → Fin (size a.shape)) (σb : Fin (size s) → Fin (size b.shape)),
      (∀ i, (σa i).val = bindex a.shape s i.val) ∧ (∀ i, (σb i).val = bindex b.shape s i.val) ∧
      ∀ (i : Fin (size s)) (q r : List (Expo × K)), elems[i.val]? = some (some (q, r)) →
        ∃ f d : List (Expo × K), Div.Inv names f ∧ Div.Inv names d ∧
          denT names f = a.elem (σa i) ∧ denT names d = b.elem (σb i) ∧
          Div.divmod fuel f d = some (q, r) := by
  obtain ⟨_, pa, pb, hpa, hpb, rfl, rfl⟩ := divmodArr_ok fuel a b s names elems h
  obtain ⟨σa, σb, hσa, hσb, hel⟩ := divmodArr_elem a b ha hb s pa pb hpa hpb
  refine ⟨commonNamesArr_nodup a b, σa, σb, hσa, hσb, fun i q r hqr => ?_⟩
  obtain ⟨f, d, hf, hd, _, hdf, hdd, hrun⟩ := hel i
  rw [hrun fuel] at hqr
  exact ⟨f, d, hf, hd, hdf, hdd, by simpa using hqr⟩

/-- a term list that does not denote 0 has a non-zero term -/
theorem exists_nz_of_denT_ne_zero (ns : List Name) (d : List (Expo × K)) (h : denT ns d ≠ 0) :
    ∃ t0 ∈ d, t0.2 ≠ 0 := by
  by_contra hc
  apply h
  apply denT_eq_zero_of_cols
  intro t ht
  by_contra h0
  exact hc ⟨t, ht, h0⟩

/-! ### 1. exact multiples -/

/-- (1) if at position `i` the broadcast dividend element is a polynomial multiple `g * b.elem (σb i)` of a
non-zero divisor element, the stored remainder is the empty term list (so denotes 0) and the stored quotient
denotes `g`; moreover every stored quotient term is the (non-zero) coefficient of `g` at its row -/
theorem divmodArr_exact_multiple (fuel : Nat) (a b : Arr K) (ha : a.WF) (hb : b.WF) (s : List Nat)
    (names : List Name) (elems : List (Option (List (Expo × K) × List (Expo × K))))
    (h : divmodArr fuel a b = .ok (s, names, elems)) :
    ∃ (σa : Fin (size s) → Fin (size a.shape)) (σb : Fin (size s) → Fin (size b.shape)),
      (∀ i, (σa i).val = bindex a.shape s i.val) ∧ (∀ i, (σb i).val = bindex b.shape s i.val) ∧
      ∀ (i : Fin (size s)) (q r : List (Expo × K)), elems[i.val]? = some (some (q, r)) →
        ∀ g : MvPolynomial Name K, a.elem (σa i) = g * b.elem (σb i) → b.elem (σb i) ≠ 0 →
          r = [] ∧ denT names r = 0 ∧ denT names q = g ∧
          ∀ t ∈ q, coeff (fsN names t.1) g = t.2 ∧ t.2 ≠ 0 := by
  obtain ⟨hn, σa, σb, hσa, hσb, hel⟩ := divmodArr_run fuel a b ha hb s names elems h
  refine ⟨σa, σb, hσa, hσb, fun i q r hqr g hg hne => ?_⟩
  obtain ⟨f, d, hf, hd, hdf, hdd, hrun⟩ := hel i q r hqr
  have hg' : denT names f = g * denT names d := by rw [hdf, hdd]; exact hg
  have hne' : denT names d ≠ 0 := by rw [hdd]; exact hne
  obtain ⟨hr0, hqg⟩ := Div.divmod_exact names hn fuel f d q r g hf.nodup hf.len hd.nodup hd.len hrun hg' hne'
  obtain ⟨hrn, hqt⟩ := Div.divmod_exact_terms names hn fuel f d q r g hf.nodup hf.len hd.nodup hd.len hrun hg' hne'
  exact ⟨hrn, hr0, hqg, hqt⟩

/-! ### 2. constant divisors -/

/-- (2) if the divisor element at position `i` is a non-zero constant `C c`, the stored remainder is the empty term
list and the stored quotient denotes `C c⁻¹ * a.elem (σa i)` -/
theorem divmodArr_constant_divisor (fuel : Nat) (a b : Arr K) (ha : a.WF) (hb : b.WF) (s : List Nat)
    (names : List Name) (elems : List (Option (List (Expo × K) × List (Expo × K))))
    (h : divmodArr fuel a b = .ok (s, names, elems)) :
    ∃ (σa : Fin (size s) → Fin (size a.shape)) (σb : Fin (size s) → Fin (size b.shape)),
      (∀ i, (σa i).val = bindex a.shape s i.val) ∧ (∀ i, (σb i).val = bindex b.shape s i.val) ∧
      ∀ (i : Fin (size s)) (q r : List (Expo × K)), elems[i.val]? = some (some (q, r)) →
        ∀ c : K, c ≠ 0 → b.elem (σb i) = C c →
          r = [] ∧ denT names r = 0 ∧ denT names q = C c⁻¹ * a.elem (σa i) := by
  obtain ⟨σa, σb, hσa, hσb, hel⟩ := divmodArr_exact_multiple fuel a b ha hb s names elems h
  refine ⟨σa, σb, hσa, hσb, fun i q r hqr c hc hbc => ?_⟩
  have hmul : a.elem (σa i) = (C c⁻¹ * a.elem (σa i)) * b.elem (σb i) := by
    rw [hbc, mul_comm (C c⁻¹), mul_assoc, ← C_mul, inv_mul_cancel₀ hc, C_1, mul_one]
  have hne : b.elem (σb i) ≠ 0 := by
    rw [hbc]
    intro h0
    exact hc (C_eq_zero.1 h0)
  obtain ⟨h1, h2, h3, _⟩ := hel i q r hqr _ hmul hne
  exact ⟨h1, h2, h3⟩

/-! ### 3. one indeterminate -/

theorem names_length_one (names : List Name) (h : names.length = 1) : ∃ x, names = [x] := by
  match names, h with
  | [x], _ => exact ⟨x, rfl⟩

theorem fsN_single (x : Name) (l : Nat) : fsN [x] [l] = Finsupp.single x l := by
  simp [fsN]

/-- (3) one indeterminate `x` (`names = [x]`), non-zero divisor element at position `i`: there is `l` — the degree
of the divisor element: every monomial of it has `x`-degree ≤ `l`, and `x^l` occurs in it — such that every monomial
of the stored remainder has `x`-degree < `l`; `l` is `degreeOf x` of the divisor element -/
theorem divmodArr_univariate (fuel : Nat) (a b : Arr K) (ha : a.WF) (hb : b.WF) (s : List Nat)
    (names : List Name) (elems : List (Option (List (Expo × K) × List (Expo × K))))
    (h : divmodArr fuel a b = .ok (s, names, elems)) (h1 : names.length = 1) :
    ∃ x, names = [x] ∧
    ∃ (σa : Fin (size s) → Fin (size a.shape)) (σb : Fin (size s) → Fin (size b.shape)),
      (∀ i, (σa i).val = bindex a.shape s i.val) ∧ (∀ i, (σb i).val = bindex b.shape s i.val) ∧
      ∀ (i : Fin (size s)) (q r : List (Expo × K)), elems[i.val]? = some (some (q, r)) →
        b.elem (σb i) ≠ 0 →
        ∃ l : Nat, (∀ m, coeff m (b.elem (σb i)) ≠ 0 → m x ≤ l) ∧
          coeff (Finsupp.single x l) (b.elem (σb i)) ≠ 0 ∧
          l = degreeOf x (b.elem (σb i)) ∧
          ∀ m, coeff m (denT names r) ≠ 0 → m x < l := by
  obtain ⟨x, rfl⟩ := names_length_one names h1
  obtain ⟨hn, σa, σb, hσa, hσb, hel⟩ := divmodArr_run fuel a b ha hb s [x] elems h
  refine ⟨x, rfl, σa, σb, hσa, hσb, fun i q r hqr hne => ?_⟩
  obtain ⟨f, d, hf, hd, hdf, hdd, hrun⟩ := hel i q r hqr
  obtain ⟨t0, ht0, hnz⟩ := exists_nz_of_denT_ne_zero [x] d (by rw [hdd]; exact hne)
  obtain ⟨lead, l, hlead, hl2, hl, hdle, hrlt⟩ :=
    Div.divmod_univariate_den x fuel f d q r t0 hf.nodup hf.len hd.len ht0 hnz hrun
  have hmem := (Div.maxTerm_some _ _ _ hlead).1
  have hco : coeff (Finsupp.single x l) (b.elem (σb i)) ≠ 0 := by
    rw [← hdd, ← fsN_single, ← hl, Div.coeff_denT_mem [x] hn d hd.len hd.nodup lead hmem]
    exact hl2
  rw [hdd] at hdle
  refine ⟨l, hdle, hco, ?_, hrlt⟩
  rw [degreeOf_eq_sup]
  apply le_antisymm
  · have := Finset.le_sup (f := fun m : Name →₀ ℕ => m x) (mem_support_iff.2 hco)
    simpa using this
  · apply Finset.sup_le
    intro m hm
    exact hdle m (mem_support_iff.1 hm)

/-! ### 4. no stored zero terms -/

/-- (4) stored quotient / remainder terms are never zero (any shapes, any number of indeterminates; no
well-formedness needed) -/
theorem divmodArr_no_zero_terms (fuel : Nat) (a b : Arr K) (s : List Nat)
    (names : List Name) (elems : List (Option (List (Expo × K) × List (Expo × K))))
    (h : divmodArr fuel a b = .ok (s, names, elems)) :
    ∀ (i : Nat) (q r : List (Expo × K)), elems[i]? = some (some (q, r)) →
      (∀ t ∈ q, t.2 ≠ 0) ∧ ∀ t ∈ r, t.2 ≠ 0 := by
  obtain ⟨_, pa, pb, _, _, rfl, rfl⟩ := divmodArr_ok fuel a b s names elems h
  intro i q r hqr
  have hlt : i < size s := by
    have := (List.getElem?_eq_some_iff.1 hqr).1
    rwa [divmodPoly_length] at this
  have := divmodPoly_getElem? fuel pa pb ⟨i, hlt⟩
  rw [this] at hqr
  exact Div.divmod_nz fuel _ _ q r (by simpa using hqr)

/-- (4′) hence a stored remainder that denotes 0 is the empty list (well-formed operands) -/
theorem divmodArr_remainder_nil_iff (fuel : Nat) (a b : Arr K) (ha : a.WF) (hb : b.WF) (s : List Nat)
    (names : List Name) (elems : List (Option (List (Expo × K) × List (Expo × K))))
    (h : divmodArr fuel a b = .ok (s, names, elems)) (i : Fin (size s)) (q r : List (Expo × K))
    (hqr : elems[i.val]? = some (some (q, r))) : denT names r = 0 ↔ r = [] := by
  constructor
  · intro h0
    obtain ⟨hn, σa, σb, _, _, hel⟩ := divmodArr_run fuel a b ha hb s names elems h
    obtain ⟨f, d, hf, hd, _, _, hrun⟩ := hel i q r hqr
    have hir := (Div.divmod_inv names fuel f d q r hf.nodup hf.len hd.len hrun).2
    have hnr := (Div.divmod_nz fuel f d q r hrun).2
    cases r with
    | nil => rfl
    | cons t ts =>
      have := Div.coeff_denT_mem names hn (t :: ts) hir.len hir.nodup t (by simp)
      rw [h0, coeff_zero] at this
      exact absurd this.symm (hnr t (by simp))
  · rintro rfl
    simp
end Np

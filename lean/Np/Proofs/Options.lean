import Np.Model.Options
namespace Np.Opt

def keys (o : Opts) : List Key := o.map (·.1)

theorem keys_set1 (o : Opts) (k : Key) (v : Val) : keys (set1 o k v) = keys o := by
  simp only [keys, set1, List.map_map]
  apply List.map_congr_left
  intro kv _
  by_cases h : kv.1 = k <;> simp [h]

theorem keys_update (o : Opts) (kw : List (Key × Val)) : keys (update o kw) = keys o := by
  induction kw generalizing o with
  | nil => rfl
  | cons kv kw ih =>
    simp only [update, List.foldl_cons] at ih ⊢
    rw [ih, keys_set1]

theorem keys_setOptions (o : Opts) (kw) : keys (setOptions o kw).1 = keys o := by
  unfold setOptions; split <;> simp [keys_update]

mutual
/-- every program preserves the key set -/
theorem keys_exec : ∀ (p : List Stmt) (o : Opts) (log : List Opts), keys (exec p o log).1 = keys o
  | [], o, log => by simp [exec]
  | s :: rest, o, log => by
    have h1 := keys_exec1 s o log
    simp only [exec]
    split
    · rename_i o' log' heq
      rw [keys_exec rest o' log']
      rw [heq] at h1; exact h1
    · exact h1
theorem keys_exec1 : ∀ (s : Stmt) (o : Opts) (log : List Opts), keys (exec1 s o log).1 = keys o
  | .set kw, o, log => by simp [exec1, keys_setOptions]
  | .raise e, o, log => by simp [exec1]
  | .mutateCopy _ _, o, log => by simp [exec1]
  | .observe, o, log => by simp [exec1]
  | .tryCatch body, o, log => by simp [exec1, keys_exec body o log]
  | .withBlock kw body, o, log => by
    simp only [exec1]
    split
    · rfl
    · rename_i o1 heq
      have h0 : keys o1 = keys o := by
        have := keys_setOptions o kw; rw [heq] at this; exact this
      simp only [keys_setOptions, keys_exec body o1 log, h0]
end

theorem set1_of_not_mem (o : Opts) (k : Key) (v : Val) (h : k ∉ keys o) : set1 o k v = o := by
  have : o.map (fun kv => if kv.1 == k then (kv.1, v) else kv) = o.map id := by
    apply List.map_congr_left
    intro kv hkv
    have : kv.1 ≠ k := fun heq => h (heq ▸ List.mem_map_of_mem (f := (·.1)) hkv)
    simp [this]
  simpa [set1] using this

theorem update_cons_of_not_mem (k : Key) (v : Val) (cur kw : Opts) (h : k ∉ keys kw) :
    update ((k, v) :: cur) kw = (k, v) :: update cur kw := by
  induction kw generalizing cur with
  | nil => rfl
  | cons x kw ih =>
    simp only [keys, List.map_cons, List.mem_cons, not_or] at h
    have hne : ¬ k = x.1 := h.1
    simp only [update, List.foldl_cons, set1, List.map_cons, hne, beq_iff_eq, if_false] at ih ⊢
    exact ih _ h.2

/-- writing back a full snapshot over a dict with the same (duplicate-free) keys gives the snapshot -/
theorem update_snapshot (snap cur : Opts) (hnd : (keys snap).Nodup) (hk : keys cur = keys snap) :
    update cur snap = snap := by
  induction snap generalizing cur with
  | nil => cases cur with
    | nil => rfl
    | cons c cs => simp [keys] at hk
  | cons x snap ih =>
    obtain ⟨k, s⟩ := x
    cases cur with
    | nil => simp [keys] at hk
    | cons c cur =>
      obtain ⟨k', c'⟩ := c
      simp only [keys, List.map_cons, List.cons.injEq] at hk
      obtain ⟨rfl, hk'⟩ := hk
      simp only [keys, List.map_cons, List.nodup_cons] at hnd
      have hnot : k' ∉ keys cur := by rw [show keys cur = keys snap from hk']; exact hnd.1
      have h1 : set1 ((k', c') :: cur) k' s = (k', s) :: cur := by
        simp only [set1, List.map_cons, beq_self_eq_true, if_true]
        congr 1
        exact set1_of_not_mem cur k' s hnot
      show update (set1 ((k', c') :: cur) k' s) snap = _
      rw [h1, update_cons_of_not_mem k' s cur snap hnd.1, ih cur hnd.2 hk']

/-- a program is run from a state whose keys are duplicate-free (the shipped defaults) -/
def Good (o : Opts) : Prop := (keys o).Nodup

/-- C14: whatever the body does — nested blocks, `set_options`, exceptions, caught or not — the state
after a `with global_options(...)` block is the state before it -/
theorem with_restores (kw : List (Key × Val)) (body : List Stmt) (o : Opts) (log : List Opts) (hg : Good o) :
    (exec1 (.withBlock kw body) o log).1 = o := by
  simp only [exec1]
  split
  · rfl
  · rename_i o1 heq
    have h0 : keys o1 = keys o := by
      have := keys_setOptions o kw; rw [heq] at this; exact this
    have hk : keys (exec body o1 log).1 = keys o := by rw [keys_exec, h0]
    have hall : o.all (fun kv => has (exec body o1 log).1 kv.1) = true := by
      rw [List.all_eq_true]
      intro kv hkv
      have : kv.1 ∈ keys (exec body o1 log).1 := by rw [hk]; exact List.mem_map_of_mem hkv
      simp only [keys, List.mem_map] at this
      obtain ⟨x, hx, hx'⟩ := this
      exact List.any_eq_true.2 ⟨x, hx, by simp [hx']⟩
    simp only [setOptions, hall, if_true]
    exact update_snapshot o _ hg hk

/-- C14: an unknown key anywhere in the keywords leaves every option unchanged and raises -/
theorem set_unknown_atomic (o : Opts) (kw : List (Key × Val)) (h : ∃ kv ∈ kw, has o kv.1 = false) :
    setOptions o kw = (o, .raised "KeyError") := by
  obtain ⟨kv, hkv, hf⟩ := h
  have : kw.all (fun kv => has o kv.1) = false := by
    rw [List.all_eq_false]; exact ⟨kv, hkv, by simp [hf]⟩
  simp [setOptions, this]

theorem with_unknown (o : Opts) (kw) (body) (log) (h : ∃ kv ∈ kw, has o kv.1 = false) :
    exec1 (.withBlock kw body) o log = (o, .raised "KeyError", log) := by
  simp [exec1, set_unknown_atomic o kw h]

/-- non-vacuity: nested blocks, an inner `set_options`, an exception that escapes two levels -/
example :
    let defaults : Opts := [("retain_names", "True"), ("sort_graded", "True"), ("display_graded", "True")]
    exec [.tryCatch [.withBlock [("retain_names", "False")]
            [.set [("sort_graded", "False")],
             .withBlock [("display_graded", "False")] [.raise "RuntimeError"]]]] defaults []
      = (defaults, .normal, []) := by decide

end Np.Opt

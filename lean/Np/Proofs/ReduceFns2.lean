import Np.Model.ReduceFns2
import Np.Proofs.ReduceFns
import Np.Proofs.ShapeFns
import Mathlib.Data.List.GetD
/-! C10, second part: `diff` with `prepend` / `append`, `ediff1d` with `to_begin` / `to_end`, `mean` / `prod` over an
axis tuple: the tables of `Np.ReduceFns2` are what numpy's index arithmetic prescribes. -/
namespace Np.ReduceFns2
open Np.Shape Np.ReduceFns

theorem getD_map_range {α : Type} (f : Nat → α) (d : α) {n j : Nat} (h : j < n) :
    ((List.range n).map f).getD j d = f j := by
  simp [List.getD_eq_getElem?_getD, List.getElem?_map, List.getElem?_range h]

theorem getD_map_nil {α β : Type} (f : List α → List β) (hf : f [] = []) (T : List (List α)) (j : Nat) :
    (T.map f).getD j [] = f (T.getD j []) := by
  simp only [List.getD_eq_getElem?_getD, List.getElem?_map]
  cases T[j]? <;> simp [hf]

/-! ### 1. `ediff1dPadW` -/
section ediff
variable (shape : List Nat) (nB nE : Nat)

/-- (a) one row per output position -/
theorem ediff1dPadW_length : (ediff1dPadW shape nB nE).length = size (ediff1dPadShape shape nB nE) := by
  simp [ediff1dPadW, ediff1dPadShape]
  omega

/-- (b) every entry names an operand and a position inside it; weights `1` (`±1` for the differences) -/
theorem ediff1dPadW_range : ∀ row ∈ ediff1dPadW shape nB nE, ∀ e ∈ row,
    (e.1 = 0 ∧ e.2.1 < nB ∧ e.2.2 = 1) ∨ (e.1 = 1 ∧ e.2.1 < size shape ∧ (e.2.2 = 1 ∨ e.2.2 = -1)) ∨
    (e.1 = 2 ∧ e.2.1 < nE ∧ e.2.2 = 1) := by
  intro row hrow e he
  simp only [ediff1dPadW, List.mem_append, List.mem_map, List.mem_range] at hrow
  rcases hrow with (⟨k, hk, rfl⟩ | ⟨j, hj, rfl⟩) | ⟨k, hk, rfl⟩
  · simp only [List.mem_singleton] at he
    subst he
    exact .inl ⟨rfl, hk, rfl⟩
  · simp only [List.mem_cons, List.not_mem_nil, or_false] at he
    rcases he with rfl | rfl
    · exact .inr (.inl ⟨rfl, by simp only; omega, .inl rfl⟩)
    · exact .inr (.inl ⟨rfl, by simp only; omega, .inr rfl⟩)
  · simp only [List.mem_singleton] at he
    subst he
    exact .inr (.inr ⟨rfl, hk, rfl⟩)

/-- (c1) the first `nBegin` outputs copy `to_begin` -/
theorem ediff1dPadW_begin {k : Nat} (hk : k < nB) : (ediff1dPadW shape nB nE).getD k [] = [(0, k, 1)] := by
  rw [ediff1dPadW, List.append_assoc, List.getD_append _ _ _ _ (by simpa using hk), getD_map_range _ _ hk]

/-- (c2) the middle outputs are the differences of consecutive flat elements: the rows of `ediff1dW` on operand 1 -/
theorem ediff1dPadW_mid {j : Nat} (hj : j < size shape - 1) :
    (ediff1dPadW shape nB nE).getD (nB + j) [] = [(1, j + 1, 1), (1, j, -1)] ∧
    ∃ T, ediff1dW shape = some ([size shape - 1], T) ∧
      (ediff1dPadW shape nB nE).getD (nB + j) [] = (T.getD j []).map fun iw => (1, iw.1, iw.2) := by
  have h1 : (ediff1dPadW shape nB nE).getD (nB + j) [] = [(1, j + 1, 1), (1, j, -1)] := by
    rw [ediff1dPadW, List.append_assoc, List.getD_append_right _ _ _ _ (by simp),
      List.getD_append _ _ _ _ (by simpa using hj)]
    simp only [List.length_map, List.length_range, Nat.add_sub_cancel_left]
    rw [getD_map_range _ _ hj]
  refine ⟨h1, _, rfl, ?_⟩
  rw [h1, getD_map_range _ _ hj]
  rfl

/-- (c3) the last `nEnd` outputs copy `to_end` -/
theorem ediff1dPadW_end {k : Nat} (hk : k < nE) :
    (ediff1dPadW shape nB nE).getD (nB + (size shape - 1) + k) [] = [(2, k, 1)] := by
  rw [ediff1dPadW, List.getD_append_right _ _ _ _ (by simp)]
  simp only [List.length_append, List.length_map, List.length_range, Nat.add_sub_cancel_left]
  rw [getD_map_range _ _ hk]

/-- without `to_begin` / `to_end` it is `ediff1dW` on operand 1 -/
theorem ediff1dPadW_zero : ∃ T, ediff1dW shape = some (ediff1dPadShape shape 0 0, T) ∧
    ediff1dPadW shape 0 0 = T.map fun row => row.map fun iw => (1, iw.1, iw.2) := by
  refine ⟨(List.range (size shape - 1)).map fun j => [(j + 1, 1), (j, -1)], by simp [ediff1dW, ediff1dPadShape], ?_⟩
  simp [ediff1dPadW, List.map_map, Function.comp_def]
end ediff

/-! ### 2. `mergeRow` commutes with an injective renaming of the positions -/

theorem addEntry_map (f : Nat → Nat) (N : Nat) (hf : ∀ s t, s < N → t < N → f s = f t → s = t) (p : Nat) (w : Int)
    (hp : p < N) : ∀ r : Row, (∀ tw ∈ r, tw.1 < N) →
      addEntry (f p) w (r.map fun tw => (f tw.1, tw.2)) = (addEntry p w r).map fun tw => (f tw.1, tw.2)
  | [], _ => rfl
  | qv :: rest, h => by
    have ih := addEntry_map f N hf p w hp rest fun tw htw => h tw (by simp [htw])
    simp only [List.map_cons, addEntry]
    by_cases hq : qv.1 = p
    · simp [hq]
    · have hne : f qv.1 ≠ f p := fun he => hq (hf _ _ (h qv (by simp)) hp he)
      simp [hq, hne, ih]

theorem addEntry_lt {N p : Nat} {w : Int} (hp : p < N) {r : Row} (h : ∀ tw ∈ r, tw.1 < N) :
    ∀ tw ∈ addEntry p w r, tw.1 < N := by
  intro tw htw
  rcases addEntry_fst p w r tw.1 (List.mem_map.2 ⟨tw, htw, rfl⟩) with h1 | h1
  · omega
  · obtain ⟨tw', h2, h3⟩ := List.mem_map.1 h1
    exact h3 ▸ h tw' h2

theorem mergeRow_map (f : Nat → Nat) (N : Nat) (hf : ∀ s t, s < N → t < N → f s = f t → s = t) (r : Row)
    (h : ∀ tw ∈ r, tw.1 < N) :
    mergeRow (r.map fun tw => (f tw.1, tw.2)) = (mergeRow r).map fun tw => (f tw.1, tw.2) := by
  have key : ∀ (r acc : Row), (∀ tw ∈ r, tw.1 < N) → (∀ tw ∈ acc, tw.1 < N) →
      (r.map fun tw => (f tw.1, tw.2)).foldl (fun acc pw => addEntry pw.1 pw.2 acc) (acc.map fun tw => (f tw.1, tw.2)) =
        (r.foldl (fun acc pw => addEntry pw.1 pw.2 acc) acc).map fun tw => (f tw.1, tw.2) := by
    intro r
    induction r with
    | nil => intro acc _ _; rfl
    | cons pw rest ih =>
      intro acc hr hacc
      have hp := hr pw (by simp)
      rw [List.map_cons, List.foldl_cons, List.foldl_cons, addEntry_map f N hf _ _ hp acc hacc]
      exact ih _ (fun tw htw => hr tw (by simp [htw])) (addEntry_lt hp hacc)
  exact key r [] h (by simp)

theorem mergeRow_lt {N : Nat} {r : Row} (h : ∀ tw ∈ r, tw.1 < N) : ∀ tw ∈ mergeRow r, tw.1 < N := by
  intro tw htw
  obtain ⟨tw', h2, h3⟩ := List.mem_map.1 (mergeRow_fst r tw.1 (List.mem_map.2 ⟨tw, htw, rfl⟩))
  exact h3 ▸ h tw' h2

/-! ### 3. concatenation along the axis of split shapes -/
section cat
variable (a b : List Nat)

theorem getD_mid (x y : List Nat) (t : Nat) {n : Nat} (h : x.length = n) : (x ++ t :: y).getD n 0 = t := by
  subst h
  simp [List.getD_eq_getElem?_getD]

theorem set_mid (x y : List Nat) (t r : Nat) {n : Nat} (h : x.length = n) : (x ++ t :: y).set n r = x ++ r :: y := by
  subst h
  simp

theorem concatOK_split (d0 d : Nat) : ShapeFns.concatOK (a ++ d0 :: b) a.length (a ++ d :: b) = true := by
  simp only [ShapeFns.concatOK, Bool.and_eq_true, beq_iff_eq, List.all_eq_true, List.mem_range, Bool.or_eq_true]
  refine ⟨by simp, fun k _ => ?_⟩
  by_cases h : k = a.length
  · exact .inl h
  · right
    simp only [List.getD_eq_getElem?_getD]
    rcases Nat.lt_or_gt_of_ne h with h | h
    · rw [List.getElem?_append_left h, List.getElem?_append_left h]
    · obtain ⟨c, hc⟩ : ∃ c, k - a.length = c + 1 := ⟨k - a.length - 1, by omega⟩
      rw [List.getElem?_append_right (by omega), List.getElem?_append_right (by omega), hc]
      rfl

/-- the index list `concatF` computes for operands `a ++ d :: b`, `d ∈ dims`, joined along `axis = a.length` -/
def catIdx (dims : List Nat) : List (Nat × Nat) :=
  (List.range (size (a ++ dims.sum :: b))).map fun i =>
    ((ShapeFns.locate dims ((unravel (a ++ dims.sum :: b) i).getD a.length 0)).1,
      ravel ((dims.map fun d => a ++ d :: b).getD
          (ShapeFns.locate dims ((unravel (a ++ dims.sum :: b) i).getD a.length 0)).1 [])
        ((unravel (a ++ dims.sum :: b) i).set a.length
          (ShapeFns.locate dims ((unravel (a ++ dims.sum :: b) i).getD a.length 0)).2))

theorem concatF_split (dims : List Nat) (h : dims ≠ []) :
    ShapeFns.concatF (dims.map fun d => a ++ d :: b) a.length = some (a ++ dims.sum :: b, catIdx a b dims) := by
  cases dims with
  | nil => exact absurd rfl h
  | cons d0 ds =>
    have hdims : ((d0 :: ds).map fun d => a ++ d :: b).map (fun s => s.getD a.length 0) = d0 :: ds := by
      rw [List.map_map]
      conv_rhs => rw [← List.map_id (d0 :: ds)]
      apply List.map_congr_left
      intro d _
      simp
    have hc : (decide (a.length < (a ++ d0 :: b).length) &&
        ((d0 :: ds).map fun d => a ++ d :: b).all (ShapeFns.concatOK (a ++ d0 :: b) a.length)) = true := by
      simp [concatOK_split]
    have hset : (a ++ d0 :: b).set a.length (d0 :: ds).sum = a ++ (d0 :: ds).sum :: b := set_mid _ _ _ _ rfl
    show ShapeFns.concatF ((a ++ d0 :: b) :: ds.map fun d => a ++ d :: b) a.length = _
    unfold ShapeFns.concatF
    simp only []
    rw [← List.map_cons (f := fun d => a ++ d :: b), if_pos hc, hdims, hset]
    rfl

/-- coordinate `t` of the concatenation lies in the operand `locate dims t` finds, at the position it finds -/
theorem catIdx_getD (dims : List Nat) {x y : List Nat} {t : Nat} (hx : InR x a) (hy : InR y b) (ht : t < dims.sum) :
    (catIdx a b dims).getD (ravel (a ++ dims.sum :: b) (x ++ t :: y)) (0, 0) =
      ((ShapeFns.locate dims t).1,
        ravel (a ++ dims.getD (ShapeFns.locate dims t).1 0 :: b) (x ++ (ShapeFns.locate dims t).2 :: y)) := by
  have hin := InR.mid hx ht hy
  obtain ⟨h1, -, -⟩ := ShapeFns.locate_spec dims t ht
  rw [catIdx, getD_map_range _ _ hin.ravel_lt, unravel_ravel hin, getD_mid _ _ _ hx.length_eq,
    set_mid _ _ _ _ hx.length_eq]
  congr 2
  simp [List.getD_eq_getElem?_getD, List.getElem?_map, List.getElem?_eq_getElem h1]
end cat

/-! ### 4. `diffPadW` -/
section diffpad
variable (a b : List Nat) (m : Nat) (p q : Option Nat)

/-- the shape of `prepend` / `append` with extent `d` along the axis (`none` = absent) -/
def padShape (p : Option Nat) : Option (List Nat) := p.map fun d => a ++ d :: b
/-- the extents along the axis of the operands that are present -/
def extents : List Nat := (match p with | some d => [d] | none => []) ++ m :: (match q with | some d => [d] | none => [])
/-- the extent of the concatenation `[P, a, A]` along the axis -/
def catLen : Nat := (extents m p q).sum

theorem catLen_eq : catLen m p q = p.getD 0 + m + q.getD 0 := by
  cases p <;> cases q <;> (simp [catLen, extents]; try omega)

theorem extents_ne_nil : extents m p q ≠ [] := by
  cases p <;> cases q <;> simp [extents]

theorem operands_split : (operands (a ++ m :: b) (padShape a b p) (padShape a b q)).map Prod.snd =
    (extents m p q).map fun d => a ++ d :: b := by
  cases p <;> cases q <;> rfl

/-- the element at coordinate `t` of the concatenation `[P, a, A]` along the axis, at the coordinates `x` before and
`y` after it: `(operand number, flat position in that operand)` -/
def catAt (x y : List Nat) (t : Nat) : Nat × Nat :=
  if t < p.getD 0 then (0, ravel (a ++ p.getD 0 :: b) (x ++ t :: y))
  else if t < p.getD 0 + m then (1, ravel (a ++ m :: b) (x ++ (t - p.getD 0) :: y))
  else (2, ravel (a ++ q.getD 0 :: b) (x ++ (t - p.getD 0 - m) :: y))

/-- an entry names an operand and a position inside it (an absent operand counts as empty) -/
def InOp (e : Nat × Nat) : Prop :=
  (e.1 = 0 ∧ e.2 < size (a ++ p.getD 0 :: b)) ∨ (e.1 = 1 ∧ e.2 < size (a ++ m :: b)) ∨
  (e.1 = 2 ∧ e.2 < size (a ++ q.getD 0 :: b))

theorem catAt_InOp {x y : List Nat} {t : Nat} (hx : InR x a) (hy : InR y b) (ht : t < catLen m p q) :
    InOp a b m p q (catAt a b m p q x y t) := by
  rw [catLen_eq] at ht
  unfold catAt
  split
  · exact .inl ⟨rfl, (InR.mid hx ‹_› hy).ravel_lt⟩
  · split
    · exact .inr (.inl ⟨rfl, (InR.mid hx (by omega) hy).ravel_lt⟩)
    · exact .inr (.inr ⟨rfl, (InR.mid hx (by omega) hy).ravel_lt⟩)

/-- reading the index list of `concatF` at coordinate `t` of the concatenation and translating the operand number
gives `catAt` -/
theorem pull_entry {x y : List Nat} {t : Nat} (hx : InR x a) (hy : InR y b) (ht : t < catLen m p q) (w : Int) :
    pullRow (operands (a ++ m :: b) (padShape a b p) (padShape a b q)) (catIdx a b (extents m p q))
        [(ravel (a ++ catLen m p q :: b) (x ++ t :: y), w)] =
      [((catAt a b m p q x y t).1, (catAt a b m p q x y t).2, w)] := by
  have h := catIdx_getD a b (extents m p q) hx hy ht
  rw [catLen_eq] at ht
  simp only [pullRow, List.map_cons, List.map_nil, catLen, h]
  cases p <;> cases q <;> simp only [extents, operands, padShape, catAt, Option.getD_none, Option.getD_some,
    Option.map_none, Option.map_some, List.nil_append, List.cons_append, ShapeFns.locate] at ht ⊢ <;>
    (repeat' split) <;> simp at * <;> omega

/-- `catAt` is the concatenation of `ShapeFns.concatF` (cf. `ShapeFns.concatF_spec`): the index list `concatF`
computes for the operands present reads, at coordinate `t` along the axis, the operand and position `catAt` names -/
theorem catAt_concatF : ∃ idx, ShapeFns.concatF ((operands (a ++ m :: b) (padShape a b p) (padShape a b q)).map Prod.snd)
      a.length = some (a ++ catLen m p q :: b, idx) ∧
    ∀ x y t, InR x a → InR y b → t < catLen m p q →
      ((operands (a ++ m :: b) (padShape a b p) (padShape a b q)).getD
          (idx.getD (ravel (a ++ catLen m p q :: b) (x ++ t :: y)) (0, 0)).1 (1, [])).1 = (catAt a b m p q x y t).1 ∧
      (idx.getD (ravel (a ++ catLen m p q :: b) (x ++ t :: y)) (0, 0)).2 = (catAt a b m p q x y t).2 := by
  refine ⟨catIdx a b (extents m p q), ?_, fun x y t hx hy ht => ?_⟩
  · rw [operands_split, concatF_split a b _ (extents_ne_nil m p q)]
    rfl
  · simpa [pullRow] using pull_entry a b m p q hx hy ht 1

theorem pullRow_map {x y : List Nat} (hx : InR x a) (hy : InR y b) (r : Row) (hr : ∀ tw ∈ r, tw.1 < catLen m p q) :
    pullRow (operands (a ++ m :: b) (padShape a b p) (padShape a b q)) (catIdx a b (extents m p q))
        (r.map fun tw => (ravel (a ++ catLen m p q :: b) (x ++ tw.1 :: y), tw.2)) =
      r.map fun tw => ((catAt a b m p q x y tw.1).1, (catAt a b m p q x y tw.1).2, tw.2) := by
  induction r with
  | nil => rfl
  | cons tw rest ih =>
    have h1 := pull_entry a b m p q hx hy (hr tw (by simp)) tw.2
    have h2 := ih fun tw' h => hr tw' (by simp [h])
    simp only [pullRow, List.map_cons, List.map_nil, List.cons.injEq, and_true] at h1 h2 ⊢
    exact ⟨h1, h2⟩

theorem ravel_mid_inj {n : Nat} {x y : List Nat} (hx : InR x a) (hy : InR y b) : ∀ s t, s < n → t < n →
    ravel (a ++ n :: b) (x ++ s :: y) = ravel (a ++ n :: b) (x ++ t :: y) → s = t := by
  intro s t hs ht h
  by_contra hne
  exact ravel_mid_ne a b n hx hy hs ht hne h

/-- **`numpy.diff(a, n=k, axis, prepend=P, append=A)`**, `k > 0`, on `a ++ m :: b` along `axis = a.length`, with
`P` / `A` of extents `p` / `q` along the axis: the axis gets the extent `p + m + q - k`; (a) one row per output
position; (b) every entry names an operand and a position inside it; (c) the row of `x ++ u :: y` is the merged `k`-fold
difference kernel at `u` read on the concatenation `cat = [P, a, A]`: entry `(t, w)` reads `cat[x, t, y]` with weight `w` -/
theorem diffPadW_spec (k : Nat) (hk : 0 < k) :
    ∃ T, diffPadW (a ++ m :: b) k a.length (padShape a b p) (padShape a b q) =
        some (a ++ (catLen m p q - k) :: b, T) ∧
      T.length = size (a ++ (catLen m p q - k) :: b) ∧
      (∀ row ∈ T, ∀ e ∈ row, InOp a b m p q (e.1, e.2.1)) ∧
      ∀ x y u, InR x a → InR y b → u + k < catLen m p q →
        T.getD (ravel (a ++ (catLen m p q - k) :: b) (x ++ u :: y)) [] =
          (mergeRow (iterK k u)).map fun tw => ((catAt a b m p q x y tw.1).1, (catAt a b m p q x y tw.1).2, tw.2) := by
  obtain ⟨T, hT, hlen, -, hrow⟩ := diffNW_spec a b (catLen m p q) k
  have hrow' : ∀ x y u, InR x a → InR y b → u + k < catLen m p q →
      (T.map (pullRow (operands (a ++ m :: b) (padShape a b p) (padShape a b q))
          (catIdx a b (extents m p q)))).getD (ravel (a ++ (catLen m p q - k) :: b) (x ++ u :: y)) [] =
        (mergeRow (iterK k u)).map fun tw =>
          ((catAt a b m p q x y tw.1).1, (catAt a b m p q x y tw.1).2, tw.2) := by
    intro x y u hx hy hu
    have hlt : ∀ tw ∈ iterK k u, tw.1 < catLen m p q := fun tw h => by have := iterK_le k u tw h; omega
    rw [getD_map_nil _ rfl, hrow x y u hx hy hu,
      mergeRow_map (fun t => ravel (a ++ catLen m p q :: b) (x ++ t :: y)) _ (ravel_mid_inj a b hx hy) _ hlt,
      pullRow_map a b m p q hx hy _ (mergeRow_lt hlt)]
  refine ⟨_, ?_, by simpa using hlen, ?_, hrow'⟩
  · rw [diffPadW, if_neg (by omega), operands_split, concatF_split a b _ (extents_ne_nil m p q)]
    rw [show (extents m p q).sum = catLen m p q from rfl]
    simp only [hT, Option.map_some]
  · intro row hrow e he
    obtain ⟨j, hj, rfl⟩ := List.getElem_of_mem hrow
    rw [List.length_map, hlen, size_split] at hj
    obtain ⟨x, u, y, hx, hu, hy, rfl⟩ := exists_split hj
    rw [List.getElem_eq_getD [], hrow' x y u hx hy (by omega)] at he
    obtain ⟨tw, htw, rfl⟩ := List.mem_map.1 he
    have hlt : ∀ tw ∈ iterK k u, tw.1 < catLen m p q := fun tw h => by have := iterK_le k u tw h; omega
    exact catAt_InOp a b m p q hx hy (mergeRow_lt hlt tw htw)

theorem iterK_one (u : Nat) : mergeRow (iterK 1 u) = [(u + 1, 1), (u, -1)] := by
  simp [iterK, composeK, diffK, mergeRow, addEntry]

/-- **`numpy.diff(a, axis, prepend=P, append=A)`** (`n = 1`): `out[x, u, y] = cat[x, u+1, y] - cat[x, u, y]` -/
theorem diffPadW_one :
    ∃ T, diffPadW (a ++ m :: b) 1 a.length (padShape a b p) (padShape a b q) =
        some (a ++ (catLen m p q - 1) :: b, T) ∧
      T.length = size (a ++ (catLen m p q - 1) :: b) ∧
      ∀ x y u, InR x a → InR y b → u + 1 < catLen m p q →
        T.getD (ravel (a ++ (catLen m p q - 1) :: b) (x ++ u :: y)) [] =
          [((catAt a b m p q x y (u + 1)).1, (catAt a b m p q x y (u + 1)).2, 1),
            ((catAt a b m p q x y u).1, (catAt a b m p q x y u).2, -1)] := by
  obtain ⟨T, hT, hlen, -, hrow⟩ := diffPadW_spec a b m p q 1 Nat.one_pos
  refine ⟨T, hT, hlen, fun x y u hx hy hu => ?_⟩
  rw [hrow x y u hx hy hu, iterK_one]
  rfl

theorem pull_id {i : Nat} (hi : i < size (a ++ m :: b)) (w : Int) :
    pullRow (operands (a ++ m :: b) none none) (catIdx a b [m]) [(i, w)] = [(1, i, w)] := by
  rw [size_split] at hi
  obtain ⟨x, t, y, hx, ht, hy, rfl⟩ := exists_split hi
  have h := pull_entry a b m none none hx hy (t := t) (by simpa [catLen, extents] using ht) w
  have hc : catAt a b m none none x y t = (1, ravel (a ++ m :: b) (x ++ t :: y)) := by simp [catAt, ht]
  rw [hc] at h
  exact h
end diffpad

/-- `n = 0`: numpy returns `a` itself, whatever `axis`, `prepend`, `append` -/
theorem diffPadW_zero (shape : List Nat) (axis : Nat) (pre post : Option (List Nat)) :
    diffPadW shape 0 axis pre post = some (shape, (List.range (size shape)).map fun i => [(1, i, 1)]) := rfl

/-- `n > 0` with the axis out of range: numpy raises -/
theorem diffPadW_axis_none (shape : List Nat) (axis : Nat) (pre post : Option (List Nat)) (h : shape.length ≤ axis)
    (k : Nat) : diffPadW shape (k + 1) axis pre post = none := by
  rw [diffPadW, if_neg (by omega)]
  cases hc : ShapeFns.concatF ((operands shape pre post).map Prod.snd) axis with
  | none => rfl
  | some r =>
    obtain ⟨s0, -, ha, -, hall⟩ := ShapeFns.concatF_shape (out := r.1) (idx := r.2) hc
    have hm : shape ∈ (operands shape pre post).map Prod.snd := by
      cases pre <;> cases post <;> simp [operands]
    have := (hall shape hm).1
    omega

/-- **without `prepend` and `append`** it is `diffNW` on operand 1: the same output shape, the same rows -/
theorem diffPadW_none_none (shape : List Nat) (n axis : Nat) : diffPadW shape n axis none none =
    (diffNW shape n axis).map fun r => (r.1, r.2.map fun row => row.map fun iw => (1, iw.1, iw.2)) := by
  cases n with
  | zero =>
    rw [diffPadW_zero, diffNW_zero]
    simp [idW, List.map_map, Function.comp_def, mergeRow, addEntry]
  | succ k =>
    by_cases h : axis < shape.length
    · obtain ⟨hs, hl⟩ := shape_split h
      generalize shape[axis] = m at hs
      generalize shape.take axis = a at hs hl
      generalize shape.drop (axis + 1) = b at hs
      subst hs hl
      obtain ⟨T, hT, -, hin, -⟩ := diffNW_spec a b m (k + 1)
      have h0 : (operands (a ++ m :: b) none none).map Prod.snd = [m].map fun d => a ++ d :: b := rfl
      have h1 := concatF_split a b [m] (by simp)
      rw [List.sum_singleton] at h1
      rw [diffPadW, if_neg (by omega), h0, h1]
      simp only [hT, Option.map_some, Option.some.injEq, Prod.mk.injEq, true_and]
      apply List.map_congr_left
      intro row hrow
      rw [pullRow]
      apply List.map_congr_left
      intro kw hkw
      have := pull_id a b m (hin row hrow kw hkw) kw.2
      simpa [pullRow] using this
    · rw [diffPadW_axis_none shape axis none none (by omega), diffNW_none shape axis (by omega)]
      rfl

/-! ### 5. `prodAxesG`, `meanAxesW`: the groups of `sumAxesW` have `Π shape[ax]` members -/
section axes
variable (axes : List Nat)

/-- projecting the reduced axes away gives a multi-index of the output -/
theorem projIdx_InR {idx s : List Nat} (h : InR idx s) : ∀ k, InR (maskAxes axes 0 idx k) (maskAxes axes 1 s k) := by
  induction h with
  | nil => intro k; exact .nil
  | cons hxd _ ih =>
    intro k
    refine .cons ?_ (ih (k + 1))
    split <;> omega

/-- the product of the dimensions listed in `axes` (`k` = position of the head) -/
def redSize : List Nat → Nat → Nat
  | [], _ => 1
  | d :: ds, k => (if axes.contains k then d else 1) * redSize ds (k + 1)

theorem filter_prod_length (d S : Nat) (p q : Nat → Bool) :
    ((List.range (d * S)).filter fun i => p (i / S) && q (i % S)).length =
      ((List.range d).filter p).length * ((List.range S).filter q).length := by
  rcases Nat.eq_zero_or_pos S with rfl | hS
  · simp
  induction d with
  | zero => simp
  | succ d ih =>
    have h2 : (List.filter ((fun i => p (i / S) && q (i % S)) ∘ fun x => d * S + x) (List.range S)) =
        List.filter (fun r => p d && q r) (List.range S) := by
      apply List.filter_congr
      intro r hr
      have hr := List.mem_range.1 hr
      simp only [Function.comp]
      rw [Nat.mul_comm d S, Nat.mul_add_div hS, Nat.div_eq_of_lt hr, Nat.mul_add_mod, Nat.mod_eq_of_lt hr, Nat.add_zero]
    rw [Nat.succ_mul, List.range_add, List.filter_append, List.length_append, ih, List.range_succ, List.filter_append,
      List.length_append, Nat.add_mul, List.filter_map, List.length_map, h2]
    cases hp : p d <;> simp [hp]

theorem filter_beq_range {d j : Nat} (h : j < d) : ((List.range d).filter fun t => t == j).length = 1 := by
  have := List.count_eq_one_of_mem List.nodup_range (List.mem_range.2 h)
  rwa [List.count_eq_countP, List.countP_eq_length_filter] at this

/-- every group has `redSize` members -/
theorem group_count : ∀ (s : List Nat) (k : Nat) (jdx : List Nat), InR jdx (maskAxes axes 1 s k) →
    ((List.range (size s)).filter fun i => maskAxes axes 0 (unravel s i) k == jdx).length = redSize axes s k
  | [], k, jdx, h => by
    cases h
    rfl
  | d :: ds, k, jdx, h => by
    rw [maskAxes] at h
    cases h with
    | @cons j0 _ js _ hj0 hjs =>
      have ih := group_count ds (k + 1) js hjs
      have hcongr : ((List.range (d * size ds)).filter fun i => maskAxes axes 0 (unravel (d :: ds) i) k == j0 :: js) =
          (List.range (d * size ds)).filter fun i => (fun t => (if axes.contains k then 0 else t) == j0) (i / size ds) &&
            (fun r => maskAxes axes 0 (unravel ds r) (k + 1) == js) (i % size ds) := by
        apply List.filter_congr
        intro i hi
        have hlt : i / size ds < d := Nat.div_lt_of_lt_mul (by rw [Nat.mul_comm]; exact List.mem_range.1 hi)
        simp only [unravel, maskAxes, List.cons_beq_cons, Nat.mod_eq_of_lt hlt]
      rw [size_cons, hcongr, filter_prod_length d (size ds) (fun t => (if axes.contains k then 0 else t) == j0)
        (fun r => maskAxes axes 0 (unravel ds r) (k + 1) == js), ih, redSize]
      congr 1
      by_cases hc : axes.contains k = true
      · rw [if_pos hc] at hj0 ⊢
        obtain rfl : j0 = 0 := by omega
        have hm : k ∈ axes := by simpa using hc
        simp [hm]
      · rw [if_neg hc] at hj0 ⊢
        have hm : k ∉ axes := by simpa using hc
        simpa [hm] using filter_beq_range hj0

theorem redSize_nil : ∀ (s : List Nat) (k : Nat), redSize [] s k = 1
  | [], _ => rfl
  | d :: ds, k => by simp [redSize, redSize_nil ds (k + 1)]

theorem redSize_lt (c : Nat) (l : List Nat) : ∀ (s : List Nat) (k : Nat), c < k → redSize (c :: l) s k = redSize l s k
  | [], _, _ => rfl
  | d :: ds, k, h => by
    have e : (c :: l).contains k = l.contains k := by
      have : k ≠ c := by omega
      simp [this]
    rw [redSize, redSize, e, redSize_lt c l ds (k + 1) (by omega)]

theorem redSize_cons (c : Nat) (l : List Nat) (hc : c ∉ l) : ∀ (s : List Nat) (k : Nat), k ≤ c → c < k + s.length →
    redSize (c :: l) s k = s.getD (c - k) 1 * redSize l s k
  | [], k, _, h2 => by simp at h2; omega
  | d :: ds, k, h1, h2 => by
    rw [redSize, redSize]
    by_cases hk : k = c
    · subst hk
      have e1 : (k :: l).contains k = true := by simp
      have e2 : l.contains k = false := by simpa using hc
      rw [e1, e2, redSize_lt k l ds (k + 1) (by omega)]
      simp
    · have e1 : (c :: l).contains k = l.contains k := by simp [hk]
      have e2 : c - k = (c - (k + 1)) + 1 := by omega
      rw [e1, redSize_cons c l hc ds (k + 1) (by omega) (by simp at h2; omega), e2, List.getD_cons_succ]
      exact Nat.mul_left_comm _ _ _

/-- for distinct axes in range `redSize` is `Π shape[ax]` in the order of the tuple -/
theorem redSize_eq (shape : List Nat) : ∀ (axes : List Nat), (∀ ax ∈ axes, ax < shape.length) → axes.Nodup →
    redSize axes shape 0 = axesCount shape axes
  | [], _, _ => redSize_nil shape 0
  | c :: l, h1, h2 => by
    rw [redSize_cons c l (List.nodup_cons.1 h2).1 shape 0 (Nat.zero_le _) (by simpa using h1 c (by simp)),
      redSize_eq shape l (fun ax h => h1 ax (by simp [h])) (List.nodup_cons.1 h2).2]
    rfl
end axes

/-- the table of `sumAxesW`, spelled out -/
theorem sumAxesW_eq (shape axes : List Nat) (k : Bool) (h1 : ∀ ax ∈ axes, ax < shape.length) (h2 : axes.Nodup) :
    sumAxesW shape axes k = some (if k then keepShape axes shape 0 else dropShape axes shape 0,
      (List.range (size (keepShape axes shape 0))).map fun j =>
        ((List.range (size shape)).filter fun i =>
          projIdx axes (unravel shape i) 0 == unravel (keepShape axes shape 0) j).map fun i => (i, 1)) := by
  have hc : (axes.all (· < shape.length) && nodupB axes) = true := by
    simp only [Bool.and_eq_true, List.all_eq_true, decide_eq_true_eq, nodupB_iff]
    exact ⟨h1, h2⟩
  simp only [sumAxesW, hc, if_true]

/-- **`numpy.sum(a, axis=tuple(axes), keepdims)`, complete**: `sumAxesW_spec`, and (d) an input multi-index
contributes to exactly one output multi-index, its projection (which lies in the output); (e) every row has
`Π shape[ax]` entries -/
theorem sumAxesW_spec' (shape axes : List Nat) (k : Bool) (h1 : ∀ ax ∈ axes, ax < shape.length) (h2 : axes.Nodup) :
    ∃ T, sumAxesW shape axes k = some (if k then keepShape axes shape 0 else dropShape axes shape 0, T) ∧
    T.length = size (keepShape axes shape 0) ∧ T.length = size (dropShape axes shape 0) ∧
    (∀ row ∈ T, (row.map Prod.fst).Pairwise (· < ·) ∧ ∀ iw ∈ row, iw.1 < size shape ∧ iw.2 = 1) ∧
    (∀ jdx, InR jdx (keepShape axes shape 0) → ∀ idx, InR idx shape →
      ((ravel shape idx, 1) ∈ T.getD (ravel (keepShape axes shape 0) jdx) [] ↔ projIdx axes idx 0 = jdx)) ∧
    (∀ idx, InR idx shape → InR (projIdx axes idx 0) (keepShape axes shape 0)) ∧
    ∀ jdx, InR jdx (keepShape axes shape 0) →
      (T.getD (ravel (keepShape axes shape 0) jdx) []).length = axesCount shape axes := by
  obtain ⟨T, hT, hl1, hl2, hmem, hrow⟩ := sumAxesW_spec shape axes k h1 h2
  refine ⟨T, hT, hl1, hl2, hmem, hrow, fun idx h => projIdx_InR axes h 0, ?_⟩
  intro jdx hj
  have he := sumAxesW_eq shape axes k h1 h2
  rw [hT, Option.some.injEq, Prod.mk.injEq] at he
  rw [he.2, getD_map_range _ _ hj.ravel_lt, List.length_map, unravel_ravel hj, group_count axes shape 0 jdx hj,
    redSize_eq shape axes h1 h2]

/-- **`numpy.mean(a, axis=tuple(axes), keepdims)`**: the table of the sum (see `sumAxesW_spec'`) and the
denominator `Π shape[ax]`, which is the number of entries of every row -/
theorem meanAxesW_spec (shape axes : List Nat) (k : Bool) (h1 : ∀ ax ∈ axes, ax < shape.length) (h2 : axes.Nodup) :
    ∃ T, meanAxesW shape axes k =
        some (if k then keepShape axes shape 0 else dropShape axes shape 0, T, axesCount shape axes) ∧
      sumAxesW shape axes k = some (if k then keepShape axes shape 0 else dropShape axes shape 0, T) ∧
      axesCount shape axes = size (axes.map fun ax => shape.getD ax 1) ∧
      ∀ jdx, InR jdx (keepShape axes shape 0) →
        (T.getD (ravel (keepShape axes shape 0) jdx) []).length = axesCount shape axes := by
  obtain ⟨T, hT, -, -, -, -, -, hcount⟩ := sumAxesW_spec' shape axes k h1 h2
  exact ⟨T, by simp [meanAxesW, hT], hT, rfl, hcount⟩

theorem meanAxesW_none (shape axes : List Nat) (k : Bool)
    (h : (∃ ax ∈ axes, shape.length ≤ ax) ∨ ¬ axes.Nodup) : meanAxesW shape axes k = none := by
  simp [meanAxesW, sumAxesW_none shape axes k h]

/-- **`numpy.prod(a, axis=tuple(axes), keepdims)`** for distinct axes in range: the reduced axes are removed (set to 1
with `keepdims`; the flat positions are the same); (a) one group per output position; (b) positions inside the input,
ascending (none twice); (c) the group of the output multi-index `jdx` contains the position of the input multi-index
`idx` iff `idx` projects to `jdx`, and every `idx` projects into the output; (d) every group has `Π shape[ax]` members -/
theorem prodAxesG_spec (shape axes : List Nat) (k : Bool) (h1 : ∀ ax ∈ axes, ax < shape.length) (h2 : axes.Nodup) :
    ∃ G, prodAxesG shape axes k = some (if k then keepShape axes shape 0 else dropShape axes shape 0, G) ∧
    G.length = size (keepShape axes shape 0) ∧ G.length = size (dropShape axes shape 0) ∧
    (∀ g ∈ G, g.Pairwise (· < ·) ∧ ∀ i ∈ g, i < size shape) ∧
    (∀ jdx, InR jdx (keepShape axes shape 0) → ∀ idx, InR idx shape →
      (ravel shape idx ∈ G.getD (ravel (keepShape axes shape 0) jdx) [] ↔ projIdx axes idx 0 = jdx)) ∧
    (∀ idx, InR idx shape → InR (projIdx axes idx 0) (keepShape axes shape 0)) ∧
    ∀ jdx, InR jdx (keepShape axes shape 0) →
      (G.getD (ravel (keepShape axes shape 0) jdx) []).length = axesCount shape axes := by
  obtain ⟨T, hT, hl1, hl2, hmem, hrow, hproj, hcount⟩ := sumAxesW_spec' shape axes k h1 h2
  have hg : ∀ j, (T.map fun row => row.map Prod.fst).getD j [] = (T.getD j []).map Prod.fst :=
    fun j => getD_map_nil (fun row => row.map Prod.fst) rfl T j
  refine ⟨T.map fun row => row.map Prod.fst, by simp [prodAxesG, hT], by simpa using hl1, by simpa using hl2,
    ?_, ?_, hproj, ?_⟩
  · intro g hg
    obtain ⟨row, hr, rfl⟩ := List.mem_map.1 hg
    refine ⟨(hmem row hr).1, fun i hi => ?_⟩
    obtain ⟨iw, hiw, rfl⟩ := List.mem_map.1 hi
    exact ((hmem row hr).2 iw hiw).1
  · intro jdx hj idx hi
    rw [hg, ← hrow jdx hj idx hi, List.mem_map]
    constructor
    · rintro ⟨iw, hiw, he⟩
      have hlt : ravel (keepShape axes shape 0) jdx < T.length := hl1 ▸ hj.ravel_lt
      have hin : T.getD (ravel (keepShape axes shape 0) jdx) [] ∈ T := by
        rw [List.getD_eq_getElem?_getD, List.getElem?_eq_getElem hlt]
        exact List.getElem_mem hlt
      have := ((hmem _ hin).2 iw hiw).2
      rwa [← he, ← this]
    · intro h
      exact ⟨_, h, rfl⟩
  · intro jdx hj
    rw [hg, List.length_map, hcount jdx hj]

theorem prodAxesG_none (shape axes : List Nat) (k : Bool)
    (h : (∃ ax ∈ axes, shape.length ≤ ax) ∨ ¬ axes.Nodup) : prodAxesG shape axes k = none := by
  simp [prodAxesG, sumAxesW_none shape axes k h]

/-- one axis: `numpy.prod(a, axis=(k,))` is `numpy.prod(a, axis=k)` -/
theorem prodAxesG_single (a b : List Nat) (n : Nat) (k : Bool) :
    prodAxesG (a ++ n :: b) [a.length] k = prodAxisG (a ++ n :: b) a.length k := by
  rw [prodAxesG, prodAxisG, sumAxesW_single]
end Np.ReduceFns2

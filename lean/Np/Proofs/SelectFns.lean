import Np.Proofs.ShapeFns
import Np.Proofs.CallTop
import Np.Model.SelectFns
/-! C09: the index arithmetic of `where`, `choose`, `full`, `hstack` / `vstack` / `dstack`
(`Np/Model/SelectFns.lean`) in terms of multi-indices.  For every function: (a) one entry per output position,
(b) every entry names an operand and a position inside that operand, (c) the output multi-index `j` reads the
stated operand at the stated (broadcast / shifted) multi-index.  No positivity assumption on the dimensions. -/
namespace Np.SelectFns
open Np.Shape Np.ShapeFns

/-! ### 0. the broadcast multi-index `bmulti` on valid multi-indices -/

/-- `BcastTo` axis by axis, counted from the left: axis `a` of `t` is axis `a + (ndim s - ndim t)` of `s` -/
theorem bcastTo_getD {t s : List Nat} (h : BcastTo t s) {a : Nat} (ha : a < t.length) :
    t.getD a 0 = s.getD (s.length - t.length + a) 0 ∨ t.getD a 0 = 1 := by
  have hle := h.1
  have hk : t.length - 1 - a < t.length := by omega
  have := h.2 _ hk
  rw [List.getElem?_reverse hk, List.getElem?_reverse (by omega)] at this
  have e1 : t.length - 1 - (t.length - 1 - a) = a := by omega
  have e2 : s.length - 1 - (t.length - 1 - a) = s.length - t.length + a := by omega
  rw [e1, e2] at this
  simp only [List.getD_eq_getElem?_getD]
  rcases this with h' | h'
  · left; rw [h']
  · right; rw [h']; rfl

theorem bmulti_getD {t j : List Nat} (hle : t.length ≤ j.length) {a : Nat} (ha : a < t.length) :
    (bmulti t j).getD a 0 = if t.getD a 0 = 1 then 0 else j.getD (j.length - t.length + a) 0 := by
  unfold bmulti
  simp only
  rw [zipWith_getD ha (by rw [List.length_drop]; omega), drop_getD]
  simp

/-- the broadcast multi-index of a valid output multi-index is a valid multi-index of the operand -/
theorem bmulti_valid {t s j : List Nat} (h : BcastTo t s) (hj : Valid s j) : Valid t (bmulti t j) := by
  obtain ⟨hl, hv⟩ := hj
  have hle : t.length ≤ j.length := by have := h.1; omega
  refine ⟨bmulti_length hle, fun a ha => ?_⟩
  rw [bmulti_getD hle ha]
  split
  · omega
  · rename_i h1
    rcases bcastTo_getD h ha with h2 | h2
    · rw [h2, hl]
      exact hv _ (by have := h.1; omega)
    · exact absurd h2 h1

theorem bindex_ravel (t : List Nat) {s j : List Nat} (hj : Valid s j) :
    bindex t s (ravel s j) = ravel t (bmulti t j) := by
  rw [bindex, unravel_ravel hj]

/-- `bindex` stays inside the operand (no positivity assumption) -/
theorem bindex_lt_of_bcastTo {t s : List Nat} (h : BcastTo t s) {i : Nat} (hi : i < size s) :
    bindex t s i < size t :=
  ravel_lt_of_valid (bmulti_valid h (unravel_valid (pos_of_size_pos (by omega)) i))

theorem getElem?_map_range {α : Type} (f : Nat → α) {n i : Nat} (hi : i < n) :
    ((List.range n).map f)[i]? = some (f i) := by
  rw [List.getElem?_map, List.getElem?_range hi, Option.map_some]

/-! ### 1. `whereF` -/

theorem whereF_eq {cond : List Bool} {sc sx sy out : List Nat} {idx : List (Nat × Nat)}
    (h : whereF cond sc sx sy = some (out, idx)) :
    cond.length = size sc ∧ bshapeAll [sc, sx, sy] = some out ∧
    idx = (List.range (size out)).map fun i =>
      if cond.getD (bindex sc out i) false then (0, bindex sx out i) else (1, bindex sy out i) := by
  unfold whereF at h
  split at h
  · rename_i hc
    split at h
    · simp at h
    · rename_i o ho
      simp only [Option.some.injEq, Prod.mk.injEq] at h
      obtain ⟨rfl, rfl⟩ := h
      exact ⟨by simpa using hc, ho, rfl⟩
  · simp at h

/-- numpy raises exactly when the three shapes do not broadcast together -/
theorem whereF_isSome {cond : List Bool} {sc : List Nat} (hc : cond.length = size sc) (sx sy : List Nat) :
    (whereF cond sc sx sy).isSome = (bshapeAll [sc, sx, sy]).isSome := by
  unfold whereF
  rw [if_pos (by simpa using hc)]
  split <;> simp_all

/-- the output shape: every operand shape broadcasts to it -/
theorem whereF_shape {cond : List Bool} {sc sx sy out : List Nat} {idx : List (Nat × Nat)}
    (h : whereF cond sc sx sy = some (out, idx)) :
    bshapeAll [sc, sx, sy] = some out ∧ BcastTo sc out ∧ BcastTo sx out ∧ BcastTo sy out := by
  obtain ⟨-, hb, -⟩ := whereF_eq h
  exact ⟨hb, bshapeAll_bcastTo hb sc (by simp), bshapeAll_bcastTo hb sx (by simp), bshapeAll_bcastTo hb sy (by simp)⟩

/-- (a) -/
theorem whereF_length {cond : List Bool} {sc sx sy out : List Nat} {idx : List (Nat × Nat)}
    (h : whereF cond sc sx sy = some (out, idx)) : idx.length = size out := by
  obtain ⟨-, -, rfl⟩ := whereF_eq h
  simp

/-- (b) operand 0 is `x`, operand 1 is `y` -/
theorem whereF_lt {cond : List Bool} {sc sx sy out : List Nat} {idx : List (Nat × Nat)}
    (h : whereF cond sc sx sy = some (out, idx)) :
    ∀ p ∈ idx, p.1 < 2 ∧ p.2 < size ([sx, sy].getD p.1 []) := by
  obtain ⟨-, hx, hy⟩ := (whereF_shape h).2
  obtain ⟨-, -, rfl⟩ := whereF_eq h
  intro p hp
  simp only [List.mem_map, List.mem_range] at hp
  obtain ⟨i, hi, rfl⟩ := hp
  split
  · exact ⟨by omega, by simpa using bindex_lt_of_bcastTo hx hi⟩
  · exact ⟨by omega, by simpa using bindex_lt_of_bcastTo hy hi⟩

/-- the entry at flat position `i` -/
theorem whereF_getElem? {cond : List Bool} {sc sx sy out : List Nat} {idx : List (Nat × Nat)}
    (h : whereF cond sc sx sy = some (out, idx)) {i : Nat} (hi : i < size out) :
    idx[i]? = some (if cond.getD (bindex sc out i) false then (0, bindex sx out i) else (1, bindex sy out i)) ∧
    bindex sc out i < cond.length := by
  obtain ⟨hc, -, -⟩ := (whereF_shape h).2
  obtain ⟨hl, -, rfl⟩ := whereF_eq h
  exact ⟨getElem?_map_range _ hi, by rw [hl]; exact bindex_lt_of_bcastTo hc hi⟩

/-- (c) output multi-index `j` reads `x` if the condition at the broadcast multi-index is true, else `y`, each at
its own broadcast multi-index -/
theorem whereF_spec {cond : List Bool} {sc sx sy out : List Nat} {idx : List (Nat × Nat)}
    (h : whereF cond sc sx sy = some (out, idx)) {j : List Nat} (hj : Valid out j) :
    idx[ravel out j]? = some (if cond.getD (ravel sc (bmulti sc j)) false then (0, ravel sx (bmulti sx j))
      else (1, ravel sy (bmulti sy j))) ∧
    Valid sc (bmulti sc j) ∧ ravel sc (bmulti sc j) < cond.length ∧
    Valid sx (bmulti sx j) ∧ Valid sy (bmulti sy j) := by
  obtain ⟨hc, hx, hy⟩ := (whereF_shape h).2
  obtain ⟨h1, h2⟩ := whereF_getElem? h (ravel_lt_of_valid hj)
  simp only [bindex_ravel _ hj] at h1 h2
  exact ⟨h1, bmulti_valid hc hj, h2, bmulti_valid hx hj, bmulti_valid hy hj⟩

/-! ### 2. `chooseF` -/

theorem chooseF_eq {sel ss : List Nat} {shapes : List (List Nat)} {out : List Nat} {idx : List (Nat × Nat)}
    (h : chooseF sel ss shapes = some (out, idx)) :
    sel.length = size ss ∧ shapes ≠ [] ∧ bshapeAll (ss :: shapes) = some out ∧
    (∀ i, i < size out → sel.getD (bindex ss out i) 0 < shapes.length) ∧
    idx = (List.range (size out)).map fun i =>
      (sel.getD (bindex ss out i) 0, bindex (shapes.getD (sel.getD (bindex ss out i) 0) []) out i) := by
  unfold chooseF at h
  split at h
  · rename_i hc
    simp only [Bool.and_eq_true, beq_iff_eq, Bool.not_eq_true', List.isEmpty_eq_false_iff] at hc
    split at h
    · simp at h
    · rename_i o ho
      split at h
      · rename_i hall
        simp only [List.all_eq_true, List.mem_range, decide_eq_true_eq] at hall
        simp only [Option.some.injEq, Prod.mk.injEq] at h
        obtain ⟨rfl, rfl⟩ := h
        exact ⟨hc.1, hc.2, ho, hall, rfl⟩
      · simp at h
  · simp at h

/-- numpy raises exactly when there is no choice, the shapes do not broadcast together, or a visited selector
value is not the number of a choice -/
theorem chooseF_isSome {sel ss : List Nat} (hl : sel.length = size ss) (shapes : List (List Nat)) :
    (chooseF sel ss shapes).isSome = true ↔
      shapes ≠ [] ∧ ∃ out, bshapeAll (ss :: shapes) = some out ∧
        ∀ i, i < size out → sel.getD (bindex ss out i) 0 < shapes.length := by
  constructor
  · intro h
    obtain ⟨⟨out, idx⟩, hr⟩ := Option.isSome_iff_exists.1 h
    obtain ⟨-, h1, h2, h3, -⟩ := chooseF_eq hr
    exact ⟨h1, out, h2, h3⟩
  · rintro ⟨h1, out, h2, h3⟩
    unfold chooseF
    rw [if_pos (by simpa using ⟨hl, h1⟩)]
    simp only [h2]
    rw [if_pos (by simpa using h3)]
    rfl

/-- the output shape: the selector's and every choice's shape broadcast to it -/
theorem chooseF_shape {sel ss : List Nat} {shapes : List (List Nat)} {out : List Nat} {idx : List (Nat × Nat)}
    (h : chooseF sel ss shapes = some (out, idx)) :
    bshapeAll (ss :: shapes) = some out ∧ BcastTo ss out ∧ ∀ s ∈ shapes, BcastTo s out := by
  obtain ⟨-, -, hb, -, -⟩ := chooseF_eq h
  exact ⟨hb, bshapeAll_bcastTo hb ss (by simp), fun s hs => bshapeAll_bcastTo hb s (by simp [hs])⟩

/-- (a) -/
theorem chooseF_length {sel ss : List Nat} {shapes : List (List Nat)} {out : List Nat} {idx : List (Nat × Nat)}
    (h : chooseF sel ss shapes = some (out, idx)) : idx.length = size out := by
  obtain ⟨-, -, -, -, rfl⟩ := chooseF_eq h
  simp

theorem getD_mem {shapes : List (List Nat)} {c : Nat} (hc : c < shapes.length) : shapes.getD c [] ∈ shapes := by
  rw [List.getD_eq_getElem?_getD, List.getElem?_eq_getElem hc]
  exact List.getElem_mem hc

/-- (b) -/
theorem chooseF_lt {sel ss : List Nat} {shapes : List (List Nat)} {out : List Nat} {idx : List (Nat × Nat)}
    (h : chooseF sel ss shapes = some (out, idx)) :
    ∀ p ∈ idx, p.1 < shapes.length ∧ p.2 < size (shapes.getD p.1 []) := by
  obtain ⟨-, -, hs⟩ := chooseF_shape h
  obtain ⟨-, -, -, hall, rfl⟩ := chooseF_eq h
  intro p hp
  simp only [List.mem_map, List.mem_range] at hp
  obtain ⟨i, hi, rfl⟩ := hp
  exact ⟨hall i hi, bindex_lt_of_bcastTo (hs _ (getD_mem (hall i hi))) hi⟩

/-- (c) output multi-index `j` reads the choice whose number the selector holds at its broadcast multi-index, at
that choice's broadcast multi-index -/
theorem chooseF_spec {sel ss : List Nat} {shapes : List (List Nat)} {out : List Nat} {idx : List (Nat × Nat)}
    (h : chooseF sel ss shapes = some (out, idx)) {j : List Nat} (hj : Valid out j) :
    ∃ c, c = sel.getD (ravel ss (bmulti ss j)) 0 ∧ c < shapes.length ∧
      idx[ravel out j]? = some (c, ravel (shapes.getD c []) (bmulti (shapes.getD c []) j)) ∧
      Valid ss (bmulti ss j) ∧ ravel ss (bmulti ss j) < sel.length ∧
      Valid (shapes.getD c []) (bmulti (shapes.getD c []) j) := by
  obtain ⟨-, hss, hs⟩ := chooseF_shape h
  obtain ⟨hl, -, -, hall, rfl⟩ := chooseF_eq h
  have hi := ravel_lt_of_valid hj
  have hc := hall _ hi
  have hv := bmulti_valid hss hj
  rw [bindex_ravel _ hj] at hc
  refine ⟨_, rfl, hc, ?_, hv, by rw [hl]; exact ravel_lt_of_valid hv, bmulti_valid (hs _ (getD_mem hc)) hj⟩
  rw [getElem?_map_range _ hi]
  simp only [bindex_ravel _ hj]

/-! ### 3. `fullF` -/

theorem ravel_nil_right (s : List Nat) : ravel s [] = 0 := by
  cases s <;> rfl

/-- leading unit dimensions do not change flat positions -/
theorem ravel_ones : ∀ (m : Nat) (s j : List Nat), ravel (List.replicate m 1 ++ s) j = ravel s (j.drop m)
  | 0, s, j => by simp
  | m + 1, s, [] => by simp [ravel_nil_right]
  | m + 1, s, x :: xs => by
    simp only [List.replicate_succ, List.cons_append, ravel, Nat.mod_one, Nat.zero_mul, Nat.zero_add,
      List.drop_succ_cons]
    exact ravel_ones m s xs

theorem size_ones (m : Nat) (s : List Nat) : size (List.replicate m 1 ++ s) = size s := by
  induction m with
  | zero => simp
  | succ m ih => simp [List.replicate_succ, ih]

theorem valid_ones : ∀ {m : Nat} {s j : List Nat}, Valid (List.replicate m 1 ++ s) j → Valid s (j.drop m)
  | 0, _, _, h => by simpa using h
  | m + 1, s, [], h => by
    have := h.1
    simp at this
    omega
  | m + 1, s, x :: xs, h => by
    rw [List.replicate_succ, List.cons_append, valid_cons] at h
    simpa using valid_ones h.2

theorem valid_ones_zeros : ∀ {m : Nat} {s x : List Nat}, Valid s x →
    Valid (List.replicate m 1 ++ s) (List.replicate m 0 ++ x)
  | 0, _, _, h => by simpa using h
  | m + 1, s, x, h => by
    rw [List.replicate_succ, List.replicate_succ, List.cons_append, List.cons_append, valid_cons]
    exact ⟨by omega, valid_ones_zeros h⟩

/-- `stripOnes` removes `m ≤ k` leading unit dimensions -/
theorem stripOnes_eq : ∀ (k : Nat) (s : List Nat), ∃ m, m ≤ k ∧ s = List.replicate m 1 ++ stripOnes k s
  | 0, s => ⟨0, by omega, by simp [stripOnes]⟩
  | k + 1, [] => ⟨0, by omega, by simp [stripOnes]⟩
  | k + 1, d :: s => by
    by_cases hd : d = 1
    · subst hd
      obtain ⟨m, hm, he⟩ := stripOnes_eq k s
      exact ⟨m + 1, by omega, by rw [stripOnes, List.replicate_succ, List.cons_append, ← he]⟩
    · refine ⟨0, by omega, ?_⟩
      rw [stripOnes]
      · simp
      · intro k' s' h1 h2
        simp only [List.cons.injEq] at h2
        exact hd h2.1

theorem stripOnes_of_zero (s : List Nat) : stripOnes 0 s = s := by
  cases s <;> rfl

/-- the stripped shape has the same flat positions: multi-index `x` of the stripped shape is `0, .., 0, x` -/
theorem stripOnes_spec (k : Nat) (s : List Nat) :
    size (stripOnes k s) = size s ∧
    ∃ m, m ≤ k ∧ s = List.replicate m 1 ++ stripOnes k s ∧
      ∀ x, Valid (stripOnes k s) x →
        Valid s (List.replicate m 0 ++ x) ∧ ravel s (List.replicate m 0 ++ x) = ravel (stripOnes k s) x := by
  obtain ⟨m, hm, he⟩ := stripOnes_eq k s
  refine ⟨by conv_rhs => rw [he, size_ones], m, hm, he, fun x hx => ?_⟩
  constructor
  · rw [he]; exact valid_ones_zeros hx
  · conv_lhs => rw [he, ravel_ones]
    rw [List.drop_left' (by simp)]

theorem fullF_eq {shape sv out idx : List Nat} (h : fullF shape sv = some (out, idx)) :
    out = shape ∧ bshape (stripOnes (sv.length - shape.length) sv) shape = some shape ∧
    idx = (List.range (size shape)).map fun i => bindex (stripOnes (sv.length - shape.length) sv) shape i := by
  unfold fullF at h
  simp only at h
  split at h
  · rename_i hc
    simp only [Option.some.injEq, Prod.mk.injEq] at h
    exact ⟨h.1.symm, by simpa using hc, h.2.symm⟩
  · simp at h

/-- numpy raises exactly when the value (less its surplus leading unit dimensions) does not broadcast to `shape`
itself -/
theorem fullF_isSome (shape sv : List Nat) :
    (fullF shape sv).isSome = (bshape (stripOnes (sv.length - shape.length) sv) shape == some shape) := by
  unfold fullF
  simp only
  split <;> simp_all

theorem bshapeRev_of_bcast : ∀ (a b : List Nat), a.length ≤ b.length →
    (∀ k, k < a.length → a[k]? = b[k]? ∨ a[k]? = some 1) → bshapeRev a b = some b
  | [], b, _, _ => by simp [bshapeRev]
  | x :: a, [], hl, _ => by simp at hl
  | x :: a, y :: b, hl, h => by
    have ih := bshapeRev_of_bcast a b (by simpa using hl) fun k hk => by
      simpa using h (k + 1) (by simpa using hk)
    have h0 : x = y ∨ x = 1 := by simpa using h 0 (by simp)
    rw [bshapeRev, ih]
    by_cases hxy : x = y
    · simp [hxy]
    · have hx : x = 1 := h0.resolve_left hxy
      simp [hx]

/-- `bshape t s = some s` says exactly that `t` broadcasts to `s` -/
theorem bshape_eq_right_iff {t s : List Nat} : bshape t s = some s ↔ BcastTo t s := by
  constructor
  · exact fun h => (bshape_bcastTo h).1
  · intro h
    have := bshapeRev_of_bcast t.reverse s.reverse (by simpa using h.1) (by simpa using h.2)
    simp [bshape, this]

/-- numpy raises exactly when the value (less its surplus leading unit dimensions) does not broadcast to `shape` -/
theorem fullF_isSome_iff (shape sv : List Nat) :
    (fullF shape sv).isSome = true ↔ BcastTo (stripOnes (sv.length - shape.length) sv) shape := by
  rw [fullF_isSome, beq_iff_eq, bshape_eq_right_iff]

/-- the value's shape broadcasts to the output shape, which is `shape` -/
theorem fullF_shape {shape sv out idx : List Nat} (h : fullF shape sv = some (out, idx)) :
    out = shape ∧ BcastTo (stripOnes (sv.length - shape.length) sv) shape := by
  obtain ⟨ho, hb, -⟩ := fullF_eq h
  exact ⟨ho, (bshape_bcastTo hb).1⟩

/-- (a) -/
theorem fullF_length {shape sv out idx : List Nat} (h : fullF shape sv = some (out, idx)) :
    idx.length = size out := by
  obtain ⟨rfl, -, rfl⟩ := fullF_eq h
  simp

/-- (b) -/
theorem fullF_lt {shape sv out idx : List Nat} (h : fullF shape sv = some (out, idx)) :
    ∀ k ∈ idx, k < size sv := by
  obtain ⟨-, hb⟩ := fullF_shape h
  obtain ⟨rfl, -, rfl⟩ := fullF_eq h
  intro k hk
  simp only [List.mem_map, List.mem_range] at hk
  obtain ⟨i, hi, rfl⟩ := hk
  rw [← (stripOnes_spec (sv.length - out.length) sv).1]
  exact bindex_lt_of_bcastTo hb hi

/-- (c), flat form: position `i` reads the broadcast position `bindex sv' shape i` -/
theorem fullF_getElem? {shape sv out idx : List Nat} (h : fullF shape sv = some (out, idx)) {i : Nat}
    (hi : i < size out) : idx[i]? = some (bindex (stripOnes (sv.length - shape.length) sv) shape i) := by
  obtain ⟨rfl, -, rfl⟩ := fullF_eq h
  exact getElem?_map_range _ hi

/-- (c), flat form, for a value with no more dimensions than `shape`: position `i` reads `bindex sv shape i` -/
theorem fullF_getElem?_of_le {shape sv out idx : List Nat} (h : fullF shape sv = some (out, idx))
    (hle : sv.length ≤ shape.length) {i : Nat} (hi : i < size out) : idx[i]? = some (bindex sv shape i) := by
  have := fullF_getElem? h hi
  rwa [Nat.sub_eq_zero_of_le hle, stripOnes_of_zero] at this

/-- (c) output multi-index `j` reads the value at the broadcast multi-index of its stripped shape `sv'`, i.e. at
multi-index `0, .., 0, bmulti sv' j` of `sv` -/
theorem fullF_spec {shape sv out idx : List Nat} (h : fullF shape sv = some (out, idx))
    {j : List Nat} (hj : Valid out j) :
    ∃ m sv', sv' = stripOnes (sv.length - shape.length) sv ∧ sv = List.replicate m 1 ++ sv' ∧
      idx[ravel out j]? = some (ravel sv (List.replicate m 0 ++ bmulti sv' j)) ∧
      Valid sv (List.replicate m 0 ++ bmulti sv' j) ∧
      ravel sv (List.replicate m 0 ++ bmulti sv' j) = ravel sv' (bmulti sv' j) ∧ Valid sv' (bmulti sv' j) := by
  obtain ⟨ho, hb⟩ := fullF_shape h
  have hg := fullF_getElem? h (ravel_lt_of_valid hj)
  subst ho
  obtain ⟨-, m, -, he, hx⟩ := stripOnes_spec (sv.length - out.length) sv
  have hv := bmulti_valid hb hj
  obtain ⟨h1, h2⟩ := hx _ hv
  refine ⟨m, _, rfl, he, ?_, h1, h2, hv⟩
  rw [hg, bindex_ravel _ hj, h2]

/-! ### 4. the promotions `atleast_1d` / `_2d` / `_3d` keep flat positions -/

theorem size_atleast1d (s : List Nat) : size (atleast1d s) = size s := by
  cases s <;> rfl

theorem size_atleast2d (s : List Nat) : size (atleast2d s) = size s := by
  rcases s with _ | ⟨n, _ | ⟨m, t⟩⟩ <;> simp [atleast2d]

theorem size_atleast3d (s : List Nat) : size (atleast3d s) = size s := by
  rcases s with _ | ⟨n, _ | ⟨m, _ | ⟨k, t⟩⟩⟩ <;> simp [atleast3d]

/-- each promotion is the C-order reshape to the promoted shape: no flat position moves -/
theorem atleast1d_reshape (s : List Nat) : reshapeF s (atleast1d s) = some (atleast1d s, List.range (size s)) := by
  simp [reshapeF, size_atleast1d]

theorem atleast2d_reshape (s : List Nat) : reshapeF s (atleast2d s) = some (atleast2d s, List.range (size s)) := by
  simp [reshapeF, size_atleast2d]

theorem atleast3d_reshape (s : List Nat) : reshapeF s (atleast3d s) = some (atleast3d s, List.range (size s)) := by
  simp [reshapeF, size_atleast3d]

theorem atleast1d_eq (s : List Nat) : atleast1d s = List.replicate (1 - s.length) 1 ++ s := by
  cases s <;> simp [atleast1d]

theorem atleast2d_eq (s : List Nat) : atleast2d s = List.replicate (2 - s.length) 1 ++ s := by
  rcases s with _ | ⟨n, _ | ⟨m, t⟩⟩ <;> simp [atleast2d]

/-- multi-index of the operand for a multi-index of its `atleast_1d` / `_2d` promotion: drop the new axes -/
def demote1d (s j : List Nat) : List Nat := j.drop (1 - s.length)
def demote2d (s j : List Nat) : List Nat := j.drop (2 - s.length)

/-- multi-index of the operand for a multi-index of its `atleast_3d` promotion
(`() → (1,1,1)`, `(n,) → (1,n,1)`, `(m,n) → (m,n,1)`) -/
def demote3d (s j : List Nat) : List Nat :=
  match s with
  | [] => []
  | [_] => [j.getD 1 0]
  | [_, _] => j.take 2
  | _ => j

theorem atleast1d_valid {s j : List Nat} (hj : Valid (atleast1d s) j) :
    Valid s (demote1d s j) ∧ ravel s (demote1d s j) = ravel (atleast1d s) j := by
  rw [atleast1d_eq] at hj ⊢
  exact ⟨valid_ones hj, (ravel_ones _ _ _).symm⟩

theorem atleast2d_valid {s j : List Nat} (hj : Valid (atleast2d s) j) :
    Valid s (demote2d s j) ∧ ravel s (demote2d s j) = ravel (atleast2d s) j := by
  rw [atleast2d_eq] at hj ⊢
  exact ⟨valid_ones hj, (ravel_ones _ _ _).symm⟩

theorem valid_cons' {d : Nat} {ds j : List Nat} (h : Valid (d :: ds) j) :
    ∃ x xs, j = x :: xs ∧ x < d ∧ Valid ds xs := by
  cases j with
  | nil => have := h.1; simp at this
  | cons x xs => exact ⟨x, xs, rfl, valid_cons.1 h⟩

theorem atleast3d_valid {s j : List Nat} (hj : Valid (atleast3d s) j) :
    Valid s (demote3d s j) ∧ ravel s (demote3d s j) = ravel (atleast3d s) j := by
  rcases s with _ | ⟨n, _ | ⟨m, _ | ⟨k, t⟩⟩⟩
  all_goals try exact ⟨hj, rfl⟩
  all_goals
    simp only [atleast3d] at hj ⊢
    obtain ⟨a, j1, rfl, ha, h1⟩ := valid_cons' hj
    obtain ⟨b, j2, rfl, hb, h2⟩ := valid_cons' h1
    obtain ⟨c, j3, rfl, hc, h3⟩ := valid_cons' h2
    obtain rfl := valid_nil.1 h3
  · exact ⟨valid_nil.2 rfl, by simp [ravel, Nat.mod_one]⟩
  · exact ⟨valid_cons.2 ⟨hb, valid_nil.2 rfl⟩, by simp [demote3d, ravel, Nat.mod_one]⟩
  · exact ⟨valid_cons.2 ⟨ha, valid_cons.2 ⟨hb, valid_nil.2 rfl⟩⟩, by simp [demote3d, ravel, Nat.mod_one]⟩

/-! ### 5. concatenation of promoted operands, generically -/

theorem getD_map_nil (pr : List Nat → List Nat) {shapes : List (List Nat)} {o : Nat} (ho : o < shapes.length) :
    (shapes.map pr).getD o [] = pr (shapes.getD o []) := by
  simp [List.getD_eq_getElem?_getD, List.getElem?_map, List.getElem?_eq_getElem ho]

/-- (b) since the promotion keeps sizes, `concatF`'s positions are positions inside the unpromoted operands -/
theorem promoted_lt {pr : List Nat → List Nat} (hsz : ∀ s, size (pr s) = size s) {shapes : List (List Nat)}
    {axis : Nat} {out : List Nat} {idx : List (Nat × Nat)} (h : concatF (shapes.map pr) axis = some (out, idx)) :
    ∀ p ∈ idx, p.1 < shapes.length ∧ p.2 < size (shapes.getD p.1 []) := by
  intro p hp
  obtain ⟨h1, h2⟩ := concatF_lt h p hp
  rw [List.length_map] at h1
  rw [getD_map_nil pr h1, hsz] at h2
  exact ⟨h1, h2⟩

/-- the output shape: the first promoted shape with the `axis` extents of the promoted shapes summed -/
theorem promoted_shape {pr : List Nat → List Nat} {shapes : List (List Nat)}
    {axis : Nat} {out : List Nat} {idx : List (Nat × Nat)} (h : concatF (shapes.map pr) axis = some (out, idx)) :
    ∃ s0, shapes.head? = some s0 ∧ axis < (pr s0).length ∧
      out = (pr s0).set axis (shapes.map fun s => (pr s).getD axis 0).sum ∧
      ∀ s ∈ shapes, (pr s).length = (pr s0).length ∧
        ∀ a, a < (pr s0).length → a ≠ axis → (pr s).getD a 0 = (pr s0).getD a 0 := by
  obtain ⟨p0, h0, ha, ho, hall⟩ := concatF_shape h
  cases shapes with
  | nil => simp at h0
  | cons s0 rest =>
    simp only [List.map_cons, List.head?_cons, Option.some.injEq] at h0
    subst h0
    refine ⟨s0, rfl, ha, ?_, fun s hs => hall _ (List.mem_map_of_mem hs)⟩
    rw [ho, List.map_map]
    rfl

/-- (c) `concatF_spec` of the promoted shapes, read back in the unpromoted operand through `dm` -/
theorem promoted_spec {pr : List Nat → List Nat} {dm : List Nat → List Nat → List Nat}
    (hdm : ∀ {s j}, Valid (pr s) j → Valid s (dm s j) ∧ ravel s (dm s j) = ravel (pr s) j)
    {shapes : List (List Nat)} {axis : Nat} {out : List Nat} {idx : List (Nat × Nat)}
    (h : concatF (shapes.map pr) axis = some (out, idx)) {j : List Nat} (hj : Valid out j) :
    ∃ o r, idx[ravel out j]? = some (o, ravel (shapes.getD o []) (dm (shapes.getD o []) (j.set axis r))) ∧
      o < shapes.length ∧ Valid (shapes.getD o []) (dm (shapes.getD o []) (j.set axis r)) ∧
      Valid (pr (shapes.getD o [])) (j.set axis r) ∧
      j.getD axis 0 = ((shapes.take o).map fun s => (pr s).getD axis 0).sum + r := by
  obtain ⟨o, r, h1, h2, h3, h4⟩ := concatF_spec h hj
  rw [List.length_map] at h2
  rw [getD_map_nil pr h2] at h1 h3
  obtain ⟨h5, h6⟩ := hdm h3
  refine ⟨o, r, by rw [h1, h6], h2, h5, h3, ?_⟩
  rw [h4, ← List.map_take, List.map_map]
  rfl

/-! ### 6. `vstackF`, `dstackF`, `hstackF` -/

/-- (a) -/
theorem vstackF_length {shapes : List (List Nat)} {out : List Nat} {idx : List (Nat × Nat)}
    (h : vstackF shapes = some (out, idx)) : idx.length = size out := concatF_length h

/-- (b) -/
theorem vstackF_lt {shapes : List (List Nat)} {out : List Nat} {idx : List (Nat × Nat)}
    (h : vstackF shapes = some (out, idx)) :
    ∀ p ∈ idx, p.1 < shapes.length ∧ p.2 < size (shapes.getD p.1 []) := promoted_lt size_atleast2d h

/-- the output shape: the `atleast_2d` shapes agree except on axis 0, whose extents are summed -/
theorem vstackF_shape {shapes : List (List Nat)} {out : List Nat} {idx : List (Nat × Nat)}
    (h : vstackF shapes = some (out, idx)) :
    ∃ s0, shapes.head? = some s0 ∧ 0 < (atleast2d s0).length ∧
      out = (atleast2d s0).set 0 (shapes.map fun s => (atleast2d s).getD 0 0).sum ∧
      ∀ s ∈ shapes, (atleast2d s).length = (atleast2d s0).length ∧
        ∀ a, a < (atleast2d s0).length → a ≠ 0 → (atleast2d s).getD a 0 = (atleast2d s0).getD a 0 :=
  promoted_shape h

/-- (c) output multi-index `j` reads operand `o` at `j` with component 0 reduced by the rows of the earlier
operands, less the axes `atleast_2d` added -/
theorem vstackF_spec {shapes : List (List Nat)} {out : List Nat} {idx : List (Nat × Nat)}
    (h : vstackF shapes = some (out, idx)) {j : List Nat} (hj : Valid out j) :
    ∃ o r, idx[ravel out j]? = some (o, ravel (shapes.getD o []) (demote2d (shapes.getD o []) (j.set 0 r))) ∧
      o < shapes.length ∧ Valid (shapes.getD o []) (demote2d (shapes.getD o []) (j.set 0 r)) ∧
      Valid (atleast2d (shapes.getD o [])) (j.set 0 r) ∧
      j.getD 0 0 = ((shapes.take o).map fun s => (atleast2d s).getD 0 0).sum + r :=
  promoted_spec atleast2d_valid h hj

/-- (a) -/
theorem dstackF_length {shapes : List (List Nat)} {out : List Nat} {idx : List (Nat × Nat)}
    (h : dstackF shapes = some (out, idx)) : idx.length = size out := concatF_length h

/-- (b) -/
theorem dstackF_lt {shapes : List (List Nat)} {out : List Nat} {idx : List (Nat × Nat)}
    (h : dstackF shapes = some (out, idx)) :
    ∀ p ∈ idx, p.1 < shapes.length ∧ p.2 < size (shapes.getD p.1 []) := promoted_lt size_atleast3d h

/-- the output shape: the `atleast_3d` shapes agree except on axis 2, whose extents are summed -/
theorem dstackF_shape {shapes : List (List Nat)} {out : List Nat} {idx : List (Nat × Nat)}
    (h : dstackF shapes = some (out, idx)) :
    ∃ s0, shapes.head? = some s0 ∧ 2 < (atleast3d s0).length ∧
      out = (atleast3d s0).set 2 (shapes.map fun s => (atleast3d s).getD 2 0).sum ∧
      ∀ s ∈ shapes, (atleast3d s).length = (atleast3d s0).length ∧
        ∀ a, a < (atleast3d s0).length → a ≠ 2 → (atleast3d s).getD a 0 = (atleast3d s0).getD a 0 :=
  promoted_shape h

/-- (c) -/
theorem dstackF_spec {shapes : List (List Nat)} {out : List Nat} {idx : List (Nat × Nat)}
    (h : dstackF shapes = some (out, idx)) {j : List Nat} (hj : Valid out j) :
    ∃ o r, idx[ravel out j]? = some (o, ravel (shapes.getD o []) (demote3d (shapes.getD o []) (j.set 2 r))) ∧
      o < shapes.length ∧ Valid (shapes.getD o []) (demote3d (shapes.getD o []) (j.set 2 r)) ∧
      Valid (atleast3d (shapes.getD o [])) (j.set 2 r) ∧
      j.getD 2 0 = ((shapes.take o).map fun s => (atleast3d s).getD 2 0).sum + r :=
  promoted_spec atleast3d_valid h hj

/-- the axis `numpy.hstack` joins along: 0 if the first operand is at most 1-d, else 1 -/
def hstackAxis (shapes : List (List Nat)) : Nat := if (shapes.headD []).length ≤ 1 then 0 else 1

theorem hstackF_eq (shapes : List (List Nat)) :
    hstackF shapes = concatF (shapes.map atleast1d) (hstackAxis shapes) := by
  cases shapes with
  | nil => rfl
  | cons s0 rest =>
    simp only [hstackF, List.map_cons, hstackAxis, List.headD_cons]
    congr 1
    cases s0 with
    | nil => rfl
    | cons d ds => cases ds <;> simp [atleast1d]

/-- (a) -/
theorem hstackF_length {shapes : List (List Nat)} {out : List Nat} {idx : List (Nat × Nat)}
    (h : hstackF shapes = some (out, idx)) : idx.length = size out := by
  rw [hstackF_eq] at h
  exact concatF_length h

/-- (b) -/
theorem hstackF_lt {shapes : List (List Nat)} {out : List Nat} {idx : List (Nat × Nat)}
    (h : hstackF shapes = some (out, idx)) :
    ∀ p ∈ idx, p.1 < shapes.length ∧ p.2 < size (shapes.getD p.1 []) := by
  rw [hstackF_eq] at h
  exact promoted_lt size_atleast1d h

/-- the output shape -/
theorem hstackF_shape {shapes : List (List Nat)} {out : List Nat} {idx : List (Nat × Nat)}
    (h : hstackF shapes = some (out, idx)) :
    ∃ s0, shapes.head? = some s0 ∧ hstackAxis shapes < (atleast1d s0).length ∧
      out = (atleast1d s0).set (hstackAxis shapes)
        (shapes.map fun s => (atleast1d s).getD (hstackAxis shapes) 0).sum ∧
      ∀ s ∈ shapes, (atleast1d s).length = (atleast1d s0).length ∧
        ∀ a, a < (atleast1d s0).length → a ≠ hstackAxis shapes →
          (atleast1d s).getD a 0 = (atleast1d s0).getD a 0 := by
  rw [hstackF_eq] at h
  exact promoted_shape h

/-- (c) -/
theorem hstackF_spec {shapes : List (List Nat)} {out : List Nat} {idx : List (Nat × Nat)}
    (h : hstackF shapes = some (out, idx)) {j : List Nat} (hj : Valid out j) :
    ∃ o r, idx[ravel out j]? = some (o, ravel (shapes.getD o [])
        (demote1d (shapes.getD o []) (j.set (hstackAxis shapes) r))) ∧
      o < shapes.length ∧ Valid (shapes.getD o []) (demote1d (shapes.getD o []) (j.set (hstackAxis shapes) r)) ∧
      Valid (atleast1d (shapes.getD o [])) (j.set (hstackAxis shapes) r) ∧
      j.getD (hstackAxis shapes) 0 =
        ((shapes.take o).map fun s => (atleast1d s).getD (hstackAxis shapes) 0).sum + r := by
  rw [hstackF_eq] at h
  exact promoted_spec atleast1d_valid h hj

end Np.SelectFns

import Mathlib.Order.Basic
import Mathlib.Data.Set.Finite.Basic
import Mathlib.Data.Finset.Max
/-! C07 at the level of coefficient functions: "compare at the largest monomial where the two differ" -/
namespace Np.Ord
variable {α R : Type} [LinearOrder α] [LinearOrder R]

/-- `f` is greater than `g`: at some monomial `f` has the larger coefficient and above it they agree -/
def Gt (f g : α → R) : Prop := ∃ m, g m < f m ∧ ∀ m', m < m' → f m' = g m'

theorem gt_irrefl (f : α → R) : ¬ Gt f f := fun ⟨_, h, _⟩ => lt_irrefl _ h

theorem gt_asymm (f g : α → R) (h1 : Gt f g) (h2 : Gt g f) : False := by
  obtain ⟨m1, h1a, h1b⟩ := h1
  obtain ⟨m2, h2a, h2b⟩ := h2
  rcases lt_trichotomy m1 m2 with h | h | h
  · have := h1b m2 h; rw [this] at h2a; exact lt_irrefl _ h2a
  · subst h; exact lt_asymm h1a h2a
  · have := h2b m1 h; rw [this] at h1a; exact lt_irrefl _ h1a

theorem gt_trans (f g h : α → R) (h1 : Gt f g) (h2 : Gt g h) : Gt f h := by
  obtain ⟨m1, h1a, h1b⟩ := h1
  obtain ⟨m2, h2a, h2b⟩ := h2
  rcases lt_trichotomy m1 m2 with hlt | heq | hgt
  · refine ⟨m2, ?_, ?_⟩
    · rw [h1b m2 hlt]; exact h2a
    · intro m' hm'; rw [h1b m' (lt_trans hlt hm'), h2b m' hm']
  · subst heq
    exact ⟨m1, lt_trans h2a h1a, fun m' hm' => by rw [h1b m' hm', h2b m' hm']⟩
  · refine ⟨m1, ?_, ?_⟩
    · rw [← h2b m1 hgt]; exact h1a
    · intro m' hm'; rw [h1b m' hm', h2b m' (lt_trans hgt hm')]

/-- trichotomy needs only that the two differ at finitely many monomials (true for polynomials) -/
theorem gt_trichotomy (f g : α → R) (hfin : {m | f m ≠ g m}.Finite) :
    Gt g f ∨ f = g ∨ Gt f g := by
  by_cases hne : hfin.toFinset.Nonempty
  · let m := hfin.toFinset.max' hne
    have hm : f m ≠ g m := by
      have := hfin.toFinset.max'_mem hne
      simpa using this
    have habove : ∀ m', m < m' → f m' = g m' := by
      intro m' hm'
      by_contra hd
      have : m' ∈ hfin.toFinset := by simpa using hd
      exact absurd (hfin.toFinset.le_max' m' this) (not_le.2 hm')
    rcases lt_or_gt_of_ne hm with h | h
    · exact Or.inl ⟨m, h, fun m' hm' => (habove m' hm').symm⟩
    · exact Or.inr (Or.inr ⟨m, h, habove⟩)
  · right; left
    funext m
    by_contra hd
    exact hne ⟨m, by simpa using hd⟩

/-- exactly one of the three holds -/
theorem gt_exclusive (f g : α → R) : ¬ (Gt f g ∧ f = g) ∧ ¬ (Gt g f ∧ f = g) ∧ ¬ (Gt f g ∧ Gt g f) :=
  ⟨fun ⟨h, e⟩ => gt_irrefl g (e ▸ h), fun ⟨h, e⟩ => gt_irrefl g (e ▸ h), fun ⟨h1, h2⟩ => gt_asymm f g h1 h2⟩

end Np.Ord

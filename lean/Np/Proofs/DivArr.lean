import Np.Model.DivArr
import Np.Proofs.DivTerm
import Np.Proofs.CompareArr
import Np.Proofs.Arr
import Np.Proofs.Shape
/-! C05 on arrays: `divmodArr` (Np/Model/DivArr.lean) divides element by element after broadcasting —
shape/error behaviour, the division identity and reducedness per element, termination for the whole array, and
zero divisor elements. -/
open MvPolynomial

namespace Np
open Shape

/-! ### 1. shape and errors (any coefficient type) -/
section generic
variable {R : Type}

theorem bcast_names (a : Arr R) (s : List Nat) (p : Poly (Vec R (size s))) (h : a.bcast s = some p) :
    p.names = a.poly.names := by
  unfold Arr.bcast at h
  cases hm : mkIndexMap (size s) (size a.shape) (bindex a.shape s) with
  | none => simp [hm] at h
  | some σ =>
    simp only [hm, Option.map_some, Option.some.injEq] at h
    subst h; rfl

theorem commonNames_bcast (a b : Arr R) (s : List Nat) (pa pb : Poly (Vec R (size s)))
    (hpa : a.bcast s = some pa) (hpb : b.bcast s = some pb) : commonNames pa pb = a.commonNames b := by
  simp only [commonNames, Arr.commonNames, bcast_names a _ pa hpa, bcast_names b _ pb hpb]

theorem commonNamesArr_nodup (a b : Arr R) : (a.commonNames b).Nodup :=
  nodup_of_sortedLt natLt_strictTotal _ (sortedLt_sortDedup natLt_strictTotal _)

variable [Zero R] [Add R] [Sub R] [Mul R] [Div R] [BEq R]

theorem divmodPoly_names {n : Nat} (fuel : Nat) (pa pb : Poly (Vec R n)) :
    (divmodPoly fuel pa pb).1 = commonNames pa pb := rfl

theorem divmodPoly_length {n : Nat} (fuel : Nat) (pa pb : Poly (Vec R n)) :
    (divmodPoly fuel pa pb).2.length = n := by simp [divmodPoly]

theorem divmodPoly_getElem? {n : Nat} (fuel : Nat) (pa pb : Poly (Vec R n)) (i : Fin n) :
    (divmodPoly fuel pa pb).2[i.val]? =
      some (Div.divmod fuel (elemTerms (alignPair pa pb).1 i) (elemTerms (alignPair pa pb).2 i)) := by
  simp [divmodPoly]

/-- the successful branch, spelled out -/
theorem divmodArr_eq (fuel : Nat) (a b : Arr R) (s : List Nat) (pa pb : Poly (Vec R (size s)))
    (hs : bshape a.shape b.shape = some s) (hpa : a.bcast s = some pa) (hpb : b.bcast s = some pb) :
    divmodArr fuel a b = .ok (s, divmodPoly fuel pa pb) := by
  simp only [divmodArr, hs, hpa, hpb]

/-- inversion: an `.ok` result comes from the broadcast, aligned operands -/
theorem divmodArr_ok (fuel : Nat) (a b : Arr R) (s : List Nat) (names : List Name)
    (elems : List (Option (List (Expo × R) × List (Expo × R))))
    (h : divmodArr fuel a b = .ok (s, names, elems)) :
    bshape a.shape b.shape = some s ∧ ∃ pa pb, a.bcast s = some pa ∧ b.bcast s = some pb ∧
      names = a.commonNames b ∧ elems = (divmodPoly fuel pa pb).2 := by
  unfold divmodArr at h
  cases hs : bshape a.shape b.shape with
  | none => simp [hs] at h
  | some s' =>
    simp only [hs] at h
    cases hpa : a.bcast s' with
    | none => simp [hpa] at h
    | some pa =>
      cases hpb : b.bcast s' with
      | none => simp [hpa, hpb] at h
      | some pb =>
        simp only [hpa, hpb, Except.ok.injEq, Prod.mk.injEq] at h
        obtain ⟨rfl, h2⟩ := h
        refine ⟨rfl, pa, pb, hpa, hpb, ?_, ?_⟩
        · rw [← commonNames_bcast a b _ pa pb hpa hpb, ← divmodPoly_names fuel, h2]
        · rw [h2]

/-- (a) `divmodArr` on operands without zero-length axes: `valueError` exactly when the shapes do not broadcast,
never `internal`, otherwise the broadcast shape, the common names and one entry per element -/
theorem divmodArr_shape (fuel : Nat) (a b : Arr R) (ha : ∀ d ∈ a.shape, 0 < d) (hb : ∀ d ∈ b.shape, 0 < d) :
    (divmodArr fuel a b = .error .valueError ↔ bshape a.shape b.shape = none) ∧
    divmodArr fuel a b ≠ .error .internal ∧
    ∀ s, bshape a.shape b.shape = some s →
      ∃ elems, divmodArr fuel a b = .ok (s, a.commonNames b, elems) ∧ elems.length = size s := by
  cases hs : bshape a.shape b.shape with
  | none => simp [divmodArr, hs]
  | some s =>
    obtain ⟨h1, h2⟩ := Arr.bcast_total a b hs ha hb
    cases hpa : a.bcast s with
    | none => exact absurd hpa h1
    | some pa =>
      cases hpb : b.bcast s with
      | none => exact absurd hpb h2
      | some pb =>
        have he := divmodArr_eq fuel a b s pa pb hs hpa hpb
        refine ⟨by simp [he], by simp [he], ?_⟩
        intro s' hs'
        cases hs'
        refine ⟨(divmodPoly fuel pa pb).2, ?_, divmodPoly_length fuel pa pb⟩
        rw [he]
        have : (divmodPoly fuel pa pb).1 = a.commonNames b := by
          rw [divmodPoly_names, commonNames_bcast a b s pa pb hpa hpb]
        rw [← this]

/-- every successful result has the broadcast shape, the common names and one entry per element (no side
condition on the shapes) -/
theorem divmodArr_ok_shape (fuel : Nat) (a b : Arr R) (s : List Nat) (names : List Name)
    (elems : List (Option (List (Expo × R) × List (Expo × R))))
    (h : divmodArr fuel a b = .ok (s, names, elems)) :
    bshape a.shape b.shape = some s ∧ names = a.commonNames b ∧ elems.length = size s := by
  obtain ⟨hs, pa, pb, _, _, hn, he⟩ := divmodArr_ok fuel a b s names elems h
  exact ⟨hs, hn, by rw [he, divmodPoly_length]⟩
end generic

/-! ### 2. finitely many eventually-constant runs have a common fuel -/

theorem list_eventually {α β : Type} (F : Nat → α → Option β) (l : List α)
    (h : ∀ x ∈ l, ∃ n0 y, ∀ n ≥ n0, F n x = some y) :
    ∃ n0, ∃ ys : List β, ys.length = l.length ∧ ∀ n ≥ n0, l.map (F n) = ys.map some := by
  induction l with
  | nil => exact ⟨0, [], rfl, fun _ _ => rfl⟩
  | cons x l ih =>
    obtain ⟨n1, y, h1⟩ := h x (by simp)
    obtain ⟨n2, ys, hl, h2⟩ := ih (fun x' hx' => h x' (by simp [hx']))
    refine ⟨max n1 n2, y :: ys, by simp [hl], fun n hn => ?_⟩
    simp only [List.map_cons, h1 n (by omega), h2 n (by omega)]

/-! ### 3. one element of the aligned operands -/
section field
variable {K : Type} [Field K] [BEq K] [LawfulBEq K]

theorem denT_elemTerms {n : Nat} (p : Poly (Vec K n)) (i : Fin n) :
    denT p.names (elemTerms p i) = denAt p i := rfl

theorem map_fst_elemTerms {n : Nat} (p : Poly (Vec K n)) (i : Fin n) :
    (elemTerms p i).map (·.1) = p.expos := by
  simp [elemTerms, Poly.expos, List.map_map, Function.comp_def]

theorem inv_elemTerms {n : Nat} (p : Poly (Vec K n)) (hw : WF p) (i : Fin n) :
    Div.Inv p.names (elemTerms p i) := by
  refine ⟨by rw [map_fst_elemTerms]; exact hw.expos_nodup, ?_⟩
  intro t ht
  apply hw.row_len
  rw [← map_fst_elemTerms p i]
  exact List.mem_map_of_mem ht

/-- all stored coefficients zero ⇒ the zero polynomial -/
theorem denT_eq_zero_of_cols (ns : List Name) (ts : List (Expo × K)) (h : ∀ t ∈ ts, t.2 = 0) :
    denT ns ts = 0 := by
  induction ts with
  | nil => simp
  | cons t ts ih =>
    rw [denT_cons, h t (by simp), ih (fun t' ht' => h t' (by simp [ht']))]
    simp

/-- … and conversely on distinct rows of the right length -/
theorem cols_zero_of_denT_eq_zero (ns : List Name) (hn : ns.Nodup) (ts : List (Expo × K)) (hi : Div.Inv ns ts)
    (h : denT ns ts = 0) : ∀ t ∈ ts, t.2 = 0 := by
  intro t ht
  obtain ⟨j, hj, rfl⟩ := List.getElem_of_mem ht
  rw [← coeff_denT_getElem ns hn ts hi.len hi.nodup j hj, h]
  simp

theorem maxTerm_eq_none {R : Type} (p : Expo × R → Bool) (ts : List (Expo × R)) (h : ∀ t ∈ ts, p t = false) :
    Div.maxTerm p ts = none := by
  induction ts with
  | nil => rfl
  | cons t ts ih =>
    simp [Div.maxTerm, ih (fun t' ht' => h t' (by simp [ht'])), h t (by simp)]

/-- a divisor without non-zero terms: nothing is reduced (any fuel ≥ 1) -/
theorem divmod_zero_divisor (fuel : Nat) (f d : List (Expo × K)) (hd : ∀ t ∈ d, t.2 = 0) :
    Div.divmod (fuel + 1) f d = some ([], f.filter fun t => !(t.2 == 0)) := by
  have : Div.maxTerm (fun t : Expo × K => !(t.2 == 0)) d = none :=
    maxTerm_eq_none _ d (fun t ht => by simp [hd t ht])
  simp [Div.divmod, Div.divmodFuel, Div.step, this]

/-- one element of two aligned same-shape operands -/
theorem divmodPoly_elem {n : Nat} (pa pb : Poly (Vec K n)) (wa : WF pa) (wb : WF pb) (i : Fin n) :
    Div.Inv (commonNames pa pb) (elemTerms (alignPair pa pb).1 i) ∧
    Div.Inv (commonNames pa pb) (elemTerms (alignPair pa pb).2 i) ∧
    (elemTerms (alignPair pa pb).1 i).map (·.1) = (elemTerms (alignPair pa pb).2 i).map (·.1) ∧
    denT (commonNames pa pb) (elemTerms (alignPair pa pb).1 i) = denAt pa i ∧
    denT (commonNames pa pb) (elemTerms (alignPair pa pb).2 i) = denAt pb i := by
  refine ⟨inv_elemTerms _ (WF_alignPair_fst pa pb wa wb) i, inv_elemTerms _ (WF_alignPair_snd pa pb wa wb) i, ?_,
    (denT_elemTerms (alignPair pa pb).1 i).trans (denAt_alignPair_fst pa pb wa wb i),
    (denT_elemTerms (alignPair pa pb).2 i).trans (denAt_alignPair_snd pa pb wa wb i)⟩
  rw [map_fst_elemTerms, map_fst_elemTerms, expos_alignPair]

/-- what `divmodArr` runs at flat position `i`: two term lists on the common names, on the same (pairwise distinct)
rows, that denote the broadcast elements of `a` and `b` — independently of the fuel -/
theorem divmodArr_elem (a b : Arr K) (ha : a.WF) (hb : b.WF) (s : List Nat) (pa pb : Poly (Vec K (size s)))
    (hpa : a.bcast s = some pa) (hpb : b.bcast s = some pb) :
    ∃ (σa : Fin (size s) → Fin (size a.shape)) (σb : Fin (size s) → Fin (size b.shape)),
      (∀ i, (σa i).val = bindex a.shape s i.val) ∧ (∀ i, (σb i).val = bindex b.shape s i.val) ∧
      ∀ i : Fin (size s), ∃ f d : List (Expo × K),
        Div.Inv (a.commonNames b) f ∧ Div.Inv (a.commonNames b) d ∧
        f.map (·.1) = d.map (·.1) ∧
        denT (a.commonNames b) f = a.elem (σa i) ∧ denT (a.commonNames b) d = b.elem (σb i) ∧
        ∀ fuel, (divmodPoly fuel pa pb).2[i.val]? = some (Div.divmod fuel f d) := by
  obtain ⟨σa, hσa, ea⟩ := Arr.bcast_spec a s pa hpa
  obtain ⟨σb, hσb, eb⟩ := Arr.bcast_spec b s pb hpb
  refine ⟨σa, σb, hσa, hσb, fun i => ?_⟩
  have wa : WF pa := ea ▸ WF_mapCoef _ _ ha
  have wb : WF pb := eb ▸ WF_mapCoef _ _ hb
  have da : denAt pa i = a.elem (σa i) := by rw [ea]; exact gather_denAt σa a.poly i
  have db : denAt pb i = b.elem (σb i) := by rw [eb]; exact gather_denAt σb b.poly i
  obtain ⟨i1, i2, hrows, d1, d2⟩ := divmodPoly_elem pa pb wa wb i
  rw [commonNames_bcast a b s pa pb hpa hpb] at i1 i2 d1 d2
  exact ⟨_, _, i1, i2, hrows, d1.trans da, d2.trans db, fun fuel => divmodPoly_getElem? fuel pa pb i⟩

/-! ### 4. the theorems -/

/-- (b) the division identity at every element that finished, quotient and remainder are well-formed term lists,
and the remainder is reduced: when the divisor element is not zero, some non-zero term of it (its leading term in
lexsort order) divides no non-zero term of the remainder -/
theorem divmodArr_identity (fuel : Nat) (a b : Arr K) (ha : a.WF) (hb : b.WF) (s : List Nat) (names : List Name)
    (elems : List (Option (List (Expo × K) × List (Expo × K))))
    (h : divmodArr fuel a b = .ok (s, names, elems)) :
    ∃ (σa : Fin (size s) → Fin (size a.shape)) (σb : Fin (size s) → Fin (size b.shape)),
      (∀ i, (σa i).val = bindex a.shape s i.val) ∧ (∀ i, (σb i).val = bindex b.shape s i.val) ∧
      ∀ (i : Fin (size s)) (q r : List (Expo × K)), elems[i.val]? = some (some (q, r)) →
        a.elem (σa i) = denT names q * b.elem (σb i) + denT names r ∧
        Div.Inv names q ∧ Div.Inv names r ∧
        (b.elem (σb i) ≠ 0 → ∃ lead : Expo × K, lead.2 ≠ 0 ∧ lead.1.length = names.length ∧
          coeff (fsN names lead.1) (b.elem (σb i)) = lead.2 ∧
          ∀ t ∈ r, t.2 ≠ 0 → Div.divides lead.1 t.1 = false) := by
  obtain ⟨_, pa, pb, hpa, hpb, rfl, rfl⟩ := divmodArr_ok fuel a b s names elems h
  obtain ⟨σa, σb, hσa, hσb, hel⟩ := divmodArr_elem a b ha hb s pa pb hpa hpb
  refine ⟨σa, σb, hσa, hσb, fun i q r hqr => ?_⟩
  obtain ⟨f, d, hf, hd, _, hdf, hdd, hrun⟩ := hel i
  rw [hrun fuel] at hqr
  have hqr : Div.divmod fuel f d = some (q, r) := by simpa using hqr
  have hid := Div.divmod_identity _ fuel f d q r hf.nodup hf.len hd.len hqr
  have hinv := Div.divmod_inv _ fuel f d q r hf.nodup hf.len hd.len hqr
  refine ⟨by rw [← hdf, ← hdd]; exact hid, hinv.1, hinv.2, fun hne => ?_⟩
  have hex : ∃ t0 ∈ d, t0.2 ≠ 0 := by
    by_contra hc
    apply hne
    rw [← hdd]
    apply denT_eq_zero_of_cols
    intro t ht
    by_contra h0
    exact hc ⟨t, ht, h0⟩
  obtain ⟨t0, ht0, hnz⟩ := hex
  obtain ⟨lead, _, hmem, hl2, hred⟩ := Div.divmod_remainder_reduced' fuel f d q r t0 ht0 hnz hqr
  refine ⟨lead, hl2, hd.len lead hmem, ?_, hred⟩
  obtain ⟨j, hj, rfl⟩ := List.getElem_of_mem hmem
  rw [← hdd]
  exact coeff_denT_getElem _ (commonNamesArr_nodup a b) d hd.len hd.nodup j hj

/-- (c) termination for the whole array: from some fuel on no element runs out of fuel, and the result no longer
depends on the fuel -/
theorem divmodArr_terminates (a b : Arr K) (ha : a.WF) (hb : b.WF)
    (hpa : ∀ d ∈ a.shape, 0 < d) (hpb : ∀ d ∈ b.shape, 0 < d) (s : List Nat)
    (hs : bshape a.shape b.shape = some s) :
    ∃ fuel₀, ∃ qrs : List (List (Expo × K) × List (Expo × K)), qrs.length = size s ∧
      ∀ fuel ≥ fuel₀, divmodArr fuel a b = .ok (s, a.commonNames b, qrs.map some) := by
  obtain ⟨h1, h2⟩ := Arr.bcast_total a b hs hpa hpb
  cases hpa' : a.bcast s with
  | none => exact absurd hpa' h1
  | some pa =>
    cases hpb' : b.bcast s with
    | none => exact absurd hpb' h2
    | some pb =>
      obtain ⟨σa, σb, _, _, hel⟩ := divmodArr_elem a b ha hb s pa pb hpa' hpb'
      have hn : (divmodPoly 0 pa pb).1 = a.commonNames b := by
        rw [divmodPoly_names, commonNames_bcast a b s pa pb hpa' hpb']
      obtain ⟨fuel₀, qrs, hlen, hall⟩ := list_eventually
        (fun fuel (i : Fin (size s)) =>
          Div.divmod fuel (elemTerms (alignPair pa pb).1 i) (elemTerms (alignPair pa pb).2 i))
        (List.finRange (size s)) (by
          intro i _
          obtain ⟨f, d, hf, hd, _, _, _, hrun⟩ := hel i
          obtain ⟨n0, q, r, hq⟩ := Div.divmod_terminates_mono _ f d hf.len hd.len hf.nodup hd.nodup
          refine ⟨n0, (q, r), fun n hn => ?_⟩
          have := hrun n
          rw [divmodPoly_getElem?] at this
          rw [Option.some.inj this]
          exact hq n hn)
      refine ⟨fuel₀, qrs, by simpa using hlen, fun fuel hf => ?_⟩
      rw [divmodArr_eq fuel a b s pa pb hs hpa' hpb', ← hn, ← hall fuel hf]
      rfl

/-- (c′) in particular every element is `some` from that fuel on -/
theorem divmodArr_terminates_isSome (a b : Arr K) (ha : a.WF) (hb : b.WF)
    (hpa : ∀ d ∈ a.shape, 0 < d) (hpb : ∀ d ∈ b.shape, 0 < d) (s : List Nat)
    (hs : bshape a.shape b.shape = some s) :
    ∃ fuel₀, ∀ fuel ≥ fuel₀, ∃ elems, divmodArr fuel a b = .ok (s, a.commonNames b, elems) ∧
      elems.length = size s ∧ ∀ e ∈ elems, e.isSome = true := by
  obtain ⟨fuel₀, qrs, hl, h⟩ := divmodArr_terminates a b ha hb hpa hpb s hs
  refine ⟨fuel₀, fun fuel hf => ⟨qrs.map some, h fuel hf, by simpa using hl, ?_⟩⟩
  intro e he
  obtain ⟨x, _, rfl⟩ := List.mem_map.1 he
  rfl

/-- (d) a zero divisor element: with any fuel ≥ 1 the element finishes, the quotient is `[]` and the remainder is
the dividend element (its non-zero terms) -/
theorem divmodArr_zero_divisor (fuel : Nat) (a b : Arr K) (ha : a.WF) (hb : b.WF) (s : List Nat)
    (names : List Name) (elems : List (Option (List (Expo × K) × List (Expo × K))))
    (h : divmodArr (fuel + 1) a b = .ok (s, names, elems)) :
    ∃ (σa : Fin (size s) → Fin (size a.shape)) (σb : Fin (size s) → Fin (size b.shape)),
      (∀ i, (σa i).val = bindex a.shape s i.val) ∧ (∀ i, (σb i).val = bindex b.shape s i.val) ∧
      ∀ i : Fin (size s), b.elem (σb i) = 0 →
        ∃ r, elems[i.val]? = some (some ([], r)) ∧ denT names r = a.elem (σa i) ∧ ∀ t ∈ r, t.2 ≠ 0 := by
  obtain ⟨_, pa, pb, hpa, hpb, rfl, rfl⟩ := divmodArr_ok (fuel + 1) a b s names elems h
  obtain ⟨σa, σb, hσa, hσb, hel⟩ := divmodArr_elem a b ha hb s pa pb hpa hpb
  refine ⟨σa, σb, hσa, hσb, fun i hz => ?_⟩
  obtain ⟨f, d, hf, hd, _, hdf, hdd, hrun⟩ := hel i
  have hd0 := cols_zero_of_denT_eq_zero _ (commonNamesArr_nodup a b) d hd (hdd.trans hz)
  refine ⟨f.filter fun t => !(t.2 == 0), ?_, ?_, ?_⟩
  · rw [hrun (fuel + 1), divmod_zero_divisor fuel f d hd0]
  · rw [Div.denT_filter_nz, hdf]
  · intro t ht
    simpa using (List.mem_filter.1 ht).2
end field
end Np

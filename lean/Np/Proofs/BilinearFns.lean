import Np.Model.BilinearFns
import Np.Proofs.ReduceFns
/-! C10: the pair tables of `Np.BilinearFns` (outer, inner, matmul, dot) are what numpy's index arithmetic prescribes,
in terms of multi-indices, and `bilinearOp` run on them computes the sums of products of the named elements. -/
namespace Np.BilinearFns
open Np.Shape Np.ReduceFns

/-! ### 0. reading the tables -/

theorem getD_map_range (f : Nat → Nat) {N p : Nat} (hp : p < N) : ((List.range N).map f).getD p 0 = f p := by
  simp [List.getD_eq_getElem?_getD, List.getElem?_map, List.getElem?_range hp]

theorem pairs_getD (g : Nat → List Nat × List Nat) {k t : Nat} (ht : t < k) :
    ((List.range k).map g).getD t ([], []) = g t := by
  simp [List.getD_eq_getElem?_getD, List.getElem?_map, List.getElem?_range ht]

/-- **(a)** and **(b)**: every pair has one entry per output position (`N` of them), and every entry is a 1-based
position inside the operand (`1..na` resp. `1..nb`): never the zero fill, never out of range -/
def PairsOK (na nb N : Nat) (P : Pairs) : Prop :=
  ∀ p ∈ P, p.1.length = N ∧ p.2.length = N ∧ (∀ x ∈ p.1, 1 ≤ x ∧ x ≤ na) ∧ (∀ x ∈ p.2, 1 ≤ x ∧ x ≤ nb)

theorem lt2 {i t m k : Nat} (hi : i < m) (ht : t < k) : i * k + t < m * k := by
  have := Nat.mul_le_mul_right k (show i + 1 ≤ m from hi)
  rw [Nat.add_mul, Nat.one_mul] at this
  omega

theorem ravel2 {m n i j : Nat} (hi : i < m) (hj : j < n) : ravel [m, n] [i, j] = i * n + j := by
  simp [ravel, Nat.mod_eq_of_lt hi, Nat.mod_eq_of_lt hj]

theorem size2 (m n : Nat) : size [m, n] = m * n := by simp

theorem InR2 {m n i j : Nat} (hi : i < m) (hj : j < n) : InR [i, j] [m, n] := .cons hi (.cons hj .nil)

/-! ### 1. `matmul2P` / `dot2P` -/

/-- **`(m,k) @ (k,n)`**: (a), (b) as `PairsOK`; (c) pair `t < k` at the output multi-index `(i, j)` reads `a[i, t]` and
`b[t, j]` -/
theorem matmul2P_spec (m k n : Nat) : ∃ P, matmul2P m k n = some ([m, n], P) ∧ P.length = k ∧
    PairsOK (size [m, k]) (size [k, n]) (size [m, n]) P ∧
    ∀ i j t, i < m → j < n → t < k →
      (P.getD t ([], [])).1.getD (ravel [m, n] [i, j]) 0 = ravel [m, k] [i, t] + 1 ∧
      (P.getD t ([], [])).2.getD (ravel [m, n] [i, j]) 0 = ravel [k, n] [t, j] + 1 := by
  refine ⟨_, rfl, by simp, ?_, ?_⟩
  · intro p hp
    obtain ⟨t, ht, rfl⟩ := List.mem_map.1 hp
    have ht := List.mem_range.1 ht
    simp only [size2]
    refine ⟨by simp, by simp, ?_, ?_⟩
    · intro x hx
      obtain ⟨q, hq, rfl⟩ := List.mem_map.1 hx
      have hq := List.mem_range.1 hq
      have := lt2 (Nat.div_lt_of_lt_mul (by rw [Nat.mul_comm]; exact hq)) ht
      omega
    · intro x hx
      obtain ⟨q, hq, rfl⟩ := List.mem_map.1 hx
      have hq := List.mem_range.1 hq
      have hn : 0 < n := Nat.pos_of_ne_zero fun h0 => by simp [h0] at hq
      have := lt2 ht (Nat.mod_lt q hn)
      omega
  · intro i j t hi hj ht
    have hp : i * n + j < m * n := lt2 hi hj
    rw [pairs_getD _ ht, ravel2 hi hj, ravel2 hi ht, ravel2 ht hj, getD_map_range _ hp, getD_map_range _ hp,
      flat_div hj, flat_mod hj]
    exact ⟨rfl, rfl⟩

/-- the literal flat form: pair `t` at flat output position `i * n + j` is `(i * k + t + 1, t * n + j + 1)` -/
theorem matmul2P_flat (m k n : Nat) : ∃ P, matmul2P m k n = some ([m, n], P) ∧
    ∀ i j t, i < m → j < n → t < k →
      (P.getD t ([], [])).1.getD (i * n + j) 0 = i * k + t + 1 ∧
      (P.getD t ([], [])).2.getD (i * n + j) 0 = t * n + j + 1 := by
  obtain ⟨P, hP, -, -, h⟩ := matmul2P_spec m k n
  refine ⟨P, hP, fun i j t hi hj ht => ?_⟩
  have := h i j t hi hj ht
  rwa [ravel2 hi hj, ravel2 hi ht, ravel2 ht hj] at this

theorem dot2P_eq (m k n : Nat) : dot2P m k n = matmul2P m k n := rfl

/-! ### 2. `outerP`, `innerVecP` -/

/-- **`numpy.outer`**: shape `[size sa, size sb]`, one pair; (c) the output multi-index `(i, j)` reads `a.flat[i]` and
`b.flat[j]`, i.e. the elements at the multi-indices `x`, `y` with `ravel sa x = i`, `ravel sb y = j` -/
theorem outerP_spec (sa sb : List Nat) : ∃ p, outerP sa sb = some ([size sa, size sb], [p]) ∧
    PairsOK (size sa) (size sb) (size [size sa, size sb]) [p] ∧
    (∀ i j, i < size sa → j < size sb →
      p.1.getD (ravel [size sa, size sb] [i, j]) 0 = i + 1 ∧ p.2.getD (ravel [size sa, size sb] [i, j]) 0 = j + 1) ∧
    ∀ x y, InR x sa → InR y sb →
      p.1.getD (ravel [size sa, size sb] [ravel sa x, ravel sb y]) 0 = ravel sa x + 1 ∧
      p.2.getD (ravel [size sa, size sb] [ravel sa x, ravel sb y]) 0 = ravel sb y + 1 := by
  have key : ∀ i j, i < size sa → j < size sb →
      ((List.range (size sa * size sb)).map fun p => p / size sb + 1).getD (ravel [size sa, size sb] [i, j]) 0 = i + 1 ∧
      ((List.range (size sa * size sb)).map fun p => p % size sb + 1).getD (ravel [size sa, size sb] [i, j]) 0 = j + 1 := by
    intro i j hi hj
    rw [ravel2 hi hj, getD_map_range _ (lt2 hi hj), getD_map_range _ (lt2 hi hj), flat_div hj, flat_mod hj]
    exact ⟨rfl, rfl⟩
  refine ⟨_, rfl, ?_, key, fun x y hx hy => key _ _ hx.ravel_lt hy.ravel_lt⟩
  intro p hp
  rw [List.mem_singleton] at hp
  subst hp
  simp only [size2]
  refine ⟨by simp, by simp, ?_, ?_⟩
  · intro x hx
    obtain ⟨q, hq, rfl⟩ := List.mem_map.1 hx
    have := Nat.div_lt_of_lt_mul (m := q) (n := size sb) (k := size sa) (by rw [Nat.mul_comm]; exact List.mem_range.1 hq)
    generalize q / size sb = d at this ⊢
    omega
  · intro x hx
    obtain ⟨q, hq, rfl⟩ := List.mem_map.1 hx
    have hq := List.mem_range.1 hq
    have hn : 0 < size sb := Nat.pos_of_ne_zero fun h0 => by simp [h0] at hq
    have := Nat.mod_lt q hn
    omega

/-- **`numpy.inner` of two vectors of length `n`**: shape `[]` (one output position, `ravel [] [] = 0`), `n` pairs;
pair `t` reads `a[t]` and `b[t]` -/
theorem innerVecP_spec (n : Nat) : ∃ P, innerVecP n = some ([], P) ∧ P.length = n ∧
    PairsOK (size [n]) (size [n]) (size []) P ∧
    ∀ t, t < n → (P.getD t ([], [])).1.getD (ravel [] []) 0 = ravel [n] [t] + 1 ∧
      (P.getD t ([], [])).2.getD (ravel [] []) 0 = ravel [n] [t] + 1 := by
  refine ⟨_, rfl, by simp, ?_, ?_⟩
  · intro p hp
    obtain ⟨t, ht, rfl⟩ := List.mem_map.1 hp
    have ht := List.mem_range.1 ht
    simp
    omega
  · intro t ht
    rw [pairs_getD _ ht]
    simp [ravel, Nat.mod_eq_of_lt ht]

/-! ### 3. broadcasting a stack multi-index into an operand -/

/-- the multi-index `bmulti sA s` that the broadcast multi-index `s` reads in an operand of shape `sA` lies inside
`sA` (hypotheses as delivered by `bshape_spec`) -/
theorem bmulti_InR_of {sA st s : List Nat} (hl : sA.length ≤ st.length)
    (hd : ∀ k, k < sA.length → sA.reverse[k]? = st.reverse[k]? ∨ sA.reverse[k]? = some 1) (hs : InR s st) :
    InR (bmulti sA s) sA := by
  have hsl := hs.length_eq
  refine List.forall₂_iff_get.2 ⟨bmulti_length (by omega), ?_⟩
  intro i h1 h2
  simp only [List.get_eq_getElem, bmulti, List.getElem_zipWith, List.getElem_drop]
  have hk := hd (sA.length - 1 - i) (by omega)
  rw [List.getElem?_reverse (by omega), List.getElem?_reverse (by omega)] at hk
  have e1 : sA.length - 1 - (sA.length - 1 - i) = i := by omega
  have e2 : st.length - 1 - (sA.length - 1 - i) = s.length - sA.length + i := by omega
  have h3 : s.length - sA.length + i < st.length := by omega
  rw [e1, e2, List.getElem?_eq_getElem h2, List.getElem?_eq_getElem h3] at hk
  have hlt := (List.forall₂_iff_get.1 hs).2 (s.length - sA.length + i) (by omega) h3
  simp only [List.get_eq_getElem] at hlt
  by_cases h1' : sA[i] = 1
  · simp [h1']
  · rcases hk with hk | hk
    · simp only [Option.some.injEq] at hk
      rw [← hk] at hlt
      simpa [h1'] using hlt
    · simp only [Option.some.injEq] at hk
      exact absurd hk h1'

theorem bmulti_InR {stA stB st s : List Nat} (h : bshape stA stB = some st) (hs : InR s st) :
    InR (bmulti stA s) stA ∧ InR (bmulti stB s) stB := by
  obtain ⟨hl, ha, hb⟩ := bshape_spec h
  exact ⟨bmulti_InR_of (by omega) ha hs, bmulti_InR_of (by omega) hb hs⟩

/-- coordinate by coordinate (axes counted from the right, as numpy aligns shapes): the operand is read at the
coordinate of `s`, or at 0 where the operand's dimension is 1 -/
theorem bmulti_getElem {sA s : List Nat} (hl : sA.length ≤ s.length) {i : Nat} (hi : i < sA.length) :
    (bmulti sA s)[i]'(by rw [bmulti_length hl]; exact hi) =
      if sA[i] = 1 then 0 else s[s.length - sA.length + i] := by
  simp [bmulti, List.getElem_zipWith, List.getElem_drop]

/-- the flat broadcast index of the flat position of `s` is the flat position of `bmulti sA s` -/
theorem bindex_ravel {sA st s : List Nat} (hs : InR s st) : bindex sA st (ravel st s) = ravel sA (bmulti sA s) := by
  rw [bindex, ReduceFns.unravel_ravel hs]

theorem ravel_mat {st : List Nat} {m n : Nat} {s : List Nat} {i j : Nat} (hs : InR s st) (hi : i < m) (hj : j < n) :
    ravel (st ++ [m, n]) (s ++ [i, j]) = (ravel st s * m + i) * n + j := by
  rw [ravel_mid [n] [j] hs hi]
  simp [ravel, Nat.mod_eq_of_lt hj]

theorem size_mat (st : List Nat) (m n : Nat) : size (st ++ [m, n]) = size st * (m * n) := by
  rw [size_split]; simp

/-! ### 4. `matmulCore`, `matmulP` -/

/-- **stacks of matrices** `stA ++ [m, k]` and `stB ++ [k, n]` whose stack shapes broadcast to `st`: output shape
`st ++ [m, n]`, `k` pairs; (a), (b) as `PairsOK`; (c) pair `t` at the output multi-index `s ++ [i, j]` reads `a` at
`bmulti stA s ++ [i, t]` and `b` at `bmulti stB s ++ [t, j]`, both inside the operands -/
theorem matmulCore_spec {stA stB st : List Nat} (m k n : Nat) (h : bshape stA stB = some st) :
    ∃ P, matmulCore stA stB m k n = some (st ++ [m, n], P) ∧ P.length = k ∧
    PairsOK (size (stA ++ [m, k])) (size (stB ++ [k, n])) (size (st ++ [m, n])) P ∧
    ∀ s i j t, InR s st → i < m → j < n → t < k →
      InR (bmulti stA s ++ [i, t]) (stA ++ [m, k]) ∧ InR (bmulti stB s ++ [t, j]) (stB ++ [k, n]) ∧
      (P.getD t ([], [])).1.getD (ravel (st ++ [m, n]) (s ++ [i, j])) 0 =
        ravel (stA ++ [m, k]) (bmulti stA s ++ [i, t]) + 1 ∧
      (P.getD t ([], [])).2.getD (ravel (st ++ [m, n]) (s ++ [i, j])) 0 =
        ravel (stB ++ [k, n]) (bmulti stB s ++ [t, j]) + 1 := by
  refine ⟨_, by simp only [matmulCore, h]; rfl, by simp, ?_, ?_⟩
  · intro p hp
    obtain ⟨t, ht, rfl⟩ := List.mem_map.1 hp
    have ht := List.mem_range.1 ht
    simp only [size_mat]
    have key : ∀ q, q < size st * (m * n) → 0 < m ∧ 0 < n ∧ ∃ s, InR s st ∧ ravel st s = q / (m * n) := by
      intro q hq
      refine ⟨Nat.pos_of_ne_zero fun h0 => by simp [h0] at hq, Nat.pos_of_ne_zero fun h0 => by simp [h0] at hq,
        exists_multi (Nat.div_lt_of_lt_mul (by rw [Nat.mul_comm]; exact hq))⟩
    refine ⟨by simp, by simp, ?_, ?_⟩
    · intro x hx
      obtain ⟨q, hq, rfl⟩ := List.mem_map.1 hx
      obtain ⟨hm, hn, s, hs, hsr⟩ := key q (List.mem_range.1 hq)
      rw [← hsr, bindex_ravel hs]
      have := flat_lt (bmulti_InR h hs).1.ravel_lt (Nat.mod_lt (q / n) hm) ht
      omega
    · intro x hx
      obtain ⟨q, hq, rfl⟩ := List.mem_map.1 hx
      obtain ⟨hm, hn, s, hs, hsr⟩ := key q (List.mem_range.1 hq)
      rw [← hsr, bindex_ravel hs]
      have := flat_lt (bmulti_InR h hs).2.ravel_lt ht (Nat.mod_lt q hn)
      omega
  · intro s i j t hs hi hj ht
    obtain ⟨hA, hB⟩ := bmulti_InR h hs
    obtain ⟨h1, h2, h3⟩ := flat3 (o := ravel st s) hi hj
    have hp : (ravel st s * m + i) * n + j < size st * (m * n) := flat_lt hs.ravel_lt hi hj
    refine ⟨List.rel_append hA (InR2 hi ht), List.rel_append hB (InR2 ht hj), ?_, ?_⟩
    · rw [pairs_getD _ ht, ravel_mat hs hi hj, ravel_mat hA hi ht, getD_map_range _ hp, h1, h2, bindex_ravel hs]
    · rw [pairs_getD _ ht, ravel_mat hs hi hj, ravel_mat hB ht hj, getD_map_range _ hp, h2, h3, bindex_ravel hs]

/-- `matmulP` on shapes written as stack ++ matrix -/
theorem matmulP_split (stA stB : List Nat) (m k k' n : Nat) :
    matmulP (stA ++ [m, k]) (stB ++ [k', n]) = if k = k' then matmulCore stA stB m k n else none := by
  have e : ∀ (st : List Nat) (x y : Nat), (st ++ [x, y]).length - 2 = st.length := by intro st x y; simp
  have g0 : ∀ (st : List Nat) (x y : Nat), (st ++ [x, y]).getD st.length 0 = x := by intro st x y; simp
  have g1 : ∀ (st : List Nat) (x y : Nat), (st ++ [x, y]).getD (st.length + 1) 0 = y := by
    intro st x y
    rw [List.getD_eq_getElem?_getD, List.getElem?_append_right (by omega)]
    simp
  have hl : 2 ≤ (stA ++ [m, k]).length ∧ 2 ≤ (stB ++ [k', n]).length := by simp
  simp only [matmulP, hl, and_self, if_true, e, g0, g1, List.take_left', beq_iff_eq]

/-- every shape with at least two axes is a stack followed by a matrix shape -/
theorem shape_split2 {s : List Nat} (h : 2 ≤ s.length) :
    s = s.take (s.length - 2) ++ [s.getD (s.length - 2) 0, s.getD (s.length - 1) 0] := by
  conv_lhs => rw [← List.take_append_drop (s.length - 2) s]
  congr 1
  apply List.ext_getElem
  · simp; omega
  · intro i h1 h2
    have : i = 0 ∨ i = 1 := by simp at h2; omega
    rcases this with rfl | rfl
    · simp [List.getD_eq_getElem?_getD, List.getElem?_eq_getElem (show s.length - 2 < s.length by omega)]
    · have e : s.length - 2 + 1 = s.length - 1 := by omega
      simp [List.getD_eq_getElem?_getD, e, List.getElem?_eq_getElem (show s.length - 1 < s.length by omega)]

/-- **`numpy.matmul`** for `a.ndim ≥ 2`, `b.ndim ≥ 2` (shapes `stA ++ [m, k]`, `stB ++ [k, n]`, stacks broadcasting to
`st`): exactly the statement of `matmulCore_spec` -/
theorem matmulP_spec {stA stB st : List Nat} (m k n : Nat) (h : bshape stA stB = some st) :
    ∃ P, matmulP (stA ++ [m, k]) (stB ++ [k, n]) = some (st ++ [m, n], P) ∧ P.length = k ∧
    PairsOK (size (stA ++ [m, k])) (size (stB ++ [k, n])) (size (st ++ [m, n])) P ∧
    ∀ s i j t, InR s st → i < m → j < n → t < k →
      InR (bmulti stA s ++ [i, t]) (stA ++ [m, k]) ∧ InR (bmulti stB s ++ [t, j]) (stB ++ [k, n]) ∧
      (P.getD t ([], [])).1.getD (ravel (st ++ [m, n]) (s ++ [i, j])) 0 =
        ravel (stA ++ [m, k]) (bmulti stA s ++ [i, t]) + 1 ∧
      (P.getD t ([], [])).2.getD (ravel (st ++ [m, n]) (s ++ [i, j])) 0 =
        ravel (stB ++ [k, n]) (bmulti stB s ++ [t, j]) + 1 := by
  rw [matmulP_split, if_pos rfl]
  exact matmulCore_spec m k n h

/-- where numpy raises: fewer than two axes (for `matmulP`; see `matmulAnyP`), different inner dimensions, stacks
that do not broadcast -/
theorem matmulP_none_ndim (sa sb : List Nat) (h : sa.length < 2 ∨ sb.length < 2) : matmulP sa sb = none := by
  have : ¬ (2 ≤ sa.length ∧ 2 ≤ sb.length) := by omega
  simp only [matmulP, this, if_false]

theorem matmulP_none_inner (stA stB : List Nat) (m k k' n : Nat) (h : k ≠ k') :
    matmulP (stA ++ [m, k]) (stB ++ [k', n]) = none := by
  rw [matmulP_split, if_neg h]

theorem matmulP_none_stack (stA stB : List Nat) (m k k' n : Nat) (h : bshape stA stB = none) :
    matmulP (stA ++ [m, k]) (stB ++ [k', n]) = none := by
  rw [matmulP_split]
  simp only [matmulCore, h, ite_self]

/-- for two 2-d operands `matmulP` is `matmul2P` (the same shape and the same table) -/
theorem matmulP_2d (m k n : Nat) : matmulP [m, k] [k, n] = matmul2P m k n := by
  have := matmulP_split [] [] m k k n
  simp only [List.nil_append, if_true] at this
  rw [this]
  have hb : bshape [] [] = some [] := rfl
  simp only [matmulCore, hb, matmul2P, List.nil_append, size_nil, Nat.one_mul]
  congr 2
  apply List.map_congr_left
  intro t _
  have h0 : ∀ q, bindex [] [] q = 0 := fun _ => rfl
  congr 1 <;> apply List.map_congr_left <;> intro p hp
  · have hp := List.mem_range.1 hp
    rw [h0, Nat.zero_mul, Nat.zero_add,
      Nat.mod_eq_of_lt (Nat.div_lt_of_lt_mul (by rw [Nat.mul_comm]; exact hp))]
  · rw [h0, Nat.zero_mul, Nat.zero_add]

/-! ### 5. 1-d operands of `matmul` -/

theorem matmulVec_eq (m k n : Nat) :
    matmulVecMatP k n = (matmul2P 1 k n).map (fun r => ([n], r.2)) ∧
    matmulMatVecP m k = (matmul2P m k 1).map (fun r => ([m], r.2)) ∧
    matmulVecVecP k = (matmul2P 1 k 1).map (fun r => ([], r.2)) := ⟨rfl, rfl, rfl⟩

/-- **`(k,) @ (k,n) → (n,)`**: pair `t` at output `j` reads `a[t]` and `b[t, j]` -/
theorem matmulVecMatP_spec (k n : Nat) : ∃ P, matmulVecMatP k n = some ([n], P) ∧ P.length = k ∧
    PairsOK (size [k]) (size [k, n]) (size [n]) P ∧
    ∀ j t, j < n → t < k → (P.getD t ([], [])).1.getD (ravel [n] [j]) 0 = ravel [k] [t] + 1 ∧
      (P.getD t ([], [])).2.getD (ravel [n] [j]) 0 = ravel [k, n] [t, j] + 1 := by
  obtain ⟨P, hP, hl, hok, h⟩ := matmul2P_spec 1 k n
  refine ⟨P, by simp [matmulVecMatP, hP], hl, by simpa [PairsOK] using hok, fun j t hj ht => ?_⟩
  have := h 0 j t Nat.one_pos hj ht
  simpa [ravel, Nat.mod_eq_of_lt hj, Nat.mod_eq_of_lt ht] using this

/-- **`(m,k) @ (k,) → (m,)`**: pair `t` at output `i` reads `a[i, t]` and `b[t]` -/
theorem matmulMatVecP_spec (m k : Nat) : ∃ P, matmulMatVecP m k = some ([m], P) ∧ P.length = k ∧
    PairsOK (size [m, k]) (size [k]) (size [m]) P ∧
    ∀ i t, i < m → t < k → (P.getD t ([], [])).1.getD (ravel [m] [i]) 0 = ravel [m, k] [i, t] + 1 ∧
      (P.getD t ([], [])).2.getD (ravel [m] [i]) 0 = ravel [k] [t] + 1 := by
  obtain ⟨P, hP, hl, hok, h⟩ := matmul2P_spec m k 1
  refine ⟨P, by simp [matmulMatVecP, hP], hl, by simpa [PairsOK] using hok, fun i t hi ht => ?_⟩
  have := h i 0 t hi Nat.one_pos ht
  simpa [ravel, Nat.mod_eq_of_lt hi, Nat.mod_eq_of_lt ht] using this

/-- **`(k,) @ (k,) → ()`** is `inner` of the two vectors -/
theorem matmulVecVecP_eq (k : Nat) : matmulVecVecP k = innerVecP k := by
  simp only [matmulVecVecP, matmul2P, innerVecP, Option.map_some]
  congr 2
  apply List.map_congr_left
  intro t _
  simp

/-! ### 6. `matmulAnyP`: numpy's promotion of 1-d operands -/

theorem bshape_nil_left (t : List Nat) : bshape [] t = some t := by simp [bshape, bshapeRev]
theorem bshape_nil_right (s : List Nat) : bshape s [] = some s := by simp [bshape, bshapeRev_nil_right]

/-- an operand that has the broadcast shape is read at the output multi-index itself -/
theorem bmulti_self {s st : List Nat} (hs : InR s st) : bmulti st s = s := by
  simp only [bmulti, hs.length_eq, Nat.sub_self, List.drop_zero]
  exact zipWith_one_of_lt hs

theorem bmulti_nil (s : List Nat) : bmulti [] s = [] := by simp [bmulti]

/-- with at least two axes on both sides nothing is promoted: `matmulAnyP` is `matmulP` -/
theorem matmulAnyP_ge2 {sa sb : List Nat} (ha : 2 ≤ sa.length) (hb : 2 ≤ sb.length) :
    matmulAnyP sa sb = matmulP sa sb := by
  obtain ⟨stA, m, k, rfl⟩ : ∃ stA m k, sa = stA ++ [m, k] := ⟨_, _, _, shape_split2 ha⟩
  obtain ⟨stB, k', n, rfl⟩ : ∃ stB k' n, sb = stB ++ [k', n] := ⟨_, _, _, shape_split2 hb⟩
  have h1 : ¬ ((stA ++ [m, k]).length = 0 ∨ (stB ++ [k', n]).length = 0) := by simp
  have h2 : (stA ++ [m, k]).length ≠ 1 := by simp
  have h3 : (stB ++ [k', n]).length ≠ 1 := by simp
  simp only [matmulAnyP, h1, h2, h3, if_false]
  rw [matmulP_split]
  by_cases hk : k = k'
  · rw [if_pos hk]
    cases hb : bshape stA stB with
    | none => simp [matmulCore, hb]
    | some st => simp [matmulCore, hb]
  · rw [if_neg hk]

theorem matmulAnyP_none_scalar (sa sb : List Nat) (h : sa = [] ∨ sb = []) : matmulAnyP sa sb = none := by
  have : sa.length = 0 ∨ sb.length = 0 := by rcases h with rfl | rfl <;> simp
  simp only [matmulAnyP, this, if_true]

/-- **`(k,) @ (…, k, n) → (…, n)`**: pair `t` at the output multi-index `s ++ [j]` reads `a[t]` and `b[s, t, j]` -/
theorem matmulAnyP_vecL_spec (k n : Nat) (stB : List Nat) :
    ∃ P, matmulAnyP [k] (stB ++ [k, n]) = some (stB ++ [n], P) ∧ P.length = k ∧
    PairsOK (size [k]) (size (stB ++ [k, n])) (size (stB ++ [n])) P ∧
    ∀ s j t, InR s stB → j < n → t < k →
      (P.getD t ([], [])).1.getD (ravel (stB ++ [n]) (s ++ [j])) 0 = ravel [k] [t] + 1 ∧
      (P.getD t ([], [])).2.getD (ravel (stB ++ [n]) (s ++ [j])) 0 = ravel (stB ++ [k, n]) (s ++ [t, j]) + 1 := by
  obtain ⟨P, hP, hl, hok, hc⟩ := matmulP_spec (stA := []) 1 k n (bshape_nil_left stB)
  rw [List.nil_append] at hP
  refine ⟨P, by simp [matmulAnyP, hP], hl, by simpa [PairsOK, size_append] using hok, ?_⟩
  intro s j t hs hj ht
  obtain ⟨-, -, h1, h2⟩ := hc s 0 j t hs Nat.one_pos hj ht
  rw [bmulti_nil] at h1
  rw [bmulti_self hs] at h2
  rw [← ravel_one stB [n] hs (y := [j])]
  exact ⟨by simpa [ravel] using h1, h2⟩

/-- **`(…, m, k) @ (k,) → (…, m)`**: pair `t` at the output multi-index `s ++ [i]` reads `a[s, i, t]` and `b[t]` -/
theorem matmulAnyP_vecR_spec (m k : Nat) (stA : List Nat) :
    ∃ P, matmulAnyP (stA ++ [m, k]) [k] = some (stA ++ [m], P) ∧ P.length = k ∧
    PairsOK (size (stA ++ [m, k])) (size [k]) (size (stA ++ [m])) P ∧
    ∀ s i t, InR s stA → i < m → t < k →
      (P.getD t ([], [])).1.getD (ravel (stA ++ [m]) (s ++ [i])) 0 = ravel (stA ++ [m, k]) (s ++ [i, t]) + 1 ∧
      (P.getD t ([], [])).2.getD (ravel (stA ++ [m]) (s ++ [i])) 0 = ravel [k] [t] + 1 := by
  obtain ⟨P, hP, hl, hok, hc⟩ := matmulP_spec (stB := []) m k 1 (bshape_nil_right stA)
  rw [List.nil_append] at hP
  have h2 : (stA ++ [m, k]).length ≠ 1 := by simp
  refine ⟨P, by simp [matmulAnyP, hP], hl, by simpa [PairsOK, size_append] using hok, ?_⟩
  intro s i t hs hi ht
  obtain ⟨-, -, h1, h2⟩ := hc s i 0 t hs hi Nat.one_pos ht
  rw [bmulti_self hs] at h1
  rw [bmulti_nil] at h2
  have e : ravel (stA ++ [m, 1]) (s ++ [i, 0]) = ravel (stA ++ [m]) (s ++ [i]) := by
    rw [ravel_mat hs hi Nat.one_pos, ravel_mid [] [] hs hi]
    simp [ravel]
  rw [← e]
  exact ⟨h1, by simpa [ravel] using h2⟩

/-- **`(k,) @ (k,) → ()`** and the 2-d promotions are the tables of section 5 -/
theorem matmulAnyP_vec (m k n : Nat) : matmulAnyP [k] [k] = matmulVecVecP k ∧
    matmulAnyP [k] [k, n] = matmulVecMatP k n ∧ matmulAnyP [m, k] [k] = matmulMatVecP m k := by
  refine ⟨?_, ?_, ?_⟩ <;>
    simp [matmulAnyP, matmulP_2d, matmul2P, matmulVecVecP, matmulVecMatP, matmulMatVecP]

/-! ### 7. end to end through `bilinearOp` -/
section exec
open MvPolynomial
variable {R : Type} [CommSemiring R] [BEq R] [LawfulBEq R]

omit [BEq R] [LawfulBEq R] in
/-- the sum `bilinearOp_elem` produces at an output position `p`, when pair `t < k` reads there the positions
`fa t + 1` and `fb t + 1`, is `Σ_{t<k} a.flat[fa t] * b.flat[fb t]` -/
theorem pairs_sum (a b : Arr R) (P : Pairs) {k : Nat} (fa fb : Nat → Nat) (p : Nat) (hP : P.length = k)
    (h : ∀ t, t < k → (P.getD t ([], [])).1.getD p 0 = fa t + 1 ∧ (P.getD t ([], [])).2.getD p 0 = fb t + 1) :
    (P.map fun q => gatheredElem a q.1 p * gatheredElem b q.2 p).sum =
      ((List.range k).map fun t => elemD a (fa t) * elemD b (fb t)).sum := by
  have hPe : P = (List.range k).map fun t => P.getD t ([], []) := by
    apply List.ext_getElem
    · simp [hP]
    · intro i h1 h2
      simp [List.getD_eq_getElem?_getD, List.getElem?_eq_getElem h1]
  conv_lhs => rw [hPe]
  rw [List.map_map]
  congr 1
  apply List.map_congr_left
  intro t ht
  obtain ⟨h1, h2⟩ := h t (List.mem_range.1 ht)
  show gatheredElem a (P.getD t ([], [])).1 p * gatheredElem b (P.getD t ([], [])).2 p = _
  rw [gatheredElem_eq, gatheredElem_eq, h1, h2]
  simp

/-- **C10 for `(m,k) @ (k,n)`, executable model end to end**: `bilinearOp` run with the pairs computed by `matmul2P`
succeeds with a well-formed array of shape `[m, n]` whose element `(i, j)` is `Σ_{t<k} a[i, t] * b[t, j]` -/
theorem bilinearOp_matmul2P (rc rn : Bool) (a b : Arr R) (ha : a.WF) (hb : b.WF) {m k n : Nat}
    (hsa : a.shape = [m, k]) (hsb : b.shape = [k, n]) :
    ∃ P r, matmul2P m k n = some ([m, n], P) ∧ bilinearOp rc rn a b [m, n] P = some r ∧ r.WF ∧ r.shape = [m, n] ∧
      ∀ i j, i < m → j < n → ∀ p : Fin (size r.shape), p.val = ravel [m, n] [i, j] →
        r.elem p = ((List.range k).map fun t =>
          elemD a (ravel a.shape [i, t]) * elemD b (ravel b.shape [t, j])).sum := by
  obtain ⟨P, hP, hl, -, h⟩ := matmul2P_spec m k n
  obtain ⟨r, hr, hw, hs, he⟩ := bilinearOp_elem rc rn a b ha hb [m, n] P
  refine ⟨P, r, hP, hr, hw, hs, fun i j hi hj p hp => ?_⟩
  rw [he p, hp, hsa, hsb]
  exact pairs_sum a b P _ _ _ hl fun t ht => h i j t hi hj ht

/-- the same as a sum over `Fin k` -/
theorem bilinearOp_matmul2P_fin (rc rn : Bool) (a b : Arr R) (ha : a.WF) (hb : b.WF) {m k n : Nat}
    (hsa : a.shape = [m, k]) (hsb : b.shape = [k, n]) :
    ∃ P r, matmul2P m k n = some ([m, n], P) ∧ bilinearOp rc rn a b [m, n] P = some r ∧ r.WF ∧ r.shape = [m, n] ∧
      ∀ i j, i < m → j < n → ∀ p : Fin (size r.shape), p.val = i * n + j →
        r.elem p = ∑ t : Fin k, elemD a (i * k + t.val) * elemD b (t.val * n + j) := by
  obtain ⟨P, r, hP, hr, hw, hs, he⟩ := bilinearOp_matmul2P rc rn a b ha hb hsa hsb
  refine ⟨P, r, hP, hr, hw, hs, fun i j hi hj p hp => ?_⟩
  rw [he i j hi hj p (by rw [hp, ravel2 hi hj]), sum_range_eq_univ, hsa, hsb]
  apply Finset.sum_congr rfl
  intro t _
  rw [ravel2 hi t.isLt, ravel2 t.isLt hj]

/-- **C10 for `numpy.matmul` on stacks of matrices, end to end**: element `s ++ [i, j]` of the result is
`Σ_{t<k} a[bmulti stA s ++ [i, t]] * b[bmulti stB s ++ [t, j]]` -/
theorem bilinearOp_matmulP (rc rn : Bool) (a b : Arr R) (ha : a.WF) (hb : b.WF) {stA stB st : List Nat} {m k n : Nat}
    (hsa : a.shape = stA ++ [m, k]) (hsb : b.shape = stB ++ [k, n]) (h : bshape stA stB = some st) :
    ∃ P r, matmulP a.shape b.shape = some (st ++ [m, n], P) ∧ bilinearOp rc rn a b (st ++ [m, n]) P = some r ∧
      r.WF ∧ r.shape = st ++ [m, n] ∧
      ∀ s i j, InR s st → i < m → j < n → ∀ p : Fin (size r.shape), p.val = ravel (st ++ [m, n]) (s ++ [i, j]) →
        r.elem p = ((List.range k).map fun t =>
          elemD a (ravel a.shape (bmulti stA s ++ [i, t])) * elemD b (ravel b.shape (bmulti stB s ++ [t, j]))).sum := by
  obtain ⟨P, hP, hl, -, hc⟩ := matmulP_spec m k n h
  obtain ⟨r, hr, hw, hs, he⟩ := bilinearOp_elem rc rn a b ha hb (st ++ [m, n]) P
  refine ⟨P, r, by rw [hsa, hsb, hP], hr, hw, hs, fun s i j hs' hi hj p hp => ?_⟩
  rw [he p, hp, hsa, hsb]
  exact pairs_sum a b P _ _ _ hl fun t ht => (hc s i j t hs' hi hj ht).2.2

/-- **C10 for `numpy.outer`, end to end**: element `(i, j)` of the result is `a.flat[i] * b.flat[j]` -/
theorem bilinearOp_outerP (rc rn : Bool) (a b : Arr R) (ha : a.WF) (hb : b.WF) :
    ∃ p r, outerP a.shape b.shape = some ([size a.shape, size b.shape], [p]) ∧
      bilinearOp rc rn a b [size a.shape, size b.shape] [p] = some r ∧ r.WF ∧
      r.shape = [size a.shape, size b.shape] ∧
      ∀ i j, i < size a.shape → j < size b.shape → ∀ q : Fin (size r.shape),
        q.val = ravel [size a.shape, size b.shape] [i, j] → r.elem q = elemD a i * elemD b j := by
  obtain ⟨p, hp, -, hc, -⟩ := outerP_spec a.shape b.shape
  obtain ⟨r, hr, hw, hs, he⟩ := bilinearOp_elem rc rn a b ha hb [size a.shape, size b.shape] [p]
  refine ⟨p, r, hp, hr, hw, hs, fun i j hi hj q hq => ?_⟩
  obtain ⟨h1, h2⟩ := hc i j hi hj
  rw [he q, hq]
  simp only [List.map_cons, List.map_nil, List.sum_cons, List.sum_nil, add_zero]
  rw [gatheredElem_eq, gatheredElem_eq, h1, h2]
  simp

/-- **C10 for `numpy.inner` of two vectors, end to end**: the single element is `Σ_{t<n} a[t] * b[t]` -/
theorem bilinearOp_innerVecP (rc rn : Bool) (a b : Arr R) (ha : a.WF) (hb : b.WF) (n : Nat) :
    ∃ P r, innerVecP n = some ([], P) ∧ bilinearOp rc rn a b [] P = some r ∧ r.WF ∧ r.shape = [] ∧
      ∀ q : Fin (size r.shape), r.elem q = ((List.range n).map fun t => elemD a t * elemD b t).sum := by
  obtain ⟨P, hP, hl, -, hc⟩ := innerVecP_spec n
  obtain ⟨r, hr, hw, hs, he⟩ := bilinearOp_elem rc rn a b ha hb [] P
  refine ⟨P, r, hP, hr, hw, hs, fun q => ?_⟩
  have hq : q.val = 0 := by have := q.isLt; simp only [hs, size_nil] at this; omega
  rw [he q, hq]
  refine pairs_sum a b P _ _ 0 hl fun t ht => ?_
  have := hc t ht
  simpa [ravel, Nat.mod_eq_of_lt ht] using this
end exec
end Np.BilinearFns

import Np.Proofs.CallArr
import Np.Model.Dims
import Mathlib.Algebra.BigOperators.Fin
/-! C19: `tonumpy`, `decompose`, `set_dimensions` against the denotation -/
open MvPolynomial
namespace Np

/-! ### 4. `tonumpy` of a constant polynomial is its constant column -/
section tonumpy
variable {S : Type} [CommSemiring S]

theorem isZeroExpo_eq_replicate (e : Expo) (h : isZeroExpo e = true) : e = List.replicate e.length 0 := by
  induction e with
  | nil => rfl
  | cons x xs ih =>
    simp only [isZeroExpo, List.all_cons, Bool.and_eq_true, beq_iff_eq] at h
    have := ih h.2
    simp only [List.length_cons, List.replicate_succ]
    rw [h.1, ← this]

theorem lookup_not_mem (ts : List (Expo × S)) (z : Expo) (h : z ∉ ts.map (·.1)) : lookup ts z = 0 := by
  induction ts with
  | nil => simp [lookup]
  | cons t ts ih =>
    obtain ⟨e, c⟩ := t
    simp only [List.map_cons, List.mem_cons, not_or] at h
    rw [lookup_cons_ne _ _ _ _ (fun he => h.1 he.symm)]
    exact ih h.2

/-- rows that are either the zero row `z` or carry a zero column sum up to the constant `lookup ts z` -/
theorem denT_const (ns : List Name) (z : Expo) (hz : fsN ns z = 0) (ts : List (Expo × S))
    (hc : ∀ t ∈ ts, t.1 = z ∨ t.2 = 0) (hnd : (ts.map (·.1)).Nodup) :
    denT ns ts = C (lookup ts z) := by
  induction ts with
  | nil => simp [lookup]
  | cons t ts ih =>
    obtain ⟨e, c⟩ := t
    simp only [List.map_cons, List.nodup_cons] at hnd
    have ih' := ih (fun t ht => hc t (List.mem_cons_of_mem _ ht)) hnd.2
    rw [denT_cons, ih']
    by_cases he : e = z
    · subst he
      rw [lookup_cons_self, lookup_not_mem ts e hnd.1, hz, map_zero, add_zero]
      rfl
    · have hc0 : c = 0 := by
        rcases hc (e, c) (by simp) with h | h
        · exact absurd h he
        · exact h
      subst hc0
      rw [lookup_cons_ne _ _ _ _ he]
      simp

/-- **tonumpy**: a well-formed polynomial that converts to `c` denotes the constant `C c` -/
theorem toNumpy_den [BEq S] [LawfulBEq S] (p : Poly S) (c : S) (hw : WF p) (h : toNumpy p = some c) :
    den p = C c := by
  unfold toNumpy at h
  split at h
  · rename_i hc
    injection h with h
    subst h
    apply denT_const p.names _ (fsN_zeros p.names) p.terms _ hw.expos_nodup
    intro t ht
    have := (List.all_eq_true.1 hc) t ht
    simp only [Bool.or_eq_true, beq_iff_eq] at this
    rcases this with h | h
    · left
      have h' := isZeroExpo_eq_replicate t.1 h
      rw [hw.row_len t.1 (List.mem_map_of_mem ht)] at h'
      rw [h', List.map_const']
    · right; exact h
  · simp at h

/-- per element: every array position of a convertible polynomial array is the constant at that position -/
theorem toNumpy_denAt {R : Type} [CommSemiring R] [BEq R] [LawfulBEq R] {n : Nat} (p : Poly (Vec R n))
    (c : Vec R n) (hw : WF p) (h : toNumpy p = some c) (i : Fin n) : denAt p i = C (c.get i) := by
  simp only [denAt, den_mapCoef, toNumpy_den p c hw h, map_C, Vec.evalAt_apply]
end tonumpy

/-! ### 1. `decompose` -/
section decomp
variable {R : Type} [CommSemiring R] {n : Nat}

theorem map_range_getD {α β : Type} (l : List α) (d : α) (f : α → β) :
    (List.range l.length).map (fun k => f (l.getD k d)) = l.map f := by
  apply List.ext_getElem (by simp)
  intro j h1 h2
  simp only [List.length_map, List.length_range] at h1
  simp [List.getD_eq_getElem?_getD, List.getElem?_eq_getElem h1]

theorem map_finRange_getElem {α β : Type} (l : List α) (f : α → β) :
    (List.finRange l.length).map (fun k => f l[k.val]) = l.map f := by
  apply List.ext_getElem (by simp)
  intro j h1 h2
  simp

theorem decompose_names (p : Poly (Vec R n)) : (decompose p).names = p.names := rfl

theorem decompose_expos (p : Poly (Vec R n)) : (decompose p).expos = p.expos := by
  simp only [Poly.expos, decompose, List.map_map, Function.comp_def]
  exact map_range_getD p.terms _ (·.1)

/-- `decompose` keeps the names and the exponent rows, hence the representation invariant -/
theorem WF_decompose (p : Poly (Vec R n)) (hw : WF p) : WF (decompose p) :=
  ⟨hw.names_nodup, by rw [decompose_expos]; exact hw.expos_nodup,
    fun e he => hw.row_len e (decompose_expos p ▸ he)⟩

/-- a list of rows indexed by `range N` in which only row `k` has a non-zero column is that single monomial -/
theorem denT_range_single {S : Type} [CommSemiring S] (ns : List Name) (g : Nat → Expo × S) (k : Nat) :
    ∀ N, (∀ k' < N, k' ≠ k → (g k').2 = 0) →
      denT ns ((List.range N).map g) = if k < N then monomial (fsN ns (g k).1) (g k).2 else 0 := by
  intro N
  induction N with
  | zero => intro _; simp
  | succ N ih =>
    intro h
    rw [List.range_succ, List.map_append, denT_append, ih (fun k' hk' => h k' (by omega))]
    simp only [List.map_cons, List.map_nil, denT_cons, denT_nil, add_zero]
    by_cases hk : k < N
    · have h0 : (g N).2 = 0 := h N (by omega) (by omega)
      simp [hk, h0, Nat.lt_succ_of_lt hk]
    · by_cases hkN : k = N
      · subst hkN; simp
      · have h0 : (g N).2 = 0 := h N (by omega) (fun h' => hkN h'.symm)
        have h2 : ¬ k < N + 1 := by omega
        simp [hk, h2, h0]

/-- **decompose, one slice**: element `(k, i)` of `decompose p` is the single term `k` of element `i` of `p` -/
theorem decompose_slice (p : Poly (Vec R n)) (k : Nat) (hk : k < p.terms.length) (i : Fin n)
    (idx : Fin (p.terms.length * n)) (hidx : idx.val = k * n + i.val) :
    denAt (decompose p) idx = denT p.names [((p.terms[k]).1, (p.terms[k]).2.get i)] := by
  have hdiv : idx.val / n = k := by rw [hidx]; exact flat_div i.isLt
  have hmod : idx.val % n = i.val := by rw [hidx]; exact flat_mod i.isLt
  simp only [denAt, den, mapCoef, decompose, List.map_map, Function.comp_def]
  rw [denT_range_single p.names _ k p.terms.length ?_]
  · have hget : p.terms.getD k ([], 0) = p.terms[k] := by
      simp [List.getD_eq_getElem?_getD, List.getElem?_eq_getElem hk]
    have hlt : idx.val % n < n := by rw [hmod]; exact i.isLt
    simp only [hk, if_true, Vec.evalAt_apply, Vec.get_ofFn, hdiv, hlt, dite_true, hget, denT_cons, denT_nil,
      add_zero]
    congr 2
    exact Fin.ext hmod
  · intro k' _ hne
    simp only [Vec.evalAt_apply, Vec.get_ofFn, hdiv]
    rw [if_neg (fun h => hne h.symm)]

/-- the flat position of element `i` in slice `k` -/
def sliceIdx (p : Poly (Vec R n)) (k : Fin p.terms.length) (i : Fin n) : Fin (p.terms.length * n) :=
  ⟨k.val * n + i.val, Nat.lt_of_lt_of_le (Nat.add_lt_add_left i.isLt _)
    (by rw [← Nat.succ_mul]; exact Nat.mul_le_mul_right _ k.isLt)⟩

/-- **decompose, sum**: the slices of `decompose p` sum to `p`, element by element -/
theorem decompose_sum (p : Poly (Vec R n)) (i : Fin n) :
    ((List.finRange p.terms.length).map fun k => denAt (decompose p) (sliceIdx p k i)).sum = denAt p i := by
  have h1 : ((List.finRange p.terms.length).map fun k => denAt (decompose p) (sliceIdx p k i))
      = (List.finRange p.terms.length).map fun k =>
          (fun t : Expo × Vec R n => monomial (fsN p.names t.1) (t.2.get i)) p.terms[k.val] := by
    apply List.map_congr_left
    intro k _
    rw [decompose_slice p k.val k.isLt i (sliceIdx p k i) rfl]
    simp
  rw [h1]
  refine (congrArg List.sum (map_finRange_getElem p.terms
    (fun t : Expo × Vec R n => monomial (fsN p.names t.1) (t.2.get i)))).trans ?_
  simp only [denAt, den, denT, mapCoef, List.map_map, Function.comp_def, Vec.evalAt_apply]

/-- the same with a `Finset` sum over the slices -/
theorem decompose_sum' (p : Poly (Vec R n)) (i : Fin n) :
    ∑ k : Fin p.terms.length, denAt (decompose p) (sliceIdx p k i) = denAt p i := by
  rw [Fin.sum_univ_def]; exact decompose_sum p i
end decomp

/-! ### 2. `set_dimensions` towards more indeterminates -/
section dimsAdd
variable {S : Type} [CommSemiring S] [BEq S] [LawfulBEq S]

omit [LawfulBEq S] in
theorem names_dropZeroCols (p : Poly S) : (dropZeroCols p).names = p.names := by
  unfold dropZeroCols; split <;> rfl

omit [LawfulBEq S] in
/-- with `retain_names=True` cleaning never touches the names -/
theorem names_clean_true (rc : Bool) (p : Poly S) : (clean rc true p).names = p.names := by
  cases rc <;> simp [clean, names_dropZeroCols]

omit [LawfulBEq S] in
theorem setDimsAdd_names (rc : Bool) (newNames : List Name) (p : Poly S) :
    (setDimsAdd rc newNames p).names = newNames := by
  simp [setDimsAdd, names_clean_true, alignIndet]

theorem WF_setDimsAdd (rc : Bool) (newNames : List Name) (p : Poly S) (hw : WF p) (hn : newNames.Nodup)
    (hsub : p.names ⊆ newNames) : WF (setDimsAdd rc newNames p) :=
  WF_clean rc true _ (WF_alignIndet newNames p hw hn (fun _ h => hsub h))

/-- **set_dimensions (more)**: adding indeterminates changes nothing but the name list -/
theorem setDimsAdd_den (rc : Bool) (newNames : List Name) (p : Poly S) (hw : WF p) (hn : newNames.Nodup)
    (hsub : p.names ⊆ newNames) : den (setDimsAdd rc newNames p) = den p := by
  have hwa := WF_alignIndet newNames p hw hn (fun _ h => hsub h)
  unfold setDimsAdd
  rw [den_clean rc true _ hwa (WF_dropZeroCols _ hwa)]
  exact den_alignIndet newNames p hw.names_nodup hn
    (fun t _ m hm => expoAt_not_mem p.names t.1 m (fun h => hm (hsub h)))
end dimsAdd

/-! ### 3. `set_dimensions` towards fewer indeterminates = substituting 0 for the dropped ones -/
section dimsDrop
variable {S : Type} [CommSemiring S]

theorem fsN_take_drop (d : Nat) (ns : List Name) (e : Expo) :
    fsN ns e = fsN (ns.take d) (e.take d) + fsN (ns.drop d) (e.drop d) := by
  induction d generalizing ns e with
  | zero => simp [fsN]
  | succ d ih =>
    cases ns with
    | nil => simp [fsN]
    | cons m ms =>
      cases e with
      | nil => simp [fsN]
      | cons x xs =>
        simp only [List.take_succ_cons, List.drop_succ_cons, fsN]
        rw [ih ms xs, add_assoc]

/-- substitution on a monomial over names that are all kept: nothing happens -/
theorem bind₁_fsN_kept (σ : Name → MvPolynomial Name S) (ks : List Name) (hk : ∀ k ∈ ks, σ k = X k)
    (e : Expo) (c : S) : bind₁ σ (monomial (fsN ks e) c) = monomial (fsN ks e) c := by
  induction ks generalizing e with
  | nil => simp [fsN, ← C_apply]
  | cons k ks ih =>
    cases e with
    | nil => simp [fsN, ← C_apply]
    | cons x xs =>
      have hm : monomial (fsN (k :: ks) (x :: xs)) c = X k ^ x * monomial (fsN ks xs) c := by
        rw [X_pow_eq_monomial, monomial_mul, one_mul]; rfl
      rw [hm, map_mul, map_pow, bind₁_X_right, hk k (by simp),
        ih (fun k' h => hk k' (List.mem_cons_of_mem _ h))]

/-- substitution on a monomial over names that are all sent to 0: survives iff every exponent is 0 -/
theorem bind₁_fsN_dropped (σ : Name → MvPolynomial Name S) (ds : List Name) (hd : ∀ k ∈ ds, σ k = 0)
    (e : Expo) (he : e.length = ds.length) :
    bind₁ σ (monomial (fsN ds e) (1 : S)) = if e.all (· == 0) then 1 else 0 := by
  induction ds generalizing e with
  | nil =>
    have : e = [] := List.eq_nil_of_length_eq_zero he
    subst this
    simp only [fsN, List.all_nil, if_true]
    exact map_one _
  | cons k ks ih =>
    cases e with
    | nil => simp at he
    | cons x xs =>
      have hm : monomial (fsN (k :: ks) (x :: xs)) (1 : S) = X k ^ x * monomial (fsN ks xs) 1 := by
        rw [X_pow_eq_monomial, monomial_mul, one_mul]; rfl
      rw [hm, map_mul, map_pow, bind₁_X_right, hd k (by simp),
        ih (fun k' h => hd k' (List.mem_cons_of_mem _ h)) xs (by simpa using he)]
      by_cases hx : x = 0
      · subst hx; simp
      · simp [hx]

/-- the substitution that `set_dimensions(poly, d)` performs -/
noncomputable def dropSubst (ns : List Name) (d : Nat) : Name → MvPolynomial Name S :=
  fun x => if x ∈ ns.take d then X x else 0

theorem bind₁_dropSubst_monomial (ns : List Name) (hn : ns.Nodup) (d : Nat) (e : Expo)
    (he : e.length = ns.length) (c : S) :
    bind₁ (dropSubst ns d) (monomial (fsN ns e) c) =
      if (e.drop d).all (· == 0) then monomial (fsN (ns.take d) (e.take d)) c else 0 := by
  have hsplit : monomial (fsN ns e) c =
      monomial (fsN (ns.take d) (e.take d)) c * monomial (fsN (ns.drop d) (e.drop d)) (1 : S) := by
    rw [monomial_mul, mul_one, ← fsN_take_drop]
  have hdisj : ∀ k ∈ ns.drop d, k ∉ ns.take d := by
    intro k hk1 hk2
    have := hn
    rw [← List.take_append_drop d ns, List.nodup_append] at this
    exact this.2.2 k hk2 k hk1 rfl
  rw [hsplit, map_mul,
    bind₁_fsN_kept _ (ns.take d) (fun k hk => by simp [dropSubst, hk]),
    bind₁_fsN_dropped _ (ns.drop d) (fun k hk => by simp [dropSubst, hdisj k hk]) (e.drop d)
      (by simp [he])]
  split <;> simp

/-- the surviving terms, cut to the first `d` columns, denote the substituted polynomial -/
theorem denT_dropTerms (ns : List Name) (hn : ns.Nodup) (d : Nat) (ts : List (Expo × S))
    (hlen : ∀ t ∈ ts, t.1.length = ns.length) :
    denT (ns.take d) ((ts.filter fun t => (t.1.drop d).all (· == 0)).map fun t => (t.1.take d, t.2))
      = bind₁ (dropSubst ns d) (denT ns ts) := by
  induction ts with
  | nil => simp
  | cons t ts ih =>
    have ih' := ih (fun t' h => hlen t' (List.mem_cons_of_mem _ h))
    rw [denT_cons, map_add, bind₁_dropSubst_monomial ns hn d t.1 (hlen t (by simp)), ← ih',
      List.filter_cons]
    split <;> simp

/-- the polynomial `set_dimensions` builds before cleaning -/
def dropRaw (d : Nat) (p : Poly S) : Poly S :=
  let terms := (p.terms.filter fun t => (t.1.drop d).all (· == 0)).map fun t => (t.1.take d, t.2)
  { names := p.names.take d, terms := if terms.isEmpty then [(List.replicate d 0, 0)] else terms }


theorem take_injective_of_drop_zero (d : Nat) (e1 e2 : Expo) (hl : e1.length = e2.length)
    (h1 : (e1.drop d).all (· == 0) = true) (h2 : (e2.drop d).all (· == 0) = true)
    (h : e1.take d = e2.take d) : e1 = e2 := by
  have r1 := isZeroExpo_eq_replicate _ h1
  have r2 := isZeroExpo_eq_replicate _ h2
  rw [← List.take_append_drop d e1, ← List.take_append_drop d e2, h, r1, r2]
  simp [hl]

theorem WF_dropRaw (d : Nat) (p : Poly S) (hw : WF p) (hd : d ≤ p.names.length) : WF (dropRaw d p) := by
  have hnames : (p.names.take d).Nodup := hw.names_nodup.sublist (List.take_sublist d p.names)
  have hnl : (p.names.take d).length = d := by simp [hd]
  unfold dropRaw
  simp only
  split
  · refine ⟨hnames, by simp [Poly.expos], ?_⟩
    intro e he
    simp only [Poly.expos, List.map_cons, List.map_nil, List.mem_singleton] at he
    simp [he, hd]
  · refine ⟨hnames, ?_, ?_⟩
    · simp only [Poly.expos, List.map_map, Function.comp_def]
      have hfn : ((p.terms.filter fun t => (t.1.drop d).all (· == 0)).map (·.1)).Nodup :=
        hw.expos_nodup.sublist (List.filter_sublist.map _)
      have hfun : (fun x : Expo × S => List.take d x.1) = (fun e : Expo => e.take d) ∘ (·.1) := rfl
      rw [hfun, ← List.map_map]
      apply List.Nodup.map_on _ hfn
      intro e1 h1 e2 h2 heq
      obtain ⟨t1, ht1, rfl⟩ := List.mem_map.1 h1
      obtain ⟨t2, ht2, rfl⟩ := List.mem_map.1 h2
      rw [List.mem_filter] at ht1 ht2
      have l1 := hw.row_len t1.1 (List.mem_map_of_mem ht1.1)
      have l2 := hw.row_len t2.1 (List.mem_map_of_mem ht2.1)
      exact take_injective_of_drop_zero d t1.1 t2.1 (by rw [l1, l2]) ht1.2 ht2.2 heq
    · intro e he
      simp only [Poly.expos, List.map_map, Function.comp_def, List.mem_map, List.mem_filter] at he
      obtain ⟨t, ⟨ht, _⟩, rfl⟩ := he
      have l := hw.row_len t.1 (List.mem_map_of_mem ht)
      simp only [List.length_take, l]

theorem den_dropRaw (d : Nat) (p : Poly S) (hw : WF p) :
    den (dropRaw d p) = bind₁ (dropSubst p.names d) (den p) := by
  have key := denT_dropTerms p.names hw.names_nodup d p.terms
    (fun t ht => hw.row_len t.1 (List.mem_map_of_mem ht))
  unfold dropRaw den
  simp only
  rw [← key]
  split
  · rename_i hempty
    rw [List.isEmpty_iff] at hempty
    rw [hempty]; simp
  · rfl

theorem setDimsDrop_eq [BEq S] (rc : Bool) (d : Nat) (p : Poly S) :
    setDimsDrop rc d p = clean rc true (dropRaw d p) := rfl

variable [BEq S] [LawfulBEq S]

omit [LawfulBEq S] in
theorem setDimsDrop_names (rc : Bool) (d : Nat) (p : Poly S) : (setDimsDrop rc d p).names = p.names.take d := by
  rw [setDimsDrop_eq, names_clean_true]; rfl

theorem WF_setDimsDrop (rc : Bool) (d : Nat) (p : Poly S) (hw : WF p) (hd : d ≤ p.names.length) :
    WF (setDimsDrop rc d p) := by
  rw [setDimsDrop_eq]; exact WF_clean rc true _ (WF_dropRaw d p hw hd)

/-- **set_dimensions (fewer)**: keeping the first `d` indeterminates is substituting 0 for all the others -/
theorem setDimsDrop_den (rc : Bool) (d : Nat) (p : Poly S) (hw : WF p) (hd : d ≤ p.names.length) :
    den (setDimsDrop rc d p) =
      bind₁ (fun x => if x ∈ p.names.take d then X x else 0) (den p) := by
  have hwr := WF_dropRaw d p hw hd
  rw [setDimsDrop_eq, den_clean rc true _ hwr (WF_dropZeroCols _ hwr), den_dropRaw d p hw]
  rfl
end dimsDrop
end Np

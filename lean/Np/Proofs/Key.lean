import Np.Model.Key
import Mathlib.Tactic.Ring
namespace Np.Key

theorem wrap (x offset : Nat) (h : x + offset < 4294967296) :
    (x + offset + 4294967296 - offset) % 4294967296 = x := by omega

theorem decode_map_add (offset : Nat) (e : List Nat) (hall : ∀ x ∈ e, x + offset < 4294967296) :
    decodeKey offset (e.map (· + offset)) = e := by
  induction e with
  | nil => rfl
  | cons x xs ih =>
    have hx := wrap x offset (hall x (by simp))
    have ih' := ih (fun y hy => hall y (by simp [hy]))
    simp only [decodeKey, List.map_cons, List.map_map] at ih' ⊢
    rw [hx, ih']

/-- C20: whatever can be stored reads back as the same exponents -/
theorem key_roundtrip (offset : Nat) (e k : List Nat) (h : encodeKey offset e = some k) :
    decodeKey offset k = e := by
  by_cases hall : e.all (fun x => x + offset < 4294967296 && validCodePoint (x + offset)) = true
  · rw [encodeKey, if_pos hall] at h
    injection h with h; subst h
    rw [List.all_eq_true] at hall
    apply decode_map_add
    intro x hx
    have hx' := hall x hx
    rw [Bool.and_eq_true] at hx'
    exact of_decide_eq_true hx'.1
  · rw [encodeKey, if_neg hall] at h
    exact absurd h (by simp)

theorem encodeKey_injective (offset : Nat) (e1 e2 k : List Nat) (h1 : encodeKey offset e1 = some k)
    (h2 : encodeKey offset e2 = some k) : e1 = e2 := by
  rw [← key_roundtrip offset e1 k h1, ← key_roundtrip offset e2 k h2]

/-- every exponent below 55 237 is storable with the shipped offset 59 -/
theorem valid_below (e : List Nat) (h : ∀ x ∈ e, x < 55237) : (encodeKey 59 e).isSome = true := by
  unfold encodeKey
  have : e.all (fun x => x + 59 < 4294967296 && validCodePoint (x + 59)) = true := by
    rw [List.all_eq_true]
    intro x hx
    have := h x hx
    simp only [validCodePoint, Bool.and_eq_true, decide_eq_true_eq, bne_iff_ne, ne_eq, Bool.not_eq_true',
      Bool.and_eq_false_iff, decide_eq_false_iff_not]
    omega
  simp [this]

/-- the compiled kernel's key is the true key exactly under the guard the repair of D15 tests -/
theorem mulKey_small (e1 e2 : List Nat) (hlen : e1.length = e2.length)
    (h : ∀ s ∈ List.zipWith (· + ·) e1 e2, s + 59 < 128) :
    mulKey 59 e1 e2 = encodeKey 59 (List.zipWith (· + ·) e1 e2) := by
  have hb : (List.zipWith (· + ·) e1 e2).map (sprintfByte 59) = (List.zipWith (· + ·) e1 e2).map (· + 59) := by
    apply List.map_congr_left
    intro s hs
    have := h s hs
    simp only [sprintfByte]; omega
  have hall1 : ((List.zipWith (· + ·) e1 e2).map (· + 59)).all (· < 128) = true := by
    rw [List.all_eq_true]; intro b hb'
    obtain ⟨s, hs, rfl⟩ := List.mem_map.1 hb'
    simpa using h s hs
  have hall2 : (List.zipWith (· + ·) e1 e2).all (fun x => x + 59 < 4294967296 && validCodePoint (x + 59)) = true := by
    rw [List.all_eq_true]; intro s hs
    have := h s hs
    simp only [validCodePoint, Bool.and_eq_true, decide_eq_true_eq, bne_iff_ne, ne_eq, Bool.not_eq_true',
      Bool.and_eq_false_iff, decide_eq_false_iff_not]
    omega
  have hb' : List.zipWith (fun x y => x + y + 59) e1 e2 = (List.zipWith (· + ·) e1 e2).map (· + 59) := by
    rw [List.map_zipWith]
  rw [mulKey, hb, decodeAscii, if_pos hall1, encodeKey, if_pos hall2]

/-- D15 as a theorem about the model: the byte formatter stores `q0**256` under the key of the constant -/
theorem mulKey_aliases : mulKey 59 [256] [0] = encodeKey 59 [0] := by decide

end Np.Key

import Np.Model.Routing
namespace Np.Routing

/-- C08 (negative half): for every table, every ufunc and every method, the outcome is a forward to a
registered implementation or `FeatureNotSupported` — never another error, never a fall-through -/
theorem arrayUfunc_total (T : Tables) (u : Callable) (m : String) :
    (∃ impl, arrayUfunc T u m = .forward impl ∧ ∃ f, find T.ufuncs f = some impl) ∨
      arrayUfunc T u m = .featureNotSupported := by
  unfold arrayUfunc
  by_cases h1 : (m == "reduce") = true
  · simp only [h1, if_true]
    cases hr : find T.reduce u with
    | none => right; rfl
    | some f =>
      cases hf : find T.ufuncs f with
      | none => right; simp [hf]
      | some impl => left; exact ⟨impl, by simp [hf], f, hf⟩
  · by_cases h2 : (m == "accumulate") = true
    · simp only [h1, h2, if_true, Bool.false_eq_true, if_false]
      cases hr : find T.accumulate u with
      | none => right; rfl
      | some f =>
        cases hf : find T.ufuncs f with
        | none => right; simp [hf]
        | some impl => left; exact ⟨impl, by simp [hf], f, hf⟩
    · by_cases h3 : (m != "__call__") = true
      · right; simp [h1, h2, h3]
      · simp only [h1, h2, h3, Bool.false_eq_true, if_false]
        cases hf : find T.ufuncs u with
        | none => right; simp [hf]
        | some impl => left; exact ⟨impl, by simp [hf], u, hf⟩

/-- every other method is refused -/
theorem arrayUfunc_other_method (T : Tables) (u : Callable) (m : String)
    (h : m ≠ "reduce" ∧ m ≠ "accumulate" ∧ m ≠ "__call__") : arrayUfunc T u m = .featureNotSupported := by
  obtain ⟨h1, h2, h3⟩ := h
  simp [arrayUfunc, h1, h2, h3]

theorem arrayFunction_total (T : Tables) (f : Callable) :
    (∃ impl, arrayFunction T f = .forward impl ∧ find T.functions f = some impl) ∨
      arrayFunction T f = .featureNotSupported := by
  unfold arrayFunction
  cases h : find T.functions f with
  | none => right; rfl
  | some impl => left; exact ⟨impl, rfl, rfl⟩

/-- the two spellings `numpy.f(poly)` and `numpoly.f(poly)` reach the same implementation object -/
theorem spellings_agree (T : Tables) (f : Callable) (impl : Impl) (h : find T.functions f = some impl) :
    arrayFunction T f = .forward impl := by simp [arrayFunction, h]

/-- D5: the shipped lookup answers `numpy.subtract.reduce(poly)` with a `KeyError` -/
example : arrayUfuncOld ⟨[("numpy.add", "numpoly.add"), ("numpy.sum", "numpoly.sum")], [],
    [("numpy.add", "numpy.sum")], []⟩ "numpy.subtract" "reduce" = .otherError "KeyError" := by decide

end Np.Routing

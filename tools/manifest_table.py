"""Per-property texts of MANIFEST.json (edited by hand; tools/mkmanifest.py renders them)."""
NOTES = ("All checks share /verif/check.py: regenerate Lean tables from /repo, lake build the property's theorems and the "
         "model driver, audit axioms, run the correspondence of the compiled Lean model against the working tree, "
         "turn any broken obligation or difference into a failing-input search, write evidence. See DESIGN.md.")
HOOK_COMMITS = []
BASE_NOTE = ("Trusted: Lean 4.33 kernel + Mathlib (axioms propext, Classical.choice, Quot.sound only, audited per run); "
             "the hand-written model is tied to the code by the differential correspondence run (its generators bound what "
             "drift it can see) and by tables regenerated from the source; numpy/CPython enter as parameters.")
CHECKS = {
 "C01": {"ref": "5/C01", "technique": "Lean 4 refinement proof (model -> MvPolynomial) + differential correspondence",
         "text": "Theorems add_den/mul_den/… prove, for every number of terms, names, array size and retain flags, that the "
                 "model's +,-,*,** denote the MvPolynomial operations (incl. the cmultiply buffer-loop invariant); the "
                 "compiled model is run against the real operators on generated expression trees. Arr.*_spec / expr_den lift this "
                 "to arrays with broadcasting and to every expression tree; broadcast_shape_is_numpy and binop_total show the "
                 "model's broadcasting is numpy's and never leaves its domain (no zero-length axis); array_pow_elementwise / "
                 "array_pow_succeeds: ** with an array of exponents raises each broadcast element to its own exponent; program_den: "
                 "the same for every program that also uses array exponents (Expr2/evalModel2 is what the driver evaluates).",
         "note": BASE_NOTE},
 "C14": {"ref": "5/C14", "technique": "Lean 4 proof by induction over option programs + exhaustive bounded history correspondence",
         "text": "with_restores is proved for every body (any nesting depth, set_options, exceptions, mutation of returned "
                 "dicts) and both exit paths; set_unknown_atomic/with_unknown/set_known/get_detached/defaults_constant "
                 "complete the statement; all flat histories up to length 4 (quick) / 5 (thorough) over 13 events are "
                 "run against the real `with`/exceptions and compared with the model after every event.",
         "note": BASE_NOTE},
 "C18": {"ref": "5/C18", "technique": "Lean 4 proof (stable two-pass sort, index-set characterisation) + table obligation on the argsort kind + exhaustive/brute-force correspondence",
         "text": "glexsort_perm/glexsort_sorted hold for every key matrix (two stable passes, own insertion sort proved "
                 "stable); glexsort_source_is_stable is re-checked against utils/glexsort.py every run; glexindex_mem_iff/"
                 "nodup/sorted characterise the index set without assuming start <= stop; cross-truncation norms 0,1,inf and "
                 "integer p are exact, fractional p is executed in binary64 (no theorem). All key matrices over {0,1,2} up "
                 "to 3x4 (3x5 thorough) and tie-heavy random ones up to 4x400 are run against the implementation.",
         "note": BASE_NOTE + " Fractional cross-truncation norms are only executed, not proved."},
 "C20": {"ref": "5/C20", "technique": "Lean 4 proof of the key codec and of the repaired multiply key path + exhaustive codec / pair correspondence",
         "text": "key_roundtrip, encodeKey_injective, validKey_below (every exponent < 55237), invalidKey_errors and "
                 "mulKeyPath_exact (both paths of multiply store a product under the key of the exponent sum; the byte "
                 "formatter alone aliases, mulKey_aliases) are proved for all exponents; the table obligation KEY_OFFSET = 59 "
                 "is regenerated each run. Every exponent 0..1114200 goes through construct/raw view/reconstruct, all pairs "
                 "a+b <= 200 (600) through *, random tuples up to 1e5 through the operation chain.",
         "note": BASE_NOTE},
 "C07": {"ref": "5/C07", "technique": "Lean 4 proof (walk_last, strict-total-order laws of the documented order, walk = spec) + bounded-exhaustive universe correspondence",
         "text": "The documented order `Gt` is proved irreflexive, asymmetric, transitive and trichotomous on coefficient "
                 "functions differing at finitely many monomials; greater_spec shows the overwrite walk started from storage "
                 "row 0 decides exactly that order; cmpWalk_eq_walk/walk_order_sorted tie the executable model to it. On arrays: "
                 "equal_decides_equality, array_trichotomy (exactly one of >, ==, < at every position), array_ge_is_not_lt, "
                 "array_greater_is_documented_order (read off the coefficients of the denoted elements), where_selects, "
                 "maximum_is_greater_operand, minimum_is_lesser_operand. A "
                 "universe of 60 (150) small polynomials is compared as arrays under all four sort settings (matrices "
                 "equal the model's; laws re-checked on them), plus random same-degree-heavy pairs and maximum/minimum.",
         "note": BASE_NOTE + " The identification of the position in glexsort order with a LinearOrder on monomials is by the sortedness theorem of C18; coefficients are compared as rationals."},
 "C19": {"ref": "5/C19", "technique": "Lean 4 proof (leadWalk_spec via walk_last; isconstant/tonumpy/set_dimensions specs) + model correspondence",
         "text": "leadWalk_spec: the ascending overwrite walk returns the largest non-zero term or zeros; the executable "
                 "walk is that walk (leadWalk_eq_walk); leadArr_is_largest (per array element, all four orders); proxy_perm / "
                 "proxy_monotone / proxy_stable (sortable_proxy is a permutation, monotone in (lead exponent, lead coefficient), "
                 "ties keep flat order); isconstant_spec, tonumpy_error_iff, tonumpy_is_the_constant, setDimsDrop_zero, "
                 "decompose_slice_is_term / decompose_sums_to_p, set_dimensions_more (denotation unchanged) / "
                 "set_dimensions_fewer (= substituting 0 for the dropped indeterminates). lead_*, "
                 "sortable_proxy (permutation + monotone in (lead exponent, lead coefficient)), argmax/argmin/amax/amin "
                 "without axis, isconstant, tonumpy, todict, decompose, set_dimensions(1..5) are run against the model.",
         "note": BASE_NOTE},
 "C02": {"ref": "5/C02", "technique": "Lean 4 refinement proof (evaluation loop = MvPolynomial.eval; argument binding logic) + model correspondence over all numeric carrier types",
         "text": "call_eval proves the evaluation loop equals MvPolynomial.eval for every polynomial; call_staged (Mathlib's "
                 "bind1/eval) gives staged = at-once; call_unknown_keyword/call_double/call_binds cover the TypeError logic, call_binds_none_keyword / call_none_keyword_errors "
                 "the same with None as a keyword value (a placeholder, D55); "
                 "call_array_is_bind1: every position (i, j) of the executable array-level call is Mathlib's bind1 of the "
                 "parameters' elements at j into element i; call_outcomes / call_returns_values / call_array_iff_constant / "
                 "call_returns_substitution: the complete call of the model (callArr) raises ValueError iff the argument shapes do "
                 "not broadcast and nothing else, has shape poly.shape + broadcast(argument shapes), returns a plain array exactly "
                 "when every substituted element is constant, and every position is the bind1 substitution. "
                 "The array-level model (broadcast argument shapes, outer product, collapse to a plain array iff constant, "
                 "substitution) is run against the implementation, each numeric argument re-sent as every exact Python/numpy "
                 "carrier type.",
         "note": BASE_NOTE + " Carrier-type independence is established by the correspondence only (the model has one number type)."},
 "C03": {"ref": "5/C03", "technique": "Lean 4 proof of the constructor/cleaning spec + representation-level correspondence + invariant checked on every catalogue result",
         "text": "clean_den, dropZeroCols_rows/_all_zero, dropUnusedNames_names, fromAttributes_rejects_* and regenerate_attrs "
                 "characterise what polynomial_from_attributes keeps, rejects and denotes for all inputs; fromAttributes_iff is "
                 "the exact success condition and result, fromAttributes_wellformed / _denotes: whatever it returns is "
                 "well-formed and denotes the terms passed in; regenerate_wellformed: no side condition; closed_arith / "
                 "closed_calculus / closed_arrays / closed_select: every operation of the model preserves the invariant (the "
                 "induction step of 'every returned polynomial is well-formed'). Attribute triples "
                 "(redundant, unsorted, malformed) x all retain flags are compared with the Lean constructor at "
                 "representation level, and every polynomial returned by the ~95-entry operation catalogue is checked for the "
                 "invariant and rebuilt from attributes / raw view / todict.",
         "note": BASE_NOTE},
 "C04": {"ref": "5/C04", "technique": "Lean 4 refinement proof of the three aligners + representation-level correspondence",
         "text": "alignIndet_den/_names/_WF, commonNamesAll_spec (union, sorted by index), alignExpo_den/_rows/_idem and "
                 "bcast_denAt (every index map) prove that alignment keeps the denotation and makes names/rows/shape "
                 "common; alignAll_common does the same for any number of operands at once (what concatenate/stack/gradient "
                 "use); align_polynomials_spec / align_shape_spec / align_indeterminants_spec / align_exponents_spec / "
                 "align_polynomials_idempotent: the array-level aligners the driver runs fail iff the shapes do not broadcast, "
                 "return a common shape, name tuple and ascending rows, keep every (broadcast) element, leave compliant "
                 "operands untouched and are idempotent; tuples of 1-4 polynomial-likes are aligned by the implementation and by the Lean aligners and "
                 "compared row by row (0 drift), with idempotence and argument snapshots.",
         "note": BASE_NOTE},
 "C06": {"ref": "5/C06", "technique": "Lean 4 refinement proof (derivative rows = MvPolynomial.pderiv, incl. uint32 wrap) + model correspondence over option settings",
         "text": "derivative_rows_den: the rows built by derivative (uint32 decrement that wraps for terms free of the "
                 "variable, coefficient times old exponent) denote pderiv for every polynomial; wrapped rows carry 0; "
                 "linearity / product rule / commuting partials follow from Mathlib; gradient_is_partials / "
                 "hessian_is_second_partials / hessian_symmetric: the executable gradient and Hessian of polynomial arrays are "
                 "well-formed, have D resp. D x D blocks and hold the first / second partials element by element. derivative (name, position, "
                 "indeterminate, successive), gradient and hessian are run against the Lean model and exact dictionary "
                 "arithmetic under 4 (quick) / all 16 (thorough) retain/sort settings.",
         "note": BASE_NOTE},
 "C08": {"ref": "5/C08", "technique": "Lean 4 proof of the dispatch decision logic for all tables + decide over tables regenerated from /repo (registries, operator routing probe, spelling identity) + exhaustive negative-half correspondence",
         "text": "resolve_ufunc_total / resolve_other_method / resolve_unmapped_* / resolve_function_total hold for every "
                 "registry, ufunc and method: forward to a registered implementation or FeatureNotSupported, nothing else. "
                 "Table obligations re-checked every run by decide +kernel: every unregistered public ufunc (x 6 methods) and "
                 "overridable function resolves to FeatureNotSupported; numpoly.<name> is the registry object; every "
                 "operator x operand-kind pair enters the implementation the property names (spy probe). The run calls "
                 "every unregistered ufunc/method/function with a polynomial in each dispatch-relevant position "
                 "(exhaustive) and every registry entry through all its spellings.",
         "note": BASE_NOTE + " Which positions take part in numpy's protocol is decided with a probe array subclass."},
 "C09": {"ref": "5/C09", "technique": "Lean 4 proof for every index map (gather = ring homomorphism on columns) + correspondence with index maps obtained from numpy itself",
         "text": "gather_den: applying any index map to every coefficient column moves whole elements (element i of the "
                 "result is element sigma(i) of the operand), names untouched, cleaning harmless (gather_clean_den); fill "
                 "positions hold zero (gatherFill_zero/_copy); gatherOp_moves_elements/gatherOp_wf: the executable gather over any "
                 "operand list (joins included) yields whole elements of the owning operand or zero. numpy's own index arithmetic is in the model "
                 "(Np/Model/ShapeFns.lean) with multi-index characterisations: transpose_reads / transpose_moves_elements, reshape_reads, "
                 "expand_dims_reads, repeat_reads, tile_reads, diagonal_reads, concatenate_reads, stack_reads, swapaxes_reads, moveaxis_reads, "
                 "moveaxis_sequences_put_sources (moveaxis with sequences of axes) "
                 "(each: output shape, every listed position in range, output multi-index j reads the stated input multi-index; "
                 "rearrangements are permutations of the positions); the run compares the model's gather lists with numpy on ~770 shape/argument "
                 "combinations; likewise basic indexing with Python slice semantics, split / array_split, diag, atleast_nd, broadcast_to "
                 "(IndexFns: basic_index_reads, split_reads, ...) and where / choose / full / hstack / vstack / dstack (SelectFns: where_reads, "
                 "choose_reads, vstack_reads, ...) and integer-array indexing / take / repeat with counts (AdvIndexFns: advanced_index_reads, "
                 "separated_advanced_index_reads, take_reads, repeat_counts_reads) and the general index expression with integers, stepped slices, "
                 "newaxis, ellipsis, integer arrays and boolean masks in one tuple (GenIndexFns: general_index_in_range, general_index_reads - "
                 "numpy's view stage followed by the advanced stage, broadcast axes in place iff the advanced items are adjacent in the index as "
                 "written -, mask_selects_true_positions: a mask of the operand's shape selects the True positions in C order, every shape and mask), "
                 "~1700 model-vs-numpy cases per run. 32 functions / methods / indexing forms are run on 0-3-d "
                 "arrays incl. transposed views; the expected placement comes from running the same numpy function on "
                 "index arrays and gathering in the Lean model; joins use operands with different names and terms.",
         "note": BASE_NOTE + " numpy's shape functions are assumed to be value-independent rearrangements (that is what running them on index arrays uses)."},
 "C10": {"ref": "5/C10", "technique": "Lean 4 proof (additive maps act coefficient-wise; products; det = Matrix.det by induction) + correspondence with weights/groups obtained from numpy",
         "text": "linear_coeff: any additive map applied to all columns acts coefficient-wise on the denotation, and every "
                 "weight matrix gives an additive map (linearCol_add) - covering sum, cumsum, diff, ediff1d, mean for every "
                 "axis/keepdims/n; product_den for prod/inner/outer/matmul; det_spec: the standard-minor Laplace expansion "
                 "equals Mathlib's Matrix.det for every size (the shipped cyclic-minor recursion does not: det_old_wrong); "
                 "det_array_is_det: the executable determinant on (stacks of) polynomial matrices denotes Matrix.det per position; "
                 "linear_is_weighted_sum / bilinear_is_sum_of_products / prod_is_product: the executable reductions always "
                 "succeed on well-formed arrays and element i is the weighted sum / sum of products / product of the listed elements. "
                 "numpy's index arithmetic for the reductions is in the model (Np/Model/ReduceFns.lean): sum_axis_table / sum_axis_is_the_sum, "
                 "sum_axes_table / sum_axes_single, cumsum_table, diff_table, diff_twice_table (1,-2,1), ediff1d_table, prod_groups_table "
                 "(row of every output multi-index = exactly the inputs along the axis); inner / outer / matmul (BilinearFns) end to end: "
                 "matmul_is_sum_of_products, stacked_matmul_is_sum_of_products, outer_is_products, inner_is_sum_of_products; ReduceFns2: "
                 "diff_with_prepend_append, prod_axes_groups (numpy's semantics for axis tuples). "
                 "Weights come from numpy on unit vectors, product groups from numpy on index arrays, and the model's own tables are compared with them in every run.",
         "note": BASE_NOTE + " Known findings D21 (matmul with 1-d operands) and D22 (prod over an axis tuple) are pinned by the package's docstrings/tests and reported as KNOWN-FINDING."},
 "C11": {"ref": "5/C11", "technique": "Lean 4 pattern theorems + decide over the regenerated registries (every registered function classified) + correspondence against numpy on constants",
         "text": "registry_classified (decide over the registries regenerated from /repo): every registered function has a "
                 "dispatch pattern; signatures_mirror_numpy (decide over the call signatures regenerated from /repo and numpy): "
                 "argument names, order and shared defaults are numpy's up to 12 reviewed deviations; columnwise_const / den_constRows / tonumpy_reads_constant_row prove the column-wise "
                 "pattern on constants (f 0 = 0 keeps retained zero columns zero; the value is read from the all-zero "
                 "exponent row). constant_iff (constant with value c <=> denotes C c) turns every denotation theorem into a "
                 "statement on values: const_arith, const_gather, const_linear, const_prod, const_bilinear, const_compare - on "
                 "constants the executable operations ARE numpy's operations on the underlying values, whatever the options. numpy's semantics on "
                 "integer / rational value arrays is in the model too (ConstFns: argmax_first_occurrence, argmax_axis, floor_divide_remainder, "
                 "rint_half_to_even, isclose_is_relative_to_b, nonzero_lists_nonzeros; ElemFns: elementwise_broadcast, comparisons_trichotomy, "
                 "floor_divide_remainder_broadcast) and compared with numpy in every run. The run "
                 "calls every registered function on constant polynomials next to numpy on the raw arrays over axis / "
                 "keepdims grids, and the numeric division functions with non-constant divisors (FeatureNotSupported).",
         "note": BASE_NOTE + " Pattern-level: theorems cover the patterns, the per-function assignment is tied by the run. Known findings D9b, D21, D22, D29 are pinned by the package's own tests/docstrings."},
 "C05": {"ref": "5/C05", "technique": "Lean 4 proof of total correctness of the long division (identity as step invariant + termination by a well-founded monomial order) + correspondence with an observed loop",
         "text": "step_identity / steps_identity: dividend = q*divisor + r is preserved by every reduction step in any number "
                 "of indeterminates, so it holds whenever the loop stops; stops_when_irreducible / step_none_iff: it stops only "
                 "when the divisor element is zero or no term of the remainder is divisible by the leading term; zero_divisor; "
                 "fuel_mono. divmod_terminates / divmod_total: enough fuel always exists - the candidate term strictly decreases in "
                 "the lexsort monomial order, which is well-founded on rows of one length (lexLt_wf), so quotient and remainder "
                 "exist for every dividend/divisor element; divmod_array_shape / _identity / _terminates / _zero_divisor lift all of "
                 "it to arrays with broadcasting (divmodArr is what the driver runs). constant_divisor (non-zero constant divisor: r = 0 and q = f/c), "
                 "exact_multiple (dividend = g*divisor: r = [] and q = g term by term, any number of indeterminates), quotient_unique, "
                 "univariate_degree (one indeterminate: deg r < deg divisor), no_zero_terms. The implementation's loop is observed through a wrapper of "
                 "get_division_candidate (repeated state / 400 iterations = non-termination). q and r are compared element by "
                 "element with the Lean division; identity, exact multiples, constant divisors, degrees and the operator "
                 "spellings are checked with exact dictionary arithmetic.",
         "note": BASE_NOTE + " Termination is proved for the model's step; that the implementation's loop is that step is tied by the run (loop observer). Floating point only on dyadic coefficients where every quotient step is exact."},
 "C13": {"ref": "5/C13", "technique": "Lean 4 proof of the header codec (split/join, decimal digits) and of the logical reduce round trip + correspondence on real pickles/files",
         "text": "header_roundtrip: names, storage keys and shape written into the text header parse back exactly, for "
                 "every number of names/terms and every shape incl. 0-d, whenever no name/key contains the separators "
                 "(splitSep_joinSep, ofDigits_digits proved from scratch); rows_restored: reshape(-1, nterms) undoes "
                 "numpy.loadtxt's squeezing; file_roundtrip: the whole file (header line, one line per element, one number per stored term, "
                 "comment cutting, splitting, squeeze, reshape(-1, nkeys), split into columns) loads back to the header and every coefficient "
                 "column - 0-d, size-1, single-term and general arrays in one theorem, for every number codec that decodes what it encodes; "
                 "file_layout; decimal_codec; reduce_roundtrip: rebuilding from what __reduce__ passes is the identity on the stored terms and names "
                 "(exact since the repair D57; reduce_roundtrip_old / reduce_old_dropped_terms keep the earlier behaviour as a witness). Pickle protocols 0-5, copy, deepcopy, .copy() and "
                 "savetxt/loadtxt over fmt/delimiter/header/comments x StringIO/BytesIO/paths run for real; the header "
                 "line written by the implementation is compared with the Lean codec; files written with fmt='%d' are compared line by line with "
                 "the model's file and read back by the model's loader (driver op textfile); plain files must load as arrays.",
         "note": BASE_NOTE + " The pickle byte format, copy's C paths and numpy's number formatting/parsing are exercised, not modelled."},
 "C16": {"ref": "5/C16", "technique": "Lean 4 proof at token level (printed terms = permutation of the non-zero terms, elision faithful, order = selected monomial order) + text-level correspondence with an independent reader",
         "text": "printed_terms_den / tokens_den: for every display setting the printed terms are a permutation of the stored "
                 "terms without the zero ones, so reading the tokens back gives the polynomial; elision_faithful (1/-1 elided "
                 "only in front of a monomial); printed_order (order follows the selected monomial order); text level (PrintText, default "
                 "display strings): text_reads_tokens_codec - for every coefficient codec whose texts are safe tokens (optional minus, "
                 "no + - * inside, not starting with q, read back by the codec) the proved reader applied to the proved printer's text "
                 "returns exactly the printed terms; int_codec_lawful; text_roundtrip / text_roundtrip_zero for integers under all 8 "
                 "display orders; the run checks the codec contract on the float / integer coefficient texts really written. "
                 "`_partial`: outside that (exponent notation, complex, other display strings) the "
                 "theorem stops at tokens; that the *text* parses back is checked by an independent recursive-descent reader "
                 "on str(p) and repr(p) for all 8 display orders x exponent/multiply signs x int/+-1/float/complex/bool "
                 "coefficients, and str(p) must equal the Lean printer's rendering; to_sympy round trip for 0-d polynomials.",
         "note": BASE_NOTE + " str() of numpy scalars is a parameter of the printer model (the harness passes numpy's own text of every coefficient); numpy print options at defaults."},
 "C15": {"ref": "5/C15", "technique": "Lean 4 corollaries of the refinement theorems (stated for all retain flags / display orders) + correspondence over option settings x operation catalogue",
         "text": "program3_wf / program3_indep / program3_succeeds_indep (programs with derivative by name, any gather, joins and linear "
                 "reductions: same shape and elements under any two flag settings; derivative_by_name_success_depends_on_flags is the proved limit). "
                 "add_indep, mul_indep (also: never fails), clean_indep, align_indep, derivative_indep, display_indep, program_indep "
                 "(every program over + - neg pos * **k **array gives the same shape and elements under any two flag settings): the "
                 "refinement theorems of C01/C03/C04/C06/C16 hold for every flag value with an option-free right-hand side, so "
                 "any two settings give the same denotation. The run calls the ~95-entry operation catalogue under the 8 "
                 "single flips + 24 random settings (thorough: all 256) x display strings and compares denotation, shape, "
                 "dtype with the default-option result; nothing may raise.",
         "note": BASE_NOTE + " sort_* are held fixed for ordering-based entries and division runs under default retain options, as the property says."},
 "C17": {"ref": "5/C17", "technique": "Lean 4 frame theorem of a store-passing model + decide over the write-site inventory regenerated by AST analysis + byte-level argument snapshots over the catalogue",
         "text": "frame: a disciplined operation (every write goes to an object allocated during the call or to an explicit "
                 "output target) leaves every pre-existing object unchanged - any number of steps. inventory_covered "
                 "(decide over harness/writesites.py's inventory of numpoly/**/*.py, regenerated each run): every in-place "
                 "write the conservative analysis cannot prove local is one of the 41 reviewed sites, so a new in-place "
                 "statement that may reach caller data breaks an obligation even if no test input aliases. The run snapshots "
                 "every argument (shape, dtype, names, keys, bytes) around ~95 catalogue entries on generated, pre-aligned, "
                 "same-object and raising calls.",
         "note": BASE_NOTE + " The AST classification is conservative and trusted; the byte-level fact is monitored, not proved about Python."},
 "C12": {"ref": "5/C12", "technique": "Lean 4 decide over the dtype switch regenerated from cvalues.pyx and the guard regenerated from from_attributes.py + buffer-loop invariant + exhaustive dtype-pair correspondence with poisoned buffers",
         "text": "fromAttributes_table (decide over all 14 source dtypes x 15 requests): the constructor stores numpy's cast in "
                 "a field of the requested dtype, never unwritten or reinterpreted bytes; guard_sound: CFUNCTION_DTYPES is "
                 "inside both compiled switches; multiply_table for all 196 dtype pairs; old_path_uninit/_garbage document "
                 "why the guard exists; product_fully_written (the cmultiply set-or-accumulate loop leaves no cell unwritten, "
                 "for every number of terms); dtype_is_promotion_of_all / old_dtype_depended_on_option: the inferred coefficient "
                 "type is numpy's promotion over every supplied column, whether or not the column survives cleaning (D31); numpy's n-ary "
                 "promotion itself is in the model (promoteAll, a transcription of PyArray_PromoteDTypeSequence: promoteAll_pair, "
                 "promoteAll_triple_symmetric over all 2744 triples, promotion_is_not_a_fold) and compared with numpy.result_type on "
                 "every pair, triple and random longer tuples per run. "
                 "The run covers all dtypes x requests x 7 constructors, the inferred type of mixed columns, all ordered pairs x "
                 "{+,-,*} incl. broadcasting, **, shape functions, and zero-survivor results, with every fresh ndpoly buffer "
                 "pre-filled with a poison byte.",
         "note": BASE_NOTE + " The .pyx switch is read from the source text (no Cython here: the running .so may be older than an edited .pyx). Known finding D16 (size-0 arrays) is pinned by test_scalars."},
}
CLAIMED = set(CHECKS)
NOT_APPLICABLE = {f"C{i:02d}": "check under construction in this session (will be claimed once built)"
                  for i in range(1, 21) if f"C{i:02d}" not in CLAIMED}

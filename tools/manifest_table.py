"""Per-property texts of MANIFEST.json (edited by hand; tools/mkmanifest.py renders them)."""
NOTES = ("All checks share /verif/check.py: regenerate Lean tables from /repo, lake build the property's theorems and the "
         "model driver, audit axioms, run the correspondence of the compiled Lean model against the working tree, "
         "turn any broken obligation or difference into a failing-input search, write evidence. See DESIGN.md.")
HOOK_COMMITS = []
BASE_NOTE = ("Trusted: Lean 4.33 kernel + Mathlib (axioms propext, Classical.choice, Quot.sound only, audited per run); "
             "the hand-written model is tied to the code by the differential correspondence run (its generators bound what "
             "drift it can see) and by tables regenerated from the source; numpy/CPython enter as parameters.")
CHECKS = {
 "C01": {"ref": "5/C01", "technique": "Lean 4 refinement proof (model -> MvPolynomial) + differential correspondence",
         "text": "Theorems add_den/mul_den/… prove, for every number of terms, names, array size and retain flags, that the "
                 "model's +,-,*,** denote the MvPolynomial operations (incl. the cmultiply buffer-loop invariant); the "
                 "compiled model is run against the real operators on generated expression trees.",
         "note": BASE_NOTE},
 "C14": {"ref": "5/C14", "technique": "Lean 4 proof by induction over option programs + exhaustive bounded history correspondence",
         "text": "with_restores is proved for every body (any nesting depth, set_options, exceptions, mutation of returned "
                 "dicts) and both exit paths; set_unknown_atomic/with_unknown/set_known/get_detached/defaults_constant "
                 "complete the statement; all flat histories up to length 4 (quick) / 5 (thorough) over 13 events are "
                 "run against the real `with`/exceptions and compared with the model after every event.",
         "note": BASE_NOTE},
 "C18": {"ref": "5/C18", "technique": "Lean 4 proof (stable two-pass sort, index-set characterisation) + table obligation on the argsort kind + exhaustive/brute-force correspondence",
         "text": "glexsort_perm/glexsort_sorted hold for every key matrix (two stable passes, own insertion sort proved "
                 "stable); glexsort_source_is_stable is re-checked against utils/glexsort.py every run; glexindex_mem_iff/"
                 "nodup/sorted characterise the index set without assuming start <= stop; cross-truncation norms 0,1,inf and "
                 "integer p are exact, fractional p is executed in binary64 (no theorem). All key matrices over {0,1,2} up "
                 "to 3x4 (3x5 thorough) and tie-heavy random ones up to 4x400 are run against the implementation.",
         "note": BASE_NOTE + " Fractional cross-truncation norms are only executed, not proved."},
 "C20": {"ref": "5/C20", "technique": "Lean 4 proof of the key codec and of the repaired multiply key path + exhaustive codec / pair correspondence",
         "text": "key_roundtrip, encodeKey_injective, validKey_below (every exponent < 55237), invalidKey_errors and "
                 "mulKeyPath_exact (both paths of multiply store a product under the key of the exponent sum; the byte "
                 "formatter alone aliases, mulKey_aliases) are proved for all exponents; the table obligation KEY_OFFSET = 59 "
                 "is regenerated each run. Every exponent 0..1114200 goes through construct/raw view/reconstruct, all pairs "
                 "a+b <= 200 (600) through *, random tuples up to 1e5 through the operation chain.",
         "note": BASE_NOTE},
 "C07": {"ref": "5/C07", "technique": "Lean 4 proof (walk_last, strict-total-order laws of the documented order, walk = spec) + bounded-exhaustive universe correspondence",
         "text": "The documented order `Gt` is proved irreflexive, asymmetric, transitive and trichotomous on coefficient "
                 "functions differing at finitely many monomials; greater_spec shows the overwrite walk started from storage "
                 "row 0 decides exactly that order; cmpWalk_eq_walk/walk_order_sorted tie the executable model to it. A "
                 "universe of 60 (150) small polynomials is compared as arrays under all four sort settings (matrices "
                 "equal the model's; laws re-checked on them), plus random same-degree-heavy pairs and maximum/minimum.",
         "note": BASE_NOTE + " The identification of the position in glexsort order with a LinearOrder on monomials is by the sortedness theorem of C18; coefficients are compared as rationals."},
 "C19": {"ref": "5/C19", "technique": "Lean 4 proof (leadWalk_spec via walk_last; isconstant/tonumpy/set_dimensions specs) + model correspondence",
         "text": "leadWalk_spec: the ascending overwrite walk returns the largest non-zero term or zeros; the executable "
                 "walk is that walk (leadWalk_eq_walk); isconstant_spec, tonumpy_error_iff, setDimsDrop_zero. lead_*, "
                 "sortable_proxy (permutation + monotone in (lead exponent, lead coefficient)), argmax/argmin/amax/amin "
                 "without axis, isconstant, tonumpy, todict, decompose, set_dimensions(1..5) are run against the model.",
         "note": BASE_NOTE},
}
CLAIMED = set(CHECKS)
NOT_APPLICABLE = {f"C{i:02d}": "check under construction in this session (will be claimed once built)"
                  for i in range(1, 21) if f"C{i:02d}" not in CLAIMED}

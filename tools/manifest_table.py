"""Per-property texts of MANIFEST.json (edited by hand; tools/mkmanifest.py renders them)."""
NOTES = ("All checks share /verif/check.py: regenerate Lean tables from /repo, lake build the property's theorems and the "
         "model driver, audit axioms, run the correspondence of the compiled Lean model against the working tree, "
         "turn any broken obligation or difference into a failing-input search, write evidence. See DESIGN.md.")
HOOK_COMMITS = []
BASE_NOTE = ("Trusted: Lean 4.33 kernel + Mathlib (axioms propext, Classical.choice, Quot.sound only, audited per run); "
             "the hand-written model is tied to the code by the differential correspondence run (its generators bound what "
             "drift it can see) and by tables regenerated from the source; numpy/CPython enter as parameters.")
CHECKS = {
 "C01": {"ref": "5/C01", "technique": "Lean 4 refinement proof (model -> MvPolynomial) + differential correspondence",
         "text": "Theorems add_den/mul_den/… prove, for every number of terms, names, array size and retain flags, that the "
                 "model's +,-,*,** denote the MvPolynomial operations (incl. the cmultiply buffer-loop invariant); the "
                 "compiled model is run against the real operators on generated expression trees.",
         "note": BASE_NOTE},
}
NOT_APPLICABLE = {f"C{i:02d}": "check under construction in this session (will be claimed once built)" for i in range(2, 21)}

#!/usr/bin/env python3
"""Refresh the generated blocks of DESIGN.md (between <!-- BEGIN:x --> and <!-- END:x --> markers) from the tree:
theorem inventory (lean/Np/Props), seeded changes (seeded/*/meta.json), findings (known_findings.json), sizes."""
import glob, json, os, re, subprocess
VERIF = os.path.dirname(os.path.dirname(os.path.abspath(__file__)))


def theorems():
    out = []
    for i in range(1, 21):
        pid = f"C{i:02d}"
        src = open(f"{VERIF}/lean/Np/Props/{pid}.lean").read()
        out.append(f"**{pid}** (`lean/Np/Props/{pid}.lean`)\n")
        for m in re.finditer(r"(?:/--(.*?)-/\s*)?^theorem\s+(\S+)", src, re.S | re.M):
            doc = m.group(1)
            # a docstring belongs to the theorem only if nothing but whitespace separates them (regex guarantees)
            text = ""
            if doc:
                # the lazy group may have swallowed earlier docstrings: keep the last one
                doc = doc.split("/--")[-1]
                text = " ".join(doc.split())
                text = text if len(text) < 260 else text[:257] + "…"
            out.append(f"* `{m.group(2)}`" + (f" — {text}" if text else ""))
        out.append("")
    return "\n".join(out)


def seeded():
    rows = ["| change | file touched | what it breaks | detected by | first run | strengthening made |", "|---|---|---|---|---|---|"]
    for d in sorted(glob.glob(f"{VERIF}/seeded/*/")):
        name = os.path.basename(d.rstrip("/"))
        meta = json.load(open(d + "meta.json"))
        patch = open(d + "patch.diff").read()
        files = sorted(set(re.findall(r"^\+\+\+ b/(\S+)", patch, re.M)))
        what = meta.get("what") or ""
        if not what:
            c = meta.get("confirmed", {}).get("demo_with_change", {}).get("tail", [""])
            what = (c[0] if c else "")[:140]
        det = ", ".join(meta.get("detected_by", [])) or "—"
        first = "missed" if meta.get("first_run_missed") else "detected"
        rows.append(f"| {name} | {', '.join(f.replace('numpoly/', '') for f in files)} | {what.replace('|', '/')} | {det} | {first} | "
                    f"{(meta.get('strengthening') or '').replace('|', '/')} |")
    return "\n".join(rows)


def findings():
    d = json.load(open(f"{VERIF}/known_findings.json"))["findings"]
    rows = ["| id | property | disposition | what failed |", "|---|---|---|---|"]
    for f in d:
        disp = f"fixed in `{f['commit'][:7]}`" if f.get("status") == "fixed" else f"known finding (tags {f.get('match_tags')})"
        rows.append(f"| {f['id']} | {f['property']} | {disp} | {(f.get('what') or '').replace('|', '/')} |")
    return "\n".join(rows)


def sizes():
    def wc(pat):
        return sum(len(open(f).read().splitlines()) for f in glob.glob(pat, recursive=True))
    n_thm = 0
    for i in range(1, 21):
        n_thm += len(re.findall(r"^theorem\s", open(f"{VERIF}/lean/Np/Props/C{i:02d}.lean").read(), re.M))
    n_help = sum(len(re.findall(r"^(?:theorem|lemma)\s", open(f).read(), re.M)) for f in glob.glob(f"{VERIF}/lean/Np/Proofs/*.lean"))
    return (f"model {wc(VERIF + '/lean/Np/Model/*.lean')} lines (+ {wc(VERIF + '/lean/Np/Generated/*.lean')} generated), "
            f"helper proofs {wc(VERIF + '/lean/Np/Proofs/*.lean')} lines / {n_help} lemmas, property files "
            f"{wc(VERIF + '/lean/Np/Props/*.lean')} lines / {n_thm} property theorems, driver {wc(VERIF + '/lean/Driver.lean')} lines; "
            f"harness + check + tools {wc(VERIF + '/harness/**/*.py') + wc(VERIF + '/check.py') + wc(VERIF + '/tools/*.py')} lines of Python; "
            f"{len(glob.glob(VERIF + '/seeded/*/'))} seeded changes kept.")


def main():
    path = f"{VERIF}/DESIGN.md"
    s = open(path).read()
    for key, fn in (("theorems", theorems), ("seeded", seeded), ("findings", findings), ("sizes", sizes)):
        pat = re.compile(rf"(<!-- BEGIN:{key} -->\n).*?(<!-- END:{key} -->)", re.S)
        if not pat.search(s):
            print("marker missing:", key)
            continue
        body = fn()
        s = pat.sub(lambda m: m.group(1) + body + "\n" + m.group(2), s)
    open(path, "w").write(s)
    print("DESIGN.md refreshed")


if __name__ == "__main__":
    main()

#!/usr/bin/env python3
"""Write /verif/MANIFEST.json from the table below and validate it against the schema."""
import json, os, sys
VERIF = os.path.dirname(os.path.dirname(os.path.abspath(__file__)))
sys.path.insert(0, VERIF)
from tools.manifest_table import CHECKS, NOT_APPLICABLE, NOTES, HOOK_COMMITS

def main():
    checks = []
    for pid, c in sorted(CHECKS.items()):
        checks.append({
            "property_id": pid,
            "quick_cmd": f"/venv/bin/python /verif/check.py {pid} --tier quick",
            "thorough_cmd": f"/venv/bin/python /verif/check.py {pid} --tier thorough",
            "evidence_file": f"/verif/evidence/{pid}.json",
            "replay_cmd_template": f"/venv/bin/python /verif/check.py {pid} --replay {{path}}",
            "engine": "lean4-model+correspondence",
            "level_claimed": {"category": "proof", "text": c["text"], "design_ref": c["ref"]},
            "level_note": c["note"],
            "technique": c["technique"],
        })
    m = {
        "version": 1,
        "setup_cmd": "/venv/bin/python /verif/check.py --setup",
        "hooks": {
            "guard": "NUMPOLY_VERIF",
            "enable": "none needed: the observation points the checks use (division-loop observer, argument snapshots) are harness-side wrappers installed at run time; NUMPOLY_VERIF=1 is exported by the harness and guards nothing in the source today",
            "baseline_off_cmd": "cd /repo && env -u NUMPOLY_VERIF /venv/bin/python -m pytest -ra -q -p no:cacheprovider --timeout=900 --continue-on-collection-errors",
            "source_commits": HOOK_COMMITS,
            "add_only": True,
        },
        "engines": [{
            "name": "lean4-model+correspondence",
            "path": "/verif/lean, /verif/harness, /verif/check.py",
            "serves_properties": sorted(CHECKS),
            "kind_free_text": "Lean 4 model of numpoly with machine-checked theorems (lake build + #print axioms audit each run), tables regenerated from /repo by harness/extract.py, and a differential correspondence run of the compiled model driver against the live /repo tree",
        }],
        "checks": checks,
        "notes": NOTES,
        "not_applicable": [{"property_id": p, "reason": r} for p, r in sorted(NOT_APPLICABLE.items())],
    }
    path = os.path.join(VERIF, "MANIFEST.json")
    json.dump(m, open(path, "w"), indent=1)
    try:
        import jsonschema
        jsonschema.validate(m, json.load(open("/root/.vp/MANIFEST.schema.json")))
        print("MANIFEST.json valid;", len(checks), "checks,", len(m["not_applicable"]), "not applicable")
    except ImportError:
        print("jsonschema not available; wrote without validation")

if __name__ == "__main__":
    main()

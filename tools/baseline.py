#!/usr/bin/env python3
"""Run the pinned baseline (guard off) and compare with /root/.vp/BASELINE.json's stable_pass list."""
import json, os, subprocess, sys, tempfile, xml.etree.ElementTree as ET
base = json.load(open("/root/.vp/BASELINE.json"))
want = set(base["stable_pass"])
with tempfile.TemporaryDirectory() as d:
    xml = os.path.join(d, "j.xml")
    env = dict(os.environ); env.pop("NUMPOLY_VERIF", None)
    p = subprocess.run(["/venv/bin/python", "-m", "pytest", "-ra", "-q", "-p", "no:cacheprovider", "--timeout=900",
                        "--continue-on-collection-errors", f"--junitxml={xml}"], cwd="/repo", env=env,
                       stdout=subprocess.PIPE, stderr=subprocess.STDOUT)
    passed = set()
    for tc in ET.parse(xml).getroot().iter("testcase"):
        if not any(ch.tag in ("failure", "error", "skipped") for ch in tc):
            passed.add(f"{tc.get('classname')}::{tc.get('name')}")
missing = sorted(want - passed)
print(f"baseline: {len(want & passed)}/{len(want)} pinned tests pass; {len(passed - want)} other tests pass")
for m in missing: print("  FAILING pinned test:", m)
sys.exit(1 if missing else 0)

#!/bin/sh
# usage: mkworktree.sh <name>   -> /tmp/wt-<name>, a scratch worktree of /repo's HEAD with the compiled helpers copied in
set -e
d=/tmp/wt-$1
git -C /repo worktree remove --force "$d" 2>/dev/null || true
rm -rf "$d"
git -C /repo worktree add -q --detach "$d" HEAD
cp /repo/numpoly/cfunctions/*.so /repo/numpoly/cfunctions/*.c "$d/numpoly/cfunctions/" 2>/dev/null || true
echo "$d"

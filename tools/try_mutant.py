#!/usr/bin/env python3
"""Apply a patch to /repo, run the registered quick checks (all, or the given property ids), undo the patch.

usage: try_mutant.py <patch.diff> [Cxx ...]     prints one line per check: property, exit code, VIOLATION/KNOWN lines
"""
import json, os, subprocess, sys, time
VERIF = os.path.dirname(os.path.dirname(os.path.abspath(__file__)))

def sh(cmd, **kw):
    return subprocess.run(cmd, shell=True, stdout=subprocess.PIPE, stderr=subprocess.STDOUT, text=True, **kw)

def main():
    patch = os.path.abspath(sys.argv[1])
    props = sys.argv[2:] or [f"C{i:02d}" for i in range(1, 21)]
    st = sh("git -C /repo status --porcelain --untracked-files=no")
    if st.stdout.strip():
        print("refusing: /repo has uncommitted changes\n" + st.stdout); return 2
    r = sh(f"git -C /repo apply {patch}")
    if r.returncode:
        print("patch does not apply:\n" + r.stdout); return 2
    results = {}
    # the evidence files committed under /verif must come from runs on the unchanged tree: keep them aside
    saved = {}
    for q in props:
        f = os.path.join(VERIF, "evidence", f"{q}.json")
        if os.path.exists(f):
            saved[f] = open(f, "rb").read()
    try:
        for p in props:
            t0 = time.time()
            env = dict(os.environ, VERIF_SEED=os.environ.get("VERIF_SEED", "0"))
            r = sh(f"/venv/bin/python {VERIF}/check.py {p} --tier quick", env=env, timeout=1800)
            lines = [l for l in r.stdout.splitlines() if l.startswith(("VIOLATION", "KNOWN-FINDING")) or l.startswith("  ") and "VIOLATION" in r.stdout]
            viol = [l for l in r.stdout.splitlines() if l.startswith("VIOLATION")]
            first_detail = ""
            out_lines = r.stdout.splitlines()
            for i, l in enumerate(out_lines):
                if l.startswith("VIOLATION") and i + 1 < len(out_lines):
                    first_detail = out_lines[i + 1].strip()[:160]; break
            results[p] = {"rc": r.returncode, "violations": len(viol), "nfi": any("no-failing-input-found" in v for v in viol), "detail": first_detail, "wall": round(time.time() - t0, 1)}
            print(f"{p}: rc={r.returncode} violations={len(viol)}{' (no-failing-input-found)' if results[p]['nfi'] else ''} {first_detail}", flush=True)
    finally:
        r = sh(f"git -C /repo apply -R {patch}")        # also removes files the patch added; never `git clean` here:
        sh("git -C /repo checkout -- .")                 # the compiled helpers under numpoly/cfunctions are untracked
        # put the regenerated tables back to the unchanged tree's
        sh(f"/venv/bin/python -m harness.extract", cwd=VERIF)
        for f, data in saved.items():
            open(f, "wb").write(data)
    print(json.dumps(results))
    return 0

if __name__ == "__main__":
    sys.exit(main())

#!/usr/bin/env python3
"""Confirm a sub-agent's mutant in its scratch worktree, run the registered checks against it, keep it under seeded/.

usage: seed_mutant.py <property> <k> [--props C01,C03,...] [--all]
  worktree /tmp/wt-<property>/MUTANTS/<k>/{patch.diff,demo.py,notes.md}
"""
import json, os, shutil, subprocess, sys, time
VERIF = os.path.dirname(os.path.dirname(os.path.abspath(__file__)))

def sh(cmd, **kw):
    return subprocess.run(cmd, shell=True, stdout=subprocess.PIPE, stderr=subprocess.STDOUT, text=True, **kw)

def main():
    prop, k = sys.argv[1], sys.argv[2]
    wt = f"/tmp/wt-{prop}"
    src = f"{wt}/MUTANTS/{k}"
    props = [prop]
    if "--props" in sys.argv:
        props = sys.argv[sys.argv.index("--props") + 1].split(",")
    if "--all" in sys.argv:
        props = [f"C{i:02d}" for i in range(1, 21)]
    env = dict(os.environ, PYTHONPATH=wt)
    meta = {"property": prop, "source": f"sub-agent, worktree {wt}", "confirmed": {}}
    sh(f"git -C {wt} checkout -- .")
    r = sh(f"cd {wt} && /venv/bin/python {src}/demo.py", env=env, timeout=600)
    meta["confirmed"]["demo_without_change"] = {"rc": r.returncode, "tail": r.stdout.strip().splitlines()[-1:] }
    r = sh(f"git -C {wt} apply {src}/patch.diff")
    if r.returncode:
        print("patch does not apply", r.stdout); return 2
    try:
        r = sh(f"cd {wt} && /venv/bin/python {src}/demo.py", env=env, timeout=600)
        meta["confirmed"]["demo_with_change"] = {"rc": r.returncode, "tail": r.stdout.strip().splitlines()[-1:]}
        r = sh(f"cd {wt} && /venv/bin/python -m pytest -q -p no:cacheprovider --timeout=900 test 2>&1 | tail -4", env=env, timeout=1800)
        meta["confirmed"]["tests_with_change"] = r.stdout.strip().splitlines()[-1:]
        failed = [l for l in r.stdout.splitlines() if l.startswith("FAILED")]
        meta["confirmed"]["tests_failed_with_change"] = failed
    finally:
        sh(f"git -C {wt} apply -R {src}/patch.diff"); sh(f"git -C {wt} checkout -- .")
    ok = (meta["confirmed"]["demo_without_change"]["rc"] == 0 and meta["confirmed"]["demo_with_change"]["rc"] != 0
          and all("count_nonzero" in f for f in meta["confirmed"]["tests_failed_with_change"]))
    meta["confirmed"]["ok"] = ok
    print("confirmed:", json.dumps(meta["confirmed"]))
    if not ok:
        print("NOT CONFIRMED - not kept"); return 1
    r = sh(f"/usr/bin/env python3 {VERIF}/tools/try_mutant.py {src}/patch.diff {' '.join(props)}", timeout=7200)
    print(r.stdout)
    try:
        det = json.loads(r.stdout.strip().splitlines()[-1])
    except Exception:
        det = {"error": r.stdout[-500:]}
    meta["checks_run"] = det
    meta["detected_by"] = sorted(p for p, v in det.items() if isinstance(v, dict) and v.get("violations"))
    meta["needs"] = open(f"{src}/notes.md").read() if os.path.exists(f"{src}/notes.md") else ""
    dst = os.path.join(VERIF, "seeded", f"{prop}-{k}")
    os.makedirs(dst, exist_ok=True)
    for f in ("patch.diff", "demo.py", "notes.md"):
        if os.path.exists(f"{src}/{f}"):
            shutil.copy(f"{src}/{f}", dst)
    json.dump(meta, open(os.path.join(dst, "meta.json"), "w"), indent=1)
    print("kept as", dst, "detected by", meta["detected_by"])
    return 0

if __name__ == "__main__":
    sys.exit(main())

#!/usr/bin/env python3
"""record the outcome of re-running the checks on a kept seeded change:
   seed_meta.py C01-7 --detected C01 [C09 ..] [--missed "by all"] [--strengthening "..."] [--note "..."]"""
import argparse
import json
import pathlib

ap = argparse.ArgumentParser()
ap.add_argument("id")
ap.add_argument("--detected", nargs="*", default=None)
ap.add_argument("--missed", default=None)
ap.add_argument("--strengthening", default=None)
ap.add_argument("--note", default=None)
a = ap.parse_args()
p = pathlib.Path(__file__).resolve().parent.parent / "seeded" / a.id / "meta.json"
m = json.loads(p.read_text())
if a.detected is not None:
    m["detected_by"] = sorted(set(m.get("detected_by", [])) | set(a.detected))
if a.missed is not None:
    m["first_run_missed"] = a.missed
if a.strengthening is not None:
    m["strengthening"] = a.strengthening
if a.note is not None:
    m["note"] = a.note
p.write_text(json.dumps(m, indent=1) + "\n")
print(a.id, m["detected_by"])

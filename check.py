#!/venv/bin/python
"""Single entry point behind every quick_cmd / thorough_cmd.

  check.py Cxx --tier quick|thorough      decide property Cxx on /repo's working tree
  check.py Cxx --replay <file>            re-run one recorded case
  check.py --setup                        extract tables, build proofs and driver

exit 0: held on everything explored (KNOWN-FINDING lines allowed); 1: VIOLATION; 2: infrastructure failure.
"""
from __future__ import annotations

import argparse
import fcntl
import hashlib
import importlib
import json
import os
import re
import subprocess
import sys
import time
import traceback

VERIF = os.path.dirname(os.path.abspath(__file__))
sys.path.insert(0, VERIF)
LEAN = os.path.join(VERIF, "lean")
ALLOWED_AXIOMS = {"propext", "Classical.choice", "Quot.sound"}
FORBIDDEN = re.compile(r"\bsorry\b|\badmit\b|^\s*axiom\s|native_decide|bv_decide|implemented_by|\bunsafe\s|maxHeartbeats\s+0")
PROPS = [f"C{i:02d}" for i in range(1, 21)]


def log(*a):
    print(*a, flush=True)


# ------------------------------------------------------------------------------------------
# proofs: build + audit

def lean_sources():
    out = []
    for root, _, files in os.walk(os.path.join(LEAN, "Np")):
        for f in files:
            if f.endswith(".lean"):
                out.append(os.path.join(root, f))
    out.append(os.path.join(LEAN, "Driver.lean"))
    return sorted(out)


def strip_comments(text: str) -> str:
    text = re.sub(r"/-.*?-/", "", text, flags=re.S)
    return re.sub(r"--.*", "", text)


def grep_forbidden():
    hits = []
    for path in lean_sources():
        body = strip_comments(open(path).read())
        for i, line in enumerate(body.splitlines(), 1):
            if FORBIDDEN.search(line):
                hits.append(f"{os.path.relpath(path, LEAN)}:{i}: {line.strip()[:80]}")
    return hits


def prop_theorems(prop: str):
    path = os.path.join(LEAN, "Np", "Props", f"{prop}.lean")
    if not os.path.exists(path):
        return []
    body = strip_comments(open(path).read())
    names = []
    ns = []
    for line in body.splitlines():
        m = re.match(r"\s*namespace\s+(\S+)", line)
        if m:
            ns.append(m.group(1))
        m = re.match(r"\s*end\s+(\S+)", line)
        if m and ns and ns[-1] == m.group(1):
            ns.pop()
        m = re.match(r"\s*(?:@\[[^\]]*\]\s*)?(?:private\s+|protected\s+)?theorem\s+(\S+)", line)
        if m:
            names.append(".".join(ns + [m.group(1)]))
    return names


def run(cmd, cwd=None, timeout=3600):
    t0 = time.time()
    p = subprocess.run(cmd, cwd=cwd, stdout=subprocess.PIPE, stderr=subprocess.STDOUT, timeout=timeout)
    return p.returncode, p.stdout.decode(errors="replace"), time.time() - t0


def lake_build(targets):
    rc, out, dt = run(["lake", "build"] + targets, cwd=LEAN)
    return rc, out, dt


def build_error_theorems(out: str):
    """map `error: File.lean:line:col` messages to the enclosing theorem names"""
    broken = []
    for m in re.finditer(r"error: (\S+\.lean):(\d+):(\d+)", out):
        path, line = os.path.join(LEAN, m.group(1)), int(m.group(2))
        name = None
        try:
            lines = open(path).read().splitlines()
            for i in range(min(line, len(lines)) - 1, -1, -1):
                mm = re.match(r"\s*(?:@\[[^\]]*\]\s*)?(?:theorem|def|lemma|example|instance)\s*(\S*)", lines[i])
                if mm:
                    name = mm.group(1) or "example"
                    break
        except OSError:
            pass
        broken.append(f"{m.group(1)}:{line} ({name})")
    return sorted(set(broken))


def audit(prop: str, theorems):
    """#print axioms for every property theorem; returns (per-theorem axioms, raw output)."""
    if not theorems:
        return {}, ""
    os.makedirs(os.path.join(LEAN, "Audit"), exist_ok=True)
    path = os.path.join(LEAN, "Audit", f"{prop}.lean")
    text = f"import Np.Props.{prop}\n" + "".join(f"#print axioms {t}\n" for t in theorems)
    if not os.path.exists(path) or open(path).read() != text:
        open(path, "w").write(text)
    rc, out, _ = run(["lake", "env", "lean", path], cwd=LEAN)
    res = {}
    for m in re.finditer(r"'([^']+)' (?:depends on axioms: \[([^\]]*)\]|does not depend on any axioms)", out, flags=re.S):
        axs = [a.strip() for a in (m.group(2) or "").replace("\n", " ").split(",") if a.strip()]
        res[m.group(1)] = axs
    return res, out


# ------------------------------------------------------------------------------------------
# context handed to the property modules

class Ctx:
    def __init__(self, prop, tier, seed):
        self.prop, self.tier, self.seed = prop, tier, seed
        self.failures = []      # property-level: {"case":..., "what":..., "tags":[...]}
        self.drift = []         # representation-level differences (never an alarm)
        self.dist = {}          # input distribution counters
        self.evaluations = 0
        self.nontrivial = set()
        self.samples = []
        self.notes = []
        self.rule = ""
        self.exhaustive = False
        self.extra = {}
        self.broken = []        # proof obligations / tables that no longer check
        self.deadline = time.time() + (100 if tier == "quick" else 780)

    @property
    def quick(self):
        return self.tier == "quick"

    def rng(self, stream=""):
        from harness.core import make_rng
        return make_rng(self.seed, f"{self.prop}/{stream}")

    def count(self, key, n=1):
        self.dist[key] = self.dist.get(key, 0) + n

    def fail(self, case, what, tags=()):
        self.failures.append({"case": case, "what": what, "tags": sorted(set(tags))})

    def sample(self, case, limit=5):
        if len(self.samples) < limit:
            self.samples.append(case)

    def nontrivial_add(self, key):
        self.nontrivial.add(key)

    def out_of_time(self):
        return time.time() > self.deadline


# ------------------------------------------------------------------------------------------
# known findings

def load_findings():
    path = os.path.join(VERIF, "known_findings.json")
    if not os.path.exists(path):
        return []
    return json.load(open(path)).get("findings", [])


def match_finding(prop, failure, findings):
    tags = set(failure["tags"])
    for f in findings:
        if f.get("status") != "known" or f.get("property") != prop:
            continue
        if set(f.get("match_tags", ["<never>"])) <= tags:
            return f
    return None


# ------------------------------------------------------------------------------------------

def jsonable(x):
    """make any case record serialisable (tuple keys, numpy scalars, Fractions, …)"""
    if isinstance(x, dict):
        return {(k if isinstance(k, (str, int, float, bool)) or k is None else str(k)): jsonable(v) for k, v in x.items()}
    if isinstance(x, (list, tuple, set)):
        return [jsonable(v) for v in x]
    if isinstance(x, (str, int, float, bool)) or x is None:
        return x
    try:
        import numpy
        if isinstance(x, numpy.generic):
            return x.item()
        if isinstance(x, numpy.ndarray):
            return x.tolist()
    except Exception:  # noqa: BLE001
        pass
    return str(x)


def write_json(path, obj):
    obj = jsonable(obj)
    os.makedirs(os.path.dirname(path), exist_ok=True)
    tmp = path + ".tmp"
    with open(tmp, "w") as fh:
        json.dump(obj, fh, indent=1, default=str)
    os.replace(tmp, path)


def do_setup():
    from harness import extract
    changed = extract.write_generated()
    log(f"extract: {len(changed)} generated file(s) rewritten")
    rc, out, dt = lake_build(["Np", "driver"])
    log(out[-3000:])
    log(f"lake build: rc={rc} in {dt:.1f}s")
    return 0 if rc == 0 else 2


def main():
    ap = argparse.ArgumentParser()
    ap.add_argument("prop", nargs="?")
    ap.add_argument("--tier", default=os.environ.get("VERIF_TIER", "quick"), choices=["quick", "thorough"])
    ap.add_argument("--replay")
    ap.add_argument("--setup", action="store_true")
    args = ap.parse_args()
    seed = int(os.environ.get("VERIF_SEED", "0") or 0)

    lock = open(os.path.join(VERIF, ".lock"), "w")
    fcntl.flock(lock, fcntl.LOCK_EX)
    try:
        if args.setup:
            return do_setup()
        prop = args.prop
        if prop not in PROPS:
            log(f"unknown property {prop}")
            return 2
        return check(prop, args.tier, seed, args.replay, lock)
    finally:
        try:
            fcntl.flock(lock, fcntl.LOCK_UN)
        except Exception:  # noqa: BLE001
            pass


def check(prop, tier, seed, replay, lock):
    t0 = time.time()
    ctx = Ctx(prop, tier, seed)
    evidence_path = os.path.join(VERIF, "evidence", f"{prop}.json")

    # 1-2. tables regenerated from /repo
    from harness import extract
    from harness.core import MalformedResult
    try:
        changed = extract.write_generated()
    except Exception as err:  # noqa: BLE001
        traceback.print_exc()
        ctx.broken.append(f"extractor failed: {type(err).__name__}: {err}")
        changed = []
    if changed:
        log(f"[{prop}] generated tables changed: {', '.join(changed)}")

    # 3. proofs
    theorems = prop_theorems(prop)
    rc, out, dt = lake_build([f"Np.Props.{prop}", "driver"])
    build_ok = rc == 0
    if not build_ok:
        broken = build_error_theorems(out)
        log(f"[{prop}] lake build failed:\n" + "\n".join(l for l in out.splitlines() if "error" in l)[:3000])
        ctx.broken.extend(f"proof obligation no longer checks: {b}" for b in (broken or ["lake build failed"]))
        # the driver may still be buildable on its own
        rc2, out2, _ = lake_build(["driver"])
        if rc2 != 0 and not os.path.exists(os.path.join(LEAN, ".lake", "build", "bin", "driver")):
            log(out2[-2000:])
            log(f"[{prop}] model driver cannot be built")
            return 2
    # 4. audit
    discharged = 0
    axioms = {}
    forbidden = grep_forbidden()
    if forbidden:
        ctx.broken.append("forbidden construct in Lean sources: " + "; ".join(forbidden[:5]))
    if build_ok:
        axioms, raw = audit(prop, theorems)
        for t in theorems:
            axs = axioms.get(t)
            if axs is None:
                ctx.broken.append(f"theorem {t} missing from the audit output")
            elif not set(axs) <= ALLOWED_AXIOMS:
                ctx.broken.append(f"theorem {t} depends on axioms {axs}")
            else:
                discharged += 1
    if tier == "thorough" and build_ok and not os.environ.get("VERIF_SKIP_LEANCHECKER"):
        rcc, outc, dtc = run(["lake", "env", "leanchecker", f"Np.Props.{prop}"], cwd=LEAN, timeout=1500)
        ctx.extra["leanchecker"] = {"rc": rcc, "wall_s": round(dtc, 1), "tail": outc[-300:]}
        if rcc != 0:
            ctx.broken.append("leanchecker rejected the compiled proofs")
    # the lock protects only extraction/build; the correspondence can run concurrently
    fcntl.flock(lock, fcntl.LOCK_UN)

    # 5. correspondence
    mod = importlib.import_module(f"harness.props.{prop.lower()}")
    if replay:
        rec = json.load(open(replay))
        if rec["case"].get("kind") == "prelude":
            from harness.core import numpoly as _np
            try:
                with _np.global_options(retain_names=False, retain_coefficients=True, sort_graded=False, display_inverse=False):
                    _np.variable(2) + 1
                res = None
            except Exception as err:  # noqa: BLE001
                res = f"{type(err).__name__}: {err}"
        elif rec["case"].get("kind") == "malformed-result":
            try:
                mod.run(ctx)
                res = None
            except MalformedResult as err:
                res = str(err)
        else:
            res = mod.replay(ctx, rec["case"])
        log(f"[{prop}] replay: {'FAILS' if res else 'passes'} {res or ''}")
        return 1 if res else 0
    # every run starts after an option block with other settings has come and gone in the same process (and, inside it, an
    # exception): what a property observes afterwards is part of its histories (seeded changes C03-14, C09-16: blocks
    # that no longer restore the options). C14 has its own histories and starts from a fresh process.
    if prop != "C14":
        from harness.core import numpoly as _np
        try:
            with _np.global_options(retain_names=False, retain_coefficients=True, sort_graded=False, display_inverse=False):
                _np.variable(2) + 1
                raise LookupError("leave the block through an exception")
        except LookupError:
            pass
        except Exception as err:  # noqa: BLE001 - the implementation fails inside the block: its failure, not the harness's
            ctx.fail({"kind": "prelude", "trace": traceback.format_exc()[-1500:]},
                     f"numpoly.variable(2) + 1 under retain_names=False, retain_coefficients=True raised {type(err).__name__}: {str(err)[:120]}",
                     ["prelude", "raises"])
    try:
        mod.run(ctx)
    except MalformedResult as err:
        # the implementation returned an object whose own attributes raise: that is its failure, not the harness's
        ctx.fail({"kind": "malformed-result", "trace": traceback.format_exc()[-1500:]},
                 f"a returned polynomial is unreadable: {err}", ["malformed-result", "wf"])
        ctx.notes.append("run stopped at the first unreadable result")
    except Exception as err:  # noqa: BLE001
        traceback.print_exc()
        log(f"[{prop}] harness error: {type(err).__name__}: {err}")
        return 2

    # 6. broken obligations -> failing-input search (the module may add table-derived candidates)
    if ctx.broken and not ctx.failures and hasattr(mod, "search"):
        try:
            mod.search(ctx)
        except Exception:  # noqa: BLE001
            traceback.print_exc()

    findings = load_findings()
    known, violations = {}, []
    for f in ctx.failures:
        k = match_finding(prop, f, findings)
        if k:
            known.setdefault(k["id"], (k, 0))
            known[k["id"]] = (k, known[k["id"]][1] + 1)
        else:
            violations.append(f)
    for kid, (k, n) in sorted(known.items()):
        log(f"KNOWN-FINDING: property={prop} {kid}: {k['what']} ({n} case(s) this run)")

    status = 0
    replay_dir = os.path.join(VERIF, "replays")
    if violations:
        status = 1
        seen_what = set()
        for i, f in enumerate(violations):
            key = (tuple(f["tags"]), f["what"][:60])
            if key in seen_what or len(seen_what) >= 5:
                continue
            seen_what.add(key)
            if hasattr(mod, "shrink"):
                try:
                    f = dict(f, case=mod.shrink(ctx, f["case"]))
                except Exception:  # noqa: BLE001
                    pass
            path = os.path.join(replay_dir, f"{prop}-{seed}-{i}.json")
            write_json(path, {"property": prop, "what": f["what"], "tags": f["tags"], "case": f["case"],
                              "broken_obligations": ctx.broken,
                              "how": f"/venv/bin/python /verif/check.py {prop} --replay {path}"})
            log(f"VIOLATION property={prop} replay={path}")
            log(f"  {f['what'][:300]}")
    elif ctx.broken:
        status = 1
        path = os.path.join(replay_dir, f"{prop}-{seed}-obligation.json")
        write_json(path, {"property": prop, "what": "no failing input found; the property is no longer shown to hold",
                          "broken_obligations": ctx.broken, "case": None})
        log(f"VIOLATION property={prop} replay={path} no-failing-input-found")
        for b in ctx.broken[:10]:
            log(f"  {b}")

    # 7. evidence
    wall = time.time() - t0
    n_obl = max(len(theorems), 1)
    coverage = {
        "obligations": n_obl,
        "discharged": discharged if not ctx.broken else min(discharged, n_obl - 1) if theorems else 0,
        "checker_cmd": f"cd /verif/lean && lake build Np.Props.{prop} && lake env lean Audit/{prop}.lean"
                       + (f" && lake env leanchecker Np.Props.{prop}" if tier == "thorough" else ""),
        "trusted_base": [
            "Lean 4.33.0 kernel/elaborator, Mathlib v4.33.0",
            "axioms allowed: propext, Classical.choice, Quot.sound (audited with #print axioms this run)",
            "harness/extract.py (tables regenerated from /repo), harness correspondence (differential testing)",
            "numpy 2.x / CPython as parameters (DESIGN.md section 6)",
        ],
        "theorems": theorems,
        "axioms": axioms,
        "evaluations": ctx.evaluations,
        "distinct_nontrivial": len(ctx.nontrivial),
        "rule": ctx.rule,
        "samples": ctx.samples or [{"note": "no correspondence cases in this run"}],
        "exhaustive": ctx.exhaustive,
        "input_distribution": ctx.dist,
        "drift": ctx.drift[:20],
        "drift_count": len(ctx.drift),
        "known_findings_hit": {k: n for k, (_, n) in known.items()},
        "broken_obligations": ctx.broken,
        "generated_tables_changed": changed,
        "notes": ctx.notes,
    }
    coverage.update(ctx.extra)
    write_json(evidence_path, {
        "property_id": prop, "tier": tier, "seed": seed, "level": "proof",
        "coverage": coverage,
        "assumptions": ["model hand-written from the source; tied by the correspondence run and the regenerated tables",
                        "floating point only on exactly representable (dyadic) values"],
        "wall_s": round(wall, 2), "violations": len(violations) + (1 if (ctx.broken and not violations) else 0),
    })
    log(f"[{prop}] tier={tier} seed={seed} theorems={discharged}/{len(theorems)} evaluations={ctx.evaluations} "
        f"nontrivial={len(ctx.nontrivial)} drift={len(ctx.drift)} known={sum(n for _, n in known.values())} "
        f"violations={len(violations)} wall={wall:.1f}s")
    return status


if __name__ == "__main__":
    try:
        sys.exit(main())
    except subprocess.TimeoutExpired as err:
        log(f"timeout: {err}")
        sys.exit(2)

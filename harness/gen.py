"""Seeded structured generators over the C01 input space."""
from __future__ import annotations

from fractions import Fraction

from .core import numpy, numpoly, coef_json, struct_to_poly, coef_from_json, exact_to_py

NAME_POOL = [0, 1, 2, 3, 10]
SHAPES = [(), (1,), (2,), (3,), (1, 2), (2, 1), (2, 2), (1, 1), (2, 3), (1, 3), (2, 1, 2), (1, 2, 1),
          (2, 2, 1), (1, 1, 3), (2, 1, 3)]


def choice(rng, seq, p=None):
    return seq[int(rng.choice(len(seq), p=p))]


def gen_names(rng, kmin=1, kmax=4, pool=NAME_POOL):
    k = int(rng.integers(kmin, min(kmax, len(pool)) + 1))
    return sorted(int(x) for x in rng.choice(pool, size=k, replace=False))


def gen_name_pair(rng):
    """two name lists with a recorded relation: equal / overlapping / disjoint / q10-vs-q2"""
    rel = choice(rng, ["equal", "overlap", "disjoint", "q10", "free"], p=[.2, .25, .2, .1, .25])
    if rel == "equal":
        a = gen_names(rng)
        return a, list(a), rel
    if rel == "q10":
        return [10], [2], rel
    if rel == "disjoint":
        pool = list(NAME_POOL)
        rng.shuffle(pool)
        k = int(rng.integers(1, 3))
        return sorted(pool[:k]), sorted(pool[k:k + int(rng.integers(1, 3))]), rel
    if rel == "overlap":
        a = gen_names(rng, 2, 4)
        shared = a[int(rng.integers(len(a)))]
        rest = [n for n in NAME_POOL if n not in a]
        b = sorted({shared, *[int(x) for x in rng.choice(rest, size=min(len(rest), int(rng.integers(1, 3))), replace=False)]}) if rest else [shared]
        return a, b, rel
    return gen_names(rng), gen_names(rng), rel


def gen_shape(rng, maxdim=3):
    s = choice(rng, [s for s in SHAPES if len(s) <= maxdim])
    return tuple(s)


def sub_shape(rng, common):
    """a shape that broadcasts to `common`: drop leading axes and/or set axes to 1"""
    common = tuple(common)
    k = int(rng.integers(0, len(common) + 1))
    s = list(common[k:])
    for i in range(len(s)):
        if rng.random() < 0.3:
            s[i] = 1
    return tuple(s)


def gen_shape_pair(rng):
    common = gen_shape(rng)
    mode = choice(rng, ["same", "sub", "both"], p=[.4, .35, .25])
    if mode == "same":
        return common, common
    if mode == "sub":
        return (common, sub_shape(rng, common)) if rng.random() < .5 else (sub_shape(rng, common), common)
    return sub_shape(rng, common), sub_shape(rng, common)


def gen_coef(rng, kind, lim=3):
    if kind == "int":
        return Fraction(int(rng.integers(-lim, lim + 1)))
    if kind == "float":
        return Fraction(int(rng.integers(-lim * 4, lim * 4 + 1)), 4)
    re_ = Fraction(int(rng.integers(-lim * 2, lim * 2 + 1)), 2)
    im_ = Fraction(int(rng.integers(-lim * 2, lim * 2 + 1)), 2)
    return re_ if im_ == 0 else (re_, im_)


KIND_DTYPE = {"int": "int64", "float": "float64", "complex": "complex128"}


def gen_struct(rng, names=None, shape=None, kind=None, nterms=None, maxexp=3, lim=3, zero_prob=0.2):
    """a polynomial record: distinct exponent rows, columns with zeros, possibly all-zero columns"""
    names = gen_names(rng) if names is None else list(names)
    shape = gen_shape(rng) if shape is None else tuple(shape)
    kind = kind or choice(rng, ["int", "float", "complex"], p=[.6, .25, .15])
    nterms = int(rng.integers(0, 7)) if nterms is None else nterms
    size = int(numpy.prod(shape, dtype=int))
    rows = set()
    for _ in range(nterms * 3):
        if len(rows) >= nterms:
            break
        rows.add(tuple(int(x) for x in rng.integers(0, maxexp + 1, size=len(names))
                       * (rng.random(len(names)) < 0.7)))
    if not rows:
        rows = {tuple([0] * len(names))}
    terms = []
    for e in sorted(rows):
        if rng.random() < 0.08:
            col = [Fraction(0)] * size
        else:
            col = [Fraction(0) if rng.random() < zero_prob else gen_coef(rng, kind, lim) for _ in range(size)]
        terms.append([list(e), [coef_json(c) for c in col]])
    return {"names": names, "shape": list(shape), "dtype": KIND_DTYPE[kind], "kind": kind, "terms": terms}


def gen_const_struct(rng, shape=None, kind=None, lim=3):
    shape = gen_shape(rng) if shape is None else tuple(shape)
    kind = kind or choice(rng, ["int", "float", "complex"], p=[.6, .3, .1])
    size = int(numpy.prod(shape, dtype=int))
    col = [gen_coef(rng, kind, lim) for _ in range(size)]
    return {"names": [0], "shape": list(shape), "dtype": KIND_DTYPE[kind], "kind": kind,
            "terms": [[[0], [coef_json(c) for c in col]]]}


def l1_bits(struct):
    """(bound on sum |numerators| over denominator 2**k per element, k)"""
    k = 0
    tot = 0
    for _, col in struct["terms"]:
        m = 0
        for c in col:
            c = coef_from_json(c)
            parts = c if isinstance(c, tuple) else (c,)
            for part in parts:
                d = part.denominator
                kk = d.bit_length() - 1
                k = max(k, kk)
        for c in col:
            c = coef_from_json(c)
            parts = c if isinstance(c, tuple) else (c,)
            m = max(m, sum(abs(part) for part in parts))
        tot += m
    return Fraction(tot) * (2 ** k), k


def materialize(struct, as_kind="poly"):
    """record -> the Python object handed to the implementation.

    as_kind: poly | ndarray | scalar | list  (the last three need a constant record)
    """
    if as_kind == "poly":
        return struct_to_poly(struct)
    if as_kind == "poly_T":
        # the same polynomial array as a non-contiguous (transposed) view
        p = struct_to_poly(struct)
        q = numpoly.ndpoly.from_attributes(p.exponents, [numpy.ascontiguousarray(c.T) for c in p.coefficients], p.names,
                                           dtype=p.dtype, retain_coefficients=True, retain_names=True)
        return q.T
    if as_kind == "poly_perm":
        # the same polynomial with its indeterminates declared in reverse order (exponent columns follow the names):
        # what numpoly.symbols("q1 q0") or polynomial({...}, names=("q1", "q0")) produce
        p = struct_to_poly(struct)
        if len(p.names) < 2:
            return p
        return numpoly.ndpoly.from_attributes(p.exponents[:, ::-1], p.coefficients, p.names[::-1], dtype=p.dtype,
                                              retain_coefficients=True, retain_names=True)
    if as_kind == "poly_rot":
        # the same polynomial with its indeterminates declared in a rotated order (q1, q2, q0): unlike a reversal, a
        # rotation of three or more names differs from its inverse permutation
        p = struct_to_poly(struct)
        if len(p.names) < 2:
            return p
        k = len(p.names)
        perm = [(j + 1) % k for j in range(k)]
        return numpoly.ndpoly.from_attributes(p.exponents[:, perm], p.coefficients, tuple(p.names[j] for j in perm),
                                              dtype=p.dtype, retain_coefficients=True, retain_names=True)
    dtype = numpy.dtype(struct["dtype"])
    col = [exact_to_py(coef_from_json(c), dtype) for c in struct["terms"][0][1]]
    arr = numpy.array(col, dtype=dtype).reshape(tuple(struct["shape"]))
    if as_kind == "ndarray":
        return arr
    if as_kind == "ndarray_ro":
        # a read-only array, as numpy.frombuffer / broadcast_to / a caller's setflags(write=False) produce
        arr.setflags(write=False)
        return arr
    if as_kind == "list":
        return arr.tolist()
    if as_kind == "list_mixed":
        # nested list whose integral entries are Python ints and the others floats / complex: rows of different
        # numeric types, as a user types them ([[1, 2], [0.5, 3]])
        def conv(x):
            if isinstance(x, list):
                return [conv(y) for y in x]
            if isinstance(x, complex):
                return int(x.real) if x.imag == 0 and x.real == int(x.real) else x
            return int(x) if x == int(x) else x
        return conv(arr.tolist())
    if as_kind == "scalar":
        return arr.item()
    if as_kind == "npscalar":
        return arr[()]
    raise ValueError(as_kind)


def odd_exponents():
    """exponents whose storage key chr(e + 59) is a character some string predicate or text format treats specially:
    the first code points >= 59 that Python counts as digit / decimal / numeric / whitespace / non-printable, plus
    separators and the ends of the ASCII / latin1 / BMP-punctuation ranges"""
    out = set()
    for pred in (str.isdigit, str.isdecimal, str.isnumeric, str.isspace, lambda c: not c.isprintable(), str.isalpha):
        found = 0
        for cp in range(60, 0x3000):
            if pred(chr(cp)):
                out.add(cp - 59)
                found += 1
                if found == 3:
                    break
    for ch in "\\|{}~`_^[]":
        out.add(ord(ch) - 59)
    out |= {0x7f - 59, 0x80 - 59, 0x85 - 59, 0xa0 - 59, 0xff - 59, 0x100 - 59, 0x2028 - 59, 0x2029 - 59, 0x1680 - 59}
    return sorted(out)

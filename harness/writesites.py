"""AST inventory of in-place mutation sites in numpoly/**/*.py (C17).

Each site: (file, function, line, target expression, kind, class) with class in
  out-parameter       the written object is reached only through an explicit `out` / `dst` parameter
  fresh-local         the written name is bound, in the same function, only to freshly allocated objects
  not-an-array        augmented assignment on a str / int / bool / list / dict (no array involved)
  may-alias-argument  everything else, including anything the analysis does not understand (fails closed)
"""
from __future__ import annotations

import ast
import os

from .core import REPO
from .extract import lean_str, lean_list

ALLOCATORS = {"zeros", "ones", "empty", "array", "full", "zeros_like", "ones_like", "empty_like", "full_like", "arange",
              "tile", "eye", "identity", "ndpoly", "copy", "astype", "asarray_copy", "concatenate", "stack", "vstack",
              "hstack", "column_stack", "lexsort", "argsort", "unique", "broadcast_shapes", "any", "all", "sum", "prod",
              "where", "greater", "greater_equal", "less", "less_equal", "equal", "not_equal", "repeat", "atleast_2d_copy",
              "list", "dict", "set", "tuple", "sorted", "range", "polynomial", "polynomial_from_attributes",
              "from_attributes", "compose_polynomial_array", "multiply", "add", "subtract", "outer", "reshape_copy",
              "exponents", "coefficients", "format", "join", "str", "int", "float", "bool", "len", "max", "min", "abs",
              "compile", "getLogger", "zip", "enumerate", "split", "get_options", "isin", "amax", "amin", "numpy_func"}
ALIASING = {"aspolynomial", "align_shape", "align_polynomials", "align_indeterminants", "align_exponents", "asarray",
            "ravel", "reshape", "view", "asanyarray", "atleast_1d", "atleast_2d", "atleast_3d", "squeeze", "transpose",
            "swapaxes", "broadcast_to", "broadcast_arrays", "set_dimensions"}
OUT_PARAMS = {"out", "dst", "out_"}


def call_name(node):
    f = node.func
    if isinstance(f, ast.Attribute):
        return f.attr
    if isinstance(f, ast.Name):
        return f.id
    return None


def base_name(node):
    """left-most Name of a subscript / attribute chain; records whether `.values`/subscripts were passed"""
    while isinstance(node, (ast.Subscript, ast.Attribute, ast.Starred)):
        node = node.value
    if isinstance(node, ast.Call):
        return None
    return node.id if isinstance(node, ast.Name) else None


class Func(ast.NodeVisitor):
    def __init__(self, path, fn):
        self.path, self.fn = path, fn
        self.params = {a.arg for a in fn.args.args + fn.args.kwonlyargs + fn.args.posonlyargs}
        if fn.args.vararg:
            self.params.add(fn.args.vararg.arg)
        if fn.args.kwarg:
            self.params.add(fn.args.kwarg.arg)
        self.bind = {}          # name -> set of classes of what it was bound to: 'fresh' | 'alias' | 'scalar' | 'unknown'
        self.sites = []
        for p in self.params:
            self.bind.setdefault(p, set()).add("param")

    # ---- binding analysis -------------------------------------------------------------
    def classify_value(self, v):
        if isinstance(v, (ast.Constant, ast.JoinedStr)):
            return "scalar"
        if isinstance(v, (ast.List, ast.Tuple, ast.Dict, ast.Set, ast.ListComp, ast.DictComp, ast.SetComp, ast.GeneratorExp)):
            return "container"
        if isinstance(v, (ast.BinOp, ast.UnaryOp, ast.Compare, ast.BoolOp)):
            return "fresh"
        if isinstance(v, ast.IfExp):
            a, b = self.classify_value(v.body), self.classify_value(v.orelse)
            return a if a == b else ("alias" if "alias" in (a, b) or "param" in (a, b) else "unknown")
        if isinstance(v, ast.Call):
            nm = call_name(v)
            if nm in ALIASING:
                return "alias"
            if nm in ALLOCATORS:
                return "fresh"
            return "unknown"
        if isinstance(v, ast.Name):
            got = self.bind.get(v.id)
            if not got:
                return "unknown"
            if "param" in got or "alias" in got:
                return "alias"
            if got <= {"fresh"}:
                return "fresh"
            if got <= {"scalar", "container"}:
                return "container"
            return "unknown"
        if isinstance(v, (ast.Subscript, ast.Attribute)):
            b = base_name(v)
            if isinstance(v, ast.Attribute) and v.attr in ("exponents", "coefficients", "shape", "names", "dtype", "keys", "size", "ndim", "T"):
                return "fresh" if v.attr in ("exponents", "coefficients") else ("alias" if v.attr == "T" else "scalar")
            if b is None:
                return "unknown"
            got = self.bind.get(b, set())
            if "param" in got or "alias" in got:
                return "alias"
            if got and got <= {"fresh"}:
                return "alias-of-fresh"
            return "unknown"
        return "unknown"

    def bind_target(self, tgt, cls):
        if isinstance(tgt, ast.Name):
            self.bind.setdefault(tgt.id, set()).add("fresh" if cls == "alias-of-fresh" else cls)
        elif isinstance(tgt, (ast.Tuple, ast.List)):
            for t in tgt.elts:
                self.bind_target(t, "alias" if cls in ("alias", "param") else ("fresh" if cls in ("fresh", "alias-of-fresh") else cls))

    def visit_Assign(self, node):
        cls = self.classify_value(node.value)
        for tgt in node.targets:
            if isinstance(tgt, (ast.Subscript, ast.Attribute)):
                self.site(node, tgt, "assign")
            else:
                self.bind_target(tgt, cls)
        self.generic_visit(node.value)

    def visit_AnnAssign(self, node):
        if node.value is not None:
            self.bind_target(node.target, self.classify_value(node.value))

    def visit_For(self, node):
        cls = self.classify_value(node.iter)
        self.bind_target(node.target, "alias" if cls in ("alias", "param") else ("container" if cls == "container" else "fresh" if cls in ("fresh", "alias-of-fresh") else "unknown"))
        self.generic_visit(node)

    def visit_With(self, node):
        for item in node.items:
            if item.optional_vars is not None:
                self.bind_target(item.optional_vars, "unknown")
        self.generic_visit(node)

    def visit_AugAssign(self, node):
        self.site(node, node.target, "augassign")
        self.generic_visit(node.value)

    def visit_Call(self, node):
        nm = call_name(node)
        for kw in node.keywords:
            if kw.arg == "out" and not (isinstance(kw.value, ast.Constant) and kw.value.value is None):
                self.site(node, kw.value, "out=")
        if nm in ("copyto",) and node.args:
            self.site(node, node.args[0], "copyto")
        if nm in ("fill", "sort", "put", "itemset", "resize", "partition", "setfield", "setflags") and isinstance(node.func, ast.Attribute):
            self.site(node, node.func.value, f".{nm}()")
        if nm == "__setitem__" and node.args:
            self.site(node, node.args[0], "__setitem__")
        self.generic_visit(node)

    def visit_FunctionDef(self, node):
        if node is self.fn:
            self.generic_visit(node)
        # nested functions are analysed on their own

    visit_AsyncFunctionDef = visit_FunctionDef

    # ---- sites --------------------------------------------------------------------------
    def site(self, node, target, kind):
        b = base_name(target)
        text = ast.unparse(target)
        got = self.bind.get(b, set()) if b else set()
        if isinstance(target, ast.Name) and kind == "augassign":
            # `x += ...` rebinds x unless x is an array: arrays only when bound to fresh/alias/param objects
            if got and got <= {"scalar", "container"}:
                cls = "not-an-array"
            elif got and got <= {"fresh"}:
                cls = "fresh-local"
            elif b in OUT_PARAMS or (got <= {"param", "fresh"} and b in OUT_PARAMS):
                cls = "out-parameter"
            else:
                cls = "may-alias-argument"
        elif b is None:
            cls = "may-alias-argument"
        elif b in OUT_PARAMS and "alias" not in got:
            cls = "out-parameter"
        elif got and got <= {"fresh"}:
            cls = "fresh-local"
        elif got and got <= {"scalar", "container"}:
            cls = "not-an-array"
        else:
            cls = "may-alias-argument"
        self.sites.append((self.path, self.fn.name, getattr(node, "lineno", 0), text, kind, cls))


def inventory():
    root = os.path.join(REPO, "numpoly")
    sites = []
    for dirpath, _, files in os.walk(root):
        for f in sorted(files):
            if not f.endswith(".py"):
                continue
            path = os.path.join(dirpath, f)
            rel = os.path.relpath(path, REPO)
            try:
                tree = ast.parse(open(path).read())
            except SyntaxError:
                sites.append((rel, "<module>", 0, "<syntax error>", "unparsed", "may-alias-argument"))
                continue
            for node in ast.walk(tree):
                if isinstance(node, (ast.FunctionDef, ast.AsyncFunctionDef)):
                    fv = Func(rel, node)
                    fv.visit(node)
                    sites.extend(fv.sites)
            # module level statements (registries etc.)
            for node in tree.body:
                if isinstance(node, ast.Assign):
                    for tgt in node.targets:
                        if isinstance(tgt, (ast.Subscript,)):
                            sites.append((rel, "<module>", node.lineno, ast.unparse(tgt), "assign", "not-an-array"))
    return sorted(set(sites))


def render():
    rows = inventory()
    items = [f"({lean_str(a)}, {lean_str(b)}, {lean_str(d)}, {lean_str(e)}, {lean_str(f)})" for a, b, c, d, e, f in rows]
    return f"""/-! GENERATED by harness/writesites.py from /repo on every run - do not edit. -/
namespace Np.Generated
/-- in-place mutation sites of numpoly/**/*.py: (file, function, target expression, kind, class) -/
def writeSites : List (String × String × String × String × String) := {lean_list(items, per_line=1)}
end Np.Generated
"""


if __name__ == "__main__":
    import collections
    rows = inventory()
    print(collections.Counter(r[5] for r in rows))
    for r in rows:
        if r[5] == "may-alias-argument":
            print(r)

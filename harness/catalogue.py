"""The operation catalogue shared by C03 (well-formed results), C15 (options) and C17 (arguments untouched).

Each entry: name, a generator of a JSON-able spec, a builder spec -> Python arguments, and the call itself.
Costs are bounded (small shapes, few terms, small exponents).
"""
from __future__ import annotations

import copy
import io
import pickle

from .core import numpy, numpoly, poly_to_struct, any_to_struct, den_of_struct, to_exact, coef_json
from . import gen


class Entry:
    def __init__(self, name, genf, call, group="misc", raises_ok=(), division=False):
        self.name, self.gen, self.call, self.group = name, genf, call, group
        self.raises_ok = raises_ok
        self.division = division


def P(rng, **kw):
    kw.setdefault("kind", gen.choice(rng, ["int", "float"], p=[.75, .25]))
    s = gen.gen_struct(rng, **kw)
    s["as"] = "poly_T" if len(s["shape"]) >= 2 and rng.random() < .2 else "poly"
    return s


def pair(rng, same_shape=False, **kw):
    sa, sb = gen.gen_shape_pair(rng)
    if same_shape:
        sb = sa
    na, nb, _ = gen.gen_name_pair(rng)
    kind = kw.pop("kind", None) or gen.choice(rng, ["int", "float"], p=[.75, .25])
    a = P(rng, names=na, shape=sa, kind=kind, **kw)
    if rng.random() < .2:
        b = gen.gen_const_struct(rng, shape=sb, kind=kind)
        b["as"] = gen.choice(rng, ["ndarray", "list"]) if sb else "scalar"
    else:
        b = P(rng, names=nb, shape=sb, kind=kind, **kw)
    # binary entries also meet operands whose names are declared in another order (rotated / reversed): aligning them must
    # leave the operand itself alone (seeded change C17-11) and give the same value (C02-13)
    for o in (a, b):
        if o.get("as") == "poly" and len(o["names"]) >= 2 and rng.random() < .12:
            o["as"] = gen.choice(rng, ["poly_rot", "poly_perm"])
    return [a, b]


def build(spec):
    """spec items that are records become Python objects; everything else passes through"""
    out = []
    for x in spec:
        if isinstance(x, dict) and "terms" in x:
            out.append(gen.materialize(x, x.get("as", "poly")))
        elif isinstance(x, dict) and "list_of" in x:
            out.append([gen.materialize(y, y.get("as", "poly")) for y in x["list_of"]])
        else:
            out.append(x)
    return out


def canon(res):
    """canonical, option-independent description of a result (denotation level)"""
    if isinstance(res, numpoly.ndpoly):
        s = poly_to_struct(res)
        return {"t": "poly", "shape": s["shape"], "dtype": s["dtype"],
                "den": sorted((repr(m), [repr(c) for c in col]) for m, col in den_of_struct(s).items())}
    if isinstance(res, numpy.ndarray):
        if res.dtype.kind in "biufc":
            return {"t": "array", "shape": list(res.shape), "dtype": str(res.dtype),
                    "v": [repr(to_exact(v)) for v in res.ravel()]}
        return {"t": "array-other", "shape": list(res.shape), "dtype": str(res.dtype)}
    if isinstance(res, (tuple, list)):
        return {"t": "seq", "items": [canon(r) for r in res]}
    if isinstance(res, dict):
        return {"t": "dict", "items": sorted((repr(k), canon(v)) for k, v in res.items())}
    if isinstance(res, (bool, numpy.bool_)):
        return {"t": "bool", "v": bool(res)}
    if isinstance(res, (int, float, complex, numpy.number)):
        return {"t": "num", "v": repr(to_exact(res))}
    if isinstance(res, str):
        return {"t": "str"}
    return {"t": type(res).__name__}


def results_of(res):
    """every ndpoly contained in a result"""
    if isinstance(res, numpoly.ndpoly):
        return [res]
    if isinstance(res, (tuple, list)):
        return [p for r in res for p in results_of(r)]
    return []


def tiny(rng):
    """a float polynomial (0-d or small array) some of whose coefficients are tiny but non-zero (2**-40)"""
    from fractions import Fraction
    from .core import coef_json
    s = P(rng, kind="float", shape=gen.choice(rng, [(), (), (2,)]), nterms=int(rng.integers(1, 4)))
    s["as"] = "poly"
    for t in s["terms"]:
        t[1] = [coef_json(Fraction(1, 2 ** 40)) if rng.random() < .5 else x for x in t[1]]
    return s


def _with_printoptions(f):
    with numpy.printoptions(suppress=True, precision=4):
        return f()


def uses_all_names(s):
    """make sure every indeterminate occurs with a non-zero coefficient somewhere (positional arguments then mean the
    same under every retain_names setting)"""
    row = [1] * len(s["names"])
    size = 1
    for d in s["shape"]:
        size *= d
    if not any(t[0] == row for t in s["terms"]):
        s["terms"].append([row, [1] * size])
    else:
        for t in s["terms"]:
            if t[0] == row:
                t[1] = [1] * size
    return s


def shape_nd(rng, lo=1, hi=3):
    return gen.choice(rng, [s for s in gen.SHAPES if lo <= len(s) <= hi])


def entries():
    E = []
    add = lambda *a, **k: E.append(Entry(*a, **k))
    # constructors -------------------------------------------------------------------------
    add("polynomial(poly)", lambda r: [P(r)], lambda a: numpoly.polynomial(a), "construct")
    add("polynomial(dict, names='q')", lambda r: [int(r.integers(1, 4))],
        lambda k: numpoly.polynomial({(0,): 1, (2,): k}, names="q"), "construct", raises_ok=(AssertionError,))
    add("polynomial(dict, names='q') two indeterminates", lambda r: [int(r.integers(1, 4))],
        lambda k: numpoly.polynomial({(0, 1): 1, (2, 0): k}, names="q"), "construct")
    add("polynomial_from_roots", lambda r: [[int(x) for x in r.integers(-3, 4, size=int(r.integers(1, 5)))]],
        lambda roots: numpoly.polynomial_from_roots(roots), "construct")
    # roots handed over as an unsorted numpy array (the caller's array must stay as it is: seeded change C17-12)
    add("polynomial_from_roots(ndarray)", lambda r: [dict(gen.gen_const_struct(r, shape=(int(r.integers(3, 6)),), kind="int"), **{"as": "ndarray"})],
        lambda z: numpoly.polynomial_from_roots(z), "construct")
    add("polynomial_from_roots(float)", lambda r: [[float(x) / 2 for x in r.integers(-4, 5, size=int(r.integers(1, 4)))]],
        lambda roots: numpoly.polynomial_from_roots(roots), "construct")
    add("polynomial(list of polys)", lambda r: [P(r, shape=gen.choice(r, [(2,), (3,), (2, 2)]))],
        lambda a: numpoly.polynomial(list(a)), "construct")
    add("polynomial(array)", lambda r: [dict(gen.gen_const_struct(r), **{"as": "ndarray"})], lambda a: numpoly.polynomial(a), "construct")
    add("polynomial(dict)", lambda r: [P(r, shape=())], lambda a: numpoly.polynomial(a.todict(), names=a.names), "construct")
    add("aspolynomial(poly)", lambda r: [P(r)], lambda a: numpoly.aspolynomial(a), "construct")
    add("aspolynomial(values, names)", lambda r: [P(r)], lambda a: numpoly.aspolynomial(a.values, names=a.names), "construct")
    # coefficient lists of mixed dtypes, the widest one sitting on an all-zero column
    add("from_attributes(mixed dtypes)", lambda r: [int(r.integers(4)), int(r.integers(3))],
        lambda k, z: numpoly.ndpoly.from_attributes(
            [[0, 0], [1, 0], [0, 2]],
            [numpy.array([1, 2], dtype=MIXED[k][0]) * (z != 0), numpy.array([3, 0], dtype=MIXED[k][1]) * (z != 1),
             numpy.array([0, -1], dtype=MIXED[k][2]) * (z != 2)], ("q0", "q1")), "construct")
    add("polynomial(dict, mixed)", lambda r: [int(r.integers(3))],
        lambda z: numpoly.polynomial({(0, 0): 1 * (z != 0), (1, 0): 2.5 * (z != 1) , (0, 2): numpy.float32(3) * (z != 2)}), "construct")
    add("from_attributes", lambda r: [P(r)],
        lambda a: numpoly.ndpoly.from_attributes(a.exponents, a.coefficients, a.names), "construct")
    add("clean_attributes", lambda r: [P(r)], lambda a: numpoly.clean_attributes(a), "construct")
    add("variable", lambda r: [int(r.integers(1, 4))], lambda n: numpoly.variable(n), "construct")
    add("symbols", lambda r: [gen.choice(r, ["q0", "q0:3", "q1,q3", "q2 q10"])], lambda s: numpoly.symbols(s), "construct")
    add("monomial", lambda r: [int(r.integers(0, 2)), int(r.integers(1, 4)), int(r.integers(1, 3))],
        lambda a, b, d: numpoly.monomial(a, a + b, dimensions=d), "construct")
    # per-axis bounds with a single name: the name is extended with an index, one per axis (D64: the result had one name
    # for exponent rows of width two)
    add("monomial(per-axis bounds, one name)", lambda r: [[int(r.integers(1, 3)), int(r.integers(1, 4))], gen.choice(r, ["q5", "q1"])],
        lambda stop, name: numpoly.monomial(stop, dimensions=name), "construct")
    # coefficients of different shapes in one dict / attribute triple: scalars are broadcast against the arrays, whichever
    # term comes first and whatever the retain flags (D66: the shape was taken from the first surviving coefficient)
    add("polynomial(dict, scalar and array coefficients)", lambda r: [int(r.integers(-3, 4)), [int(x) for x in r.integers(-3, 4, size=int(r.integers(2, 4)))], bool(r.integers(2))],
        lambda c, arr, first: numpoly.polynomial({(1,): 0, (0,): arr} if first else {(2,): c, (0,): arr, (1,): 0}), "construct")
    add("from_attributes(scalar and array coefficients)", lambda r: [int(r.integers(1, 4)), [int(x) for x in r.integers(-3, 4, size=3)]],
        lambda c, arr: numpoly.polynomial_from_attributes([[0], [1], [3]], [c, arr, 0]), "construct")
    add("full_like", lambda r: [P(r), P(r, shape=())], lambda a, f: numpoly.full_like(a, f), "construct")
    add("zeros_like", lambda r: [P(r)], lambda a: numpoly.zeros_like(a), "construct")
    add("ones_like", lambda r: [P(r)], lambda a: numpoly.ones_like(a), "construct")
    # arithmetic ---------------------------------------------------------------------------
    for nm, f in (("add", lambda a, b: a + b), ("subtract", lambda a, b: a - b), ("multiply", lambda a, b: a * b),
                  ("numpy.add", lambda a, b: numpy.add(a, b)), ("numpoly.multiply", lambda a, b: numpoly.multiply(a, b)),
                  ("radd", lambda a, b: b + a), ("rsub", lambda a, b: b - a)):
        add(nm, lambda r: pair(r, nterms=int(r.integers(0, 4))), f, "arith")
    add("negative", lambda r: [P(r)], lambda a: -a, "arith")
    add("positive", lambda r: [P(r)], lambda a: +a, "arith")
    add("square", lambda r: [P(r, nterms=2)], lambda a: numpoly.square(a), "arith")
    add("power", lambda r: [P(r, nterms=int(r.integers(0, 3))), int(r.integers(0, 4))], lambda a, k: a ** k, "arith")
    add("absolute(const)", lambda r: [dict(gen.gen_const_struct(r, kind="int"), **{"as": "ndarray"})],
        lambda a: numpoly.absolute(numpoly.polynomial(a)), "arith")
    # comparisons --------------------------------------------------------------------------
    for nm, f in (("equal", lambda a, b: a == b), ("not_equal", lambda a, b: a != b), ("greater", lambda a, b: a > b),
                  ("less_equal", lambda a, b: a <= b), ("maximum", numpoly.maximum), ("minimum", numpoly.minimum)):
        add(nm, lambda r: pair(r, nterms=int(r.integers(0, 4)), kind="int"), f, "order")
    # operands whose order depends on which indeterminate takes precedence (q0**k against q1**k, same degree): only
    # the sort_* options may matter for these, never a display option
    for nm, f in (("greater(order-sensitive)", lambda a, b: a > b), ("maximum(order-sensitive)", numpoly.maximum),
                  ("minimum(order-sensitive)", numpoly.minimum), ("amax(order-sensitive)", lambda a, b: numpoly.amax(numpoly.polynomial([a, b]))),
                  ("sortable_proxy(order-sensitive)", lambda a, b: numpoly.sortable_proxy(numpoly.polynomial([a, b])))):
        add(nm, lambda r: (lambda k, c, d: [
            {"names": [0, 1], "shape": [], "dtype": "int64", "kind": "int", "as": "poly", "terms": [[[k, 0], [c]]]},
            {"names": [0, 1], "shape": [], "dtype": "int64", "kind": "int", "as": "poly", "terms": [[[0, k], [d]]]}])(
                int(r.integers(1, 4)), int(r.integers(1, 4)), int(r.integers(1, 4))), f, "order")
    # calculus / evaluation -----------------------------------------------------------------
    # a derivative evaluated at non-integral points: rows that should have been dropped show up as inf * 0
    add("derivative then call(float)", lambda r: [P(r, names=[0, 1], nterms=4, maxexp=3, kind="int"), int(r.integers(2)), gen.choice(r, [1.5, -2.5, 3.0])],
        lambda a, j, x: (lambda g: g(**{n: x for n in g.names}))(numpoly.derivative(a, a.names[j])), "calculus")
    add("gradient then call(float)", lambda r: [P(r, names=[0, 1], nterms=3, maxexp=3, kind="int", shape=()), gen.choice(r, [1.5, -2.5])],
        lambda a, x: (lambda g: g(**{n: x for n in g.names}))(numpoly.gradient(a)), "calculus")
    add("derivative", lambda r: [P(r), 0], lambda a, j: numpoly.derivative(a, a.names[j]), "calculus")
    # several variables in succession: by position, by name, by indeterminate (made under the current options)
    add("derivative(positions)", lambda r: [uses_all_names(P(r, names=[0, 1], nterms=4)), int(r.integers(2)), int(r.integers(2))],
        lambda a, i, j: numpoly.derivative(a, i, j), "calculus")
    add("derivative(names)", lambda r: [P(r, names=gen.choice(r, [[0, 1], [0, 2], [1, 2, 10]]), nterms=4), int(r.integers(2)), int(r.integers(2))],
        lambda a, i, j: numpoly.derivative(a, a.names[i], a.names[j]), "calculus")
    add("derivative(indeterminates)", lambda r: [P(r, names=[0, 1, 2], nterms=4), int(r.integers(3)), int(r.integers(3))],
        lambda a, i, j: numpoly.derivative(a, numpoly.variable(3)[i], numpoly.variable(3)[j]), "calculus")
    add("derivative(symbols)", lambda r: [P(r, names=[0, 1, 2], nterms=4), int(r.integers(3))],
        lambda a, i: numpoly.derivative(a, numpoly.symbols("q0 q1 q2")[i]), "calculus")
    add("gradient", lambda r: [P(r, shape=gen.gen_shape(r, 2))], numpoly.gradient, "calculus")
    add("hessian", lambda r: [P(r, shape=gen.gen_shape(r, 1), names=gen.gen_names(r, 1, 2), nterms=3)], numpoly.hessian, "calculus")
    add("call(full)", lambda r: [P(r, maxexp=2), int(r.integers(-2, 3))],
        lambda a, v: a(**{n: v for n in a.names}), "calculus")
    add("call(partial)", lambda r: [P(r, maxexp=2, names=gen.gen_names(r, 2, 3)), int(r.integers(-2, 3))],
        lambda a, v: a(**{a.names[0]: v}), "calculus")
    # a high power that cancels, evaluated where the power itself overflows a double: the cancelled term is absent or a
    # retained all-zero term, the value is the same either way (D58: inf * 0 = nan under retain_coefficients=True)
    add("cancelled high power then call(large float)", lambda r: [int(r.integers(100, 200)), int(r.integers(-3, 4)), gen.choice(r, [1e10, -1e9, 2.5e12])],
        lambda e, c, x: (lambda q, qe: (1.0 * qe - qe + c + q)(x))(numpoly.variable(), numpoly.polynomial({(e,): 1})), "calculus")
    # constant-ness after a cancellation: the cancelled terms are absent or retained all-zero terms, the answer is the
    # same (seeded change C15-13: isconstant through a cleanup that follows the global option)
    add("isconstant after cancellation", lambda r: [P(r, nterms=2, kind="int"), int(r.integers(-3, 4))],
        lambda a, c: (a - a + c).isconstant(), "query")
    add("tonumpy after cancellation", lambda r: [P(r, nterms=2, kind="int"), int(r.integers(-3, 4))],
        lambda a, c: (a - a + c).tonumpy(), "query")
    add("call that leaves a constant", lambda r: [P(r, shape=(), names=[0, 1], nterms=2, kind="int")],
        lambda a: (a - a + numpoly.symbols("q0") - numpoly.symbols("q1"))(q0=numpoly.symbols("q1")), "calculus")
    add("power with a cancelled exponent polynomial", lambda r: [P(r, shape=(), nterms=2, kind="int"), int(r.integers(0, 3))],
        lambda a, k: numpoly.symbols("q1") ** (a - a + k), "arith")
    # a cancelled term with a large exponent as a factor: the product's key path has to cope with the exponents of stored
    # all-zero terms as well (seeded change C15-15: kernel / fallback chosen from the non-zero terms only)
    add("product after a cancelled high power", lambda r: [int(r.integers(66, 80)), int(r.integers(3, 6)), gen.choice(r, ["int", "float", "complex"])],
        lambda e, k, kind: (lambda q, qe: (((qe + q) - qe) * {"int": 1, "float": 1.0, "complex": 1 + 0j}[kind]) * q ** k)(numpoly.variable(), numpoly.polynomial({(e,): 1})), "arith")
    # sums over one indeterminate followed by sums over two whose storage keys hold the same code points (rows [a], [b] and
    # the row [a, b]): each sum is what it is, whatever was aligned before in the process (seeded change C15-16: the union
    # table cached by the bytes of the keys under retain_coefficients=True)
    add("sums with byte-identical keys over 1 and 2 indeterminates", lambda r: [int(r.integers(1, 4)), int(r.integers(4, 7)), bool(r.integers(2))],
        lambda a, b, swap: [f() for f in ([
            lambda: numpoly.polynomial({(a,): 1, (b,): 1}, names=("q0",)) + numpoly.polynomial({(0,): 1, (a,): 1}, names=("q0",)),
            lambda: numpoly.polynomial({(a, b): 1}, names=("q0", "q1")) + numpoly.polynomial({(0, a): 1}, names=("q0", "q1"))][::-1 if swap else 1])], "arith")
    add("call(poly)", lambda r: [P(r, maxexp=2, nterms=2), P(r, shape=(), nterms=2, maxexp=1)],
        lambda a, b: a(**{a.names[0]: b}), "calculus")
    # alignment ----------------------------------------------------------------------------
    add("align_polynomials", lambda r: pair(r), lambda a, b: numpoly.align_polynomials(a, b), "align")
    add("align_shape", lambda r: pair(r), lambda a, b: numpoly.align_shape(a, b), "align")
    add("align_indeterminants", lambda r: pair(r), lambda a, b: numpoly.align_indeterminants(a, b), "align")
    add("align_exponents", lambda r: pair(r, same_shape=True), lambda a, b: numpoly.align_exponents(a, b), "align")
    # shape functions / indexing --------------------------------------------------------------
    add("getitem[0]", lambda r: [P(r, shape=shape_nd(r))], lambda a: a[0], "shape")
    add("getitem[...,::-1]", lambda r: [P(r, shape=shape_nd(r))], lambda a: a[..., ::-1], "shape")
    add("getitem[mask]", lambda r: [P(r, shape=(3,))], lambda a: a[numpy.array([True, False, True])], "shape")
    add("ravel", lambda r: [P(r)], lambda a: a.ravel(), "shape")
    add("flatten", lambda r: [P(r)], lambda a: a.flatten(), "shape")
    add(".T", lambda r: [P(r)], lambda a: a.T, "shape")
    add("reshape", lambda r: [P(r, shape=(2, 3))], lambda a: numpoly.reshape(a, (3, 2)), "shape")
    add("transpose", lambda r: [P(r, shape=shape_nd(r, 2))], lambda a: numpoly.transpose(a), "shape")
    add("expand_dims", lambda r: [P(r)], lambda a: numpoly.expand_dims(a, 0), "shape")
    add("atleast_2d", lambda r: [P(r)], lambda a: numpoly.atleast_2d(a), "shape")
    add("repeat", lambda r: [P(r, shape=shape_nd(r))], lambda a: numpoly.repeat(a, 2, axis=0), "shape")
    add("tile", lambda r: [P(r)], lambda a: numpoly.tile(a, 2), "shape")
    add("concatenate", lambda r: same_pair(r),
        lambda a, b: numpoly.concatenate([a, b]), "shape")
    add("stack", lambda r: same_pair(r), lambda a, b: numpoly.stack([a, b]), "shape")
    add("hstack", lambda r: same_pair(r), lambda a, b: numpoly.hstack([a, b]), "shape")
    add("vstack", lambda r: same_pair(r), lambda a, b: numpoly.vstack([a, b]), "shape")
    add("split", lambda r: [P(r, shape=(4,))], lambda a: numpoly.split(a, 2), "shape")
    add("where", lambda r: same_pair(r), lambda a, b: numpoly.where(numpy.arange(a.size).reshape(a.shape) % 2 == 0, a, b), "shape")
    add("broadcast_arrays", lambda r: pair(r), lambda a, b: numpoly.broadcast_arrays(a, b), "shape")
    add("diag", lambda r: [P(r, shape=gen.choice(r, [(3,), (2, 2), (2, 3)]))], lambda a: numpoly.diag(a), "shape")
    add("iteration", lambda r: [P(r, shape=shape_nd(r))], lambda a: list(a), "shape")
    # reductions / linear algebra --------------------------------------------------------------
    add("sum", lambda r: [P(r, shape=shape_nd(r))], lambda a: numpoly.sum(a, axis=0), "reduce")
    add("sum(None)", lambda r: [P(r)], lambda a: numpoly.sum(a), "reduce")
    add("cumsum", lambda r: [P(r, shape=shape_nd(r))], lambda a: numpoly.cumsum(a, axis=0), "reduce")
    add("prod", lambda r: [P(r, shape=gen.choice(r, [(2,), (3,), (2, 2)]), nterms=2, maxexp=1)], lambda a: numpoly.prod(a, axis=0), "reduce")
    add("mean", lambda r: [P(r, shape=gen.choice(r, [(2,), (4,), (2, 2)]))], lambda a: numpoly.mean(a, axis=0), "reduce")
    add("diff", lambda r: [P(r, shape=gen.choice(r, [(3,), (2, 3)]))], lambda a: numpoly.diff(a), "reduce")
    add("inner", lambda r: same_pair(r, shape=(3,)), lambda a, b: numpoly.inner(a, b), "reduce")
    add("outer", lambda r: [P(r, shape=(2,), nterms=2), P(r, shape=(3,), nterms=2)], lambda a, b: numpoly.outer(a, b), "reduce")
    add("matmul", lambda r: [P(r, shape=(2, 3), nterms=2), P(r, shape=(3, 2), nterms=2)], lambda a, b: numpoly.matmul(a, b), "reduce")
    add("det", lambda r: [P(r, shape=(2, 2), nterms=2, maxexp=1)], lambda a: numpoly.det(a), "reduce")
    # polynomial queries -----------------------------------------------------------------------
    add("lead_exponent", lambda r: [P(r, kind="int")], lambda a: numpoly.lead_exponent(a), "query")
    add("lead_coefficient", lambda r: [P(r, kind="int")], lambda a: numpoly.lead_coefficient(a), "query")
    add("isconstant", lambda r: [P(r)], lambda a: numpoly.isconstant(a), "query")
    add("todict", lambda r: [P(r)], lambda a: a.todict(), "query")
    add("decompose", lambda r: [P(r)], lambda a: numpoly.decompose(a), "query")
    add("set_dimensions", lambda r: [P(r), int(r.integers(1, 6))], lambda a, d: numpoly.set_dimensions(a, d), "query")
    add("sortable_proxy", lambda r: [P(r, kind="int", shape=(3,))], lambda a: numpoly.sortable_proxy(a), "order")
    add("argmax", lambda r: [P(r, kind="int", shape=(4,))], lambda a: numpoly.argmax(a), "order")
    add("amax", lambda r: [P(r, kind="int", shape=(4,))], lambda a: numpoly.amax(a), "order")
    add("str", lambda r: [P(r)], lambda a: str(a), "query")
    add("repr", lambda r: [P(r)], lambda a: repr(a), "query")
    # printing with suppression of small values (keyword and numpy print option), on 0-d and array polynomials that hold
    # tiny coefficients: printing is a query, the printed polynomial must keep its coefficients
    add("array_repr(suppress_small)", lambda r: [tiny(r)], lambda a: numpoly.array_repr(a, suppress_small=True), "query")
    add("array_str(suppress_small, precision)", lambda r: [tiny(r)], lambda a: numpoly.array_str(a, precision=3, suppress_small=True), "query")
    add("str under printoptions(suppress)", lambda r: [tiny(r)], lambda a: _with_printoptions(lambda: (str(a), repr(a))), "query")
    add("astype(float)", lambda r: [P(r, kind="int")], lambda a: a.astype(float), "construct")
    add("copyto", lambda r: same_pair(r), lambda a, b: (numpoly.copyto(_fresh_like(a, b), b), None)[1], "shape")
    # persistence -------------------------------------------------------------------------------
    add("pickle", lambda r: [P(r), int(r.integers(0, 6))], lambda a, proto: pickle.loads(pickle.dumps(a, protocol=proto)), "persist")
    add("copy.copy", lambda r: [P(r)], lambda a: copy.copy(a), "persist")
    add("copy.deepcopy", lambda r: [P(r)], lambda a: copy.deepcopy(a), "persist")
    add(".copy()", lambda r: [P(r)], lambda a: a.copy(), "persist")
    # division (default retain options only) --------------------------------------------------------
    add("poly_divmod(const)", lambda r: [P(r, nterms=2), gen.choice(r, [1, 2, -1, 4])], lambda a, c: numpoly.poly_divmod(a, c), "division", division=True)
    add("poly_divmod(univariate)", lambda r: uni_pair(r), lambda a, b: numpoly.poly_divmod(a, b), "division", division=True)
    add("poly_divmod(multivariate)", lambda r: multi_pair(r), lambda a, b: numpoly.poly_divmod(a, b), "division", division=True)
    add("floor_divide(const)", lambda r: [P(r, kind="int"), gen.choice(r, [1, 2, 3])], lambda a, c: numpoly.floor_divide(numpoly.polynomial(numpoly.polynomial(a)(**{n: 1 for n in a.names})), c), "division", division=True)
    return E


def _fresh_like(a, b):
    al = numpoly.align_polynomials(a, b)
    return al[0].copy()


def same_pair(rng, shape=None, **kw):
    shape = shape or gen.choice(rng, [(2,), (3,), (2, 2), (1, 2)])
    na, nb, _ = gen.gen_name_pair(rng)
    kind = kw.pop("kind", None) or gen.choice(rng, ["int", "float"], p=[.75, .25])
    return [P(rng, names=na, shape=shape, kind=kind, **kw), P(rng, names=nb, shape=shape, kind=kind, **kw)]


MIXED = [("int64", "float64", "int32"), ("uint8", "int8", "float32"), ("float32", "int64", "complex128"), ("int16", "int16", "float64")]


def multi_pair(rng):
    """two-variable dividend / divisor whose leading term depends on which indeterminate takes precedence; the
    divisor's terms have coefficients +-1 so every quotient step is exact"""
    def mono(e0, e1, c):
        return [[e0, e1], [c]]
    dividend = {"names": [0, 1], "shape": [], "dtype": "int64", "kind": "int", "as": "poly",
                "terms": [mono(int(rng.integers(0, 3)), int(rng.integers(0, 3)), int(rng.integers(1, 4))) for _ in range(3)]}
    seen, terms = set(), []
    for t in dividend["terms"]:
        if tuple(t[0]) not in seen:
            seen.add(tuple(t[0])); terms.append(t)
    dividend["terms"] = terms
    a, b = int(rng.integers(1, 3)), int(rng.integers(1, 3))
    divisor = {"names": [0, 1], "shape": [], "dtype": "int64", "kind": "int", "as": "poly",
               "terms": [mono(a, 0, gen.choice(rng, [1, -1])), mono(0, b, gen.choice(rng, [1, -1]))] + ([mono(0, 0, int(rng.integers(-2, 3)))] if rng.random() < .5 else [])}
    return [dividend, divisor]


def uni_pair(rng):
    """univariate dividend / divisor with leading coefficient +-1 (exact in binary floating point)"""
    from fractions import Fraction
    def poly(deg, lead):
        terms = [[[deg], [lead]]] + [[[d], [int(rng.integers(-2, 3))]] for d in range(deg - 1, -1, -1) if rng.random() < .7]
        return {"names": [0], "shape": [], "dtype": "int64", "kind": "int", "terms": terms, "as": "poly"}
    return [poly(int(rng.integers(1, 5)), int(rng.integers(1, 3))), poly(int(rng.integers(1, 3)), gen.choice(rng, [1, -1]))]

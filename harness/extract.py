"""Translator part of the tie: regenerate Lean tables from /repo's current source and live objects.

Rewrites lean/Np/Generated/*.lean only when the content changes (keeps `lake build` incremental).
"""
from __future__ import annotations

import ast
import hashlib
import inspect
import os
import re

from .core import LEAN_DIR, REPO, numpy, numpoly, DTYPES

GEN_DIR = os.path.join(LEAN_DIR, "Np", "Generated")

DT_LEAN = {"bool": ".bool", "int8": ".i8", "int16": ".i16", "int32": ".i32", "int64": ".i64",
           "uint8": ".u8", "uint16": ".u16", "uint32": ".u32", "uint64": ".u64",
           "float16": ".f16", "float32": ".f32", "float64": ".f64", "complex64": ".c64", "complex128": ".c128"}
PYX_DT = {"bool_": "bool", "bool": "bool", "int8": "int8", "int16": "int16", "int32": "int32", "int64": "int64",
          "uint8": "uint8", "uint16": "uint16", "uint32": "uint32", "uint64": "uint64",
          "float16": "float16", "float32": "float32", "float64": "float64",
          "complex64": "complex64", "complex128": "complex128", "int_": "int64", "float_": "float64"}


def lean_str(s: str) -> str:
    out = []
    for ch in s:
        if ch == "\\":
            out.append("\\\\")
        elif ch == '"':
            out.append('\\"')
        elif ch == "\n":
            out.append("\\n")
        elif ch == "\t":
            out.append("\\t")
        elif ord(ch) < 32 or ord(ch) > 126:
            out.append("\\u{%x}" % ord(ch))
        else:
            out.append(ch)
    return '"' + "".join(out) + '"'


def lean_list(items, per_line=4, indent="  "):
    items = list(items)
    if not items:
        return "[]"
    lines = []
    for i in range(0, len(items), per_line):
        lines.append(indent + ", ".join(items[i:i + per_line]))
    return "[\n" + ",\n".join(lines) + "]"


def qualname(f) -> str:
    mod = getattr(f, "__module__", None) or ""
    name = getattr(f, "__name__", None) or repr(f)
    if isinstance(f, numpy.ufunc):
        return f"numpy.{name}"
    # canonical public location inside numpy
    for prefix, space in (("numpy.linalg", numpy.linalg), ("numpy.fft", numpy.fft), ("numpy", numpy)):
        if getattr(space, name, None) is f:
            return f"{prefix}.{name}"
    return f"{mod}.{name}"


def impl_name(f) -> str:
    return f"{f.__module__}.{f.__qualname__}"


# ---------------------------------------------------------------------------------------------
# pyx dtype switch

def pyx_switch(func: str):
    """dtypes in the `coeffs.dtype == np.X` chain of `func` and whether the final else raises."""
    path = os.path.join(REPO, "numpoly", "cfunctions", "cvalues.pyx")
    try:
        src = open(path).read()
    except OSError:
        return None, None
    m = re.search(r"cpdef\s+" + func + r"\s*\((.*?)(?=\ncp?def\s|\Z)", src, flags=re.S)
    if not m:
        return None, None
    body = m.group(1)
    dts = []
    for mm in re.finditer(r"(?:if|elif)\s+coeffs\.dtype\s*==\s*(?:np|numpy)\.(\w+)\s*:", body):
        dt = PYX_DT.get(mm.group(1))
        if dt is None:
            return None, None
        dts.append(dt)
    em = re.search(r"\n\s*else\s*:\s*\n\s*(\S[^\n]*)", body)
    raises = bool(em and em.group(1).lstrip().startswith("raise"))
    return dts, raises


# ---------------------------------------------------------------------------------------------
# glexsort argsort kind

def glexsort_kind() -> str:
    path = os.path.join(REPO, "numpoly", "utils", "glexsort.py")
    try:
        tree = ast.parse(open(path).read())
    except (OSError, SyntaxError):
        return "unknown"
    kinds = []
    for fn in ast.walk(tree):
        if isinstance(fn, ast.FunctionDef) and fn.name == "glexsort":
            for node in ast.walk(fn):
                if isinstance(node, ast.Call):
                    f = node.func
                    fname = f.attr if isinstance(f, ast.Attribute) else getattr(f, "id", "")
                    if fname == "argsort":
                        kind = None
                        for kw in node.keywords:
                            if kw.arg == "kind":
                                kind = kw.value.value if isinstance(kw.value, ast.Constant) else "?"
                            if kw.arg == "stable" and isinstance(kw.value, ast.Constant) and kw.value.value is True:
                                kind = "stable"
                        kinds.append(kind)
    if not kinds:
        return "none"        # no argsort call at all (e.g. rewritten through lexsort): nothing to constrain
    if all(k in ("stable", "mergesort") for k in kinds):
        return "stable"
    if any(k == "?" for k in kinds):
        return "unknown"
    return "unspecified"


# ---------------------------------------------------------------------------------------------

def numpy_ufuncs():
    out = {}
    for name in dir(numpy):
        f = getattr(numpy, name)
        if isinstance(f, numpy.ufunc) and not name.startswith("_"):
            out[f"numpy.{f.__name__}"] = f
    return dict(sorted(out.items()))


def numpy_overridable():
    out = {}
    for prefix, space in (("numpy", numpy), ("numpy.linalg", numpy.linalg), ("numpy.fft", numpy.fft)):
        for name in dir(space):
            if name.startswith("_"):
                continue
            f = getattr(space, name)
            if callable(f) and not isinstance(f, (type, numpy.ufunc)) and hasattr(f, "_implementation"):
                out.setdefault(qualname(f), f)
    return dict(sorted(out.items()))


def promotion_table():
    rows = []
    for a in DTYPES:
        row = []
        for b in DTYPES:
            row.append(str(numpy.result_type(numpy.dtype(a), numpy.dtype(b))))
        rows.append(row)
    return rows


def operator_routing():
    """Which implementation does each operator / reflected operator enter, for each operand-kind pair?

    Spies replace the registry values and the numpoly.* attributes bound to them (and poly_divide & co.) while
    every operator is applied once per operand-kind pair; rows: (operator, left kind, right kind, entered, swapped).
    """
    import operator as op
    from numpoly import dispatch
    q0, q1 = numpoly.variable(2)
    poly = numpoly.polynomial([q0 + 1, 2 * q1 + q0])
    arr = numpy.array([3, 4])
    poly_b = numpoly.polynomial([q1 - 2, q0 * q1])
    kinds = {"poly": poly, "ndarray": arr, "scalar": 3, "list": [3, 4]}
    log = []
    originals = {}

    def spy(label, fn):
        def wrapped(*args, **kwargs):
            first = args[0] if args else None
            log.append((label, first))
            return fn(*args, **kwargs)
        wrapped.__wrapped_by_verif__ = True
        return wrapped

    saved_u = dict(dispatch.UFUNC_COLLECTION)
    saved_f = dict(dispatch.FUNCTION_COLLECTION)
    saved_attrs = {}
    try:
        by_impl = {}
        for reg in (dispatch.UFUNC_COLLECTION, dispatch.FUNCTION_COLLECTION):
            for key, impl in list(reg.items()):
                w = by_impl.get(id(impl))
                if w is None:
                    w = by_impl[id(impl)] = spy(qualname(key), impl)
                reg[key] = w
        for name in dir(numpoly):
            val = getattr(numpoly, name, None)
            if callable(val) and id(val) in by_impl:
                saved_attrs[name] = val
                setattr(numpoly, name, by_impl[id(val)])
        for name in ("poly_divide", "poly_remainder", "poly_divmod"):
            saved_attrs[name] = getattr(numpoly, name)
            setattr(numpoly, name, spy(f"numpoly.{name}", saved_attrs[name]))
        binary = {"add": op.add, "sub": op.sub, "mul": op.mul, "truediv": op.truediv, "floordiv": op.floordiv,
                  "mod": op.mod, "divmod": divmod, "pow": lambda a, b: a ** b, "eq": op.eq, "ne": op.ne, "lt": op.lt,
                  "le": op.le, "gt": op.gt, "ge": op.ge, "matmul": op.matmul}
        unary = {"neg": op.neg, "pos": op.pos, "abs": abs}
        rows = []
        pairs = [("poly", "poly"), ("poly", "ndarray"), ("ndarray", "poly"), ("poly", "scalar"), ("scalar", "poly"),
                 ("poly", "list"), ("list", "poly")]
        for name, f in binary.items():
            for lk, rk in pairs:
                if name == "pow" and rk == "poly":
                    continue
                a, b = kinds[lk], kinds[rk]
                if lk == "poly" and rk == "poly":
                    b = poly_b
                if name == "pow":
                    b = 3 if rk == "scalar" else numpy.array([2, 3]) if rk == "ndarray" else [2, 3]
                del log[:]
                try:
                    f(a, b)
                    status = "ok"
                except Exception as err:  # noqa: BLE001
                    status = type(err).__name__
                if log:
                    label, first = log[0]
                    swapped = first is b
                    rows.append((name, lk, rk, label, bool(swapped)))
                else:
                    rows.append((name, lk, rk, f"<none:{status}>", False))
        for name, f in unary.items():
            del log[:]
            try:
                f(poly)
            except Exception:  # noqa: BLE001
                pass
            rows.append((name, "poly", "-", log[0][0] if log else "<none>", False))
        return rows
    finally:
        dispatch.UFUNC_COLLECTION.clear()
        dispatch.UFUNC_COLLECTION.update(saved_u)
        dispatch.FUNCTION_COLLECTION.clear()
        dispatch.FUNCTION_COLLECTION.update(saved_f)
        for name, val in saved_attrs.items():
            setattr(numpoly, name, val)


def spelling_identity():
    """for every registry entry: is `numpoly.<name>` the very object the registry forwards to?"""
    from numpoly import dispatch
    rows = []
    for regname, reg in (("ufunc", dispatch.UFUNC_COLLECTION), ("function", dispatch.FUNCTION_COLLECTION)):
        for key, impl in reg.items():
            name = getattr(key, "__name__", "")
            rows.append((regname, qualname(key), name, getattr(numpoly, name, None) is impl, isinstance(key, numpy.ufunc)))
    return sorted(rows)


def cfunction_dtypes():
    """the Python-side guard in front of the compiled helpers (None when the guard does not exist)"""
    try:
        from numpoly.construct import from_attributes as fa
        guard = getattr(fa, "CFUNCTION_DTYPES", None)
        if guard is None:
            return None
        return [str(numpy.dtype(d)) for d in guard]
    except Exception:  # noqa: BLE001
        return None


def tables() -> dict:
    """All extracted facts as plain Python data (also used by the harness)."""
    from numpoly import dispatch, baseclass, option
    cset, cset_raises = pyx_switch("cset_values")
    cadd, cadd_raises = pyx_switch("cadd_values")
    t = {
        "keyOffset": int(numpoly.ndpoly.KEY_OFFSET),
        "optionDefaults": {k: v for k, v in option.GLOBAL_OPTIONS_DEFAULTS.items()},
        "ufuncRegistry": sorted((qualname(k), impl_name(v)) for k, v in dispatch.UFUNC_COLLECTION.items()),
        "functionRegistry": sorted((qualname(k), impl_name(v)) for k, v in dispatch.FUNCTION_COLLECTION.items()),
        "reduceMap": sorted((qualname(k), qualname(v)) for k, v in baseclass.REDUCE_MAPPINGS.items()),
        "accumulateMap": sorted((qualname(k), qualname(v)) for k, v in baseclass.ACCUMULATE_MAPPINGS.items()),
        "csetDtypes": cset, "csetRaises": cset_raises, "caddDtypes": cadd, "caddRaises": cadd_raises,
        "glexsortKind": glexsort_kind(),
        "numpyUfuncs": list(numpy_ufuncs()),
        "numpyOverridable": list(numpy_overridable()),
        "promotion": promotion_table(),
        "operatorRouting": operator_routing(),
        "spellingIdentity": spelling_identity(),
        "cfunctionDtypes": cfunction_dtypes(),
    }
    try:
        from numpoly.array_function import savetxt as _st
        t["headerTemplate"] = getattr(_st, "HEADER_TEMPLATE", None)
    except Exception:  # noqa: BLE001
        t["headerTemplate"] = None
    return t


def render_tables(t: dict) -> str:
    def pairs(ps):
        return lean_list([f"({lean_str(a)}, {lean_str(b)})" for a, b in ps], per_line=1)

    def dts(ds):
        if ds is None:
            return "none"
        return "some [" + ", ".join(DT_LEAN[d] for d in ds) + "]"

    def optval(v):
        if isinstance(v, bool):
            return f".bool {'true' if v else 'false'}"
        return f".str {lean_str(str(v))}"

    kind = {"stable": ".stable", "unspecified": ".unspecified", "none": ".noArgsort"}.get(t["glexsortKind"], ".unknown")
    prom = lean_list(["[" + ", ".join(DT_LEAN[x] for x in row) + "]" for row in t["promotion"]], per_line=1)
    return f"""import Np.Model.TableTypes
/-! GENERATED by harness/extract.py from /repo on every run - do not edit. -/
namespace Np.Generated
open Np.DT

def keyOffset : Nat := {t['keyOffset']}

/-- `coeffs.dtype == np.X` chain of `cset_values` in cvalues.pyx (`none`: construct not recognised) -/
def csetDtypes? : Option (List DType) := {dts(t['csetDtypes'])}
def caddDtypes? : Option (List DType) := {dts(t['caddDtypes'])}
/-- does the final `else` of the switch *raise* (it used to construct a ValueError without raising it) -/
def csetElseRaises : Bool := {'true' if t['csetRaises'] else 'false'}

/-- `CFUNCTION_DTYPES` of construct/from_attributes.py: the dtypes for which the compiled writer is used at all
(`none`: no such guard in the source — every dtype goes to the compiled writer) -/
def cfunctionDtypes? : Option (List DType) := {dts(t['cfunctionDtypes'])}

/-- `kind=` of the argsort call in utils/glexsort.py -/
def glexsortArgsortKind : SortKind := {kind}

def optionDefaults : List (String × OptVal) := {lean_list([f"({lean_str(k)}, {optval(v)})" for k, v in t['optionDefaults'].items()], per_line=1)}

def reduceMap : List (String × String) := {pairs(t['reduceMap'])}
def accumulateMap : List (String × String) := {pairs(t['accumulateMap'])}
def ufuncRegistry : List (String × String) := {pairs(t['ufuncRegistry'])}
def functionRegistry : List (String × String) := {pairs(t['functionRegistry'])}

/-- every public numpy ufunc -/
def numpyUfuncs : List String := {lean_list([lean_str(x) for x in t['numpyUfuncs']], per_line=6)}
/-- every public numpy / numpy.linalg / numpy.fft callable taking part in the array-function protocol -/
def numpyOverridable : List String := {lean_list([lean_str(x) for x in t['numpyOverridable']], per_line=5)}

/-- numpy.result_type on the 14 numeric dtypes, rows/columns in the order of `DT.all` (numpy fact, trusted) -/
def promotion : List (List DType) := {prom}

/-- operator / reflected operator -> implementation entered first (spy probe on the live classes):
(operator, left operand kind, right operand kind, registry key or numpoly function entered, arguments swapped) -/
def operatorRouting : List (String × String × String × String × Bool) := {lean_list([f"({lean_str(a)}, {lean_str(b)}, {lean_str(c)}, {lean_str(d)}, {'true' if e else 'false'})" for a, b, c, d, e in t['operatorRouting']], per_line=1)}

/-- (registry, numpy callable, attribute name, `numpoly.<name> is registry[callable]`, callable is a ufunc) -/
def spellingIdentity : List (String × String × String × Bool × Bool) := {lean_list([f"({lean_str(a)}, {lean_str(b)}, {lean_str(c)}, {'true' if d else 'false'}, {'true' if e else 'false'})" for a, b, c, d, e in t['spellingIdentity']], per_line=1)}

def headerTemplate : Option String := {('some ' + lean_str(t['headerTemplate'])) if t.get('headerTemplate') else 'none'}
end Np.Generated
"""


def signatures() -> list:
    """(numpy qualified name, numpy's parameters or None, the implementation's parameters) for every registry entry"""
    import inspect
    from numpoly import dispatch
    kinds = {"POSITIONAL_ONLY": "pos", "POSITIONAL_OR_KEYWORD": "pos", "KEYWORD_ONLY": "kwonly", "VAR_POSITIONAL": "varpos",
             "VAR_KEYWORD": "varkw"}

    def params(f):
        try:
            sig = inspect.signature(f)
        except (ValueError, TypeError):
            return None
        out = []
        for p in sig.parameters.values():
            d = None if p.default is inspect.Parameter.empty else repr(p.default)
            if d is not None and d.startswith("<") and "at 0x" in d:
                d = "<object>"
            out.append((p.name, kinds[p.kind.name], d))
        return out
    seen, rows = set(), []
    for coll in (dispatch.UFUNC_COLLECTION, dispatch.FUNCTION_COLLECTION):
        for npf, impl in coll.items():
            name = qualname(npf)
            if name in seen:
                continue
            seen.add(name)
            rows.append((name, params(npf), params(impl) or []))
    return sorted(rows)


def render_signatures() -> str:
    def par(p):
        d = "none" if p[2] is None else f"some {lean_str(p[2])}"
        return f"⟨{lean_str(p[0])}, .{p[1]}, {d}⟩"

    def plist(ps):
        return "[" + ", ".join(par(p) for p in ps) + "]"
    rows = []
    for name, npp, impl in signatures():
        rows.append(f"⟨{lean_str(name)}, {'none' if npp is None else 'some ' + plist(npp)}, {plist(impl)}⟩")
    return ("import Np.Model.Signatures\n/-! GENERATED by harness/extract.py from /repo and the installed numpy on every run - do not edit. -/\n"
            "namespace Np.Generated\nopen Np.Sig\n\n/-- call signature of every registry entry: numpy's own and the implementation's -/\n"
            "def signatures : List Entry := " + lean_list(rows, per_line=1) + "\nend Np.Generated\n")


def write_generated() -> list:
    os.makedirs(GEN_DIR, exist_ok=True)
    t = tables()
    files = {"Tables.lean": render_tables(t), "Signatures.lean": render_signatures()}
    try:
        from . import writesites
        files["WriteSites.lean"] = writesites.render()
    except ImportError:
        pass
    changed = []
    for name, text in files.items():
        path = os.path.join(GEN_DIR, name)
        old = open(path).read() if os.path.exists(path) else None
        if old != text:
            with open(path, "w") as fh:
                fh.write(text)
            changed.append(name)
    return changed


if __name__ == "__main__":
    print(write_generated())

"""Tiny exact polynomial arithmetic on denotations {monomial -> tuple(coefficients per element)}.

Used for glue checks (evaluation at points, derivatives of big exponents, …) next to the Lean model;
monomial = tuple(sorted((name, exp>0))).
"""
from __future__ import annotations

from fractions import Fraction

from .core import add_exact, is_zero


def mul_exact(a, b):
    ar, ai = (a if isinstance(a, tuple) else (a, Fraction(0)))
    br, bi = (b if isinstance(b, tuple) else (b, Fraction(0)))
    r, i = ar * br - ai * bi, ar * bi + ai * br
    return r if i == 0 else (r, i)


def neg_exact(a):
    return (-a[0], -a[1]) if isinstance(a, tuple) else -a


def clean(d):
    return {m: tuple(c) for m, c in d.items() if not all(is_zero(x) for x in c)}


def dadd(a, b):
    out = dict(a)
    for m, c in b.items():
        out[m] = tuple(add_exact(x, y) for x, y in zip(out[m], c)) if m in out else c
    return clean(out)


def dneg(a):
    return {m: tuple(neg_exact(x) for x in c) for m, c in a.items()}


def mono_mul(m1, m2):
    d = dict(m1)
    for n, x in m2:
        d[n] = d.get(n, 0) + x
    return tuple(sorted(d.items()))


def dmul(a, b):
    out = {}
    for m1, c1 in a.items():
        for m2, c2 in b.items():
            m = mono_mul(m1, m2)
            c = tuple(mul_exact(x, y) for x, y in zip(c1, c2))
            out[m] = tuple(add_exact(x, y) for x, y in zip(out[m], c)) if m in out else c
    return clean(out)


def dderiv(a, name):
    out = {}
    for m, c in a.items():
        d = dict(m)
        k = d.get(name, 0)
        if not k:
            continue
        if k == 1:
            del d[name]
        else:
            d[name] = k - 1
        mm = tuple(sorted(d.items()))
        cc = tuple(mul_exact(Fraction(k), x) for x in c)
        out[mm] = tuple(add_exact(x, y) for x, y in zip(out[mm], cc)) if mm in out else cc
    return clean(out)


def deval(a, point, size):
    """full numeric evaluation at {name: exact number}; returns tuple per element"""
    tot = [Fraction(0)] * size
    for m, c in a.items():
        v = Fraction(1)
        for n, x in m:
            p = point[n]
            v = mul_exact(v, pow_exact(p, x))
        tot = [add_exact(t, mul_exact(ci, v)) for t, ci in zip(tot, c)]
    return tuple(tot)


def pow_exact(p, k):
    if isinstance(p, tuple):
        out = Fraction(1)
        for _ in range(k):
            out = mul_exact(out, p)
        return out
    if p == 0:
        return Fraction(0 if k else 1)
    if p == 1:
        return Fraction(1)
    if p == -1:
        return Fraction(1 if k % 2 == 0 else -1)
    return p ** k

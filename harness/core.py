"""Shared pieces of the correspondence harness: bootstrap, canonical forms, driver, monitor.

Run with /venv/bin/python. Everything random derives from one numpy Generator(PCG64(seed)).
"""
from __future__ import annotations

import contextlib
import json
import os
import re
import signal
import subprocess
import sys
import time
from fractions import Fraction

VERIF = os.path.dirname(os.path.dirname(os.path.abspath(__file__)))
REPO = os.environ.get("NUMPOLY_REPO", "/repo")
LEAN_DIR = os.path.join(VERIF, "lean")
DRIVER = os.path.join(LEAN_DIR, ".lake", "build", "bin", "driver")

if REPO not in sys.path:
    sys.path.insert(0, REPO)
os.environ.setdefault("NUMPOLY_VERIF", "1")

import numpy  # noqa: E402
import numpoly  # noqa: E402

assert os.path.realpath(os.path.dirname(numpoly.__file__)) == os.path.realpath(
    os.path.join(REPO, "numpoly")
), f"numpoly imported from {numpoly.__file__}, expected {REPO}"

NAME_RE = re.compile(r"^q(\d+)$")

DTYPES = ["bool", "int8", "int16", "int32", "int64", "uint8", "uint16", "uint32", "uint64",
          "float16", "float32", "float64", "complex64", "complex128"]


def make_rng(seed: int, stream: str = ""):
    """One PRNG per (seed, stream): stream separates properties without new entropy."""
    key = [seed & 0xFFFFFFFF] + [ord(c) for c in stream]
    return numpy.random.Generator(numpy.random.PCG64(numpy.random.SeedSequence(key)))


# --------------------------------------------------------------------------------------
# exact numbers

def to_exact(x):
    """numpy / python scalar -> Fraction, or (Fraction, Fraction) for a non-real complex."""
    if isinstance(x, (bool, numpy.bool_)):
        return Fraction(int(x))
    if isinstance(x, (int, numpy.integer)):
        return Fraction(int(x))
    if isinstance(x, (float, numpy.floating)):
        f = float(x)
        if f != f or f in (float("inf"), float("-inf")):
            return ("nonfinite", repr(f))
        return Fraction(*f.as_integer_ratio())
    if isinstance(x, (complex, numpy.complexfloating)):
        c = complex(x)
        re_, im_ = to_exact(c.real), to_exact(c.imag)
        if isinstance(re_, tuple) or isinstance(im_, tuple):
            return ("nonfinite", repr(c))
        return re_ if im_ == 0 else (re_, im_)
    if isinstance(x, Fraction):
        return x
    raise TypeError(f"cannot convert {type(x)}")


def coef_json(c):
    """exact number -> JSON coefficient of the line protocol."""
    if isinstance(c, tuple):
        if c and c[0] == "nonfinite":
            return {"nonfinite": c[1]}
        re_, im_ = c
        return [re_.numerator, re_.denominator, im_.numerator, im_.denominator]
    if c.denominator == 1:
        return int(c.numerator)
    return [c.numerator, c.denominator]


def coef_from_json(j):
    if isinstance(j, list):
        if len(j) == 2:
            return Fraction(j[0], j[1])
        re_, im_ = Fraction(j[0], j[1]), Fraction(j[2], j[3])
        return re_ if im_ == 0 else (re_, im_)
    if isinstance(j, dict):
        return ("nonfinite", j["nonfinite"])
    return Fraction(j)


def is_zero(c):
    return (not isinstance(c, tuple)) and c == 0


# --------------------------------------------------------------------------------------
# structures: the representation-level record shared by model and implementation
#   {"names":[int], "shape":[int], "dtype":str?, "terms":[[expo,[coef json,...]],...]}

def name_index(name: str):
    m = NAME_RE.match(name)
    return int(m.group(1)) if m else name


class MalformedResult(Exception):
    """a polynomial handed back by the implementation cannot even be read (its keys name fields that do not exist, ...):
    a failure of the implementation, never of the harness; check.py reports it as a violation"""


def poly_to_struct(p) -> dict:
    """Implementation polynomial -> representation record (exact coefficients)."""
    p = numpoly.aspolynomial(p) if not isinstance(p, numpoly.ndpoly) else p
    try:
        expos = numpy.asarray(p.exponents).tolist()
        terms = []
        for e, key in zip(expos, p.keys):
            col = numpy.asarray(p.values[str(key)]).ravel()
            terms.append([[int(x) for x in e], [coef_json(to_exact(v)) for v in col]])
    except (ValueError, KeyError, IndexError, TypeError) as err:
        raise MalformedResult(f"polynomial with keys {[str(k) for k in numpy.asarray(p.keys).ravel()][:8]} and fields "
                              f"{list(numpy.ndarray.view(p, numpy.ndarray).dtype.names or ())[:8]} cannot be read: "
                              f"{type(err).__name__}: {err}") from err
    return {"names": [name_index(n) for n in p.names], "shape": [int(s) for s in p.shape],
            "dtype": str(p.dtype), "terms": terms}


def array_to_struct(a) -> dict:
    """Plain numeric array -> record of the constant polynomial it denotes."""
    a = numpy.asarray(a)
    col = a.ravel()
    return {"names": [0], "shape": [int(s) for s in a.shape], "dtype": str(a.dtype),
            "terms": [[[0], [coef_json(to_exact(v)) for v in col]]]}


def any_to_struct(x) -> dict:
    if isinstance(x, numpoly.ndpoly):
        return poly_to_struct(x)
    return array_to_struct(x)


def den_of_struct(s: dict) -> dict:
    """Denotation: {monomial -> tuple of exact coefficients}; monomial = sorted ((name, exp>0), ...).

    Zero columns are dropped, equal monomials merged, so the result does not depend on the representation.
    """
    out = {}
    names = s["names"]
    for e, col in s["terms"]:
        mono = tuple(sorted((n, x) for n, x in zip(names, e) if x))
        col = [coef_from_json(c) for c in col]
        if mono in out:
            col = [add_exact(a, b) for a, b in zip(out[mono], col)]
        out[mono] = col
    return {m: tuple(c) for m, c in out.items() if not all(is_zero(x) for x in c)}


def add_exact(a, b):
    ar, ai = (a if isinstance(a, tuple) else (a, Fraction(0)))
    br, bi = (b if isinstance(b, tuple) else (b, Fraction(0)))
    r, i = ar + br, ai + bi
    return r if i == 0 else (r, i)


def den_key(d: dict) -> str:
    """Stable printable form of a denotation (for diffs and samples)."""
    def cs(c):
        return f"{c[0]}+{c[1]}j" if isinstance(c, tuple) else str(c)
    return "; ".join(
        "*".join(f"q{n}^{x}" for n, x in m) + ":[" + ",".join(cs(c) for c in col) + "]"
        for m, col in sorted(d.items(), key=lambda kv: repr(kv[0]))
    )


def struct_to_poly(s: dict, dtype=None):
    """Record -> implementation polynomial, without any cleaning."""
    names = tuple(f"q{n}" for n in s["names"])
    shape = tuple(s["shape"])
    dtype = numpy.dtype(dtype or s.get("dtype") or "int64")
    expos = [e for e, _ in s["terms"]]
    cols = []
    for _, col in s["terms"]:
        vals = [exact_to_py(coef_from_json(c), dtype) for c in col]
        cols.append(numpy.array(vals, dtype=dtype).reshape(shape))
    return numpoly.ndpoly.from_attributes(
        exponents=numpy.array(expos, dtype="uint32").reshape(len(expos), len(names)),
        coefficients=cols, names=names, dtype=dtype, retain_coefficients=True, retain_names=True)


def exact_to_py(c, dtype=None):
    if isinstance(c, tuple):
        return complex(float(c[0]), float(c[1]))
    if dtype is not None and numpy.dtype(dtype).kind in "iub":
        assert c.denominator == 1, c
        return int(c)
    if c.denominator == 1 and (dtype is None):
        return int(c)
    return float(c)


# --------------------------------------------------------------------------------------
# well-formedness (C03's invariant), evaluated on implementation objects

def wf_problems(p) -> list:
    probs = []
    if not isinstance(p, numpoly.ndpoly):
        return ["not-an-ndpoly"]
    try:
        expos = numpy.asarray(p.exponents)
        names = tuple(p.names)
        keys = [str(k) for k in numpy.asarray(p.keys).ravel()]
        if expos.ndim != 2:
            probs.append("exponents-not-2d")
            return probs
        if len(set(map(tuple, expos.tolist()))) != len(expos):
            probs.append("duplicate-exponent-rows")
        if len(names) < 1:
            probs.append("no-indeterminate")
        if len(set(names)) != len(names):
            probs.append("duplicate-names")
        if expos.shape[1] != len(names):
            probs.append("names-width-mismatch")
        coeffs = p.coefficients
        if p.size and len(coeffs) != len(expos):
            probs.append("coefficient-count-mismatch")
        for c in coeffs:
            if c.shape != p.shape:
                probs.append(f"coefficient-shape {c.shape} != {p.shape}")
            if c.dtype != p.dtype:
                probs.append(f"coefficient-dtype {c.dtype} != {p.dtype}")
        fields = list(p.values.dtype.names or ())
        if fields != keys:
            probs.append("keys-differ-from-field-names")
        dec = [[ord(ch) - p.KEY_OFFSET for ch in k] for k in fields]
        if dec != expos.tolist():
            probs.append("field-names-do-not-decode-to-exponents")
    except Exception as err:  # noqa: BLE001
        probs.append(f"introspection-raised {type(err).__name__}: {err}")
    return probs


# --------------------------------------------------------------------------------------
# argument monitor (C17) : byte-level snapshot of every array-like argument

def snapshot(x):
    if isinstance(x, numpoly.ndpoly):
        v = numpy.ndarray.view(x, numpy.ndarray) if False else x.values
        try:
            expo = tuple(map(tuple, numpy.asarray(x.exponents).tolist()))
        except Exception as err:  # noqa: BLE001
            expo = ("exponents-raise", type(err).__name__)
        # the field names of the raw storage are part of the object too: they must keep matching `keys` (seeded change
        # C17-11 renamed them through a dtype object shared with a copy)
        return ("poly", x.shape, str(x.dtype), tuple(x.names), tuple(str(k) for k in numpy.asarray(x.keys).ravel()),
                expo, numpy.ascontiguousarray(v).tobytes(), tuple(v.dtype.names or ()))
    if isinstance(x, numpy.ndarray):
        return ("array", x.shape, str(x.dtype), numpy.ascontiguousarray(x).tobytes())
    if isinstance(x, (list, tuple)):
        return (type(x).__name__, tuple(snapshot(y) for y in x))
    if isinstance(x, dict):
        return ("dict", tuple((k, snapshot(v)) for k, v in x.items()))
    return ("other", repr(x))


class Monitor:
    """Collects argument-mutation events across a run."""

    def __init__(self):
        self.events = []
        self.calls = 0

    @contextlib.contextmanager
    def watch(self, label, *args, exempt=()):
        before = [snapshot(a) for a in args]
        try:
            yield
        finally:
            self.calls += 1
            for i, (a, b) in enumerate(zip(args, before)):
                if i in exempt:
                    continue
                if snapshot(a) != b:
                    self.events.append({"call": label, "argument": i})


# --------------------------------------------------------------------------------------
# time-outs

class CaseTimeout(Exception):
    pass


@contextlib.contextmanager
def time_limit(seconds: float):
    def handler(signum, frame):
        raise CaseTimeout()
    old = signal.signal(signal.SIGALRM, handler)
    signal.setitimer(signal.ITIMER_REAL, seconds)
    try:
        yield
    finally:
        signal.setitimer(signal.ITIMER_REAL, 0)
        signal.signal(signal.SIGALRM, old)


# --------------------------------------------------------------------------------------
# the model driver

def run_driver(cases: list, timeout: float = 600.0) -> list:
    """Send cases (dicts with 'id') to the compiled Lean driver; returns answers aligned with cases."""
    if not cases:
        return []
    if not os.path.exists(DRIVER):
        raise RuntimeError(f"model driver missing: {DRIVER} (run setup)")
    data = "\n".join(json.dumps(c, separators=(",", ":")) for c in cases) + "\n"
    proc = subprocess.run([DRIVER], input=data.encode(), stdout=subprocess.PIPE, stderr=subprocess.PIPE,
                          timeout=timeout)
    if proc.returncode != 0:
        raise RuntimeError(f"driver exited {proc.returncode}: {proc.stderr.decode()[:500]}")
    lines = proc.stdout.decode().splitlines()
    if len(lines) != len(cases):
        raise RuntimeError(f"driver answered {len(lines)} lines for {len(cases)} cases")
    return [json.loads(l) for l in lines]


def err_kind(err: BaseException) -> str:
    """Map an implementation exception to the model's small error enum."""
    name = type(err).__name__
    if isinstance(err, numpoly.baseclass.FeatureNotSupported):
        return "featureNotSupported"
    if isinstance(err, numpoly.construct.clean.PolynomialConstructionError):
        return "construction"
    table = {"TypeError": "typeError", "KeyError": "keyError", "ValueError": "valueError",
             "OverflowError": "overflow", "UnicodeDecodeError": "decode", "AssertionError": "assertion",
             "CaseTimeout": "timeout"}
    return table.get(name, name)

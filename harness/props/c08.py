"""C08 - numpy / numpoly / operator / method / reduce spellings agree; everything unregistered raises FeatureNotSupported."""
from __future__ import annotations

import io
import os
import itertools
import operator
import tempfile
import warnings

from ..core import numpy, numpoly, run_driver, err_kind, time_limit, CaseTimeout, Monitor
from .. import gen, catalogue
from ..extract import numpy_ufuncs, numpy_overridable, qualname

RULE = ("positive half: every registry entry x generated argument tuples valid for it (table of argument synthesisers; "
        "entries without one are listed) through numpy.f, numpoly.f, the operator / method / ufunc.reduce / "
        "ufunc.accumulate spelling where one exists; results compared for type, shape, coefficient dtype, names and "
        "values. negative half (exhaustive): every public numpy ufunc x {__call__, reduce, accumulate, outer, at, "
        "reduceat} and every overridable numpy / numpy.linalg / numpy.fft function outside the registries: a numeric "
        "call that numpy itself accepts is repeated with a polynomial in each array position and must raise "
        "FeatureNotSupported; the expected outcome comes from the Lean routing model over the regenerated tables. "
        "non-trivial = the call is valid for numpy on numeric arrays")

FNS = numpoly.baseclass.FeatureNotSupported
METHODS = ["__call__", "reduce", "accumulate", "outer", "at", "reduceat"]


# ------------------------------------------------------------------------------------------------
# negative half

def numeric_candidates():
    f = numpy.array([1.5, 2.0, 0.5])
    i = numpy.array([1, 2, 3])
    b = numpy.array([True, False, True])
    c = numpy.array([1 + 1j, 2.0, 0.5j])
    return [("float", f), ("int", i), ("bool", b), ("complex", c)]


def ufunc_args(u, method, base):
    if method == "__call__":
        return [base.copy() for _ in range(u.nin)], {}
    if method in ("reduce", "accumulate"):
        return [base.copy()], {}
    if method == "outer":
        return [base.copy(), base.copy()], {}
    if method == "at":
        return ([base.copy(), numpy.array([0, 1])] + ([base[:2].copy()] if u.nin == 2 else [])), {}
    if method == "reduceat":
        return [base.copy(), numpy.array([0, 1])], {}
    raise ValueError(method)


def call_ufunc(u, method, args, kwargs):
    f = u if method == "__call__" else getattr(u, method)
    with warnings.catch_warnings():
        warnings.simplefilter("ignore")
        with numpy.errstate(all="ignore"):
            return f(*args, **kwargs)


def run_negative_ufuncs(ctx, registry_u):
    ufs = numpy_ufuncs()
    drv, meta = [], []
    for name, u in ufs.items():
        for m in METHODS:
            drv.append({"id": len(drv), "op": "resolve", "kind": "ufunc", "name": name, "method": m})
            meta.append((name, u, m))
    answers = run_driver(drv)
    not_applicable = 0
    for (name, u, m), ans in zip(meta, answers):
        valid = None
        for dt, base in numeric_candidates():
            try:
                args, kwargs = ufunc_args(u, m, base)
                call_ufunc(u, m, args, kwargs)
                valid = (dt, base)
                break
            except Exception:  # noqa: BLE001
                continue
        if valid is None:
            not_applicable += 1
            ctx.count("ufunc.not-applicable-to-numpy")
            continue
        dt, base = valid
        args, kwargs = ufunc_args(u, m, base)
        positions = [k for k, a in enumerate(args) if isinstance(a, numpy.ndarray) and not (m in ("at", "reduceat") and k == 1)]
        for pos in positions:
            a3 = [x.copy() if isinstance(x, numpy.ndarray) else x for x in args]
            a3[pos] = a3[pos].view(Probe)
            if not consulted(lambda *xs: call_ufunc(u, m, list(xs), kwargs), a3):
                ctx.count("ufunc.position-not-dispatched")
                continue
            a2 = [x.copy() if isinstance(x, numpy.ndarray) else x for x in args]
            a2[pos] = numpoly.polynomial(a2[pos])
            case = {"kind": "ufunc", "ufunc": name, "method": m, "position": pos, "dtype": dt}
            ctx.evaluations += 1
            ctx.nontrivial_add(("u", name, m, pos))
            try:
                with time_limit(10):
                    res = call_ufunc(u, m, a2, kwargs)
                outcome = "returned"
            except FNS:
                outcome = "featureNotSupported"
            except (Exception, CaseTimeout) as err:  # noqa: BLE001
                outcome = f"{type(err).__name__}: {str(err)[:100]}"
            if ans.get("status") == "ok":       # model: forwarded to a registered implementation
                ctx.count("ufunc.forwarded")
                continue
            if ans.get("kind") != "featureNotSupported":
                ctx.fail(case, f"routing model answers {ans.get('kind')} for {name}.{m}", ["negative", "ufunc", "model"])
            elif outcome != "featureNotSupported":
                ctx.fail(case, f"{name}.{m}(polynomial in position {pos}) -> {outcome}; FeatureNotSupported expected",
                         ["negative", "ufunc", f"method:{m}", "returned" if outcome == "returned" else "other-error"])
            else:
                ctx.count("ufunc.refused")
    ctx.extra["ufunc_methods_not_applicable_to_numpy"] = not_applicable
    ctx.extra["ufuncs_enumerated"] = len(ufs)


def patterns():
    A = numpy.array([[1.0, 2.0], [3.0, 4.5]])
    v = numpy.array([1.0, 2.0, 3.0])
    I = numpy.array([[1, 2], [3, 4]])
    w = numpy.array([1, 0, 2])
    mk = lambda *xs: [x.copy() if isinstance(x, numpy.ndarray) else x for x in xs]
    return [
        lambda: mk(A), lambda: mk(v), lambda: mk(I), lambda: mk(w),
        lambda: mk(A, A), lambda: mk(v, v), lambda: mk(I, I), lambda: mk(w, w),
        lambda: mk(A, 1), lambda: mk(v, 1), lambda: mk(A, 0), lambda: mk(v, 2), lambda: mk(I, 1), lambda: mk(w, 2),
        lambda: [[A.copy(), A.copy()]], lambda: [[v.copy(), v.copy()]],
        lambda: mk(A, v[:2]), lambda: mk(v, w), lambda: mk(w, v), lambda: mk(A, 0, 1), lambda: mk(v, 0, 1),
        lambda: mk(A, A, A), lambda: mk(v, v, v), lambda: mk(w, w, w), lambda: mk(v, [0, 1]), lambda: mk(A, [0, 1]),
        lambda: mk(A, (2, 2)), lambda: mk(v, (3,)), lambda: mk(A, 1, 1), lambda: mk(v, 1, 1),
        lambda: mk(w, v, v), lambda: mk(v, [0, 2], 1.0), lambda: mk(A, w[:2] > 0, 1.0), lambda: mk(v, w > 0), lambda: mk(w > 0, v),
        lambda: mk(A > 2, A, A), lambda: mk(v, v, 3), lambda: mk("ij,ij->i", A, A), lambda: mk("ij->i", A),
        lambda: mk(v, [1.0, 2.5]), lambda: mk(v, v, [1.0]), lambda: mk(A, 2, 0), lambda: mk(lambda x: x, 0, A),
        lambda: mk(numpy.array([[2.0, 1.0], [1.0, 2.0]])), lambda: mk(numpy.array([3, 200], dtype="uint8")),
        lambda: mk(A, float), lambda: mk(I, "int32"), lambda: mk(w, (2, 3)), lambda: mk(I, I[:, :1], 9, 1),
        lambda: [(w.copy(), w.copy()), (3, 3)], lambda: mk(I, numpy.float64),
    ]


class ProbeHit(Exception):
    pass


class Probe(numpy.ndarray):
    """an array that reports whether numpy's override protocols consult it"""

    def __array_function__(self, func, types, args, kwargs):
        raise ProbeHit()

    def __array_ufunc__(self, ufunc, method, *inputs, **kwargs):
        raise ProbeHit()


def with_poly(args, pos, sub=None, probe=False):
    conv = (lambda a: a.view(Probe)) if probe else numpoly.polynomial
    out = []
    for k, a in enumerate(args):
        if k != pos:
            out.append(a)
        elif isinstance(a, (list, tuple)):
            lst = list(a)
            lst[sub] = conv(lst[sub])
            out.append(type(a)(lst))
        else:
            out.append(conv(a))
    return out


def consulted(f, args):
    """does numpy consult the override protocol for this argument position?"""
    try:
        with warnings.catch_warnings():
            warnings.simplefilter("ignore")
            with numpy.errstate(all="ignore"), time_limit(5):
                f(*args)
        return False
    except ProbeHit:
        return True
    except (Exception, CaseTimeout):  # noqa: BLE001
        return False


def array_positions(args):
    pos = []
    for k, a in enumerate(args):
        if isinstance(a, numpy.ndarray) and a.dtype.kind in "fiu":
            pos.append((k, None))
        elif isinstance(a, (list, tuple)) and a and all(isinstance(x, numpy.ndarray) for x in a):
            pos.append((k, 0))
    return pos


def run_negative_functions(ctx, registry_f):
    fns = numpy_overridable()
    names = [n for n in fns if n not in registry_f]
    answers = run_driver([{"id": i, "op": "resolve", "kind": "function", "name": n} for i, n in enumerate(names)])
    unsynth = []
    cwd = os.getcwd()
    with tempfile.TemporaryDirectory() as tmp:
        os.chdir(tmp)
        try:
            for name, ans in zip(names, answers):
                f = fns[name]
                if ans.get("kind") != "featureNotSupported":
                    ctx.fail({"kind": "function", "function": name}, f"routing model answers {ans} for unregistered {name}", ["negative", "function", "model"])
                    continue
                found = None
                for pi, pat in enumerate(patterns()):
                    args = pat()
                    if not array_positions(args):
                        continue
                    try:
                        with warnings.catch_warnings():
                            warnings.simplefilter("ignore")
                            with numpy.errstate(all="ignore"), time_limit(5):
                                f(*args)
                        found = pi
                        break
                    except (Exception, CaseTimeout):  # noqa: BLE001
                        continue
                if found is None:
                    unsynth.append(name)
                    continue
                for pos, sub in array_positions(patterns()[found]()):
                    if not consulted(f, with_poly(patterns()[found](), pos, sub, probe=True)):
                        ctx.count("function.position-not-dispatched")
                        continue
                    args = with_poly(patterns()[found](), pos, sub)
                    case = {"kind": "function", "function": name, "pattern": found, "position": pos}
                    ctx.evaluations += 1
                    ctx.nontrivial_add(("f", name, pos))
                    try:
                        with warnings.catch_warnings():
                            warnings.simplefilter("ignore")
                            with time_limit(10):
                                f(*args)
                        outcome = "returned"
                    except FNS:
                        outcome = "featureNotSupported"
                    except (Exception, CaseTimeout) as err:  # noqa: BLE001
                        outcome = f"{type(err).__name__}: {str(err)[:100]}"
                    if outcome != "featureNotSupported":
                        ctx.fail(case, f"{name}(polynomial in position {pos}) -> {outcome}; FeatureNotSupported expected",
                                 ["negative", "function", f"function:{name}", "returned" if outcome == "returned" else "other-error"])
                    else:
                        ctx.count("function.refused")
        finally:
            os.chdir(cwd)
    ctx.extra["functions_enumerated"] = len(names)
    ctx.extra["functions_without_valid_numeric_call"] = unsynth


# ------------------------------------------------------------------------------------------------
# positive half

def P(rng, **kw):
    kw.setdefault("kind", "int")
    dtype = kw.pop("dtype", None)
    s = gen.gen_struct(rng, **kw)
    if dtype:
        # other coefficient dtypes: the spellings must agree on the result's dtype too (bool, narrow, float32)
        s["dtype"] = dtype
        for t in s["terms"]:
            t[1] = [(int(x != 0) if dtype == "bool" else (abs(x) % 7 or 1)) if isinstance(x, int) else x for x in t[1]]
            if dtype == "bool":
                t[1][0] = 1
    return gen.materialize(s)


_DT = itertools.cycle([(None, 2), ("bool", 1), ("uint8", 1), (None, 1), ("int16", 2), ("float32", 1), ("bool", 2)])


def some_dtype(r):
    """(dtype, number of stored terms), cycling so that every entry that uses it meets a lone-term polynomial of every
    dtype in each tier"""
    return next(_DT)


def C(rng, shape, lo=1, hi=4, kind="int"):
    a = rng.integers(lo, hi + 1, size=shape)
    return a if kind == "int" else a / 2.0


def synthesisers():
    """numpy qualname -> (rng -> list of spellings [(label, thunk)]); the first spelling is the reference"""
    S = {}
    sh = lambda r: gen.choice(r, [(2,), (3,), (2, 2), (2, 3)])

    def simple(npf, name, mk, method=None, op=None, extra=()):
        def f(r):
            args, kw = mk(r)
            sp = [(f"numpy.{name}", lambda: npf(*args, **kw)), (f"numpoly.{name}", lambda: getattr(numpoly, name)(*args, **kw))]
            if method:
                sp.append((f".{method}()", lambda: getattr(args[0], method)(*args[1:], **kw)))
            if op:
                sp.append((f"operator {op.__name__}", lambda: op(*args)))
            for lab, g in extra:
                sp.append((lab, lambda g=g: g(*args, **kw)))
            return sp
        return f

    unary = {"absolute": (None, abs), "negative": (None, operator.neg), "positive": (None, operator.pos),
             "square": (None, None), "ceil": (None, None), "floor": (None, None), "rint": (None, None),
             "isfinite": (None, None)}
    for nm, (meth, op) in unary.items():
        kind = "float" if nm in ("ceil", "floor", "rint") else "int"
        if nm == "square":
            # `poly ** 2` is rewritten by numpy into the ufunc numpy.square: one more spelling of square, and it must
            # agree with power(poly, 2) and poly * poly
            S[f"numpy.{nm}"] = simple(numpy.square, nm, lambda r: (lambda dn: ([P(r, nterms=dn[1], shape=gen.choice(r, [(), (2,), (3,)]), dtype=dn[0])], {}))(some_dtype(r)), None, None,
                                      extra=[("poly ** 2", lambda a: a ** 2), ("numpy.power(poly, 2)", lambda a: numpy.power(a, 2)),
                                             ("poly * poly", lambda a: a * a)])
            continue
        S[f"numpy.{nm}"] = simple(getattr(numpy, nm), nm, lambda r, kind=kind: ([P(r, kind=kind)], {}), meth, op)
    for nm, meth in (("around", "round"), ("round", "round")):
        S[f"numpy.{nm}"] = simple(getattr(numpy, nm), nm, lambda r: ([P(r, kind="float")], {}), meth)
    binary = {"add": operator.add, "subtract": operator.sub, "multiply": operator.mul, "equal": operator.eq,
              "not_equal": operator.ne, "greater": operator.gt, "greater_equal": operator.ge, "less": operator.lt,
              "less_equal": operator.le, "maximum": None, "minimum": None, "logical_and": None, "logical_or": None}
    for nm, op in binary.items():
        def mk(r):
            a, b = catalogue.build(catalogue.pair(r, nterms=int(r.integers(0, 4)), kind="int"))
            return [a, b], {}
        S[f"numpy.{nm}"] = simple(getattr(numpy, nm), nm, mk, None, op)
    S["numpy.power"] = simple(numpy.power, "power", lambda r: (lambda dn: ([P(r, nterms=dn[1], shape=gen.choice(r, [(), (2,), (3,)]), dtype=dn[0]), int(r.integers(0, 4))], {}))(some_dtype(r)), None, operator.pow)
    S["numpy.floor_divide"] = simple(numpy.floor_divide, "floor_divide", lambda r: ([numpoly.polynomial(C(r, sh(r), 1, 9)), int(r.integers(1, 4))], {}), None, operator.floordiv)
    S["numpy.divide"] = simple(numpy.divide, "divide", lambda r: ([numpoly.polynomial(C(r, sh(r), 1, 9, "float")), float(r.integers(1, 3))], {}))
    S["numpy.remainder"] = simple(numpy.remainder, "remainder", lambda r: ([numpoly.polynomial(C(r, sh(r), 1, 9)), int(r.integers(1, 4))], {}))
    S["numpy.divmod"] = simple(numpy.divmod, "divmod", lambda r: ([numpoly.polynomial(C(r, sh(r), 1, 9)), int(r.integers(1, 4))], {}))
    # method spellings: only the methods the package documents/tests as supported
    red = {"sum": "sum", "prod": "prod", "cumsum": "cumsum", "mean": "mean", "all": "all", "any": "any", "amax": None,
           "amin": None, "max": "max", "min": "min", "argmax": None, "argmin": None}
    for nm, meth in red.items():
        def mk(r, nm=nm):
            shape = gen.choice(r, [(3,), (2, 2), (2, 3)])
            dt, nterms = some_dtype(r) if nm in ("sum", "prod", "cumsum", "mean") else (None, 2)
            # coefficient dtypes other than int64 (uint8, int16, float32, bool): the spellings agree on the dtype of the
            # result too (seeded change C08-12: only the method spelling hands where=True on)
            p = P(r, shape=shape, nterms=max(nterms, 1), maxexp=1 if nm == "prod" else 3, lim=2, **({"dtype": dt} if dt else {}))
            if nm in ("amax", "amin", "max", "min", "argmax", "argmin") and r.random() < .5:
                # elements that share their leading term and differ below it: every spelling has to break the tie the same
                # way (seeded change C08-16: a shortcut taken only when no keyword arrives, with the opposite tie-break)
                q0, q1 = numpoly.variable(2)
                lead = gen.choice(r, [q0 ** 2, q0 * q1, q1 ** 3, 2 * q0])
                low = [int(x) for x in r.permutation(6)[: int(numpy.prod(shape))]]
                p = numpoly.polynomial([lead + c + (q1 if k % 2 and lead is not q1 ** 3 else 0) * 0 for k, c in enumerate(low)]).reshape(shape)
            axis = gen.choice(r, [None, 0, -1]) if nm not in ("argmax", "argmin") else gen.choice(r, [None, 0])
            return [p], ({} if axis is None else {"axis": axis})
        extra = []
        if nm == "sum":
            extra = [("numpy.add.reduce", lambda p, axis=None: numpy.add.reduce(p, axis=axis) if axis is not None else numpy.add.reduce(p, axis=None))]
        if nm == "cumsum":
            extra = [("numpy.add.accumulate", lambda p, axis=None: numpy.add.accumulate(p, axis=axis) if axis is not None else None)]
        if nm == "prod":
            extra = [("numpy.multiply.reduce", lambda p, axis=None: numpy.multiply.reduce(p, axis=axis))]
        if nm == "all":
            extra = [("numpy.logical_and.reduce", lambda p, axis=None: numpy.logical_and.reduce(p, axis=axis))]
        if nm == "any":
            extra = [("numpy.logical_or.reduce", lambda p, axis=None: numpy.logical_or.reduce(p, axis=axis))]
        if nm in ("amax", "max"):
            extra = [("numpy.maximum.reduce", lambda p, axis=None: numpy.maximum.reduce(p, axis=axis))]
        if nm in ("amin", "min"):
            extra = [("numpy.minimum.reduce", lambda p, axis=None: numpy.minimum.reduce(p, axis=axis))]
        S[f"numpy.{nm}"] = simple(getattr(numpy, nm), nm, mk, meth, None, extra)
    S["numpy.count_nonzero"] = simple(numpy.count_nonzero, "count_nonzero", lambda r: ([P(r, shape=(2, 3))], {"axis": gen.choice(r, [None, 0])}))
    S["numpy.nonzero"] = simple(numpy.nonzero, "nonzero", lambda r: ([P(r, shape=sh(r), nterms=2)], {}), "nonzero")
    def reshape_args(r):
        p = P(r, shape=(2, 3))
        if r.random() < .5:
            p = p.T         # Fortran-contiguous view: order="A" then reads it in Fortran order (seeded change C08-11)
        return [p, gen.choice(r, [(3, 2), (6,), (1, 6)])], ({"order": gen.choice(r, ["A", "F", "C"])} if r.random() < .6 else {})
    S["numpy.reshape"] = simple(numpy.reshape, "reshape", reshape_args, "reshape")
    S["numpy.transpose"] = simple(numpy.transpose, "transpose", lambda r: ([P(r, shape=gen.choice(r, [(2, 3), (2, 1, 3)]))], {}))
    S["numpy.moveaxis"] = simple(numpy.moveaxis, "moveaxis", lambda r: ([P(r, shape=(2, 1, 3)), 0, -1], {}))
    S["numpy.expand_dims"] = simple(numpy.expand_dims, "expand_dims", lambda r: ([P(r), int(r.integers(0, 1))], {}))
    for nm in ("atleast_1d", "atleast_2d", "atleast_3d"):
        S[f"numpy.{nm}"] = simple(getattr(numpy, nm), nm, lambda r: ([P(r)], {}))
    S["numpy.repeat"] = simple(numpy.repeat, "repeat", lambda r: ([P(r, shape=sh(r)), 2], {"axis": 0}))
    S["numpy.tile"] = simple(numpy.tile, "tile", lambda r: ([P(r), 2], {}))
    for nm in ("concatenate", "stack", "hstack", "vstack", "dstack"):
        S[f"numpy.{nm}"] = simple(getattr(numpy, nm), nm, lambda r: ([catalogue.build(catalogue.same_pair(r, kind="int"))], {}))
    S["numpy.split"] = simple(numpy.split, "split", lambda r: ([P(r, shape=(4,)), 2], {}))
    S["numpy.array_split"] = simple(numpy.array_split, "array_split", lambda r: ([P(r, shape=(5,)), 3], {}))
    S["numpy.hsplit"] = simple(numpy.hsplit, "hsplit", lambda r: ([P(r, shape=(2, 4)), 2], {}))
    S["numpy.vsplit"] = simple(numpy.vsplit, "vsplit", lambda r: ([P(r, shape=(4, 2)), 2], {}))
    S["numpy.dsplit"] = simple(numpy.dsplit, "dsplit", lambda r: ([P(r, shape=(1, 2, 4)), 2], {}))
    S["numpy.diag"] = simple(numpy.diag, "diag", lambda r: ([P(r, shape=gen.choice(r, [(3,), (2, 2), (2, 3)]))], {}))
    S["numpy.diagonal"] = simple(numpy.diagonal, "diagonal", lambda r: ([P(r, shape=gen.choice(r, [(2, 2), (2, 3)]))], {}), "diagonal")
    S["numpy.broadcast_arrays"] = simple(numpy.broadcast_arrays, "broadcast_arrays", lambda r: (catalogue.build(catalogue.pair(r, kind="int")), {}))
    S["numpy.where"] = simple(numpy.where, "where", lambda r: ([numpy.array([True, False, True])] + catalogue.build(catalogue.same_pair(r, shape=(3,), kind="int")), {}))
    S["numpy.choose"] = simple(numpy.choose, "choose", lambda r: ([numpy.array([0, 1, 0]), catalogue.build(catalogue.same_pair(r, shape=(3,), kind="int"))], {}))
    S["numpy.full_like"] = simple(numpy.full_like, "full_like", lambda r: ([P(r, shape=sh(r)), int(r.integers(1, 5))], {}))
    S["numpy.zeros_like"] = simple(numpy.zeros_like, "zeros_like", lambda r: ([P(r)], {}))
    S["numpy.ones_like"] = simple(numpy.ones_like, "ones_like", lambda r: ([P(r)], {}))
    S["numpy.apply_along_axis"] = simple(numpy.apply_along_axis, "apply_along_axis", lambda r: ([numpy.sum, 0, P(r, shape=(2, 3))], {}))
    S["numpy.apply_over_axes"] = simple(numpy.apply_over_axes, "apply_over_axes", lambda r: ([numpy.sum, P(r, shape=(2, 3)), [0]], {}))
    S["numpy.array_repr"] = simple(numpy.array_repr, "array_repr", lambda r: ([P(r)], {}), None, None, [("repr()", lambda p: repr(p))])
    S["numpy.array_str"] = simple(numpy.array_str, "array_str", lambda r: ([P(r)], {}), None, None, [("str()", lambda p: str(p))])
    S["numpy.allclose"] = simple(numpy.allclose, "allclose", lambda r: (catalogue.build(catalogue.same_pair(r, kind="float")), {}))
    S["numpy.isclose"] = simple(numpy.isclose, "isclose", lambda r: (catalogue.build(catalogue.same_pair(r, kind="float")), {}))
    S["numpy.common_type"] = simple(numpy.common_type, "common_type", lambda r: ([P(r, kind="float")], {}))
    S["numpy.result_type"] = simple(numpy.result_type, "result_type", lambda r: (catalogue.build(catalogue.same_pair(r)), {}))
    S["numpy.inner"] = simple(numpy.inner, "inner", lambda r: (catalogue.build(catalogue.same_pair(r, shape=(3,), kind="int", nterms=2)), {}))
    S["numpy.outer"] = simple(numpy.outer, "outer", lambda r: ([P(r, shape=(2,), nterms=2), P(r, shape=(3,), nterms=2)], {}))
    S["numpy.matmul"] = simple(numpy.matmul, "matmul", lambda r: ([P(r, shape=(2, 3), nterms=2), P(r, shape=(3, 2), nterms=2)], {}), None, operator.matmul)
    S["numpy.linalg.det"] = lambda r: (lambda a: [("numpy.linalg.det", lambda: numpy.linalg.det(a)), ("numpoly.det", lambda: numpoly.det(a))])(P(r, shape=(2, 2), nterms=2, maxexp=1))
    S["numpy.diff"] = simple(numpy.diff, "diff", lambda r: ([P(r, shape=gen.choice(r, [(3,), (2, 3)]))], {}))
    S["numpy.ediff1d"] = simple(numpy.ediff1d, "ediff1d", lambda r: ([P(r, shape=(4,))], {}))
    S["numpy.copyto"] = lambda r: (lambda ab: [
        ("numpy.copyto", lambda: (lambda d: (numpy.copyto(d, ab[1]), d)[1])(catalogue._fresh_like(*ab))),
        ("numpoly.copyto", lambda: (lambda d: (numpoly.copyto(d, ab[1]), d)[1])(catalogue._fresh_like(*ab)))])(catalogue.build(catalogue.same_pair(r, kind="int")))
    S["numpy.savetxt"] = lambda r: (lambda p: [
        ("numpy.savetxt", lambda: (lambda f: (numpy.savetxt(f, p), f.getvalue())[1])(io.StringIO())),
        ("numpoly.savetxt", lambda: (lambda f: (numpoly.savetxt(f, p), f.getvalue())[1])(io.StringIO()))])(P(r, shape=(3,), kind="float"))
    return S


def run_positive(ctx, registry):
    rng = ctx.rng("positive")
    S = synthesisers()
    reps = 3 if ctx.quick else 20
    missing = []
    for name in sorted(registry):
        syn = S.get(name)
        if syn is None:
            missing.append(name)
            continue
        for _ in range(reps * 7 if name in ("numpy.square", "numpy.power", "numpy.multiply") else reps):
            try:
                spellings = syn(rng)
            except Exception as err:  # noqa: BLE001
                raise RuntimeError(f"argument synthesiser for {name} failed: {err}")
            results = []
            for label, thunk in spellings:
                try:
                    with warnings.catch_warnings():
                        warnings.simplefilter("ignore")
                        res = thunk()
                    results.append((label, "ok", catalogue.canon(res) if not isinstance(res, str) else {"t": "str", "v": res},
                                    type(res).__name__, res))
                except Exception as err:  # noqa: BLE001
                    results.append((label, "raises", f"{type(err).__name__}", None, err))
            ctx.evaluations += len(results)
            ctx.nontrivial_add(("p", name, ctx.evaluations))
            ref = results[0]
            for other in results[1:]:
                if other[4] is None and other[1] == "ok":
                    continue        # spelling not applicable for this argument tuple
                if (ref[1], ref[2], ref[3]) != (other[1], other[2], other[3]):
                    ctx.fail({"kind": "spelling", "function": name, "spellings": [ref[0], other[0]]},
                             f"{ref[0]} and {other[0]} disagree: {str(ref[2])[:150]} ({ref[3]}) vs {str(other[2])[:150]} ({other[3]})",
                             ["positive", f"function:{name}"])
                elif ref[1] == "ok" and isinstance(ref[4], numpoly.ndpoly) and isinstance(other[4], numpoly.ndpoly) and ref[4].names != other[4].names:
                    ctx.fail({"kind": "spelling", "function": name, "spellings": [ref[0], other[0]]},
                             f"{ref[0]} and {other[0]} return different names {ref[4].names} vs {other[4].names}", ["positive", f"function:{name}", "names"])
        ctx.count("positive.entries")
    ctx.extra["registry_entries_without_synthesiser"] = missing


def run_out(ctx):
    """explicit output targets: `numpoly.f(..., out=t)`, `numpy.f(..., out=t)` and the in-place operator must agree"""
    rng = ctx.rng("out")
    import copy

    def target_like(ref):
        if isinstance(ref, numpoly.ndpoly):
            return numpoly.ndpoly.from_attributes(ref.exponents, [numpy.zeros_like(c) for c in ref.coefficients], ref.names,
                                                  dtype=ref.dtype, retain_coefficients=True, retain_names=True)
        return numpy.zeros_like(numpy.asarray(ref))
    binary = [("add", operator.iadd), ("subtract", operator.isub), ("multiply", operator.imul), ("less", None), ("equal", None),
              ("greater_equal", None), ("logical_and", None)]
    unary = [("negative", None), ("absolute", None), ("isfinite", None)]
    for _ in range(3 if ctx.quick else 20):
        a, b = catalogue.build(catalogue.same_pair(rng, kind="int")) if hasattr(catalogue, "same_pair") else (P(rng), P(rng))
        if rng.random() < .6 and a.shape == b.shape and a.size >= 2:
            # some elements equal, some not: the verdict at equal elements may not come from the target's old content
            b = numpoly.where(numpy.arange(a.size).reshape(a.shape) % 2 == 0, a, b)
        for name, iop in binary + unary:
            args = (a, b) if (name, iop) in binary else (a,)
            try:
                ref = getattr(numpoly, name)(*args)
            except Exception:  # noqa: BLE001
                continue
            results = []
            for label, call in (("numpoly.%s(out=)" % name, lambda t: getattr(numpoly, name)(*args, out=t)),
                                ("numpy.%s(out=)" % name, lambda t: getattr(numpy, name)(*args, out=t))):
                t = target_like(ref)
                if not isinstance(t, numpoly.ndpoly) and t.dtype == bool:
                    t[...] = bool(rng.integers(2))        # previous content of the target: all True or all False
                try:
                    r = call(t)
                    results.append((label, "ok", catalogue.canon(r), catalogue.canon(t)))
                except Exception as err:  # noqa: BLE001
                    results.append((label, "raises", type(err).__name__, None))
            if iop is not None and isinstance(ref, numpoly.ndpoly):
                t = numpoly.ndpoly.from_attributes(ref.exponents, [numpy.zeros_like(c) for c in ref.coefficients], ref.names,
                                                   dtype=ref.dtype, retain_coefficients=True, retain_names=True)
                t = t + a if False else t
                try:
                    # in-place operator on a target that already holds `a` and has room for every term of the result
                    t = numpoly.add(t, a, out=target_like(ref))
                    t2 = iop(t, b)
                    results.append(("in-place operator", "ok", catalogue.canon(t2), catalogue.canon(t)))
                except Exception as err:  # noqa: BLE001
                    results.append(("in-place operator", "raises", type(err).__name__, None))
            ctx.evaluations += len(results)
            ctx.count("out-keyword")
            want = catalogue.canon(ref)
            for label, status, got, filled in results:
                case = {"kind": "out", "function": name, "spelling": label}
                if status != "ok":
                    ctx.fail(case, f"{label} raises {got} while numpoly.{name}(...) without out= returns a value", ["positive", "out-keyword", f"function:{name}", "raises"])
                elif got != want or filled != want:
                    ctx.fail(case, f"{label} returns {str(got)[:120]} / leaves {str(filled)[:120]} in the target; the plain call returns {str(want)[:120]}",
                             ["positive", "out-keyword", f"function:{name}", "value"])


class _TaggedArray(numpy.ndarray):
    """a user's ndarray subclass that adds nothing (inherits ndarray.__array_function__ / __array_ufunc__)"""


class _TaggedPoly(numpoly.ndpoly):
    """a user's ndpoly subclass that adds nothing"""


def run_flavours(ctx):
    """the same call with the plain operand replaced by another ndarray flavour holding the same numbers (numpy.memmap,
    a trivial ndarray subclass) or the polynomial viewed as a trivial ndpoly subclass: numpy.f and numpoly.f still
    agree with each other and with the plain call (seeded change C08-7: dispatch declined for foreign ndarray types)"""
    import shutil
    import tempfile
    rng = ctx.rng("flavours")
    tmp = tempfile.mkdtemp(prefix="verif-c08-")
    binary = ["add", "subtract", "multiply", "equal", "not_equal", "isclose", "inner", "outer", "matmul", "dot", "logical_or"]
    seqs = ["concatenate", "vstack", "hstack", "stack", "dstack"]
    unary = ["sum", "transpose", "cumsum", "prod", "mean", "negative", "square", "ravel", "any", "all", "count_nonzero"]
    try:
        for rep in range(2 if ctx.quick else 12):
            shape = (2, 2) if rep % 2 == 0 else (3,)
            p = P(rng, shape=shape, nterms=2)
            plain = C(rng, shape)
            mm = numpy.memmap(f"{tmp}/m{rep}.dat", dtype=plain.dtype, mode="w+", shape=shape)
            mm[...] = plain
            tagged = plain.view(_TaggedArray)
            sub = p.view(_TaggedPoly)
            calls = [(n, lambda f, o, n=n: f(p, o), True) for n in binary]
            calls += [(n, lambda f, o, n=n: f([p, o]), True) for n in seqs]
            calls += [("where", lambda f, o: f(numpy.asarray(o) > 2, p, o), True)]
            calls += [(n, lambda f, o, n=n: f(o), False) for n in unary]
            for name, call, foreign_array in calls:
                if not hasattr(numpoly, name):
                    continue
                base_operand = plain if foreign_array else p
                try:
                    with warnings.catch_warnings():
                        warnings.simplefilter("ignore")
                        want = catalogue.canon(call(getattr(numpoly, name), base_operand))
                except Exception:  # noqa: BLE001
                    continue        # not a valid call for this shape (matmul of 1-d etc. are other properties' business)
                flavours = [("numpy.memmap", mm), ("ndarray subclass", tagged)] if foreign_array else [("ndpoly subclass", sub)]
                for flabel, operand in flavours:
                    for slabel, mod in (("numpy", numpy), ("numpoly", numpoly)):
                        ctx.evaluations += 1
                        ctx.count("flavours")
                        case = {"kind": "flavour", "function": f"numpy.{name}", "flavour": flabel, "spelling": slabel}
                        try:
                            with warnings.catch_warnings():
                                warnings.simplefilter("ignore")
                                got = catalogue.canon(call(getattr(mod, name), operand))
                        except Exception as err:  # noqa: BLE001
                            ctx.fail(case, f"{slabel}.{name} with a {flabel} operand raises {type(err).__name__}: {str(err)[:100]} while the "
                                     f"plain-array call returns a value", ["positive", "flavour", f"function:numpy.{name}", "raises"])
                            continue
                        if got != want:
                            ctx.fail(case, f"{slabel}.{name} with a {flabel} operand returns {str(got)[:120]}, with the plain operand {str(want)[:120]}",
                                     ["positive", "flavour", f"function:numpy.{name}", "value"])
            del mm
    finally:
        shutil.rmtree(tmp, ignore_errors=True)


def run_default_axis(ctx):
    """ufunc.reduce / ufunc.accumulate called WITHOUT an axis work along axis 0 (numpy's default for ufunc methods), while
    the function spellings default to axis=None: `numpy.add.accumulate(p)` is a spelling of `cumsum(p, axis=0)`, `numpy.add
    .reduce(p)` of `sum(p, axis=0)`, ... on operands with two or more axes (seeded change C08-13: accumulate lost the default)"""
    rng = ctx.rng("default-axis")
    pairs = [("numpy.add.accumulate", lambda p: numpy.add.accumulate(p), "cumsum", {}),
             ("numpy.add.reduce", lambda p: numpy.add.reduce(p), "sum", {}),
             ("numpy.multiply.reduce", lambda p: numpy.multiply.reduce(p), "prod", {"maxexp": 1}),
             ("numpy.logical_and.reduce", lambda p: numpy.logical_and.reduce(p), "all", {}),
             ("numpy.logical_or.reduce", lambda p: numpy.logical_or.reduce(p), "any", {})]
    for _ in range(2 if ctx.quick else 12):
        for label, thunk, fn, kw in pairs:
            p = P(rng, shape=gen.choice(rng, [(2, 3), (3, 2), (2, 1, 3), (2, 2, 2)]), nterms=2, lim=2, **kw)
            results = []
            for lab, call in ((label + "(p)", lambda: thunk(p)), (f"numpy.{fn}(p, axis=0)", lambda: getattr(numpy, fn)(p, axis=0)),
                              (f"numpoly.{fn}(p, axis=0)", lambda: getattr(numpoly, fn)(p, axis=0)),
                              (f"p.{fn}(axis=0)", lambda: getattr(p, fn)(axis=0))):
                try:
                    with warnings.catch_warnings():
                        warnings.simplefilter("ignore")
                        r = call()
                    results.append((lab, "ok", catalogue.canon(r), type(r).__name__))
                except Exception as err:  # noqa: BLE001
                    results.append((lab, "raises", type(err).__name__, None))
            ctx.evaluations += len(results)
            ctx.count("default-axis")
            for other in results[1:]:
                if results[0][1:] != other[1:]:
                    ctx.fail({"kind": "default-axis", "function": f"numpy.{fn}", "spellings": [results[0][0], other[0]]},
                             f"{results[0][0]} and {other[0]} disagree: {str(results[0][2])[:150]} vs {str(other[2])[:150]}",
                             ["positive", f"function:numpy.{fn}", "default-axis"])
                    break


def run_reformat(ctx):
    """`repr(p)` / `str(p)` are spellings of numpy.array_repr / array_str every time they are asked, not only the first time:
    the same object is formatted repeatedly while display options change in between and after an explicit copyto into it
    (seeded change C08-14: the text was memoised on the instance)"""
    rng = ctx.rng("reformat")
    settings = [{}, {"display_exponent": "^"}, {"display_graded": False}, {"display_reverse": True, "display_multiply": " "},
                {"display_inverse": True}, {}]
    for _ in range(3 if ctx.quick else 20):
        p = P(rng, shape=gen.choice(rng, [(), (2,), (2, 2)]), nterms=3)
        for step in range(len(settings) + 1):
            if step == len(settings):
                q = P(rng, shape=p.shape, nterms=2)
                try:
                    target = numpoly.ndpoly.from_attributes(*(lambda u: (u.exponents, [numpy.zeros_like(c) for c in u.coefficients], u.names))(p + q),
                                                            retain_coefficients=True, retain_names=True)
                    numpoly.copyto(target, p)
                    repr(target), str(target)
                    numpoly.copyto(target, q)
                    p, opts = target, {}
                except Exception:  # noqa: BLE001
                    break
            else:
                opts = settings[step]
            with numpoly.global_options(**opts):
                texts = [("repr()", repr(p)), ("numpy.array_repr", numpy.array_repr(p)), ("numpoly.array_repr", numpoly.array_repr(p)),
                         ("str()", str(p)), ("numpy.array_str", numpy.array_str(p)), ("numpoly.array_str", numpoly.array_str(p))]
            ctx.evaluations += len(texts)
            ctx.count("reformat")
            for group in (texts[:3], texts[3:]):
                for lab, txt in group[1:]:
                    if txt != group[0][1]:
                        ctx.fail({"kind": "reformat", "function": "numpy.array_repr" if group is texts[:3] or lab.endswith("repr") else "numpy.array_str",
                                  "spellings": [group[0][0], lab], "options": opts, "step": step},
                                 f"{group[0][0]} and {lab} disagree on an object formatted before (options {opts}): {group[0][1]!r} vs {txt!r}",
                                 ["positive", "reformat"])
                        return

def run(ctx):
    ctx.rule = RULE
    from ..extract import tables
    t = tables()
    registry_u = dict(t["ufuncRegistry"])
    registry_f = dict(t["functionRegistry"])
    run_positive(ctx, set(registry_u) | set(registry_f))
    run_out(ctx)
    run_default_axis(ctx)
    run_reformat(ctx)
    run_flavours(ctx)
    run_negative_ufuncs(ctx, registry_u)
    run_negative_functions(ctx, registry_f)
    ctx.exhaustive = True
    ctx.notes.append("exhaustive refers to the negative half (every public ufunc x 6 methods, every overridable function)")
    ctx.sample({"negative": {"ufunc": "numpy.subtract", "method": "reduce", "expected": "FeatureNotSupported"},
                "positive": {"function": "numpy.sum", "spellings": ["numpy.sum", "numpoly.sum", ".sum()", "numpy.add.reduce"]}})


def search(ctx):
    """a changed registry / routing table: the changed entries are exercised by run() itself"""
    return


def replay(ctx, case):
    n = len(ctx.failures)
    from ..extract import tables
    t = tables()
    if case["kind"] == "ufunc":
        run_negative_ufuncs(ctx, dict(t["ufuncRegistry"]))
        hits = [f for f in ctx.failures[n:] if f["case"].get("ufunc") == case["ufunc"] and f["case"].get("method") == case["method"]]
        return hits[0]["what"] if hits else None
    if case["kind"] == "function":
        run_negative_functions(ctx, dict(t["functionRegistry"]))
        hits = [f for f in ctx.failures[n:] if f["case"].get("function") == case["function"]]
        return hits[0]["what"] if hits else None
    if case["kind"] == "flavour":
        run_flavours(ctx)
        hits = [f for f in ctx.failures[n:] if f["case"].get("function") == case["function"] and f["case"].get("flavour") == case["flavour"]]
        return hits[0]["what"] if hits else None
    if case["kind"] in ("default-axis", "reformat"):
        (run_default_axis if case["kind"] == "default-axis" else run_reformat)(ctx)
        hits = ctx.failures[n:]
        return hits[0]["what"] if hits else None
    if case["kind"] == "out":
        run_out(ctx)
        hits = [f for f in ctx.failures[n:] if f["case"].get("function") == case["function"]]
        return hits[0]["what"] if hits else None
    run_positive(ctx, set(dict(t["ufuncRegistry"])) | set(dict(t["functionRegistry"])))
    hits = [f for f in ctx.failures[n:] if f["case"].get("function") == case["function"]]
    return hits[0]["what"] if hits else None

"""C17 - operations never modify their arguments (byte-level snapshots over the operation catalogue)."""
from __future__ import annotations

import json
import warnings

from ..core import numpy, numpoly, snapshot, err_kind
from .. import gen, catalogue

RULE = ("every entry of the operation catalogue (~95 public callables: constructors, arithmetic, comparisons, calculus, "
        "evaluation, alignment, shape functions, reductions, queries, persistence, division) x C01 inputs, each called "
        "(a) on the generated operands, (b) on operands that were aligned first (names, rows and shapes already common, "
        "so the aligners may hand the very same objects on), (c) on transposed views, and (d) in a way that raises "
        "(non-broadcastable shapes, unknown keyword); a byte-level snapshot (shape, dtype, names, keys, buffer) of every "
        "array-like argument is compared before and after, whether the call returned or raised; the write-site "
        "inventory regenerated from the source must be covered by the reviewed list (Lean obligation). "
        "non-trivial = call with >= 1 polynomial argument that has >= 2 terms")


def aligned_variant(args):
    """replace the polynomial arguments by already aligned versions of themselves (aliasing becomes possible)"""
    idx = [i for i, a in enumerate(args) if isinstance(a, numpoly.ndpoly)]
    if len(idx) < 2:
        return None
    try:
        al = numpoly.align_polynomials(*[args[i] for i in idx])
    except Exception:  # noqa: BLE001
        return None
    out = list(args)
    for i, a in zip(idx, al):
        out[i] = a
    return out


def raising_variant(args):
    """make the shapes clash"""
    idx = [i for i, a in enumerate(args) if isinstance(a, numpoly.ndpoly)]
    if len(idx) < 2:
        return None
    out = list(args)
    q0 = numpoly.variable()
    out[idx[0]] = numpoly.polynomial([q0, 1, 2])
    out[idx[1]] = numpoly.polynomial([[q0, 1], [2, 3]]) * numpoly.polynomial([1, 1])[:, None][:2] if False else numpoly.polynomial([q0, 1])
    return out


def call_and_compare(ctx, e, args, variant, spec):
    before = [snapshot(a) for a in args]
    raised = None
    with warnings.catch_warnings():
        warnings.simplefilter("ignore")
        try:
            e.call(*args)
        except Exception as err:  # noqa: BLE001
            raised = err
    after = [snapshot(a) for a in args]
    ctx.evaluations += 1
    ctx.count(f"variant={variant}")
    if raised is not None:
        ctx.count("calls-that-raised")
    exempt = {0} if e.name == "copyto-dst" else set()
    for i, (b, a) in enumerate(zip(before, after)):
        if i in exempt:
            continue
        if a != b:
            what = "shape/dtype/names/keys/exponents" if a[:6] != b[:6] else "coefficient bytes"
            ctx.fail({"kind": "c17", "entry": e.name, "variant": variant, "spec": spec},
                     f"{e.name} ({variant}{', raised ' + type(raised).__name__ if raised else ''}) modified argument {i}: {what} changed",
                     [f"entry:{e.name}", f"variant:{variant}", "mutation"])
            return


def run(ctx):
    ctx.rule = RULE
    rng = ctx.rng("catalogue")
    reps = 6 if ctx.quick else 80
    ents = catalogue.entries()
    for e in ents:
        for _ in range(reps):
            spec = e.gen(rng)
            try:
                args = catalogue.build(spec)
            except Exception:  # noqa: BLE001
                continue
            if any(isinstance(a, numpoly.ndpoly) and len(a.exponents) >= 2 for a in args):
                ctx.nontrivial_add((e.name, json.dumps(spec, sort_keys=True, default=str)[:200]))
            call_and_compare(ctx, e, args, "as-generated", spec)
            al = aligned_variant(catalogue.build(spec))
            if al is not None:
                call_and_compare(ctx, e, al, "pre-aligned", spec)
                # the same object in both positions
                same = list(al)
                idx = [i for i, a in enumerate(same) if isinstance(a, numpoly.ndpoly)]
                same[idx[1]] = same[idx[0]]
                call_and_compare(ctx, e, same, "same-object-twice", spec)
            rv = raising_variant(catalogue.build(spec))
            if rv is not None:
                call_and_compare(ctx, e, rv, "raising", spec)
        if ctx.out_of_time():
            ctx.notes.append("stopped early: time budget")
            break
    # in-place operators on the left operand are *not* in the claim's exemption list except for explicit targets;
    # out= targets
    q0, q1 = numpoly.variable(2)
    a, b = numpoly.polynomial([q0, q1 + 1]), numpoly.polynomial([2 * q0, q1])
    out = numpoly.ndpoly(exponents=numpoly.align_polynomials(a, b)[0].exponents, shape=(2,), names=("q0", "q1"))
    snap = [snapshot(a), snapshot(b)]
    numpoly.add(a, b, out=out)
    ctx.evaluations += 1
    if [snapshot(a), snapshot(b)] != snap:
        ctx.fail({"kind": "c17", "entry": "add(out=)", "variant": "out"}, "add(a, b, out=...) modified an input", ["entry:add", "out", "mutation"])
    run_out_targets(ctx)
    ctx.extra["catalogue_entries"] = len(ents)
    ctx.sample({"entry": "multiply", "variant": "pre-aligned", "checked": "shape, dtype, names, keys and buffer bytes of every argument before/after"})


def run_out_targets(ctx):
    """explicit output targets next to operands built by the same constructor call, and polynomials built from a caller's
    array: the operand (the array) is a different object from the target, so writing the target must leave it alone
    (seeded changes C17-13 / C17-14: a constructor that adopts the caller's buffer, a memoised constructor result - every single
    call harmless, the damage done by a later call that writes into a result)"""
    rng = ctx.rng("out-targets")
    ctors = [("variable(2)", lambda: numpoly.variable(2)), ("variable(3)", lambda: numpoly.variable(3)), ("symbols('q0:2')", lambda: numpoly.symbols("q0:2")),
             ("symbols('q1')", lambda: numpoly.symbols("q1")), ("monomial(3)", lambda: numpoly.monomial(3)), ("monomial(2, dimensions=2)", lambda: numpoly.monomial(2, dimensions=2)),
             ("variable(2).reshape(2, 1)", lambda: numpoly.variable(2).reshape(2, 1)), ("polynomial([1, 2])", lambda: numpoly.polynomial([1, 2]))]
    for label, ctor in ctors:
        for op, call in (("multiply(a, 5, out=b)", lambda a, b: numpoly.multiply(a, 5, out=b)), ("add(a, a, out=b)", lambda a, b: numpoly.add(a, a, out=b)),
                         ("copyto(b, 0)", lambda a, b: numpoly.copyto(b, 0))):
            ctx.evaluations += 1
            ctx.count("out-targets")
            case = {"kind": "out-target", "constructor": label, "call": op}
            try:
                a, b = ctor(), ctor()
                snap = snapshot(a)
                with warnings.catch_warnings():
                    warnings.simplefilter("ignore")
                    call(a, b)
            except Exception:  # noqa: BLE001 - a target that cannot take the result is not the point here
                ctx.count("out-targets.raises")
                continue
            if snapshot(a) != snap:
                ctx.fail(case, f"a = {label}; b = {label}; {op} changed a (now {a})", ["out-target", "mutation"])
                continue
            fresh = ctor()
            if snapshot(fresh)[1:] != snap[1:]:
                ctx.fail(case, f"after b = {label}; {op} a fresh {label} is {fresh}", ["out-target", "constructor-state"])
    for dt in ("int64", "float64", "int32", "complex128"):
        for shape in ((3,), (2, 2), ()):
            arr = (numpy.arange(int(numpy.prod(shape, dtype=int)) or 1).reshape(shape) + 2).astype(dt)
            routes = [("polynomial(arr)", lambda: numpoly.polynomial(arr)), ("aspolynomial(arr)", lambda: numpoly.aspolynomial(arr)),
                      ("polynomial_from_attributes([[0]], [arr])", lambda: numpoly.polynomial_from_attributes([[0]], [arr])),
                      ("polynomial_from_attributes([[2]], [arr], retain_coefficients=True)", lambda: numpoly.polynomial_from_attributes([[2]], [arr], retain_coefficients=True))]
            for label, build in routes:
                for op, call in (("copyto(c, 0)", lambda c: numpoly.copyto(c, 0)), ("add(arr, 10, out=c)", lambda c: numpoly.add(arr, 10, out=c)),
                                 ("multiply(c, 3, out=c)", lambda c: numpoly.multiply(c, 3, out=c))):
                    ctx.evaluations += 1
                    ctx.count("out-targets")
                    case = {"kind": "out-target", "constructor": label, "call": op, "dtype": dt, "shape": list(shape)}
                    before = arr.copy()
                    try:
                        c = build()
                        with warnings.catch_warnings():
                            warnings.simplefilter("ignore")
                            call(c)
                    except Exception:  # noqa: BLE001
                        ctx.count("out-targets.raises")
                    if not numpy.array_equal(arr, before):
                        ctx.fail(case, f"c = {label} for a caller's {dt} array {before.tolist()}; {op} changed the caller's array to {arr.tolist()}", ["out-target", "mutation", "adopted-buffer"])
                        arr[...] = before


def search(ctx):
    """a new write site: the catalogue run above (aligned / same-object variants) is the search"""
    return


def replay(ctx, case):
    n = len(ctx.failures)
    if case.get("kind") == "out-target":
        run_out_targets(ctx)
        hits = [f for f in ctx.failures[n:] if f["case"].get("constructor") == case["constructor"]]
        return hits[0]["what"] if hits else None
    e = next(x for x in catalogue.entries() if x.name == case["entry"])
    args = catalogue.build(case["spec"])
    variants = {"as-generated": lambda: args, "pre-aligned": lambda: aligned_variant(args), "raising": lambda: raising_variant(args)}
    if case["variant"] == "same-object-twice":
        al = aligned_variant(args)
        idx = [i for i, a in enumerate(al) if isinstance(a, numpoly.ndpoly)]
        al[idx[1]] = al[idx[0]]
        call_and_compare(ctx, e, al, "same-object-twice", case["spec"])
    else:
        v = variants[case["variant"]]()
        if v is not None:
            call_and_compare(ctx, e, v, case["variant"], case["spec"])
    return ctx.failures[n]["what"] if len(ctx.failures) > n else None

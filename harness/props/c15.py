"""C15 - option settings never change the mathematical result."""
from __future__ import annotations

import itertools
import json
import warnings

from ..core import numpy, numpoly, err_kind
from .. import gen, catalogue

RULE = ("the operation catalogue (~95 entries; division only under default retain options) x C01 inputs x option "
        "settings: the 8 single flips of the boolean options plus 24 random settings of the 2**8 (quick) / all 256 "
        "(thorough), each with one of the display_exponent / display_multiply strings; the canonical result "
        "(denotation, shape, dtype; booleans, numbers) under every setting must equal the result under the defaults "
        "and nothing may raise. sort_* options are held fixed for the ordering-based entries (they are allowed to "
        "matter there), display_* results of str/repr are not compared. non-trivial = result differs in "
        "representation (rows or names) between two settings while the denotation agrees, or entry has >= 2 operands")

BOOLS = ["display_graded", "display_reverse", "display_inverse", "force_number_suffix", "retain_names",
         "retain_coefficients", "sort_graded", "sort_reverse"]
STRINGS = [{"display_exponent": "**", "display_multiply": "*"}, {"display_exponent": "^", "display_multiply": "·"}]


def settings(rng, quick):
    defaults = numpoly.get_options(defaults=True)
    base = {k: defaults[k] for k in BOOLS}
    out = []
    for k in BOOLS:
        out.append(dict(base, **{k: not base[k]}))
    if quick:
        for _ in range(24):
            out.append({k: bool(rng.integers(2)) for k in BOOLS})
    else:
        out = [dict(zip(BOOLS, v)) for v in itertools.product([False, True], repeat=8)]
    return [dict(s, **STRINGS[i % 2]) for i, s in enumerate(out)]


def rep(res):
    ps = catalogue.results_of(res)
    return [(tuple(p.names), len(p.exponents)) for p in ps]


def run(ctx):
    ctx.rule = RULE
    rng = ctx.rng("catalogue")
    reps = 2 if ctx.quick else 6
    ents = catalogue.entries()
    sets = settings(rng, ctx.quick)
    defaults = numpoly.get_options(defaults=True)
    ctx.extra["settings"] = len(sets)
    ctx.extra["catalogue_entries"] = len(ents)
    for e in ents:
        for _ in range(reps):
            spec = e.gen(rng)
            with warnings.catch_warnings():
                warnings.simplefilter("ignore")
                try:
                    ref_res = e.call(*catalogue.build(spec))
                    ref = catalogue.canon(ref_res)
                    ref_rep = rep(ref_res)
                except Exception as err:  # noqa: BLE001
                    ctx.count("raises-under-defaults")
                    continue
                for s in sets:
                    if e.group == "order":
                        s = dict(s, sort_graded=defaults["sort_graded"], sort_reverse=defaults["sort_reverse"])
                    if e.division:
                        s = dict(s, retain_names=defaults["retain_names"], retain_coefficients=defaults["retain_coefficients"])
                    flipped = [k for k in BOOLS if s[k] != defaults[k]]
                    case = {"kind": "c15", "entry": e.name, "spec": spec, "options": s}
                    tags = [f"entry:{e.name}"] + [f"flip:{k}" for k in flipped]
                    ctx.evaluations += 1
                    try:
                        with numpoly.global_options(**s):
                            res = e.call(*catalogue.build(spec))
                            got = catalogue.canon(res)
                    except Exception as err:  # noqa: BLE001
                        ctx.fail(case, f"{e.name} raises {type(err).__name__}: {str(err)[:120]} under {flipped} but works under the defaults", tags + [f"raises:{err_kind(err)}"])
                        continue
                    if got != ref:
                        ctx.fail(case, f"{e.name}: result under {flipped} = {json.dumps(got)[:160]} differs from the default result {json.dumps(ref)[:160]}", tags + ["value"])
                    elif rep(res) != ref_rep or len(spec) >= 2:
                        ctx.nontrivial_add((e.name, json.dumps(spec, sort_keys=True, default=str)[:150], tuple(flipped)))
        if ctx.out_of_time():
            ctx.notes.append("stopped early: time budget")
            break
    ctx.sample({"entry": "derivative", "options": sets[5], "compared": "denotation, shape, dtype of the result vs defaults"})


def replay(ctx, case):
    n = len(ctx.failures)
    e = next(x for x in catalogue.entries() if x.name == case["entry"])
    ref = catalogue.canon(e.call(*catalogue.build(case["spec"])))
    try:
        with numpoly.global_options(**case["options"]):
            got = catalogue.canon(e.call(*catalogue.build(case["spec"])))
    except Exception as err:  # noqa: BLE001
        return f"raises {type(err).__name__}: {err}"
    return None if got == ref else f"{got} != {ref}"

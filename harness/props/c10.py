"""C10 - reductions and linear algebra equal finite sums and products of elements."""
from __future__ import annotations

import itertools
from fractions import Fraction

from ..core import (numpy, numpoly, run_driver, poly_to_struct, den_of_struct, den_key, err_kind, wf_problems, Monitor,
                    coef_json, coef_from_json)
from .. import gen

RULE = ("polynomial arrays of 1-3 dimensions x {sum, cumsum, mean, prod, diff, ediff1d} x every axis / axis tuple / "
        "keepdims / n / prepend / append choice valid for the shape (the weights of the linear ones are obtained by "
        "running numpy on unit vectors, the groups of prod by running numpy on index arrays), inner of vectors, outer, "
        "matmul (matrices, stacked, matrix-vector), det (1x1 .. 4x4, stacked); the Lean model applies the weights / "
        "products to every coefficient column; method and numpy.add.reduce / accumulate spellings are compared too. "
        "non-trivial = the reduction combines >= 2 elements and the operand has >= 2 non-zero terms")


def P(rng, shape, **kw):
    kw.setdefault("kind", gen.choice(rng, ["int", "float"], p=[.8, .2]))
    kw.setdefault("nterms", int(rng.integers(1, 4)))
    s = gen.gen_struct(rng, shape=shape, **kw)
    s["as"] = "poly_T" if len(shape) >= 2 and rng.random() < .15 else "poly"
    return s


def strip(s):
    return {k: s[k] for k in ("names", "shape", "terms")}


def weights(f, shape):
    """weight rows of a linear numpy function: run it on the unit vectors"""
    n = int(numpy.prod(shape, dtype=int))
    E = numpy.eye(n).reshape((n,) + tuple(shape))
    out = f(E)
    out = numpy.asarray(out)
    oshape = out.shape[1:]
    flat = out.reshape(n, -1)
    W = []
    for i in range(flat.shape[1]):
        row = []
        for j in range(n):
            w = flat[j, i]
            if w != 0:
                fr = Fraction(float(w)).limit_denominator(4096)
                row.append([j, coef_json(fr)])
        W.append(row)
    return W, list(oshape)


def shift(axis):
    """axis argument for the array with a leading unit-vector axis"""
    if axis is None:
        return None
    if isinstance(axis, tuple):
        return tuple(a + 1 if a >= 0 else a for a in axis)
    return axis + 1 if axis >= 0 else axis


def axes_choices(ndim, tuples=True):
    out = [None] + list(range(-ndim, ndim))
    if tuples and ndim >= 2:
        out += [t for r in (2, 3) if r <= ndim for t in itertools.combinations(range(ndim), r)]
        # the same axis sets spelled with negative entries
        out += [tuple(a - ndim if k % 2 else a for k, a in enumerate(t)) for t in itertools.combinations(range(ndim), 2)]
        out += [tuple(a - ndim for a in t) for t in itertools.combinations(range(ndim), 2)]
    return out


def npint(rng, ax):
    """the same axis as a numpy integer now and then (what numpy.argmax / a loop over numpy.arange hand over, D46)"""
    if isinstance(ax, int) and not isinstance(ax, bool) and rng.random() < .25:
        return numpy.int64(ax)
    return ax


def gen_linear(rng):
    sh = gen.choice(rng, [(3,), (4,), (2, 2), (2, 3), (4, 2), (2, 1, 3), (2, 2, 2), (1, 4)])
    fn = gen.choice(rng, ["sum", "cumsum", "mean", "diff", "ediff1d"])
    a = P(rng, sh)
    nd = len(sh)
    if fn == "sum":
        ax = gen.choice(rng, axes_choices(nd))
        kd = bool(rng.integers(2))
        spell = gen.choice(rng, ["numpoly", "numpy", "method", "add.reduce"])
        if spell == "add.reduce" and ax is None:
            spell = "numpoly"
        axi = npint(rng, ax)
        impl = {"numpoly": lambda p: numpoly.sum(p, axis=axi, keepdims=kd), "numpy": lambda p: numpy.sum(p, axis=axi, keepdims=kd),
                "method": lambda p: p.sum(axis=axi, keepdims=kd), "add.reduce": lambda p: numpy.add.reduce(p, axis=axi, keepdims=kd)}[spell]
        ref = lambda E: numpy.sum(E, axis=(tuple(range(1, nd + 1)) if ax is None else shift(ax)), keepdims=kd)
        if ax is None and kd:
            ref = lambda E: numpy.sum(E, axis=tuple(range(1, nd + 1)), keepdims=True)
        return a, impl, ref, {"fn": fn, "axis": ax, "keepdims": kd, "spelling": spell}
    if fn == "cumsum":
        ax = gen.choice(rng, [None] + list(range(-nd, nd)))
        spell = gen.choice(rng, ["numpoly", "numpy", "method", "add.accumulate"])
        if spell == "add.accumulate" and ax is None:
            spell = "numpoly"
        axi = npint(rng, ax)
        impl = {"numpoly": lambda p: numpoly.cumsum(p, axis=axi), "numpy": lambda p: numpy.cumsum(p, axis=axi),
                "method": lambda p: p.cumsum(axis=axi), "add.accumulate": lambda p: numpy.add.accumulate(p, axis=axi)}[spell]
        ref = (lambda E: numpy.cumsum(E.reshape(E.shape[0], -1), axis=1)) if ax is None else (lambda E: numpy.cumsum(E, axis=shift(ax)))
        return a, impl, ref, {"fn": fn, "axis": ax, "spelling": spell}
    if fn == "mean":
        sh = gen.choice(rng, [(2,), (4,), (2, 2), (4, 2), (2, 1, 4), (2, 2, 2), (1, 4)])
        a = P(rng, sh, kind="float")
        nd = len(sh)
        ax = gen.choice(rng, axes_choices(nd))
        kd = bool(rng.integers(2))
        spell = gen.choice(rng, ["numpoly", "numpy", "method"])
        axi = npint(rng, ax)
        impl = {"numpoly": lambda p: numpoly.mean(p, axis=axi, keepdims=kd), "numpy": lambda p: numpy.mean(p, axis=axi, keepdims=kd),
                "method": lambda p: p.mean(axis=axi, keepdims=kd)}[spell]
        ref = lambda E: numpy.mean(E, axis=(tuple(range(1, nd + 1)) if ax is None else shift(ax)), keepdims=kd)
        return a, impl, ref, {"fn": fn, "axis": ax, "keepdims": kd, "spelling": spell}
    if fn == "diff":
        ax = int(rng.integers(-nd, nd))
        n = int(rng.integers(0, 3))
        if sh[ax] - n < 1:
            n = max(0, sh[ax] - 1)
        kw = {}
        if rng.random() < .3:
            which = gen.choice(rng, ["prepend", "append"])
            val = int(rng.integers(-2, 3))
            if rng.random() < .4:
                # a wider type than the operand's: the result carries the fraction (seeded change C10-7)
                val = (2 * val + 1) / 2
            kw[which] = val
        axi = npint(rng, ax)
        impl = lambda p: numpoly.diff(p, n=n, axis=axi, **kw)
        # prepend/append constants are not linear in the operand: handle by the affine part separately
        ref = lambda E: numpy.diff(E, n=n, axis=shift(ax), **{k: 0 for k in kw})
        return a, impl, ref, {"fn": fn, "axis": ax, "n": n, **kw}
    sh = gen.choice(rng, [(3,), (4,), (2, 2), (2, 3)])
    a = P(rng, sh)
    impl = lambda p: numpoly.ediff1d(p)
    ref = lambda E: numpy.array([numpy.ediff1d(e) for e in E])
    return a, impl, ref, {"fn": "ediff1d"}


def affine_part(info, shape, dtype):
    """constant contribution of diff's prepend/append (the operand-independent part), as a numeric array"""
    kw = {k: info[k] for k in ("prepend", "append") if k in info}
    if not kw:
        return None
    zero = numpy.zeros(shape, dtype=float)
    return numpy.diff(zero, n=info["n"], axis=info["axis"], **kw)


def table_request(info, shape):
    """the reduction as a request for the model's own index arithmetic (Np/Model/ReduceFns.lean); None where the model
    has no table (prepend/append)"""
    nd = len(shape)
    fn = info["fn"]
    if fn == "diff" and ("prepend" in info or "append" in info):
        # scalar prepend / append: numpy broadcasts them to extent 1 along the axis; the model's table lists
        # (operand, position, weight) with operands 0 = prepend, 1 = a, 2 = append
        ax = int(info["axis"]) % nd
        pad = [d if k != ax else 1 for k, d in enumerate(shape)]
        return {"op": "reducetable2", "fn": "diffpad", "shape": list(shape), "n": int(info["n"]), "axis": ax,
                "pre": pad if "prepend" in info else None, "post": pad if "append" in info else None}
    ax = info.get("axis")
    if isinstance(ax, (tuple, list)):
        ax = [int(a) % nd for a in ax]
    elif ax is not None:
        ax = int(ax) % nd
    req = {"op": "reducetable", "fn": fn, "shape": list(shape), "axis": ax, "keepdims": bool(info.get("keepdims", False))}
    if fn == "diff":
        req["n"] = int(info["n"])
    return req


def table_matches(ans, W, oshape):
    """-> None or a description of the difference between the model's table and the one numpy's function acts by"""
    if ans.get("kind") == "table3":
        # only the part acting on the operand itself (operand 1) is linear in it; the prepend / append parts are the affine
        # contribution the harness adds separately
        if list(ans["shape"]) != list(oshape):
            return f"model output shape {ans['shape']} != numpy's {list(oshape)}"
        mine = [{int(j): Fraction(int(w)) for o, j, w in row if int(o) == 1 and int(w) != 0} for row in ans["W"]]
        theirs = [{int(j): coef_from_json(w) for j, w in row} for row in W]
        if mine != theirs:
            k = next((i for i, (x, y) in enumerate(zip(mine, theirs)) if x != y), min(len(mine), len(theirs)))
            return f"weights on the operand differ at output position {k}: model {mine[k] if k < len(mine) else None}, numpy {theirs[k] if k < len(theirs) else None}"
        return None
    if ans.get("kind") != "table":
        return f"the model has no table ({ans}) where numpy accepts the arguments"
    if list(ans["shape"]) != list(oshape):
        return f"model output shape {ans['shape']} != numpy's {list(oshape)}"
    den = Fraction(1, int(ans["den"]))
    mine = [{int(j): Fraction(int(w)) * den for j, w in row if int(w) != 0} for row in ans["W"]]
    theirs = [{int(j): coef_from_json(w) for j, w in row} for row in W]
    if mine != theirs:
        k = next((i for i, (x, y) in enumerate(zip(mine, theirs)) if x != y), min(len(mine), len(theirs)))
        return f"weights differ at output position {k}: model {mine[k] if k < len(mine) else None}, numpy {theirs[k] if k < len(theirs) else None}"
    return None


def run_linear(ctx, rng, n, monitor):
    cases, drv = [], []
    treqs, tmeta = [], []
    for i in range(n):
        a, impl, ref, info = gen_linear(rng)
        try:
            W, oshape = weights(ref, a["shape"])
        except Exception:  # noqa: BLE001
            ctx.count("numpy-rejects-arguments")
            continue
        cases.append((a, impl, info, oshape))
        drv.append({"id": len(drv), "op": "linear", "opts": {"retain_coefficients": False, "retain_names": True},
                    "a": strip(a), "shape": oshape, "W": W})
        req = table_request(info, a["shape"])
        if req is not None:
            treqs.append(dict(req, id=len(treqs)))
            tmeta.append((info, a["shape"], W, oshape))
    # numpy's index arithmetic as modelled (and characterised by theorems) in Lean against numpy itself
    for (info, shape, W, oshape), ans in zip(tmeta, run_driver(treqs)):
        ctx.count("model-table")
        problem = table_matches(ans, W, oshape)
        if problem:
            raise RuntimeError(f"Np.ReduceFns and numpy disagree on {info} for shape {shape}: {problem}")
    answers = run_driver(drv)
    for (a, impl, info, oshape), model in zip(cases, answers):
        case = {"kind": "linear", "a": a, **{k: (list(v) if isinstance(v, tuple) else v) for k, v in info.items()}}
        tags = [f"fn:{info['fn']}"] + ([f"spelling:{info['spelling']}"] if "spelling" in info else [])
        p = gen.materialize(a, a["as"])
        ctx.evaluations += 1
        ctx.count(f"fn={info['fn']}")
        dm = den_of_struct(model)
        aff = affine_part(info, tuple(a["shape"]), a["dtype"]) if info["fn"] == "diff" else None
        if aff is not None:
            from ..oracle import dadd
            const = {(): tuple(Fraction(float(x)).limit_denominator(64) for x in aff.ravel())}
            dm = dadd(dm, {m: c for m, c in const.items() if any(c)})
        if sum(len(r) for r in []) == 0 and len(a["terms"]) >= 2 and int(numpy.prod(a["shape"])) > int(numpy.prod(oshape, dtype=int)):
            ctx.nontrivial_add(("lin", ctx.evaluations))
        try:
            with monitor.watch(f"C10:{info['fn']}", p):
                got = impl(p)
        except Exception as err:  # noqa: BLE001
            ctx.fail(case, f"{info} raised {type(err).__name__}: {str(err)[:150]}", tags + [f"raises:{err_kind(err)}"])
            continue
        s = poly_to_struct(got) if isinstance(got, numpoly.ndpoly) else None
        if s is None:
            ctx.fail(case, f"{info}: result is {type(got).__name__}, not a polynomial array", tags + ["type"])
        elif wf_problems(got):
            ctx.fail(case, f"{info}: result not well-formed {wf_problems(got)}", tags + ["wf"])
        elif s["shape"] != oshape:
            ctx.fail(case, f"{info}: shape {s['shape']}, numpy gives {oshape}", tags + ["shape"])
        elif den_of_struct(s) != dm:
            ctx.fail(case, f"{info}: {den_key(den_of_struct(s))[:200]} != the finite sum {den_key(dm)[:200]}", tags + ["value"])


def prod_groups(shape, axis, keepdims):
    n = int(numpy.prod(shape, dtype=int))
    idx = numpy.arange(1, n + 1).reshape(shape)
    if axis is None:
        rows = idx.reshape(1, -1)
        oshape = tuple([1] * len(shape)) if keepdims else ()
    else:
        axes = (axis,) if isinstance(axis, int) else tuple(axis)
        axes = tuple(a % len(shape) for a in axes)
        rest = [a for a in range(len(shape)) if a not in axes]
        moved = numpy.transpose(idx, rest + list(axes))
        rows = moved.reshape(int(numpy.prod([shape[a] for a in rest], dtype=int)), -1)
        oshape = tuple(1 if a in axes else shape[a] for a in range(len(shape))) if keepdims else tuple(shape[a] for a in rest)
    groups = rows.T.tolist()      # one list over the output positions per factor position
    return groups, list(oshape)


def run_prod(ctx, rng, n, monitor):
    cases, drv = [], []
    for i in range(n):
        sh = gen.choice(rng, [(2,), (3,), (2, 2), (3, 2), (2, 1, 2), (2, 2, 2)])
        a = P(rng, sh, nterms=int(rng.integers(1, 3)), maxexp=1, lim=2, kind="int")
        ax = gen.choice(rng, axes_choices(len(sh)))
        kd = bool(rng.integers(2))
        spell = gen.choice(rng, ["numpoly", "numpy", "method"])
        groups, oshape = prod_groups(sh, ax, kd)
        if isinstance(ax, tuple) and len(set(a % len(sh) for a in ax)) == len(ax):
            # numpy's own semantics for an axis tuple (reduced axes removed unless keepdims), as modelled in
            # Np.ReduceFns2.prodAxesG - the implementation deviates here (known finding D22), the model must not
            import numpy as _np
            mt = run_driver([{"id": 0, "op": "reducetable2", "fn": "prodaxes", "shape": list(sh), "axes": [a % len(sh) for a in ax], "keepdims": kd}])[0]
            idx = _np.arange(int(_np.prod(sh))).reshape(sh)
            want_shape = list(_np.prod(_np.ones(sh), axis=tuple(ax), keepdims=kd).shape)
            moved = _np.moveaxis(idx, [a % len(sh) for a in ax], list(range(len(ax))))
            groups_np = sorted(tuple(sorted(int(v) for v in col)) for col in moved.reshape(int(_np.prod(moved.shape[:len(ax)])), -1).T)
            ctx.count("model-table")
            if mt.get("kind") != "groups" or list(mt["shape"]) != want_shape or sorted(tuple(g) for g in mt["groups"]) != groups_np:
                raise RuntimeError(f"Np.ReduceFns2.prodAxesG and numpy disagree for shape {sh} axes {ax} keepdims {kd}: {str(mt)[:200]} vs {want_shape} {groups_np[:3]}")
        if isinstance(ax, int):
            # the model's own product groups (Np.ReduceFns.prodAxisGroups) against the ones derived with numpy
            mt = run_driver([{"id": 0, "op": "prodtable", "shape": list(sh), "axis": ax % len(sh), "keepdims": kd}])[0]
            ctx.count("model-table")
            if mt.get("kind") != "groups" or mt["groups"] != groups or list(mt["shape"]) != list(oshape):
                raise RuntimeError(f"Np.ReduceFns.prodAxisGroups and numpy disagree for shape {sh} axis {ax} keepdims {kd}: {mt} vs {groups} {oshape}")
        cases.append((a, ax, kd, spell, oshape, npint(rng, ax)))
        drv.append({"id": len(drv), "op": "prodgroups", "opts": {"retain_coefficients": False, "retain_names": True},
                    "a": strip(a), "shape": oshape, "groups": groups})
    answers = run_driver(drv)
    for (a, ax, kd, spell, oshape, axi), model in zip(cases, answers):
        info = {"fn": "prod", "axis": list(ax) if isinstance(ax, tuple) else ax, "keepdims": kd, "spelling": spell,
                "axis_type": type(axi).__name__}
        case = {"kind": "prod", "a": a, **info}
        tags = ["fn:prod", f"spelling:{spell}"] + (["axis-tuple", "axis-tuple-keepdims" if kd else "axis-tuple-nokeepdims"] if isinstance(ax, tuple) else []) + (["keepdims"] if kd else [])
        p = gen.materialize(a, a["as"])
        ctx.evaluations += 1
        ctx.count("fn=prod")
        if len(a["terms"]) >= 2:
            ctx.nontrivial_add(("prod", ctx.evaluations))
        f = {"numpoly": lambda q: numpoly.prod(q, axis=axi, keepdims=kd), "numpy": lambda q: numpy.prod(q, axis=axi, keepdims=kd),
             "method": lambda q: q.prod(axis=axi, keepdims=kd)}[spell]
        try:
            with monitor.watch("C10:prod", p):
                got = f(p)
        except Exception as err:  # noqa: BLE001
            ctx.fail(case, f"prod{info} raised {type(err).__name__}: {str(err)[:150]}", tags + [f"raises:{err_kind(err)}"])
            continue
        s = poly_to_struct(got)
        if s["shape"] != oshape:
            ctx.fail(case, f"prod{info}: shape {s['shape']}, numpy gives {oshape}", tags + ["shape"])
        elif den_of_struct(s) != den_of_struct(model):
            ctx.fail(case, f"prod{info}: {den_key(den_of_struct(s))[:200]} != the finite product {den_key(den_of_struct(model))[:200]}", tags + ["value"])


def matmul_pairs(sa, sb):
    """index pairs of numpy.matmul via index arrays; -> (pairs, out shape) or None if numpy rejects"""
    na, nb = int(numpy.prod(sa, dtype=int)), int(numpy.prod(sb, dtype=int))
    A = numpy.arange(1, na + 1).reshape(sa)
    B = numpy.arange(1, nb + 1).reshape(sb)
    try:
        oshape = numpy.matmul(numpy.zeros(sa), numpy.zeros(sb)).shape
    except ValueError:
        return None
    A2 = A[None, :] if A.ndim == 1 else A
    B2 = B[:, None] if B.ndim == 1 else B
    q = A2.shape[-1]
    pairs = []
    full = numpy.broadcast_shapes(A2.shape[:-2], B2.shape[:-2]) + (A2.shape[-2], B2.shape[-1])
    for t in range(q):
        ia = numpy.broadcast_to(A2[..., :, t][..., :, None], full)
        ib = numpy.broadcast_to(B2[..., t, :][..., None, :], full)
        pairs.append([[int(x) for x in ia.ravel()], [int(x) for x in ib.ravel()]])
    return pairs, list(oshape)


def run_bilinear(ctx, rng, n, monitor):
    cases, drv = [], []
    for i in range(n):
        fn = gen.choice(rng, ["inner", "outer", "matmul", "matmul"])
        kw = dict(nterms=int(rng.integers(1, 3)), maxexp=2, lim=2, kind="int")
        if fn == "inner":
            k = int(rng.integers(1, 4))
            a, b = P(rng, (k,), **kw), P(rng, (k,), names=gen.gen_names(rng, 1, 2), **kw)
            pairs = [[[t + 1], [t + 1]] for t in range(k)]
            oshape = []
            impl = gen.choice(rng, [lambda x, y: numpoly.inner(x, y), lambda x, y: numpy.inner(x, y)])
        elif fn == "outer":
            sa, sb = gen.choice(rng, [(2,), (3,), (2, 2), ()]), gen.choice(rng, [(2,), (3,), (1,)])
            a, b = P(rng, sa, **kw), P(rng, sb, names=gen.gen_names(rng, 1, 2), **kw)
            na, nb = int(numpy.prod(sa, dtype=int)), int(numpy.prod(sb, dtype=int))
            pairs = [[[i // nb + 1 for i in range(na * nb)], [i % nb + 1 for i in range(na * nb)]]]
            oshape = [na, nb]
            impl = gen.choice(rng, [lambda x, y: numpoly.outer(x, y), lambda x, y: numpy.outer(x, y)])
        else:
            sa, sb = gen.choice(rng, [((2, 3), (3, 2)), ((1, 2), (2, 1)), ((2, 2), (2, 2)), ((2, 2, 3), (3, 2)), ((2, 1, 2), (2, 2, 1)),
                                      ((3,), (3,)), ((2, 3), (3,)), ((3,), (3, 2)), ((1, 1), (1, 1)),
                                      # the second operand carries more stack dimensions than the first, broadcast stacks
                                      ((3, 3), (2, 3, 3)), ((2, 3), (2, 3, 2)), ((2, 2, 2), (3, 2, 2, 2)), ((1, 2, 3), (2, 3, 1)),
                                      ((2, 1, 2, 2), (3, 2, 2))])
            a, b = P(rng, sa, **kw), P(rng, sb, names=gen.gen_names(rng, 1, 2), **kw)
            mp = matmul_pairs(sa, sb)
            if mp is None:
                continue
            pairs, oshape = mp
            impl = gen.choice(rng, [lambda x, y: numpoly.matmul(x, y), lambda x, y: numpy.matmul(x, y), lambda x, y: x @ y])
        if rng.random() < .3:
            # operands of different coefficient dtypes (narrower one first or second): the sum of products is formed in
            # the promoted type
            da, db = gen.choice(rng, [("int64", "float64"), ("float64", "int64"), ("bool", "int64"), ("int8", "float32"), ("uint8", "int16")])
            for x, dt in ((a, da), (b, db)):
                x["dtype"] = dt
                for t in x["terms"]:
                    t[1] = [(int(v != 0) if dt == "bool" else abs(v) % 5 if dt.startswith("uint") else v) if isinstance(v, int) else v for v in t[1]]
            if da.startswith("float"):
                for t in a["terms"]:
                    t[1] = [[2 * v + 1, 2] if isinstance(v, int) else v for v in t[1]]
            if db.startswith("float"):
                for t in b["terms"]:
                    t[1] = [[2 * v + 1, 2] if isinstance(v, int) else v for v in t[1]]
        # the model's own index arithmetic (Np/Model/BilinearFns.lean) against the pairs derived with numpy
        treq = {"inner": {"fn": "inner", "n": a["shape"][0] if a["shape"] else 1},
                "outer": {"fn": "outer", "sa": list(a["shape"]), "sb": list(b["shape"])},
                "matmul": {"fn": "matmul", "sa": list(a["shape"]), "sb": list(b["shape"])}}[fn]
        mt = run_driver([dict(treq, id=0, op="bilineartable")])[0]
        ctx.count("model-table")
        norm = lambda ps: sorted((tuple(p[0]), tuple(p[1])) for p in ps)
        if mt.get("kind") != "pairs" or list(mt["shape"]) != list(oshape) or norm(mt["pairs"]) != norm(pairs):
            raise RuntimeError(f"Np.BilinearFns and numpy disagree for {fn} {a['shape']} x {b['shape']}: model {str(mt)[:200]} vs shape {oshape} pairs {str(pairs)[:200]}")
        cases.append((fn, a, b, impl, oshape))
        drv.append({"id": len(drv), "op": "bilinear", "opts": {"retain_coefficients": False, "retain_names": True},
                    "a": strip(a), "b": strip(b), "shape": oshape, "pairs": pairs})
    answers = run_driver(drv)
    for (fn, a, b, impl, oshape), model in zip(cases, answers):
        case = {"kind": "bilinear", "fn": fn, "a": a, "b": b}
        vec = fn == "matmul" and (len(a["shape"]) == 1 or len(b["shape"]) == 1)
        tags = [f"fn:{fn}"] + (["vector-operand"] if vec else [])
        x, y = gen.materialize(a, a["as"]), gen.materialize(b, b["as"])
        ctx.evaluations += 1
        ctx.count(f"fn={fn}")
        ctx.nontrivial_add((fn, ctx.evaluations))
        try:
            with monitor.watch(f"C10:{fn}", x, y):
                got = impl(x, y)
        except Exception as err:  # noqa: BLE001
            ctx.fail(case, f"{fn} {a['shape']}x{b['shape']} raised {type(err).__name__}: {str(err)[:150]}", tags + [f"raises:{err_kind(err)}"])
            continue
        s = poly_to_struct(got)
        if s["shape"] != oshape:
            ctx.fail(case, f"{fn} {a['shape']}x{b['shape']}: shape {s['shape']}, numpy gives {oshape}", tags + ["shape"])
        elif den_of_struct(s) != den_of_struct(model):
            ctx.fail(case, f"{fn}: {den_key(den_of_struct(s))[:200]} != the finite sum of products {den_key(den_of_struct(model))[:200]}", tags + ["value"])


def run_det(ctx, rng, n, monitor):
    cases, drv = [], []
    for i in range(n):
        k = int(gen.choice(rng, [1, 2, 3, 4], p=[.2, .3, .3, .2]))
        batch = gen.choice(rng, [(), (), (2,), (1,)])
        a = P(rng, tuple(batch) + (k, k), nterms=int(rng.integers(1, 3)), maxexp=1, lim=2, kind="int", names=gen.gen_names(rng, 1, 2))
        a["as"] = "poly"
        cases.append((a, k, batch))
        drv.append({"id": len(drv), "op": "det", "opts": {"retain_coefficients": False, "retain_names": True},
                    "a": strip(a), "n": k, "batch": list(batch)})
    answers = run_driver(drv)
    for (a, k, batch), model in zip(cases, answers):
        case = {"kind": "det", "a": a, "n": k}
        tags = ["fn:det", f"n:{k}"]
        x = gen.materialize(a)
        ctx.evaluations += 1
        ctx.count(f"fn=det{k}")
        ctx.nontrivial_add(("det", ctx.evaluations))
        spell = gen.choice(rng, ["numpoly", "numpy"])
        try:
            with monitor.watch("C10:det", x):
                got = numpoly.det(x) if spell == "numpoly" else numpy.linalg.det(x)
        except Exception as err:  # noqa: BLE001
            ctx.fail(case, f"det of {k}x{k} raised {type(err).__name__}: {str(err)[:150]}", tags + [f"raises:{err_kind(err)}"])
            continue
        s = poly_to_struct(got)
        if s["shape"] != list(batch):
            ctx.fail(case, f"det of {a['shape']}: shape {s['shape']}, expected {list(batch)}", tags + ["shape"])
        elif den_of_struct(s) != den_of_struct(model):
            ctx.fail(case, f"det {k}x{k}: {den_key(den_of_struct(s))[:200]} != the determinant {den_key(den_of_struct(model))[:200]}", tags + ["value"])


def run(ctx):
    ctx.rule = RULE
    monitor = Monitor()
    q = ctx.quick
    run_linear(ctx, ctx.rng("linear"), 600 if q else 8000, monitor)
    run_prod(ctx, ctx.rng("prod"), 150 if q else 2500, monitor)
    run_bilinear(ctx, ctx.rng("bilinear"), 200 if q else 3000, monitor)
    run_det(ctx, ctx.rng("det"), 80 if q else 1200, monitor)
    ctx.extra["argument_monitor"] = {"calls": monitor.calls, "mutations": monitor.events[:5]}
    ctx.sample({"fn": "sum", "shape": [2, 3], "axis": 1, "weights_from_numpy_on_unit_vectors": weights(lambda E: numpy.sum(E, axis=2), (2, 3))[0]})


def replay(ctx, case):
    n = len(ctx.failures)
    run(ctx)
    hits = [f for f in ctx.failures[n:] if f["case"].get("kind") == case.get("kind") and f["case"].get("fn") == case.get("fn")]
    return hits[0]["what"] if hits else None

"""C16 - str/repr (and sympy export) denote exactly the polynomial."""
from __future__ import annotations

import itertools
import re
from fractions import Fraction

from ..core import (numpy, numpoly, run_driver, poly_to_struct, den_of_struct, den_key, err_kind, to_exact, coef_json,
                    add_exact, is_zero)
from .. import gen, oracle

RULE = ("polynomial arrays over q0..q12 with coefficients from {+-1, negative leading terms, small ints, dyadic floats, "
        "complex, bool}, shapes 0-d .. 2-d, x display_graded/display_reverse/display_inverse (all 8) x "
        "display_exponent in {**, ^} x display_multiply in {*, .}: str(p) and repr(p) are read back by an independent "
        "recursive-descent reader (own tokenizer; signed sums of products; numpy scalar literals incl. (a+bj), True) "
        "and every element must equal the polynomial; the text must equal the Lean printer's rendering (tokens proved "
        "to denote the polynomial) and the printed term order must follow the selected monomial order; to_sympy -> "
        "polynomial for 0-d int/float polynomials under default options. non-trivial = >= 2 printed terms")

MULTS = ["*", "·"]
EXPS = ["**", "^"]


# --------------------------------------------------------------------------------------------
# independent reader

class ParseError(Exception):
    pass


def tokenize(text, mult, exp):
    toks = []
    i = 0
    while i < len(text):
        ch = text[i]
        if text.startswith(exp, i):
            toks.append(("EXP", exp))
            i += len(exp)
        elif text.startswith(mult, i):
            toks.append(("MUL", mult))
            i += len(mult)
        elif ch in "+-":
            toks.append(("SIGN", ch))
            i += 1
        elif ch == "(":
            j = text.index(")", i)
            toks.append(("NUM", complex(text[i + 1:j].replace(" ", ""))))
            i = j + 1
        elif text.startswith("True", i):
            toks.append(("NUM", 1))
            i += 4
        elif text.startswith("False", i):
            toks.append(("NUM", 0))
            i += 5
        elif ch == "q":
            m = re.match(r"q(\d+)", text[i:])
            if not m:
                raise ParseError(f"bad name at {i} in {text!r}")
            toks.append(("NAME", int(m.group(1))))
            i += m.end()
        elif ch.isdigit() or ch == ".":
            m = re.match(r"(\d+\.?\d*(?:[eE][+-]?\d+)?j?|\.\d+(?:[eE][+-]?\d+)?j?)", text[i:])
            lit = m.group(1)
            if lit.endswith("j"):
                toks.append(("NUM", complex(lit)))
            elif re.fullmatch(r"\d+", lit):
                toks.append(("NUM", int(lit)))
            else:
                toks.append(("NUM", float(lit)))
            i += m.end()
        else:
            raise ParseError(f"unexpected character {ch!r} at {i} in {text!r}")
    return toks


def exact(v):
    return to_exact(v)


def read_poly(text, mult, exp):
    """text -> {monomial: exact coefficient}; grammar: [sign] term (sign term)* ; term: factor (MUL factor)*"""
    toks = tokenize(text, mult, exp)
    pos = 0
    out = {}

    def peek():
        return toks[pos] if pos < len(toks) else (None, None)
    first = True
    while pos < len(toks):
        sign = 1
        kind, val = peek()
        if kind == "SIGN":
            sign = -1 if val == "-" else 1
            pos += 1
        elif not first:
            raise ParseError(f"terms not separated by a sign in {text!r}")
        first = False
        coef = Fraction(1)
        mono = {}
        nfactors = 0
        while True:
            kind, val = peek()
            if kind == "NUM":
                coef = oracle.mul_exact(coef, exact(val))
                pos += 1
            elif kind == "NAME":
                pos += 1
                k = 1
                if peek()[0] == "EXP":
                    pos += 1
                    if peek()[0] != "NUM" or not isinstance(peek()[1], int):
                        raise ParseError(f"exponent expected in {text!r}")
                    k = peek()[1]
                    pos += 1
                mono[val] = mono.get(val, 0) + k
            else:
                raise ParseError(f"factor expected at token {pos} in {text!r}")
            nfactors += 1
            if peek()[0] == "MUL":
                pos += 1
                continue
            if peek()[0] == "NAME" and mult == "":
                continue
            break
        m = tuple(sorted((n, x) for n, x in mono.items() if x))
        c = oracle.mul_exact(Fraction(sign), coef)
        out[m] = add_exact(out[m], c) if m in out else c
    return {m: c for m, c in out.items() if not is_zero(c)}


def split_array(text):
    """'[[a b]\n [c d]]' or '[[a, b], [c, d]]' -> nested lists of element strings"""
    text = text.strip()
    if not text.startswith("["):
        return text
    depth, cur, items = 0, "", []
    inner = text[1:-1]
    i = 0
    while i < len(inner):
        ch = inner[i]
        if ch == "[":
            depth += 1
            cur += ch
        elif ch == "]":
            depth -= 1
            cur += ch
        elif ch == "(":
            j = inner.index(")", i)
            cur += inner[i:j + 1]
            i = j
        elif depth == 0 and (ch in ", \n"):
            if cur.strip():
                items.append(cur.strip())
            cur = ""
        else:
            cur += ch
        i += 1
    if cur.strip():
        items.append(cur.strip())
    return [split_array(x) for x in items]


def flatten(x):
    if isinstance(x, list):
        return [y for z in x for y in flatten(z)]
    return [x]


def nested_shape(x):
    if not isinstance(x, list):
        return []
    return [len(x)] + (nested_shape(x[0]) if x else [])


# --------------------------------------------------------------------------------------------

def gen_poly(rng):
    if rng.random() < .12:
        # many terms of equal total degree in one element (18-40 terms over 2-3 names): the printed order is the selected
        # monomial order also where the sort has long runs of ties (seeded change C16-14: the graded pass lost its
        # stability, visible from 16 terms on)
        names = sorted(int(x) for x in rng.choice(range(13), size=int(rng.integers(2, 4)), replace=False))
        base = gen.gen_struct(rng, names=names, shape=gen.choice(rng, [(), (), (2,)]), kind="int",
                              nterms=int(rng.integers(18, 41)), maxexp=4, lim=3, zero_prob=0.05)
        base["as"] = "poly"
        return base
    kind = gen.choice(rng, ["int", "float", "complex", "bool", "pm1"], p=[.35, .2, .2, .1, .15])
    names = sorted(int(x) for x in rng.choice(range(13), size=int(rng.integers(1, 4)), replace=False))
    shape = gen.choice(rng, [(), (), (2,), (3,), (2, 2), (1, 2), (2, 3), (3, 2), (2, 1, 2)])
    base = gen.gen_struct(rng, names=names, shape=shape, kind={"bool": "int", "pm1": "int"}.get(kind, kind),
                          nterms=int(rng.integers(0, 6)), maxexp=3, lim=3)
    if kind == "pm1":
        for t in base["terms"]:
            t[1] = [int(rng.choice([-1, 1, 0, 1, -1])) for _ in t[1]]
    if kind == "bool":
        for t in base["terms"]:
            t[1] = [int(rng.integers(0, 2)) for _ in t[1]]
        base["dtype"] = "bool"
    if kind == "int" and rng.random() < .2:
        # integer types at their limits: the largest unsigned value is not "-1", the smallest signed value is not "0"
        # (seeded changes C16-11 / C16-12: +-1 compared after a cast to the coefficient dtype; abs() of the minimum)
        dt = gen.choice(rng, ["uint8", "uint16", "uint64", "int8", "int16", "int64"])
        info = numpy.iinfo(dt)
        base["dtype"] = dt
        for t in base["terms"]:
            t[1] = [int(gen.choice(rng, [info.max, info.min, info.max - 1, 1, 0, 2])) if rng.random() < .7 else
                    (abs(int(v)) if info.min == 0 else int(v)) for v in t[1]]
    # non-contiguous views (p.T) print like any other array of their shape
    base["as"] = "poly_T" if len(shape) >= 2 and rng.random() < .4 else "poly"
    return base


def elem_den(d, i):
    return {m: col[i] for m, col in d.items() if not is_zero(col[i])}


def check(ctx, s, opts, drv, pending):
    p = gen.materialize(s, s.get("as", "poly"))
    size = int(numpy.prod(s["shape"], dtype=int))
    case = {"kind": "c16", "a": s, "opts": opts}
    tags = [f"dtype:{s['dtype']}"] + [f"{k}={v}" for k, v in opts.items()]
    mult, exp = opts["display_multiply"], opts["display_exponent"]
    ctx.evaluations += 1
    d = den_of_struct(s)
    try:
        with numpoly.global_options(**opts):
            st, rp = str(p), repr(p)
    except Exception as err:  # noqa: BLE001
        ctx.fail(case, f"str/repr raised {type(err).__name__}: {str(err)[:150]}", tags + ["raises"])
        return
    if any(len(elem_den(d, i)) >= 2 for i in range(size)):
        ctx.nontrivial_add((ctx.evaluations,))
    if s["dtype"] in ("float64", "float32", "float16", "int64", "int32", "int16", "int8", "uint8", "uint16", "uint64"):
        # the contract of the proved reader (text_reads_tokens_codec: Codec.Lawful) on the coefficient texts `_to_string` really
        # writes: an optional '-' followed by a non-empty text without '+', '-', '*' that does not start with 'q', which reads
        # back as the coefficient. Integers always meet it (int_codec_lawful); floats do in positional notation.
        for coef in p.coefficients:
            for v in numpy.asarray(coef).ravel():
                if not v:
                    continue
                text = str(v)
                body = text[1:] if text.startswith("-") else text
                ok = bool(body) and body[0] != "q" and not any(ch in "+-*" for ch in body)
                kind = "float" if s["dtype"].startswith("float") else "int"
                if ok:
                    ctx.count(f"codec-contract.{kind}.holds")
                    back = float(text) if kind == "float" else int(text)
                    if back != v:
                        ctx.fail(case, f"coefficient text {text!r} does not read back as the coefficient {v!r}", tags + ["codec"])
                        return
                elif kind == "int":
                    ctx.fail(case, f"integer coefficient text {text!r} is not an optional minus followed by digits", tags + ["codec"])
                    return
                else:
                    ctx.count("codec-contract.float.exponent-notation (outside the proved reader)")
    if not (rp.startswith("polynomial(") and rp.endswith(")")):
        ctx.fail(case, f"repr is not polynomial(...): {rp[:80]!r}", tags + ["repr"])
        return
    for which, text in (("str", st), ("repr", rp[len("polynomial("):-1])):
        try:
            nested = split_array(text)
            if nested_shape(nested) != list(s["shape"]):
                ctx.fail(case, f"{which}: bracket structure {nested_shape(nested)} != shape {s['shape']}: {text[:100]!r}", tags + [which, "shape"])
                return
            elems = flatten(nested)
            for i, et in enumerate(elems):
                got = read_poly(et, mult, exp)
                if got != elem_den(d, i):
                    ctx.fail(case, f"{which}: element {i} prints as {et!r}, which reads back as {got}, not {elem_den(d, i)}", tags + [which, "value"])
                    return
        except (ParseError, ValueError) as err:
            ctx.fail(case, f"{which}: text cannot be read back as arithmetic: {err}", tags + [which, "unreadable"])
            return
    # Lean printer: coefficient texts are numpy's own str of each stored coefficient
    coeffs = [numpy.asarray(c).ravel() for c in p.coefficients]
    texts = [[str(c[i]) for c in coeffs] for i in range(size)]
    drv.append({"id": len(drv), "op": "print", "opts": opts, "a": {k: poly_to_struct(p)[k] for k in ("names", "shape", "terms")},
                "texts": texts, "zero": str(numpy.zeros(1, dtype=p.dtype).item())})
    pending.append((case, tags, flatten(split_array(st)), "print"))
    if s["dtype"].startswith(("int", "uint")) and mult == "*" and exp == "**":
        # text level: the renderer/reader pair proved in Np/Proofs/PrintText.lean against the real str()
        drv.append({"id": len(drv), "op": "printint", "opts": opts, "a": {k: poly_to_struct(p)[k] for k in ("names", "shape", "terms")}})
        pending.append((case, tags, flatten(split_array(st)), "printint"))
        ctx.count("text-level")


def compare_answer(ctx, case, tags, elems, mode, ans):
    if ans.get("status") != "ok":
        ctx.fail(case, f"model driver refused the case: {ans}", tags + ["driver"])
        return
    for i, (et, el) in enumerate(zip(elems, ans["elements"])):
        if el["text"] != et:
            ctx.fail(case, f"element {i}: str gives {et!r}, the {'proved text renderer' if mode == 'printint' else 'printer model'} renders {el['text']!r}", tags + ["text", mode])
            return
        if mode == "print":
            check_order(ctx, case, tags, el["tokens"], case["opts"])
        else:
            # the proved reader must recover exactly the non-zero terms of this element (0 -> single zero constant)
            d = elem_den(den_of_struct(case["a"]), i)
            names = sorted(case["a"]["names"])
            got = {}
            for coef, expo in (el["read"] or []):
                m = tuple((n, e) for n, e in zip(case["a"]["names"], expo) if e)
                if coef:
                    got[tuple(sorted(m))] = got.get(tuple(sorted(m)), 0) + coef
            want = {tuple(sorted(m)): v for m, v in d.items()}
            if el["read"] is None or {k: to_exact(v) for k, v in got.items()} != want:
                ctx.fail(case, f"element {i}: text {et!r} is read by the proved reader as {el['read']}, the polynomial is {d}", tags + ["reader"])
                return


def check_order(ctx, case, tags, tokens, opts):
    """printed order = selected monomial order (ascending, reversed when display_inverse)"""
    g, r, inv = opts["display_graded"], opts["display_reverse"], opts["display_inverse"]

    def key(e):
        k = tuple(e) if r else tuple(reversed(e))
        return (sum(e), k) if g else k
    keys = [key(t[1]) for t in tokens]
    want = sorted(keys, reverse=inv)
    if keys != want:
        ctx.fail(case, f"printed term order {[t[1] for t in tokens]} does not follow the selected monomial order", tags + ["order"])


def run_sympy(ctx, rng, n):
    try:
        import sympy  # noqa: F401
    except ImportError:
        ctx.notes.append("sympy not importable: to_sympy round trip skipped")
        return
    for i in range(n):
        kind = gen.choice(rng, ["int", "float"])
        s = gen.gen_struct(rng, shape=(), kind=kind, names=gen.gen_names(rng, 1, 3), maxexp=3)
        if kind == "float" and i % 2:
            # full-precision doubles (15-17 significant digits, several magnitudes): the export must not round them
            for t in s["terms"]:
                t[1] = [coef_json(Fraction(float(rng.random() * 10.0 ** int(rng.integers(-6, 7)) * (-1) ** int(rng.integers(0, 2)))))
                        for _ in t[1]]
        if kind == "int" and i % 3 == 1:
            # 64-bit integers that no double represents: the export and the way back are exact (seeded change C16-8)
            for t in s["terms"]:
                t[1] = [int(rng.integers(2 ** 53, 2 ** 62)) * 2 + 1 if v else v for v in t[1]]
            if not any(v for t in s["terms"] for v in t[1]) and s["terms"]:
                s["terms"][0][1] = [2 ** 53 + 1]
        p = gen.materialize(s)
        ctx.evaluations += 1
        # the export is the same under every display setting (D61: it evaluated str(poly), display signs included)
        opts = [{}, {}, {"display_exponent": "^"}, {"display_multiply": " "}, {"display_multiply": "", "display_inverse": False},
                {"display_multiply": "·", "display_exponent": "^", "display_graded": False}][i % 6]
        try:
            with numpoly.global_options(**opts):
                back = numpoly.polynomial(numpoly.to_sympy(p))
        except Exception as err:  # noqa: BLE001
            ctx.fail({"kind": "sympy", "a": s, "opts": opts}, f"to_sympy round trip under {opts} raised {type(err).__name__}: {str(err)[:120]}", ["sympy", "raises"])
            continue
        if den_of_struct(poly_to_struct(back)) != den_of_struct(s):
            ctx.fail({"kind": "sympy", "a": s}, f"to_sympy -> polynomial gives {back}, was {p}", ["sympy", "value"])
        ctx.count("sympy")


def run(ctx):
    ctx.rule = RULE
    rng = ctx.rng("cases")
    n = 300 if ctx.quick else 2500
    settings = [dict(display_graded=g, display_reverse=r, display_inverse=i) for g, r, i in itertools.product([True, False], repeat=3)]
    drv, pending = [], []
    corpus = [{"names": [0, 1], "shape": [], "dtype": "complex128", "kind": "complex", "as": "poly",
               "terms": [[[0, 1], [1]], [[1, 0], [[-1, 1, 2, 1]]]]}]
    for k in range(n):
        s = corpus[k] if k < len(corpus) else gen_poly(rng)
        per = settings if not ctx.quick else [settings[int(x)] for x in rng.choice(8, size=3, replace=False)] + [settings[1]]
        for base in per:
            opts = dict(base, display_multiply=gen.choice(rng, MULTS, p=[.7, .3]), display_exponent=gen.choice(rng, EXPS, p=[.7, .3]))
            check(ctx, s, opts, drv, pending)
        if ctx.out_of_time():
            break
    answers = run_driver(drv)
    for (case, tags, elems, mode), ans in zip(pending, answers):
        compare_answer(ctx, case, tags, elems, mode, ans)
    run_sympy(ctx, ctx.rng("sympy"), 40 if ctx.quick else 400)
    ctx.sample({"polynomial": "2*q1-q0-3", "opts": settings[1], "tokens": [[2, [0, 1], True], [-1, [1, 0], False], [-3, [0, 0], True]]})


def replay(ctx, case):
    n = len(ctx.failures)
    if case["kind"] == "sympy":
        p = gen.materialize(case["a"])
        back = numpoly.polynomial(numpoly.to_sympy(p))
        return None if den_of_struct(poly_to_struct(back)) == den_of_struct(case["a"]) else f"{back} != {p}"
    drv, pending = [], []
    check(ctx, case["a"], case["opts"], drv, pending)
    for (c, tags, elems, mode), ans in zip(pending, run_driver(drv)):
        compare_answer(ctx, c, tags, elems, mode, ans)
    return ctx.failures[n]["what"] if len(ctx.failures) > n else None

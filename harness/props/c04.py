"""C04 - alignment changes representation only: tuples of polynomial-likes vs the Lean aligners, representation level."""
from __future__ import annotations

from ..core import (numpy, numpoly, run_driver, poly_to_struct, den_of_struct, den_key, err_kind, Monitor, wf_problems,
                    snapshot)
from .. import gen

RULE = ("tuples of 1-4 polynomial-likes (polynomials, numbers, arrays, lists) with broadcastable shapes, arbitrary "
        "name sets (equal/overlapping/disjoint/q10-vs-q2), term sets and int/float coefficients x {align_polynomials, "
        "align_shape, align_indeterminants, align_exponents}; compared at representation level (names, exponent rows "
        "in order, storage keys, shape, values) with the Lean aligners, plus idempotence and argument snapshots; "
        "non-trivial = operands differ in names or rows or shape")

WHICH = ["polynomials", "shape", "indeterminants", "exponents"]


def gen_wide(rng, i):
    """many indeterminates and large exponents: exponent rows that differ only in their leading entries must stay
    distinct rows of the aligned operands (no row code may overflow)"""
    d, top = gen.choice(rng, [(9, 255), (10, 255), (5, 65535), (3, 2047), (2, 65536), (4, 65535)])
    names = list(range(d))
    ops = []
    for _ in range(int(rng.integers(2, 4))):
        rows = set()
        tail = [0] * (d - 1) + [top]
        rows.add(tuple(tail))
        for _ in range(int(rng.integers(1, 4))):
            r = list(tail)
            r[int(rng.integers(0, max(d - 1, 1)))] = int(gen.choice(rng, [1, 3, 2 ** int(rng.integers(1, 11))]))
            if rng.random() < .3:
                r[-1] = int(rng.integers(0, 3))
            rows.add(tuple(r))
        ops.append({"names": names, "shape": [], "dtype": "int64", "kind": "int", "as": "poly",
                    "terms": [[list(r), [int(rng.integers(1, 6))]] for r in sorted(rows)]})
    return {"id": i, "kind": "c04", "which": gen.choice(rng, ["exponents", "polynomials"]), "ops": ops,
            "opts": {"retain_coefficients": False, "retain_names": True}, "wide": True}


def gen_rotated(rng, i):
    """an operand whose terms are stored in a rotated (neither sorted nor reversed) order, aligned with operands that add
    no new term - a number, a sub-polynomial, itself (seeded change C04-10: a reorder-only fast path that applied the
    permutation instead of its inverse)"""
    names = gen.gen_names(rng, 1, 2)
    shape = gen.choice(rng, [(), (), (2,)])
    s = gen.gen_struct(rng, names=names, shape=shape, kind="int", nterms=int(rng.integers(3, 6)), maxexp=3)
    rows = sorted(s["terms"], key=lambda t: t[0])
    size = 1
    for d in shape:
        size *= d
    for k, t in enumerate(rows):
        t[1] = [k + 2 + 10 * j for j in range(size)]       # every coefficient distinct and non-zero
    if not any(not any(t[0]) for t in rows):
        rows.insert(0, [[0] * len(names), [1 + 10 * j for j in range(size)]])
    shift = int(rng.integers(1, len(rows)))
    s["terms"] = rows[shift:] + rows[:shift]
    s["as"] = "poly"
    how = gen.choice(rng, ["number", "subpoly", "self"])
    if how == "number":
        other = gen.gen_const_struct(rng, shape=(), kind="int")
        other["as"] = "scalar"
    elif how == "subpoly":
        other = dict(s, terms=[list(map(lambda x: x, t)) for t in rows[:2]])
    else:
        other = dict(s)
    return {"id": i, "kind": "c04", "which": gen.choice(rng, ["exponents", "polynomials"]), "ops": [s, other],
            "opts": {"retain_coefficients": False, "retain_names": True}, "rotated": how}


def gen_case(rng, i):
    if rng.random() < .04:
        return gen_wide(rng, i)
    if rng.random() < .06:
        return gen_rotated(rng, i)
    k = int(rng.integers(1, 5))
    common = gen.gen_shape(rng)
    which = gen.choice(rng, WHICH, p=[.4, .2, .2, .2])
    kind = gen.choice(rng, ["int", "float"], p=[.7, .3])
    pool_rel = gen.choice(rng, ["equal", "mixed"])
    base = gen.gen_names(rng)
    ops = []
    for _ in range(k):
        shape = common if which == "exponents" or rng.random() < .4 else gen.sub_shape(rng, common)
        names = list(base) if pool_rel == "equal" else gen.gen_names(rng)
        r = rng.random()
        if r < .75:
            s = gen.gen_struct(rng, names=names, shape=shape, kind=kind, nterms=int(rng.integers(0, 5)))
            s["as"] = "poly"
        else:
            s = gen.gen_const_struct(rng, shape=shape, kind=kind)
            # read-only arrays are ordinary operands too (seeded change C04-16: the constructor stopped asking for a writable
            # copy while the compiled writer still needs one)
            s["as"] = gen.choice(rng, ["ndarray", "ndarray_ro", "list"]) if shape else gen.choice(rng, ["scalar", "ndarray_ro"])
        ops.append(s)
    flavour = rng.random()
    if flavour < .12:
        # operands of different coefficient types side by side, one integer coefficient beyond 2**53: alignment must not
        # move values into a common type (seeded change C04-13: a closing align_dtype step rounded 2**53+1 to a double)
        from fractions import Fraction
        for j, o in enumerate(ops):
            knd = ["int", "float"][(j + int(rng.integers(2))) % 2]
            if knd != o["kind"]:
                fresh = (gen.gen_struct(rng, names=o["names"], shape=o["shape"], kind=knd, nterms=len(o["terms"]))
                         if o.get("as") == "poly" else gen.gen_const_struct(rng, shape=o["shape"], kind=knd))
                fresh["as"] = o["as"]
                ops[j] = fresh
        ints = [o for o in ops if o["kind"] == "int" and o.get("as") in ("poly", "ndarray")]
        if ints:
            o = ints[int(rng.integers(len(ints)))]
            t = o["terms"][int(rng.integers(len(o["terms"])))]
            t[1][int(rng.integers(len(t[1])))] = gen.coef_json(Fraction(int(gen.choice(rng, [1, -1])) * (2 ** 53 + 1)))
    elif flavour < .12 + .10:
        # operands whose names are declared in a rotated / reversed order (seeded change C02-13)
        for o in ops:
            if o.get("as") == "poly" and len(o["names"]) >= 2 and rng.random() < .7:
                o["as"] = gen.choice(rng, ["poly_rot", "poly_perm"])
    elif flavour < .34:
        # coefficient types without a compiled constructor kernel (float32, int8/16/32) on operands of any rank (seeded
        # change C04-14: the fallback path stored >= 2-d coefficients transposed)
        for o in ops:
            o["dtype"] = {"int": gen.choice(rng, ["int8", "int16", "int32"]), "float": "float32"}[o["kind"]]
    opts = {"retain_coefficients": bool(rng.integers(2)), "retain_names": bool(rng.integers(2))} if rng.random() < .4 else \
        {"retain_coefficients": False, "retain_names": True}
    return {"id": i, "kind": "c04", "which": which, "ops": ops, "opts": opts}


def driver_case(c):
    return {"id": c["id"], "op": "align", "which": c["which"], "opts": c.get("opts", {"retain_coefficients": False, "retain_names": True}),
            "polys": [{k: o[k] for k in ("names", "shape", "terms")} for o in c["ops"]]}


def rep(s):
    return (s["names"], s["shape"], [t[0] for t in s["terms"]], [t[1] for t in s["terms"]])


def check(ctx, c, model, monitor=None):
    tags = [f"which:{c['which']}"]
    objs = [gen.materialize(o, o.get("as", "poly")) for o in c["ops"]]
    f = getattr(numpoly, "align_" + c["which"])
    ctx.evaluations += 1
    ctx.count(f"which={c['which']}")
    ctx.count(f"operands={len(objs)}")
    if len({(tuple(o["names"]), tuple(o["shape"]), tuple(map(tuple, (t[0] for t in o["terms"])))) for o in c["ops"]}) > 1:
        ctx.nontrivial_add((c["id"],))
    before = [snapshot(o) for o in objs]
    opts = c.get("opts", {})
    if opts and not opts.get("retain_names", True) or opts.get("retain_coefficients"):
        tags = tags + ["non-default-options"]
    try:
        with numpoly.global_options(**opts):
            res = f(*objs)
    except Exception as err:  # noqa: BLE001
        if model.get("status") == "err":
            return
        ctx.fail(c, f"align_{c['which']} raised {type(err).__name__}: {str(err)[:150]}", tags + [f"raises:{err_kind(err)}"])
        return
    if [snapshot(o) for o in objs] != before:
        ctx.fail(c, f"align_{c['which']} modified an argument", tags + ["mutation"])
        return
    if model.get("status") == "err":
        ctx.fail(c, "shapes do not broadcast but alignment returned", tags)
        return
    if len(res) != len(objs):
        ctx.fail(c, f"returned {len(res)} results for {len(objs)} arguments", tags)
        return
    structs = [poly_to_struct(r) for r in res]
    for k, (s, o, m, r) in enumerate(zip(structs, c["ops"], model["value"], res)):
        if wf_problems(r):
            ctx.fail(c, f"result {k} not well-formed: {wf_problems(r)}", tags + ["wf"])
            return
        # property level: same polynomial (broadcast), in argument order
        if den_of_struct(s) != den_of_struct(m) or s["shape"] != m["shape"]:
            ctx.fail(c, f"result {k}: {den_key(den_of_struct(s))[:150]} shape {s['shape']} is not the input broadcast: {den_key(den_of_struct(m))[:150]} shape {m['shape']}", tags + ["value"])
            return
    # property level: what the aligned results must share
    if c["which"] in ("polynomials", "shape") and len({tuple(s["shape"]) for s in structs}) != 1:
        ctx.fail(c, f"shapes differ after alignment: {[s['shape'] for s in structs]}", tags + ["shape"])
    if c["which"] in ("polynomials", "indeterminants", "exponents") and len({tuple(s["names"]) for s in structs}) != 1:
        ctx.fail(c, f"names differ after alignment: {[s['names'] for s in structs]}", tags + ["names"])
    if c["which"] in ("polynomials", "indeterminants", "exponents"):
        union = sorted({n for o in c["ops"] for n in o["names"]})
        if opts.get("retain_names", True):
            if structs[0]["names"] != union:
                ctx.fail(c, f"names {structs[0]['names']} are not the union in index order {union}", tags + ["names"])
        else:
            # retain_names=False: unused names may be dropped while shapes are aligned; what must remain is every name
            # in use, nothing foreign, in index order
            used = sorted({n for s in structs for m in den_of_struct(s) for n, _ in m})
            got = structs[0]["names"]
            if got != sorted(got) or not set(used) <= set(got) or not set(got) <= set(union):
                ctx.fail(c, f"names {got} under retain_names=False: must contain the names in use {used}, lie within {union} and be in index order", tags + ["names"])
    if c["which"] in ("polynomials", "exponents"):
        if len({tuple(map(tuple, (t[0] for t in s["terms"]))) for s in structs}) != 1 or len({tuple(map(str, r.keys)) for r in res}) != 1:
            ctx.fail(c, "exponent rows / storage keys differ after alignment", tags + ["rows"])
    # representation level against the Lean aligners
    for k, (s, m) in enumerate(zip(structs, model["value"])):
        if rep(s) != rep(m):
            ctx.drift.append({"id": c["id"], "operand": k, "impl": [s["names"], len(s["terms"])], "model": [m["names"], len(m["terms"])]})
            break
    # idempotence
    try:
        with numpoly.global_options(**opts):
            again = f(*res)
        for r1, r2 in zip(res, again):
            if rep(poly_to_struct(r1)) != rep(poly_to_struct(r2)):
                ctx.fail(c, "aligning already aligned arguments changed them", tags + ["idempotence"])
                break
    except Exception as err:  # noqa: BLE001
        ctx.fail(c, f"re-aligning raised {type(err).__name__}: {err}", tags + ["idempotence", "raises"])


def run_default_names(ctx):
    """a number or array operand carries the default name *in force at the call*: histories that align nameless operands
    under one `default_varname`, then under another, then under the first again (seeded change C04-15: the default name
    tuple memoised per number of indeterminates, whatever the option said)"""
    steps = [("q", None), ("x", r"x\d+"), ("q", None), ("y", r"[xy]\d+"), ("x", r"[xy]\d+")]
    for var, flt in steps:
        opts = {"default_varname": var} if flt is None else {"default_varname": var, "varname_filter": flt}
        with numpoly.global_options(**opts):
            v0, v2 = numpoly.symbols(f"{var}0"), numpoly.symbols(f"{var}2")
            probes = [("align_indeterminants(4*v0+1, 5)", lambda: numpoly.align_indeterminants(4 * v0 + 1, 5), (f"{var}0",)),
                      ("align_polynomials(3*v2**2+1, 5, [1.5, 2.5])", lambda: numpoly.align_polynomials(3 * v2 ** 2 + 1, 5, [1.5, 2.5]), (f"{var}0", f"{var}2")),
                      ("align_exponents(v2, 7)", lambda: numpoly.align_exponents(v2, 7), (f"{var}0", f"{var}2")),
                      ("align_indeterminants(5, [1, 2])", lambda: numpoly.align_indeterminants(5, [1, 2]), (f"{var}0",))]
            for label, f, want in probes:
                ctx.evaluations += 1
                ctx.count("default-names")
                case = {"kind": "default-names", "default_varname": var, "call": label}
                try:
                    res = f()
                except Exception as err:  # noqa: BLE001
                    ctx.fail(case, f"{label} under default_varname={var!r} raised {type(err).__name__}: {str(err)[:120]}", ["default-names", "raises"])
                    continue
                got = {tuple(r.names) for r in res}
                if got != {want}:
                    ctx.fail(case, f"{label} under default_varname={var!r}: names {sorted(got)}, the union of the operands' names is {want}", ["default-names", "names"])


def run(ctx):
    ctx.rule = RULE
    run_default_names(ctx)
    rng = ctx.rng("cases")
    n = 1500 if ctx.quick else 25000
    cases = [gen_case(rng, i) for i in range(n)]
    answers = run_driver([driver_case(c) for c in cases])
    for c, ans in zip(cases, answers):
        if ans.get("status") == "bad":
            raise RuntimeError(f"driver: {ans}")
        check(ctx, c, ans)
        if ctx.out_of_time():
            ctx.notes.append("stopped early: time budget")
            break
    ctx.sample({"which": cases[0]["which"], "operands": cases[0]["ops"], "model": answers[0].get("value")})


def replay(ctx, case):
    n = len(ctx.failures)
    if case.get("kind") == "default-names":
        run_default_names(ctx)
        return ctx.failures[n]["what"] if len(ctx.failures) > n else None
    check(ctx, case, run_driver([driver_case(case)])[0])
    return ctx.failures[n]["what"] if len(ctx.failures) > n else None

"""C19 - leading terms, decomposition, set_dimensions, sort proxy vs the Lean model."""
from __future__ import annotations

from fractions import Fraction

from ..core import (numpy, numpoly, run_driver, poly_to_struct, any_to_struct, den_of_struct, den_key, err_kind,
                    Monitor, coef_json, coef_from_json, to_exact, wf_problems)
from .. import gen, oracle

RULE = ("polynomial arrays from the C01 space (incl. zero elements, equal leading terms, negative leading "
        "coefficients, explicit zero columns) x {lead_exponent, lead_coefficient, sortable_proxy} x graded/reverse, "
        "{argmax, argmin, amax, amin} without axis x sort options, isconstant, tonumpy, todict, decompose, "
        "set_dimensions to 1..5; non-trivial = >= 2 non-zero terms in some element; distinct by case text")

OPS = ["lead_exponent", "lead_coefficient", "proxy", "argmax", "argmin", "amax", "amin", "isconstant", "tonumpy",
       "todict", "decompose", "set_dimensions"]


def gen_case(rng, i):
    op = gen.choice(rng, OPS)
    kind = gen.choice(rng, ["int", "float"], p=[.7, .3]) if op not in ("isconstant", "tonumpy", "todict", "decompose", "set_dimensions") \
        else gen.choice(rng, ["int", "float", "complex"], p=[.6, .25, .15])
    shape = gen.gen_shape(rng)
    if op in ("proxy", "argmax", "argmin", "amax", "amin") and rng.random() < .7:
        shape = gen.choice(rng, [(3,), (4,), (2, 3), (5,), (2, 2)])
    lim = 2 if op in ("proxy", "argmax", "argmin", "amax", "amin") else 3
    a = gen.gen_struct(rng, shape=shape, kind=kind, lim=lim, maxexp=2 if rng.random() < .5 else 3)
    if op in ("lead_exponent", "lead_coefficient", "proxy", "argmax", "amax") and rng.random() < .3:
        # many terms sharing total degrees (10-24 rows over 2-3 indeterminates), each element using only a few of them:
        # the graded order of equal-degree monomials matters for every element
        names = gen.gen_names(rng, 2, 3)
        import itertools
        rows = [list(e) for e in itertools.product(range(5), repeat=len(names)) if 2 <= sum(e) <= 4]
        rows = [rows[int(k)] for k in rng.permutation(len(rows))[: int(rng.integers(10, 25))]]
        size = int(numpy.prod(shape, dtype=int))
        a = {"names": names, "shape": list(shape), "dtype": gen.KIND_DTYPE["int"], "kind": "int",
             "terms": [[e, [int(rng.integers(-2, 3)) if rng.random() < .35 else 0 for _ in range(size)]] for e in rows]}
    if op in ("isconstant", "tonumpy") and rng.random() < .5:
        a = gen.gen_const_struct(rng, shape=shape, kind=kind)
        if rng.random() < .5:   # constant with retained zero non-constant terms
            a = dict(a, names=[0, 1], terms=[[[0, 0], a["terms"][0][1]], [[1, 2], [0] * len(a["terms"][0][1])]])
    if a["kind"] == "int" and op in ("decompose", "todict", "tonumpy", "set_dimensions", "lead_coefficient", "amax", "amin") and rng.random() < .25:
        # 64-bit coefficients no double can hold: these functions move coefficients, they never compute with them (seeded
        # change C19-12: decompose multiplied by a float64 identity mask)
        for t in a["terms"]:
            t[1] = [v if v == 0 or rng.random() < .5 else (1 if v > 0 else -1) * (2 ** int(rng.integers(53, 62)) + 1) for v in t[1]]
    c = {"id": i, "kind": "c19", "op": op, "a": a, "graded": bool(rng.integers(2)), "reverse": bool(rng.integers(2))}
    if op == "set_dimensions":
        c["dims"] = int(rng.integers(1, 6))
    if op in ("isconstant", "tonumpy"):
        # "is constant" is a statement about the polynomial, whatever the retain options in force at the call
        # (seeded change C19-10: isconstant through clean_attributes, which reads the global option)
        c["opts"] = {"retain_coefficients": bool(rng.integers(2)), "retain_names": bool(rng.integers(2))}
    return c


def expected_names_add(names, dims):
    """the rule of set_dimensions: append the lowest unused q<idx>, then sort the names as strings"""
    strs = [f"q{n}" for n in names]
    idx = 0
    while len(strs) < dims:
        if f"q{idx}" not in strs:
            strs.append(f"q{idx}")
        idx += 1
    return [int(s[1:]) for s in sorted(strs)]


def driver_case(c):
    a = {k: c["a"][k] for k in ("names", "shape", "terms")}
    op = c["op"]
    opts = {"retain_coefficients": False, "retain_names": True}
    if op in ("lead_exponent", "lead_coefficient"):
        return {"id": c["id"], "op": "lead", "a": a, "graded": c["graded"], "reverse": c["reverse"]}
    if op in ("proxy", "argmax", "argmin", "amax", "amin"):
        return {"id": c["id"], "op": "proxy", "a": a, "graded": c["graded"], "reverse": c["reverse"]}
    if op == "isconstant":
        return {"id": c["id"], "op": "isconstant", "a": a}
    if op == "tonumpy":
        return {"id": c["id"], "op": "tonumpy", "a": a}
    if op == "decompose":
        return {"id": c["id"], "op": "decompose", "a": a, "opts": opts}
    if op == "set_dimensions":
        d = {"id": c["id"], "op": "setdims", "a": a, "opts": opts}
        if c["dims"] > len(a["names"]):
            d["names"] = expected_names_add(a["names"], c["dims"])
        else:
            d["dims"] = c["dims"]
        return d
    return {"id": c["id"], "op": "isconstant", "a": a}     # todict: checked against the record itself


def key_of(k):
    c = coef_from_json(k[1])
    return (k[0], c)


def check(ctx, c, model, monitor=None):
    op = c["op"]
    tags = [f"op:{op}"]
    p = gen.materialize(c["a"])
    g, r = c["graded"], c["reverse"]
    size = int(numpy.prod(c["a"]["shape"], dtype=int))
    ctx.evaluations += 1
    ctx.count(f"op={op}")
    den_el = den_of_struct(c["a"])
    if any(sum(1 for m, col in den_el.items() if col[i] != 0) >= 2 for i in range(size)):
        ctx.nontrivial_add((op, c["id"]))

    def call(f, *args, **kw):
        if monitor is None:
            return f(*args, **kw)
        with monitor.watch(f"C19:{op}", *args):
            return f(*args, **kw)
    try:
        if op == "lead_exponent":
            got = numpy.asarray(call(numpoly.lead_exponent, p, graded=g, reverse=r))
            want = numpy.array(model["exponents"], dtype=int).reshape(tuple(c["a"]["shape"]) + (len(c["a"]["names"]),))
            if got.shape != want.shape or not numpy.array_equal(got, want):
                ctx.fail(c, f"lead_exponent {got.tolist()} but the largest non-zero term has {want.tolist()}", tags)
        elif op == "lead_coefficient":
            got = numpy.asarray(call(numpoly.lead_coefficient, p, graded=g, reverse=r))
            gotx = [to_exact(v) for v in got.ravel()]
            want = [coef_from_json(v) for v in model["coefficients"]]
            if list(got.shape) != c["a"]["shape"] or gotx != want:
                ctx.fail(c, f"lead_coefficient {gotx} but the largest non-zero term has {want}", tags)
        elif op == "proxy":
            got = numpy.asarray(call(numpoly.sortable_proxy, p, graded=g, reverse=r))
            keys = [key_of(k) for k in model["keys"]]
            flat = got.ravel().tolist()
            if list(got.shape) != c["a"]["shape"] or sorted(flat) != list(range(size)):
                ctx.fail(c, f"sortable_proxy {flat} is not a permutation of 0..{size - 1}", tags + ["perm"])
            else:
                for i in range(size):
                    for j in range(size):
                        if keys[i] < keys[j] and not flat[i] < flat[j]:
                            ctx.fail(c, f"element {i} has a smaller (lead exponent, lead coefficient) than element {j} but proxy {flat[i]} >= {flat[j]}", tags + ["monotone"])
                            return
                if flat != model["value"]:
                    ctx.drift.append({"id": c["id"], "proxy_ties": [flat, model["value"]]})
        elif op in ("argmax", "argmin", "amax", "amin"):
            keys = [key_of(k) for k in model["keys"]]
            ext = max(keys) if op in ("argmax", "amax") else min(keys)
            with numpoly.global_options(sort_graded=g, sort_reverse=r):
                got = call(getattr(numpoly, op), p)
            if op.startswith("arg"):
                idx = int(got)
                if not (0 <= idx < size) or keys[idx] != ext:
                    ctx.fail(c, f"{op} returned {idx}, whose (lead exponent rank, lead coefficient) {keys[idx] if 0 <= idx < size else None} is not the extreme {ext}", tags)
            else:
                s = any_to_struct(got)
                dg = den_of_struct(s)
                cands = []
                for i in range(size):
                    if keys[i] == ext:
                        cands.append({m: (col[i],) for m, col in den_el.items() if col[i] != 0})
                if s["shape"] != [] or dg not in cands:
                    ctx.fail(c, f"{op} returned {den_key(dg)} which is not an extreme element {[den_key(x) for x in cands][:3]}", tags)
        elif op == "isconstant":
            with numpoly.global_options(**c.get("opts", {})):
                got = call(numpoly.isconstant, p)
            if bool(got) != model["value"]:
                ctx.fail(c, f"isconstant {got}, exact {model['value']} (options at the call: {c.get('opts')})", tags)
        elif op == "tonumpy":
            try:
                with numpoly.global_options(**c.get("opts", {})):
                    got = call(numpoly.tonumpy, p)
            except numpoly.baseclass.FeatureNotSupported:
                got = None
            if model["status"] == "err":
                if got is not None:
                    ctx.fail(c, "tonumpy returned an array for a non-constant polynomial", tags)
            elif got is None:
                ctx.fail(c, "tonumpy raised FeatureNotSupported for a constant polynomial", tags)
            else:
                gotx = [to_exact(v) for v in numpy.asarray(got).ravel()]
                want = [coef_from_json(v) for v in model["value"]]
                if list(numpy.asarray(got).shape) != c["a"]["shape"] or gotx != want:
                    ctx.fail(c, f"tonumpy {gotx} != {want}", tags)
        elif op == "todict":
            d = call(lambda q: q.todict(), p)
            s = {"names": c["a"]["names"], "shape": c["a"]["shape"],
                 "terms": [[list(int(x) for x in e), [coef_json(to_exact(v)) for v in numpy.asarray(col).ravel()]] for e, col in d.items()]}
            if den_of_struct(s) != den_el or len(d) != len(p.exponents):
                ctx.fail(c, "todict() does not hold the polynomial's terms", tags)
            else:
                r2 = numpoly.polynomial(d, names=p.names) if False else None
        elif op == "decompose":
            got = call(numpoly.decompose, p)
            s = poly_to_struct(got)
            if wf_problems(got):
                ctx.fail(c, f"decompose result not well-formed: {wf_problems(got)}", tags + ["wf"])
            elif s["shape"] != model["shape"] or den_of_struct(s) != den_of_struct(model):
                ctx.fail(c, f"decompose: {den_key(den_of_struct(s))[:200]} shape {s['shape']} vs model {den_key(den_of_struct(model))[:200]} shape {model['shape']}", tags)
            else:
                n = s["shape"][0]
                dd = den_of_struct(s)
                for k in range(n):
                    nz = [m for m, col in dd.items() if any(x != 0 for x in col[k * size:(k + 1) * size])]
                    if len(nz) > 1:
                        ctx.fail(c, f"slice {k} of decompose holds {len(nz)} monomials", tags)
                        break
        elif op == "set_dimensions":
            got = call(numpoly.set_dimensions, p, c["dims"])
            s = poly_to_struct(got)
            if wf_problems(got):
                ctx.fail(c, f"set_dimensions result not well-formed: {wf_problems(got)}", tags + ["wf"])
            elif s["shape"] != model["shape"] or den_of_struct(s) != den_of_struct(model) or s["dtype"] != c["a"]["dtype"]:
                ctx.fail(c, f"set_dimensions({c['dims']}): {den_key(den_of_struct(s))[:200]} shape {s['shape']} dtype {s['dtype']}; exact {den_key(den_of_struct(model))[:200]} shape {model['shape']}", tags)
            elif len(s["names"]) != c["dims"] or len(set(s["names"])) != c["dims"] or \
                    (c["dims"] >= len(c["a"]["names"]) and not set(c["a"]["names"]) <= set(s["names"])) or \
                    (c["dims"] < len(c["a"]["names"]) and s["names"] != c["a"]["names"][:c["dims"]]):
                ctx.fail(c, f"set_dimensions({c['dims']}) names {s['names']} from {c['a']['names']}", tags + ["names"])
            elif s["names"] != model["names"]:
                ctx.drift.append({"id": c["id"], "names": [s["names"], model["names"]]})
    except Exception as err:  # noqa: BLE001
        ctx.fail(c, f"{op} raised {type(err).__name__}: {str(err)[:200]}", tags + [f"raises:{err_kind(err)}"])


def run(ctx):
    ctx.rule = RULE
    rng = ctx.rng("cases")
    monitor = Monitor()
    n = 1500 if ctx.quick else 20000
    cases = [gen_case(rng, i) for i in range(n)]
    # witnesses of earlier findings first
    cases.insert(0, {"id": "corpus-D11", "kind": "c19", "op": "set_dimensions", "dims": 1, "graded": False, "reverse": False,
                     "a": {"names": [0, 1], "shape": [2], "dtype": "int64", "kind": "int",
                           "terms": [[[0, 1], [3, 1]], [[1, 1], [0, 1]]]}})
    answers = run_driver([driver_case(c) for c in cases])
    for c, ans in zip(cases, answers):
        if ans.get("status") == "bad":
            raise RuntimeError(f"driver: {ans}")
        check(ctx, c, ans, monitor)
        if ctx.out_of_time():
            ctx.notes.append("stopped early: time budget")
            break
    ctx.sample({"case": {k: cases[1][k] for k in ("op", "a", "graded", "reverse")}, "model": {k: v for k, v in answers[1].items() if k != "id"}})
    ctx.extra["argument_monitor"] = {"calls": monitor.calls, "mutations": monitor.events[:5]}


def replay(ctx, case):
    n = len(ctx.failures)
    ans = run_driver([driver_case(case)])[0]
    check(ctx, case, ans)
    return ctx.failures[n]["what"] if len(ctx.failures) > n else None

"""C06 - derivative, gradient, Hessian are the formal partial derivatives (all option settings)."""
from __future__ import annotations

import itertools

from ..core import (numpy, numpoly, run_driver, poly_to_struct, den_of_struct, den_key, err_kind, Monitor, wf_problems)
from .. import gen, oracle

RULE = ("C01 polynomial arrays (incl. constants, terms free of the variable, retained zero columns and unused names) x "
        "{derivative by name / position / indeterminate polynomial / two successive variables, gradient, hessian} x "
        "retain_coefficients, retain_names, sort_graded, sort_reverse settings (4 per case quick, all 16 thorough); "
        "non-trivial = the exact derivative is non-zero and the input has >= 2 terms")

FLAGS = ["retain_coefficients", "retain_names", "sort_graded", "sort_reverse"]


def gen_case(rng, i):
    op = gen.choice(rng, ["derivative", "gradient", "hessian"], p=[.6, .25, .15])
    a = gen.gen_struct(rng, kind=gen.choice(rng, ["int", "float", "complex"], p=[.6, .25, .15]),
                       nterms=int(rng.integers(0, 5 if op == "hessian" else 7)),
                       shape=gen.gen_shape(rng, maxdim=2 if op == "hessian" else 3))
    if op == "hessian":
        a["names"] = a["names"][:3]
        a["terms"] = dedup([[t[0][:3], t[1]] for t in a["terms"]])
    if a["kind"] == "int" and rng.random() < .2:
        # narrow coefficient dtype with coefficients near its limit: exponent * coefficient must not wrap in that dtype
        dt, top = gen.choice(rng, [("int8", 127), ("uint8", 255), ("int16", 32767), ("uint16", 65535)])
        a["dtype"] = dt
        for t in a["terms"]:
            t[1] = [(0 if x == 0 else (top - int(rng.integers(0, 40))) // (1 if rng.random() < .5 else 2)) if isinstance(x, int) else x for x in t[1]]
    if len(a["names"]) >= 2 and rng.random() < .15:
        # indeterminates declared in another order than by index (as numpoly.symbols("q3 q1") gives): gradient and
        # Hessian follow the polynomial's own order, in rows and in columns
        perm = [int(x) for x in rng.permutation(len(a["names"]))]
        if perm == sorted(perm):
            perm = perm[::-1]
        a["names"] = [a["names"][k] for k in perm]
        a["terms"] = [[[t[0][k] for k in perm], t[1]] for t in a["terms"]]
        a["unsorted_names"] = True
    if op == "derivative" and rng.random() < .06:
        # one indeterminate to a high power, differentiated many times in a single call: the falling factorial leaves 32 bits
        e = int(gen.choice(rng, [20, 25, 33, 70000]))
        nv = 2 if e == 70000 else int(rng.integers(7, 11))
        a = {"names": [0, 1], "shape": [], "dtype": "int64", "kind": "int", "terms": [[[e, 0], [1]], [[2, 1], [3]], [[0, 0], [5]]]}
        return {"id": i, "kind": "c06", "op": op, "a": a, "vars": [0] * nv, "how": [gen.choice(rng, ["name", "position"]) for _ in range(nv)]}
    if rng.random() < .25 and len(a["terms"]) >= 2:
        # terms stored in descending / shuffled order, as polynomial({...}) with the high term first or a sympy import
        # store them (seeded change C06-11: the decremented rows merged through a dict, later rows overwriting earlier ones)
        a["terms"] = sorted(a["terms"], key=lambda t: t[0], reverse=True) if rng.random() < .6 else \
            [a["terms"][int(k)] for k in rng.permutation(len(a["terms"]))]
    c = {"id": i, "kind": "c06", "op": op, "a": a}
    if op == "derivative":
        k = len(a["names"])
        nv = 1 if rng.random() < .7 else 2
        c["vars"] = [int(rng.integers(k)) for _ in range(nv)]
        c["how"] = [gen.choice(rng, ["name", "position", "poly", "vector-element", "numpy-int", "numpy-uint8", "poly-detour"])
                    for _ in range(nv)]
        if a.get("unsorted_names") and rng.random() < .7:
            # successive positions on unsorted names: each one means the input's own name order
            c["vars"] = [int(rng.integers(k)) for _ in range(2)]
            c["how"] = ["position", gen.choice(rng, ["position", "position", "name"])]
    return c


def dedup(terms):
    seen, out = set(), []
    for e, col in terms:
        if tuple(e) not in seen:
            seen.add(tuple(e))
            out.append([e, col])
    return out


def driver_case(c, opts):
    a = {k: c["a"][k] for k in ("names", "shape", "terms")}
    d = {"id": c["id"], "a": a, "opts": opts}
    if c["op"] == "derivative":
        # the model reads every position against the names of the (re-aligned, hence index-sorted) intermediate result;
        # the library reads all of them against the input's names (as repaired, D37): translate from the second on
        names = c["a"]["names"]
        vs = [c["vars"][0]] + [sorted(names).index(names[v]) for v in c["vars"][1:]]
        return dict(d, op="deriv", vars=vs)
    return dict(d, op=c["op"])


# (history) the Lean model of `hessian` ordered its rows by sorted names - the behaviour before the repair D35 - until
# Np/Model/Grad.lean followed the repaired library; the switch stays so that a replay on an old model says what it skips
MODEL_HESSIAN_SORTED_ROWS = False


def designate(p, j, how):
    if how == "name":
        return p.names[j]
    if how == "position":
        return int(j)
    if how == "numpy-int":
        return numpy.int64(j)       # what numpy.argmax / a loop over numpy.arange hand over (D45)
    if how == "numpy-uint8":
        return numpy.uint8(j)
    if how == "poly-detour":
        # the indeterminate reached through arithmetic, made under the options in force: under retain_coefficients=True it
        # carries a zero constant term and zero terms of the other indeterminate (D44)
        x = numpoly.symbols(p.names[j])
        other = numpoly.symbols(p.names[(j + 1) % len(p.names)])
        return ((x + 1) - 1) if len(p.names) == 1 else ((x + other + 2) - other - 2)
    if how == "vector-element":
        # an element of a vector of indeterminates, made under the options in force: under retain_coefficients=True it
        # carries the other indeterminates as all-zero terms
        idx = sorted(int(n[1:]) for n in p.names)
        vec = numpoly.variable(idx[-1] + 1)
        return numpoly.aspolynomial(vec)[int(p.names[j][1:])] if idx[-1] else numpoly.aspolynomial(vec)
    return numpoly.symbols(p.names[j])


def exact(c):
    """independent exact answer (dict arithmetic), used next to the Lean model"""
    d = den_of_struct(c["a"])
    if c["op"] == "derivative":
        for j in c["vars"]:
            d = oracle.dderiv(d, c["a"]["names"][j])
        return d, list(c["a"]["shape"])
    names = c["a"]["names"]
    size = int(numpy.prod(c["a"]["shape"], dtype=int))

    def grad(dd, sz):
        parts = [oracle.dderiv(dd, n) for n in names]
        out = {}
        for k, part in enumerate(parts):
            for m, col in part.items():
                cur = list(out.get(m, [0] * (sz * len(names))))
                cur[k * sz:(k + 1) * sz] = col
                out[m] = tuple(cur)
        return out
    g = grad(d, size)
    if c["op"] == "gradient":
        return g, [len(names)] + list(c["a"]["shape"])
    return grad(g, size * len(names)), [len(names), len(names)] + list(c["a"]["shape"])


def check(ctx, c, opts, model, monitor=None):
    tags = [f"op:{c['op']}"] + [f"{k}={v}" for k, v in opts.items() if v != numpoly.get_options(defaults=True)[k]]
    p = gen.materialize(c["a"])
    ctx.evaluations += 1
    ctx.count(f"op={c['op']}")
    want, wshape = exact(c)
    if model.get("status") == "ok":
        if (den_of_struct(model) != want or model["shape"] != wshape) and MODEL_HESSIAN_SORTED_ROWS and c["op"] == "hessian" and c["a"].get("unsorted_names"):
            ctx.count("model-skipped:hessian-unsorted-names")
        elif den_of_struct(model) != want or model["shape"] != wshape:
            raise RuntimeError(f"Lean model and exact dictionary arithmetic disagree on case {c['id']} {opts}")
    if want and len(c["a"]["terms"]) >= 2:
        ctx.nontrivial_add((c["id"],))
    try:
        with numpoly.global_options(**opts):
            if c["op"] == "derivative":
                args = [designate(p, j, h) for j, h in zip(c["vars"], c["how"])]
                if monitor:
                    with monitor.watch("C06:derivative", p):
                        got = numpoly.derivative(p, *args)
                else:
                    got = numpoly.derivative(p, *args)
            else:
                got = getattr(numpoly, c["op"])(p)
    except Exception as err:  # noqa: BLE001
        ctx.fail(dict(c, opts=opts), f"{c['op']} raised {type(err).__name__}: {str(err)[:160]} under {opts}", tags + [f"raises:{err_kind(err)}"])
        return
    s = poly_to_struct(got)
    wf = wf_problems(got)
    if wf:
        ctx.fail(dict(c, opts=opts), f"{c['op']} result not well-formed: {wf}", tags + ["wf"])
    elif s["shape"] != wshape:
        ctx.fail(dict(c, opts=opts), f"{c['op']} has shape {s['shape']}, expected {wshape} under {opts}", tags + ["shape"])
    elif den_of_struct(s) != want:
        ctx.fail(dict(c, opts=opts), f"{c['op']} = {den_key(den_of_struct(s))[:200]} but the formal derivative is {den_key(want)[:200]} under {opts}", tags + ["value"])
    elif model.get("status") == "ok" and (s["names"], [t[0] for t in s["terms"]]) != (model["names"], [t[0] for t in model["terms"]]):
        ctx.drift.append({"id": c["id"], "opts": opts, "impl": [s["names"], len(s["terms"])], "model": [model["names"], len(model["terms"])]})


def settings(rng, quick):
    allv = [dict(zip(FLAGS, v)) for v in itertools.product([False, True], repeat=4)]
    if not quick:
        return allv
    base = [dict(numpoly.get_options(defaults=True))]
    base = [{k: base[0][k] for k in FLAGS}]
    idx = rng.choice(len(allv), size=3, replace=False)
    return base + [allv[int(i)] for i in idx]


def run(ctx):
    ctx.rule = RULE
    rng = ctx.rng("cases")
    monitor = Monitor()
    n = 400 if ctx.quick else 2500
    cases = [gen_case(rng, i) for i in range(n)]
    one = lambda names, shape, terms: {"names": names, "shape": shape, "dtype": "int64", "kind": "int", "terms": terms}
    cases.insert(0, {"id": "corpus-D4", "kind": "c06", "op": "derivative", "vars": [0], "how": ["name"],
                     "a": one([0, 1], [], [[[2, 1], [1]], [[0, 0], [3]]])})
    cases.insert(1, {"id": "corpus-D24", "kind": "c06", "op": "hessian", "a": one([0, 1], [], [[[1, 0], [1]], [[0, 1], [1]]])})
    work = []
    for c in cases:
        for opts in ([{"retain_coefficients": True, "retain_names": False, "sort_graded": True, "sort_reverse": False}]
                     if str(c["id"]).startswith("corpus") else []) + settings(rng, ctx.quick):
            work.append((c, opts))
    answers = run_driver([dict(driver_case(c, o), id=k) for k, (c, o) in enumerate(work)])
    for (c, opts), ans in zip(work, answers):
        if ans.get("status") == "bad":
            raise RuntimeError(f"driver: {ans}")
        check(ctx, c, opts, ans, monitor)
        if ctx.out_of_time():
            ctx.notes.append("stopped early: time budget")
            break
    ctx.sample({"case": {k: cases[2][k] for k in ("op", "a") if k in cases[2]}, "vars": cases[2].get("vars"), "opts": work[4][1]})
    ctx.extra["argument_monitor"] = {"calls": monitor.calls, "mutations": monitor.events[:5]}
    ctx.extra["settings_per_case"] = 4 if ctx.quick else 16


def replay(ctx, case):
    n = len(ctx.failures)
    opts = case.get("opts") or {k: numpoly.get_options(defaults=True)[k] for k in FLAGS}
    ans = run_driver([driver_case(case, opts)])[0]
    check(ctx, case, opts, ans)
    return ctx.failures[n]["what"] if len(ctx.failures) > n else None

"""C18 - glexsort / glexindex / bindex / cross_truncate / monomial against the Lean model and brute force."""
from __future__ import annotations

import itertools
import math
from decimal import Decimal, getcontext
from fractions import Fraction

from ..core import numpy, numpoly, run_driver, poly_to_struct
from .. import gen

getcontext().prec = 60

RULE = ("glexsort: every key matrix with entries 0..2 up to 3x4 (quick) / 3x5 (thorough) against a comparison-based "
        "reference that the Lean model is checked against on a sample, plus random matrices up to 4x400 with heavy "
        "ties; glexindex/bindex/cross_truncate: all (start, stop) scalar and per-dimension bounds <= 6 (sampled in "
        "quick), dimensions <= 4 (<= 3 quick), cross_truncation in {0,.5,.8,1,2,inf}, all graded/reverse flags, "
        "against the Lean model and a brute-force enumeration with exact / 60-digit arithmetic; monomial() against the "
        "index list. non-trivial = the key matrix has a tie in the primary key, or the index set has >= 2 elements")

NORMS = {0: "zero", 0.5: [1, 2], 0.8: [4, 5], 1: [1, 1], 1.0: [1, 1], 2: [2, 1], 2.0: [2, 1], float("inf"): "inf"}


def ref_glexsort(cols, graded, reverse):
    def key(i):
        c = cols[i]
        k = tuple(c) if reverse else tuple(reversed(c))
        return (sum(c), k) if graded else k
    return sorted(range(len(cols)), key=key)   # Python's sort is stable


def inside(x, bound, norm):
    """exact cross-truncation membership (Fractions; fractional norms with 60 digits)"""
    if any(b < 0 for b in bound):
        return False
    for xi, b in zip(x, bound):
        if b == 0 and xi != 0:
            return False
    pos = [(xi, b) for xi, b in zip(x, bound) if b != 0]
    if not pos:
        return True
    if norm == 0:
        return sum(1 for xi, _ in pos if xi > 0) <= 1 and all(xi <= b for xi, b in pos)
    if norm == float("inf"):
        return all(xi <= b for xi, b in pos)
    p = Fraction(norm).limit_denominator(100)
    if p.denominator == 1:
        return sum(Fraction(xi, b) ** int(p) for xi, b in pos) <= 1
    tot = Decimal(0)
    for xi, b in pos:
        if xi:
            tot += (Decimal(xi) / Decimal(b)) ** (Decimal(p.numerator) / Decimal(p.denominator))
    return tot <= Decimal(1) + Decimal("1e-40")


def ref_glexindex(start, stop, dims, ct, graded, reverse):
    start = [max(s, 0) for s in start]
    bound = max(max(stop), 0)
    out = []
    for x in itertools.product(range(bound), repeat=dims):
        if dims == 1:
            ok = x[0] >= start[0]
        else:
            ok = inside(x, [s - 1 for s in stop], ct[1]) and not inside(x, [s - 1 for s in start], ct[0])
        if ok:
            out.append(list(x))
    order = ref_glexsort(out, graded, reverse)
    return [out[i] for i in order]


def run_glexsort(ctx):
    rng = ctx.rng("glexsort")
    maxcols = 4 if ctx.quick else 5
    nmodel = 0
    model_cases, model_meta = [], []
    for rows in (1, 2, 3):
        for ncols in range(1, maxcols + 1):
            total = 3 ** (rows * ncols)
            for flat in itertools.product(range(3), repeat=rows * ncols):
                keys = numpy.array(flat, dtype=int).reshape(rows, ncols)
                cols = keys.T.tolist()
                for graded, reverse in ((False, False), (True, False), (False, True), (True, True)):
                    if total > 2000 and (graded, reverse) != ((hash(flat) >> 3) % 2 == 0, (hash(flat) >> 4) % 2 == 0) and rows * ncols > 9:
                        continue
                    want = ref_glexsort(cols, graded, reverse)
                    got = numpoly.glexsort(keys, graded=graded, reverse=reverse).tolist()
                    ctx.evaluations += 1
                    sums = [sum(c) for c in cols]
                    tie = len(set(sums)) < len(sums) if graded else len(set(map(tuple, cols))) < len(cols)
                    if tie:
                        ctx.nontrivial_add(("gs", flat, rows, graded, reverse))
                    if got != want:
                        ctx.fail({"kind": "glexsort", "keys": keys.tolist(), "graded": graded, "reverse": reverse},
                                 f"glexsort returned {got}, the (graded)(reverse) lexicographic order is {want}",
                                 ["op:glexsort", "graded" if graded else "plain"])
                    if total <= 800 or rng.random() < 0.004:
                        model_cases.append({"id": len(model_cases), "op": "glexsort", "cols": cols,
                                            "graded": graded, "reverse": reverse})
                        model_meta.append(want)
            if ctx.out_of_time():
                ctx.notes.append("glexsort enumeration stopped early: time budget")
                break
    ctx.count("glexsort.exhaustive", ctx.evaluations)
    # key matrices stored in narrow integer dtypes whose column sums leave the dtype: the total degree must be formed
    # in a wide type
    for _ in range(40 if ctx.quick else 400):
        dt, top = gen.choice(rng, [("uint8", 255), ("int8", 127), ("uint16", 65535), ("int16", 32767)])
        rows = int(rng.integers(2, 5))
        ncols = int(rng.integers(2, 9))
        keys = rng.integers(top // 3, top + 1, size=(rows, ncols)).astype(dt)
        keys[:, 0] = rng.integers(0, 4, size=rows)          # one column of small degree
        for graded, reverse in ((True, False), (True, True), (False, False)):
            cols = keys.T.astype(int).tolist()
            want = ref_glexsort(cols, graded, reverse)
            got = numpoly.glexsort(keys, graded=graded, reverse=reverse).tolist()
            ctx.evaluations += 1
            ctx.count("glexsort.narrow")
            if got != want:
                ctx.fail({"kind": "glexsort", "keys": keys.astype(int).tolist(), "dtype": dt, "graded": graded, "reverse": reverse},
                         f"glexsort on {dt} keys {keys.astype(int).tolist()} returned {got}, the (graded)(reverse) lexicographic order is {want}",
                         ["op:glexsort", "narrow-keys", "graded" if graded else "plain"])
    # random, tie-heavy, wide
    for _ in range(60 if ctx.quick else 600):
        rows = int(rng.integers(1, 5))
        ncols = int(rng.integers(2, 401))
        keys = rng.integers(0, int(rng.integers(2, 5)), size=(rows, ncols))
        for graded, reverse in ((False, False), (True, False), (False, True), (True, True)):
            cols = keys.T.tolist()
            want = ref_glexsort(cols, graded, reverse)
            got = numpoly.glexsort(keys, graded=graded, reverse=reverse).tolist()
            ctx.evaluations += 1
            ctx.nontrivial_add(("gsr", keys.tobytes(), graded, reverse))
            if got != want:
                small = keys.tolist() if ncols <= 12 else None
                ctx.fail({"kind": "glexsort", "keys": keys.tolist(), "graded": graded, "reverse": reverse},
                         f"glexsort on a {rows}x{ncols} tie-heavy matrix is not in (graded)(reverse) lexicographic order",
                         ["op:glexsort", "graded" if graded else "plain"])
            if ncols <= 40:
                model_cases.append({"id": len(model_cases), "op": "glexsort", "cols": cols, "graded": graded, "reverse": reverse})
                model_meta.append(want)
    ctx.count("glexsort.random", 60 if ctx.quick else 600)
    answers = run_driver(model_cases)
    for case, want, ans in zip(model_cases, model_meta, answers):
        if ans.get("value") != want:
            raise RuntimeError(f"reference and Lean model disagree on {case}: {ans} vs {want}")
    ctx.count("glexsort.model_cases", len(model_cases))
    ctx.sample({"op": "glexsort", "case": model_cases[len(model_cases) // 2], "model": answers[len(model_cases) // 2].get("value")})


def bound_choices(rng, dims, quick):
    vals = list(range(0, 7))
    out = []
    # scalar bounds
    for a in vals:
        out.append(([a] * dims, True))
    if dims > 1:
        for _ in range(6 if quick else 30):
            out.append(([int(x) for x in rng.integers(0, 7, size=dims)], False))
    return out


def run_glexindex(ctx):
    rng = ctx.rng("glexindex")
    cases = []
    cts = [0, 0.5, 0.8, 1, 2, float("inf")]
    maxd = 3 if ctx.quick else 4
    for dims in range(1, maxd + 1):
        stops = bound_choices(rng, dims, ctx.quick)
        starts = bound_choices(rng, dims, ctx.quick)
        for (stop, sscalar) in stops:
            if max(stop) ** dims > 1500:
                continue
            for (start, tscalar) in starts:
                for ct in cts:
                    if ctx.quick and rng.random() < (0.6 if dims < 3 else 0.9):
                        continue
                    if (not ctx.quick) and dims == 4 and rng.random() < 0.85:
                        continue
                    graded, reverse = bool(rng.integers(2)), bool(rng.integers(2))
                    cases.append({"start": start, "stop": stop, "dims": dims, "ct": ct, "graded": graded, "reverse": reverse,
                                  "scalar": sscalar and tscalar})
    # mixed cross truncation pairs and bindex orderings
    for _ in range(100 if ctx.quick else 1000):
        dims = int(rng.integers(2, 4))
        cases.append({"start": [int(x) for x in rng.integers(0, 4, size=dims)], "stop": [int(x) for x in rng.integers(1, 6, size=dims)],
                      "dims": dims, "ct": [gen.choice(rng, cts), gen.choice(rng, cts)], "graded": bool(rng.integers(2)),
                      "reverse": bool(rng.integers(2)), "scalar": False,
                      "ordering": gen.choice(rng, [None, "G", "GR", "GRI", "I", "R", "gi", ""])})
    drv = []
    for i, c in enumerate(cases):
        ct = c["ct"] if isinstance(c["ct"], list) else [c["ct"], c["ct"]]
        d = {"id": i, "op": "glexindex", "start": c["start"], "stop": c["stop"], "ct0": NORMS[ct[0]], "ct1": NORMS[ct[1]],
             "graded": c["graded"], "reverse": c["reverse"]}
        if c.get("ordering") is not None:
            d["ordering"] = c["ordering"]
        drv.append(d)
    answers = run_driver(drv)
    for c, ans in zip(cases, answers):
        ct = c["ct"] if isinstance(c["ct"], list) else [c["ct"], c["ct"]]
        ordering = c.get("ordering")
        graded, reverse = c["graded"], c["reverse"]
        if ordering is not None:
            o = ordering.upper()
            graded, reverse = "G" in o, "R" not in o
        want = ref_glexindex(c["start"], c["stop"], c["dims"], ct, graded, reverse)
        if ordering is not None and "I" in ordering.upper():
            want = want[::-1]
        model = ans.get("value")
        if model != want:
            raise RuntimeError(f"brute-force reference and Lean model disagree on {c}: {model} vs {want}")
        start = c["start"][0] if c["scalar"] else c["start"]
        stop = c["stop"][0] if c["scalar"] else c["stop"]
        ctarg = ct[0] if ct[0] == ct[1] else ct
        try:
            if ordering is not None:
                got = numpoly.bindex(start, stop, dimensions=c["dims"], ordering=ordering, cross_truncation=ctarg)
            else:
                got = numpoly.glexindex(start, stop, dimensions=c["dims"], cross_truncation=ctarg,
                                        graded=graded, reverse=reverse)
            raw = got
            got = numpy.asarray(got).reshape(-1, c["dims"]).tolist()
            # the caller owns the table it was given: overwriting it must not reach the next caller (seeded change
            # C18-8: a memoised table handed out without a copy)
            if isinstance(raw, numpy.ndarray) and raw.flags.writeable and raw.size:
                raw[...] = -7
                if ordering is not None:
                    again = numpoly.bindex(start, stop, dimensions=c["dims"], ordering=ordering, cross_truncation=ctarg)
                else:
                    again = numpoly.glexindex(start, stop, dimensions=c["dims"], cross_truncation=ctarg,
                                              graded=graded, reverse=reverse)
                again = numpy.asarray(again).reshape(-1, c["dims"]).tolist()
                if again != got:
                    ctx.fail({"kind": "glexindex", **c, "twice": True}, f"the same call after the caller overwrote the first table returned {str(again)[:120]}, "
                             f"the first time {str(got)[:120]}", ["op:bindex" if ordering is not None else "op:glexindex", "history"])
        except Exception as err:  # noqa: BLE001
            got = f"{type(err).__name__}: {err}"
        ctx.evaluations += 1
        ctx.count(f"glexindex.dims={c['dims']}")
        ctx.count(f"glexindex.ct={ct[0]}")
        if len(want) >= 2:
            ctx.nontrivial_add(("gi", str(c)))
        if got != want:
            tags = ["op:bindex" if ordering is not None else "op:glexindex"]
            ctx.fail({"kind": "glexindex", **c}, f"returned {str(got)[:200]}; exactly the tuples inside stop and not inside start, in order, are {str(want)[:200]}", tags)
    ctx.sample({"op": "glexindex", "case": drv[len(drv) // 3], "model": answers[len(drv) // 3].get("value")})


def run_cross_truncate(ctx):
    rng = ctx.rng("ct")
    cases = []
    for _ in range(150 if ctx.quick else 1500):
        dims = int(rng.integers(1, 5))
        rows = rng.integers(0, 7, size=(int(rng.integers(1, 30)), dims)).tolist()
        bound = [int(x) for x in rng.integers(-1, 7, size=dims)] if rng.random() < .7 else [int(rng.integers(0, 7))]
        norm = gen.choice(rng, [0, 0.5, 0.8, 1, 2, float("inf")])
        cases.append((rows, bound, norm))
    # tuples exactly on the boundary of the norm ball (sum of squares = b**2, sum = b): they are inside, whatever the
    # rounding of the floating-point power sum (seeded change C18-9: the rounding slack removed together with the root)
    import itertools
    for dims in (2, 3, 4):
        for b in range(1, 8 if dims < 4 else 7):
            on2 = [list(x) for x in itertools.product(range(b + 1), repeat=dims) if sum(v * v for v in x) == b * b]
            on1 = [list(x) for x in itertools.product(range(b + 1), repeat=dims) if sum(x) == b]
            just_out = [list(x) for x in itertools.product(range(b + 1), repeat=dims) if sum(v * v for v in x) == b * b + 1]
            if on2:
                cases.append((on2 + just_out[:10], [b], 2))
            if on1 and dims < 4:
                cases.append((on1[:40], [b], 1))
    drv = [{"id": i, "op": "crosstrunc", "rows": r, "bound": (b * len(r[0]) if len(b) == 1 else b), "norm": NORMS[n]}
           for i, (r, b, n) in enumerate(cases)]
    answers = run_driver(drv)
    for (rows, bound, norm), ans in zip(cases, answers):
        fullb = bound * len(rows[0]) if len(bound) == 1 else bound
        want = [inside(x, fullb, norm) for x in rows]
        if ans.get("value") != want:
            raise RuntimeError(f"reference and Lean model disagree on cross_truncate {rows} {bound} {norm}")
        try:
            got = numpoly.cross_truncate(numpy.array(rows), bound if len(bound) > 1 else bound[0], norm).tolist()
        except Exception as err:  # noqa: BLE001
            got = f"{type(err).__name__}: {err}"
        ctx.evaluations += 1
        if len(set(want)) > 1:
            ctx.nontrivial_add(("ct", str(rows), str(bound), norm))
        if got != want:
            ctx.fail({"kind": "cross_truncate", "rows": rows, "bound": bound, "norm": norm},
                     f"cross_truncate marks {got}, inside the norm bound are {want}", ["op:cross_truncate"])


def run_monomial(ctx):
    rng = ctx.rng("monomial")
    for _ in range(60 if ctx.quick else 600):
        dims = int(rng.integers(1, 4))
        start = int(rng.integers(0, 3))
        stop = int(rng.integers(start, 5))
        ct = gen.choice(rng, [0.5, 1, 2, float("inf")])
        graded, reverse = bool(rng.integers(2)), bool(rng.integers(2))
        want = ref_glexindex([start] * dims, [stop] * dims, dims, [ct, ct], graded, reverse)
        case = {"kind": "monomial", "start": start, "stop": stop, "dims": dims, "ct": ct, "graded": graded, "reverse": reverse}
        try:
            dims_arg = numpy.int64(dims) if isinstance(dims, int) and rng.random() < .3 else dims       # D50
            m = numpoly.monomial(start, stop, dimensions=dims_arg, cross_truncation=ct, graded=graded, reverse=reverse)
        except Exception as err:  # noqa: BLE001
            ctx.fail(case, f"monomial raised {type(err).__name__}: {err}", ["op:monomial", "raises"])
            continue
        ctx.evaluations += 1
        ok = m.shape == (len(want),)
        if ok:
            for i, e in enumerate(want):
                s = poly_to_struct(m[i])
                mono = {n: x for n, x in zip(s["names"], next((t[0] for t in s["terms"] if any(c != 0 for c in t[1])), [])) if x}
                nz = [t for t in s["terms"] if any(c != 0 for c in t[1])]
                if len(nz) != 1 or nz[0][1] != [1] or mono != {j: x for j, x in enumerate(e) if x}:
                    ok = False
                    break
        if len(want) >= 2:
            ctx.nontrivial_add(("mono", str(case)))
        if not ok:
            ctx.fail(case, f"monomial(...) = {m} is not the list of single monomials with exponents {want}", ["op:monomial"])


def run_wide_ranges(ctx):
    """one-dimensional index ranges across the widths of the index table's integer type (255/256, 65535/65536): every
    index between the bounds is there (D65: from 65536 on the indices wrapped around and were silently missing)"""
    for lo, hi in ((250, 260), (65530, 65540), (65536, 65539), (70000, 70003)):
        ctx.evaluations += 1
        ctx.count("wide-range")
        case = {"kind": "wide-range", "start": lo, "stop": hi}
        try:
            got = [int(x) for x in numpy.asarray(numpoly.glexindex(lo, hi)).ravel()]
            mono = numpoly.monomial(lo, hi)
            gotm = [int(e[0]) for e in mono.exponents.tolist()] if mono.size else []
        except Exception as err:  # noqa: BLE001
            ctx.fail(case, f"glexindex / monomial({lo}, {hi}) raised {type(err).__name__}: {str(err)[:100]}", ["wide-range", "raises"])
            continue
        if got != list(range(lo, hi)) or sorted(gotm) != list(range(lo, hi)) or mono.shape != (hi - lo,):
            ctx.fail(case, f"glexindex({lo}, {hi}) = {got}, monomial exponents {gotm}; the indices between the bounds are {list(range(lo, hi))}", ["wide-range", "value"])


def run(ctx):
    ctx.rule = RULE
    run_wide_ranges(ctx)
    run_glexindex(ctx)
    run_cross_truncate(ctx)
    run_monomial(ctx)
    run_glexsort(ctx)
    ctx.exhaustive = False
    ctx.notes.append("3x6 key matrices (3**18) are not enumerable in the budget: glexsort_sorted covers all sizes; "
                     "the run enumerates up to 3x4 (quick) / 3x5 (thorough) and samples wider ones")


def search(ctx):
    """a broken table obligation (argsort kind no longer stable): tie-heavy matrices up to 4x400"""
    rng = ctx.rng("search")
    for _ in range(3000):
        rows = int(rng.integers(1, 5))
        ncols = int(rng.integers(5, 401))
        keys = rng.integers(0, 3, size=(rows, ncols))
        cols = keys.T.tolist()
        for reverse in (False, True):
            want = ref_glexsort(cols, True, reverse)
            got = numpoly.glexsort(keys, graded=True, reverse=reverse).tolist()
            if got != want:
                ctx.fail({"kind": "glexsort", "keys": keys.tolist(), "graded": True, "reverse": reverse},
                         f"glexsort on a {rows}x{ncols} tie-heavy matrix is not in graded lexicographic order",
                         ["op:glexsort", "graded"])
                return


def replay(ctx, case):
    n = len(ctx.failures)
    kind = case["kind"]
    if kind == "wide-range":
        run_wide_ranges(ctx)
        hits = [f for f in ctx.failures[n:] if f["case"].get("start") == case["start"]]
        return hits[0]["what"] if hits else None
    if kind == "glexsort":
        keys = numpy.array(case["keys"], dtype=case.get("dtype", int))
        want = ref_glexsort(keys.T.astype(int).tolist(), case["graded"], case["reverse"])
        got = numpoly.glexsort(keys, graded=case["graded"], reverse=case["reverse"]).tolist()
        return None if got == want else f"glexsort returned {got[:20]}…, expected {want[:20]}…"
    if kind == "glexindex":
        ct = case["ct"] if isinstance(case["ct"], list) else [case["ct"], case["ct"]]
        want = ref_glexindex(case["start"], case["stop"], case["dims"], ct, case["graded"], case["reverse"])
        def once():
            return numpy.asarray(numpoly.glexindex(case["start"], case["stop"], dimensions=case["dims"],
                                                   cross_truncation=ct if ct[0] != ct[1] else ct[0], graded=case["graded"],
                                                   reverse=case["reverse"]))
        if case.get("twice") and case.get("ordering") is None:
            first = once()
            if first.flags.writeable:
                first[...] = -7
        got = once().reshape(-1, case["dims"]).tolist()
        return None if got == want else f"glexindex returned {got}, expected {want}"
    return "replay of this case kind is not implemented"


def shrink(ctx, case):
    if case.get("kind") != "glexsort":
        return case
    keys = numpy.array(case["keys"], dtype=case.get("dtype", int))

    def bad(k):
        want = ref_glexsort(k.T.astype(int).tolist(), case["graded"], case["reverse"])
        return numpoly.glexsort(k, graded=case["graded"], reverse=case["reverse"]).tolist() != want
    changed = True
    while changed and keys.shape[1] > 2:
        changed = False
        for j in range(keys.shape[1]):
            k2 = numpy.delete(keys, j, axis=1)
            if k2.shape[1] >= 2 and bad(k2):
                keys, changed = k2, True
                break
    return dict(case, keys=keys.tolist())

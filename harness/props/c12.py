"""C12 - coefficient values survive every dtype; no uninitialised memory is returned."""
from __future__ import annotations

import contextlib
import warnings

from ..core import numpy, numpoly, run_driver, DTYPES, err_kind, poly_to_struct, den_of_struct
from .. import gen

RULE = ("all 14 numeric dtypes x 15 dtype requests (none + 14) x constructors {polynomial, aspolynomial, "
        "polynomial_from_attributes, variable, symbols} and astype; all 14x14 ordered pairs x {+,-,*} on same-shape and "
        "broadcasting operands, ** on each dtype; indexing / reshape / concatenate / where per dtype; results with no "
        "surviving term (p-p, p*0, filtered, dropped dimensions). Oracle: numpy's own cast / result_type / arithmetic "
        "on the raw coefficient arrays. Every fresh ndpoly buffer is pre-filled with a poison byte (0xA5, thorough also "
        "0x5A) by a harness-side wrapper of ndpoly.__new__; a returned coefficient made of poison bytes is a violation. "
        "exhaustive over dtypes and dtype pairs. non-trivial = source dtype differs from the stored dtype, or the "
        "dtypes of the two operands differ")

VALUES = {"b": [True, False, True], "i": [1, -2, 3], "u": [1, 2, 3], "f": [1.5, -2.0, 0.25], "c": [1.5 + 1j, -2.0, 0.5j]}


def data(dt, shape=(3,)):
    vals = VALUES[numpy.dtype(dt).kind]
    n = int(numpy.prod(shape, dtype=int))
    arr = numpy.array([vals[i % 3] for i in range(n)], dtype=dt).reshape(shape)
    return arr


@contextlib.contextmanager
def poison(byte):
    """pre-fill every freshly allocated ndpoly buffer with `byte`"""
    cls = numpoly.ndpoly
    orig = cls.__dict__["__new__"]
    orig_f = orig.__func__ if isinstance(orig, staticmethod) else orig

    def patched(klass, *args, **kwargs):
        obj = orig_f(klass, *args, **kwargs)
        try:
            raw = numpy.ndarray.view(obj, numpy.ndarray)
            if raw.size and raw.flags["C_CONTIGUOUS"]:
                raw.reshape(-1).view(numpy.uint8)[...] = byte
        except Exception:  # noqa: BLE001
            pass
        return obj
    cls.__new__ = staticmethod(patched)
    try:
        yield
    finally:
        cls.__new__ = orig


def poisoned(p, byte):
    """does any coefficient of the polynomial consist of poison bytes?"""
    if not isinstance(p, numpoly.ndpoly) or not p.size:
        return False
    for c in p.coefficients:
        c = numpy.ascontiguousarray(c)
        if c.dtype.itemsize < 2 and c.dtype.kind != "b":
            rows = c.reshape(-1).view(numpy.uint8)
            if (rows == byte).any():
                return True
            continue
        if c.dtype.kind == "b":
            continue
        rows = c.reshape(-1).view(numpy.uint8).reshape(-1, c.dtype.itemsize)
        if (rows == byte).all(axis=1).any():
            return True
    return False


def exact_equal(a, b):
    a, b = numpy.asarray(a), numpy.asarray(b)
    if a.shape != b.shape or a.dtype != b.dtype:
        return False
    if a.dtype.kind == "b":
        # numpy normalises bool bytes on use; the compiled accumulate may leave a 2 where True is meant
        return bool(numpy.array_equal(a, b))
    return a.tobytes() == b.tobytes()


def const_value(p):
    """raw array of a constant polynomial"""
    return numpy.asarray(p.tonumpy())


def run_constructors(ctx, byte):
    reqs = [None] + DTYPES
    with warnings.catch_warnings():
        warnings.simplefilter("ignore")
        for src in DTYPES:
            x = data(src)
            for req in reqs:
                want = x if req is None else x.astype(req)
                kw = {} if req is None else {"dtype": req}
                cons = {
                    "polynomial": lambda: numpoly.polynomial(x, **kw),
                    "aspolynomial": lambda: numpoly.aspolynomial(x, **kw),
                    "from_attributes": lambda: numpoly.polynomial_from_attributes([[0]], [x], **kw),
                    "polynomial(poly)": lambda: numpoly.polynomial(numpoly.polynomial(x), **kw),
                    "aspolynomial(poly)": lambda: numpoly.aspolynomial(numpoly.polynomial(x), **kw),
                    # the names the polynomial already has, given again in every accepted spelling, together with a dtype
                    "aspolynomial(poly, names=tuple)": lambda: (lambda q: numpoly.aspolynomial(q, names=q.names, **kw))(numpoly.polynomial(x)),
                    "aspolynomial(poly, names=list)": lambda: (lambda q: numpoly.aspolynomial(q, names=list(q.names), **kw))(numpoly.polynomial(x)),
                    "aspolynomial(poly, names=poly)": lambda: (lambda q: numpoly.aspolynomial(q, names=q.indeterminants, **kw))(numpoly.polynomial(x)),
                    "polynomial(poly, names=tuple)": lambda: (lambda q: numpoly.polynomial(q, names=q.names, **kw))(numpoly.polynomial(x)),
                    "aspolynomial(array, names)": lambda: numpoly.aspolynomial(x, names=("q0",), **kw),
                    # the raw structured view plus names, with the dtype request (D60: the request was ignored on this route)
                    "polynomial(structured view, names)": lambda: (lambda q: numpoly.polynomial(numpy.array(q.values), names=q.names, **kw))(numpoly.polynomial(x)),
                    "aspolynomial(structured view, names)": lambda: (lambda q: numpoly.aspolynomial(q.values, names=q.names, **kw))(numpoly.polynomial(x)),
                    "astype": (lambda: numpoly.polynomial(x).astype(req)) if req else None,
                    "from_attributes(2 terms)": lambda: numpoly.polynomial_from_attributes([[0], [2]], [x, x], **kw),
                }
                for name, f in cons.items():
                    if f is None:
                        continue
                    case = {"kind": "constructor", "constructor": name, "src": src, "req": req}
                    tags = ["constructor", f"constructor:{name}", f"src:{src}", f"req:{req}"]
                    ctx.evaluations += 1
                    if req is not None and req != src:
                        ctx.nontrivial_add((name, src, req))
                    try:
                        p = f()
                    except Exception as err:  # noqa: BLE001
                        ctx.fail(case, f"{name}({src} data, dtype={req}) raised {type(err).__name__}: {str(err)[:120]}", tags + [f"raises:{err_kind(err)}"])
                        continue
                    if poisoned(p, byte):
                        ctx.fail(case, f"{name}({src} data, dtype={req}) returned coefficients that were never written (poison bytes)", tags + ["poison"])
                        continue
                    got = p.coefficients[0]
                    if p.dtype != want.dtype or not exact_equal(got, want):
                        ctx.fail(case, f"{name}({src} data, dtype={req}) holds {got.tolist()} ({p.dtype}); numpy's cast gives {want.tolist()} ({want.dtype})", tags + ["value"])
            # variable / symbols with a dtype request
            for name, f in (("variable", lambda: numpoly.variable(2, dtype=src)), ("symbols", lambda: numpoly.symbols("q0:2", dtype=src))):
                case = {"kind": "constructor", "constructor": name, "src": None, "req": src}
                ctx.evaluations += 1
                try:
                    p = f()
                    vals = numpy.array(p.coefficients)
                    flat = sorted(repr(v) for v in vals.ravel().tolist())
                    want = sorted(repr(v) for v in numpy.eye(2, dtype=src).ravel().tolist())
                    if p.dtype != numpy.dtype(src) or poisoned(p, byte) or vals.dtype != numpy.dtype(src) or flat != want:
                        ctx.fail(case, f"{name}(dtype={src}) holds {vals.tolist()} dtype {p.dtype}", ["constructor", f"constructor:{name}", f"req:{src}"])
                except Exception as err:  # noqa: BLE001
                    ctx.fail(case, f"{name}(dtype={src}) raised {type(err).__name__}: {str(err)[:120]}", ["constructor", f"constructor:{name}", "raises"])


def run_mixed(ctx, byte):
    """coefficient lists / dicts whose entries have different dtypes: the stored dtype is numpy's promotion, values exact"""
    with warnings.catch_warnings():
        warnings.simplefilter("ignore")
        for da in DTYPES:
            for db in DTYPES:
                xa, xb = data(da), data(db)
                want_dt = numpy.result_type(xa, xb)
                case = {"kind": "mixed", "a": da, "b": db}
                ctx.evaluations += 1
                if da != db:
                    ctx.nontrivial_add(("mixed", da, db))
                try:
                    p = numpoly.polynomial_from_attributes([[0], [1]], [xa, xb])
                except Exception as err:  # noqa: BLE001
                    ctx.fail(case, f"polynomial_from_attributes with {da} and {db} coefficients raised {type(err).__name__}: {str(err)[:100]}", ["mixed", "raises"])
                    continue
                got = {int(e[0]): c for e, c in zip(p.exponents.tolist(), p.coefficients)}
                ok = p.dtype == want_dt and not poisoned(p, byte)
                for k, x in ((0, xa), (1, xb)):
                    if numpy.any(x) and not exact_equal(got.get(k, numpy.zeros(3, want_dt)), x.astype(want_dt)):
                        ok = False
                if not ok:
                    ctx.fail(case, f"polynomial_from_attributes([{da} array, {db} array]) holds {[c.tolist() for c in p.coefficients]} ({p.dtype}); exact values {xa.tolist()}, {xb.tolist()} in {want_dt}", ["mixed", "value", f"a:{da}", f"b:{db}"])
        # entries of different 64-bit types with an explicit integer dtype= request: every entry is cast on its own, as
        # numpy.array([int64 2**53+1, uint64 7], dtype="int64") does - nothing passes through their lossy common type
        # (seeded change C12-13: construct in the implied type, astype at the end)
        big, huge = 2 ** 53 + 1, 2 ** 62 + 12345
        for other in (numpy.uint64(7), numpy.float64(3.0), numpy.float32(2.0), numpy.complex128(5)):
            for target in ("int64", "uint64"):
                if isinstance(other, numpy.complexfloating):
                    continue
                builders = [("polynomial(list)", lambda: numpoly.polynomial([numpy.int64(big), other, numpy.int64(-huge if target == "int64" else huge)], dtype=target)),
                            ("polynomial(dict)", lambda: numpoly.polynomial({(0,): numpy.int64(big), (1,): other, (2,): numpy.int64(huge)}, dtype=target)),
                            ("aspolynomial(list)", lambda: numpoly.aspolynomial([numpy.int64(huge), other, numpy.int64(big)], dtype=target)),
                            ("polynomial(nested list)", lambda: numpoly.polynomial([[numpy.int64(big), other], [other, numpy.int64(huge)]], dtype=target))]
                for label, build in builders:
                    ctx.evaluations += 1
                    ctx.count("mixed.requested-dtype")
                    case = {"kind": "mixed", "route": label, "other": repr(other), "target": target}
                    try:
                        p = build()
                    except Exception as err:  # noqa: BLE001
                        ctx.fail(case, f"{label} with {other!r} next to 64-bit integers, dtype={target} raised {type(err).__name__}: {str(err)[:100]}", ["mixed", "requested-dtype", "raises"])
                        continue
                    vals = sorted(int(v) for c in p.coefficients for v in numpy.asarray(c).ravel().tolist() if int(v) not in (0, int(other)))
                    want = sorted(v for v in ([big, -huge if target == "int64" else huge] if label == "polynomial(list)" else [big, huge]))
                    if str(p.dtype) != target or vals != want:
                        ctx.fail(case, f"{label} with {other!r} next to int64 {big} / {huge}, dtype={target}: stored {vals} ({p.dtype}), numpy's cast of each entry gives {want}", ["mixed", "requested-dtype", "value"])
        # joins of three pieces of different types, every order: numpy promotes all pieces at once, which is not the same as
        # promoting pairwise from the left (seeded change C12-16: reduce(promote_types) gave float32 for int8, uint8, float16)
        import itertools
        pool = ["int8", "uint8", "int16", "uint16", "float16", "float32", "complex64", "int64", "float64"]
        q0 = numpoly.variable(1)
        for trio in itertools.permutations(pool, 3):
            xs = [data(d, (2,)) for d in trio]
            ps = [numpoly.polynomial_from_attributes([[1], [0]], [x, x[::-1].copy()], ("q0",), dtype=d) for x, d in zip(xs, trio)]
            for fn in ("concatenate", "stack"):
                ctx.evaluations += 1
                ctx.count("mixed.three-piece-join")
                want = getattr(numpy, fn)(xs)
                case = {"kind": "mixed", "route": fn, "dtypes": list(trio)}
                try:
                    r = getattr(numpoly, fn)(ps)
                except Exception as err:  # noqa: BLE001
                    ctx.fail(case, f"{fn} of {trio} polynomials raised {type(err).__name__}: {str(err)[:100]}", ["mixed", "join3", "raises"])
                    continue
                got = {int(e[0]): c for e, c in zip(r.exponents.tolist(), r.coefficients)}.get(1)
                if r.dtype != want.dtype or got is None or not exact_equal(got, want.astype(want.dtype)):
                    ctx.fail(case, f"{fn} of {trio} polynomials has dtype {r.dtype} / q0-coefficients {None if got is None else numpy.asarray(got).tolist()}; numpy.{fn} of the coefficient arrays gives {want.dtype} {want.tolist()}", ["mixed", "join3", "dtype"])
        # a scalar coefficient next to an array coefficient, either order, several types: the scalar is broadcast, no value is
        # dropped (D66)
        for dt in ("int64", "float32", "int8", "float64"):
            arr_ = numpy.array([1, 2, 3], dtype=dt)
            for label, build in (("scalar first", lambda: numpoly.polynomial({(0,): numpy.array(5, dtype=dt), (1,): arr_})),
                                 ("array first", lambda: numpoly.polynomial({(1,): arr_, (0,): numpy.array(5, dtype=dt)})),
                                 ("attributes", lambda: numpoly.polynomial_from_attributes([[0], [1]], [numpy.array(5, dtype=dt), arr_]))):
                ctx.evaluations += 1
                ctx.count("mixed.shapes")
                case = {"kind": "mixed", "route": f"scalar and array coefficient, {label}", "dtype": dt}
                try:
                    p = build()
                except Exception as err:  # noqa: BLE001
                    ctx.fail(case, f"a scalar and an array coefficient ({label}, {dt}) raised {type(err).__name__}: {str(err)[:100]}", ["mixed", "shapes", "raises"])
                    continue
                got = {int(e[0]): numpy.asarray(c).tolist() for e, c in zip(p.exponents.tolist(), p.coefficients)}
                if p.shape != (3,) or got != {0: [5, 5, 5], 1: [1, 2, 3]} or str(p.dtype) != dt or poisoned(p, byte):
                    ctx.fail(case, f"a scalar 5 and the array [1, 2, 3] as coefficients ({label}, {dt}): shape {p.shape}, stored {got} ({p.dtype})", ["mixed", "shapes", "value"])
        # dict with Python scalars of different kinds
        for first, second in ((1, 2.5), (2.5, 1), (1, 1 + 2j), (True, 3)):
            ctx.evaluations += 1
            p = numpoly.polynomial({(0,): first, (1,): second})
            got = {int(e[0]): c.item() for e, c in zip(p.exponents.tolist(), p.coefficients)}
            if got != {0: first, 1: second} or poisoned(p, byte):
                ctx.fail({"kind": "mixed", "dict": [repr(first), repr(second)]}, f"polynomial({{(0,): {first!r}, (1,): {second!r}}}) holds {got}", ["mixed", "dict", "value"])


def run_model_promotion(ctx):
    """numpy's promotion of several types at once is part of the model (`Np.DT.promoteAll`, a transcription of
    PyArray_PromoteDTypeSequence for the builtin numeric types): every pair and triple of the 14 types and random tuples of
    4-7 against numpy.result_type. A disagreement is an error of the model, never a finding about numpoly."""
    import itertools
    rng = ctx.rng("model-promotion")
    tuples = [list(t) for n in (1, 2, 3) for t in itertools.product(DTYPES, repeat=n)]
    for _ in range(400 if ctx.quick else 6000):
        tuples.append([DTYPES[int(rng.integers(len(DTYPES)))] for _ in range(int(rng.integers(4, 8)))])
    answers = run_driver([{"id": i, "op": "inferdtype", "cols": [[d, False] for d in t]} for i, t in enumerate(tuples)])
    bad = []
    for t, ans in zip(tuples, answers):
        want = str(numpy.result_type(*[numpy.dtype(d) for d in t]))
        if ans.get("nary") != want:
            bad.append(f"{t}: model {ans.get('nary')}, numpy {want}")
    ctx.count("model-promotion", len(tuples))
    ctx.extra["model_promotion_cases"] = len(tuples)
    if bad:
        raise RuntimeError(f"Np.DT.promoteAll and numpy.result_type disagree on {len(bad)} of {len(tuples)} tuples:\n" + "\n".join(bad[:8]))


def run_inferred_dtype(ctx, byte):
    """no dtype requested: the stored dtype is the promotion of all coefficient dtypes, whatever the retain flags and
    whichever coefficients are all zero - compared with the Lean model (`DT.inferDtype`, op inferdtype)"""
    rng = ctx.rng("inferred")
    cases, drv = [], []
    for _ in range(120 if ctx.quick else 1500):
        k = int(rng.integers(1, 4))
        dts = [DTYPES[int(rng.integers(len(DTYPES)))] for _ in range(k)]
        zero = [bool(rng.random() < .4) for _ in range(k)]
        cases.append((dts, zero))
        drv.append({"id": len(drv), "op": "inferdtype", "cols": [[d, z] for d, z in zip(dts, zero)]})
    with warnings.catch_warnings():
        warnings.simplefilter("ignore")
        for (dts, zero), ans in zip(cases, run_driver(drv)):
            cols = [numpy.zeros(3, dtype=d) if z else data(d) for d, z in zip(dts, zero)]
            expos = [[j] for j in range(len(dts))]
            for rc in (False, True):
                case = {"kind": "inferred", "dtypes": dts, "zero": zero, "retain_coefficients": rc}
                ctx.evaluations += 1
                ctx.count("inferred-dtype")
                try:
                    p = numpoly.polynomial_from_attributes(expos, cols, retain_coefficients=rc)
                except Exception as err:  # noqa: BLE001
                    ctx.fail(case, f"polynomial_from_attributes with dtypes {dts} raised {type(err).__name__}: {str(err)[:100]}", ["inferred", "raises"])
                    continue
                # the specification is numpy's own promotion of all the coefficient types at once. numpy's n-ary promotion is
                # not a left fold of the pairwise table (int8, uint16, complex64 -> complex64, pairwise complex128); the model's
                # `inferDtype` is that fold, exact for one or two coefficient types - where it differs from numpy for three it
                # is counted as drift of the model, never as a failure of the implementation
                want = ans["nary"]          # the model's n-ary promotion (validated against numpy by run_model_promotion)
                if str(numpy.result_type(*[numpy.dtype(d) for d in dts])) != want:
                    raise RuntimeError(f"Np.DT.promoteAll {want} != numpy.result_type for {dts}")
                if ans["value"] != want:
                    ctx.count("inferred-dtype.left-fold-differs-from-n-ary")
                if str(p.dtype) != want or poisoned(p, byte):
                    ctx.fail(case, f"coefficients of dtypes {dts} (all-zero: {zero}) under retain_coefficients={rc}: stored dtype {p.dtype}, "
                                   f"numpy's promotion of all of them is {want}", ["inferred", "dtype"])


def run_weak_scalars(ctx, byte):
    """narrow numpy scalars / arrays next to plain Python numbers the narrow type cannot hold: the Python number counts
    with its default numpy type (as in numpy.array([...])), so nothing wraps or is rounded"""
    narrow = [numpy.int8(1), numpy.uint8(7), numpy.int16(-3), numpy.float16(3), numpy.float32(0.5), numpy.array(2, dtype="int8")]
    py = [1000, -70000, 2049, 0.1, 2 ** 40]
    with warnings.catch_warnings():
        warnings.simplefilter("ignore")
        for x in narrow:
            for y in py:
                want = numpy.array([x, y])        # numpy's own answer for the mixed list
                routes = [
                    ("polynomial_from_attributes", lambda: numpoly.polynomial_from_attributes([[0], [1]], [x, y])),
                    ("polynomial(dict)", lambda: numpoly.polynomial({(0,): x, (1,): y})),
                    ("polynomial(list)", lambda: numpoly.polynomial([x, y])),
                    ("polynomial(list with a polynomial)", lambda: numpoly.polynomial([numpoly.polynomial(x), y])),
                ]
                for label, f in routes:
                    case = {"kind": "weak", "route": label, "narrow": repr(x), "python": repr(y)}
                    ctx.evaluations += 1
                    ctx.count("weak-scalars")
                    try:
                        p = f()
                    except Exception as err:  # noqa: BLE001
                        ctx.fail(case, f"{label} of {x!r} and {y!r} raised {type(err).__name__}: {str(err)[:100]}", ["weak", "raises"])
                        continue
                    if label.startswith("polynomial(list"):
                        vals = numpy.asarray(p.tonumpy())
                    else:
                        cs = {int(e[0]): c for e, c in zip(p.exponents.tolist(), p.coefficients)}
                        vals = numpy.array([cs.get(0, 0), cs.get(1, 0)]).astype(p.dtype)
                    if p.dtype != want.dtype or not exact_equal(vals, want) or poisoned(p, byte):
                        ctx.fail(case, f"{label} of {x!r} and {y!r} holds {vals.tolist()} ({p.dtype}); numpy.array gives {want.tolist()} ({want.dtype})", ["weak", "value"])


def numpy_arith(op, a, b):
    with numpy.errstate(all="ignore"):
        return {"add": numpy.add, "sub": numpy.subtract, "mul": numpy.multiply}[op](a, b)


def run_arithmetic(ctx, byte):
    q0 = numpoly.variable(1)
    with warnings.catch_warnings():
        warnings.simplefilter("ignore")
        for da in DTYPES:
            for db in DTYPES:
                for shapes in (((3,), (3,)), ((3,), (2, 3)), ((2, 1), (1, 3))):
                    xa, xb = data(da, shapes[0]), data(db, shapes[1])
                    ya, yb = data(da, shapes[0])[..., ::-1].copy(), data(db, shapes[1])[..., ::-1].copy()
                    # a = xa*q0 + ya ; b = xb*q0 + yb   (built without arithmetic, so the dtype is exactly da / db)
                    A = numpoly.polynomial_from_attributes([[1], [0]], [xa, ya], ("q0",), dtype=da)
                    B = numpoly.polynomial_from_attributes([[1], [0]], [xb, yb], ("q0",), dtype=db)
                    for op in ("add", "sub", "mul"):
                        case = {"kind": "arith", "op": op, "a": da, "b": db, "shapes": [list(s) for s in shapes]}
                        tags = ["arith", f"op:{op}", f"a:{da}", f"b:{db}"] + (["broadcast"] if shapes[0] != shapes[1] else [])
                        try:
                            if op == "mul":
                                want = {2: numpy_arith("mul", xa, xb),
                                        1: numpy_arith("add", numpy_arith("mul", xa, yb), numpy_arith("mul", ya, xb)),
                                        0: numpy_arith("mul", ya, yb)}
                            else:
                                want = {1: numpy_arith(op, xa, xb), 0: numpy_arith(op, ya, yb)}
                        except TypeError:
                            continue     # numpy itself refuses (boolean subtract)
                        ctx.evaluations += 1
                        if da != db:
                            ctx.nontrivial_add((op, da, db, shapes))
                        try:
                            R = {"add": lambda: A + B, "sub": lambda: A - B, "mul": lambda: A * B}[op]()
                        except Exception as err:  # noqa: BLE001
                            ctx.fail(case, f"{da} {op} {db} raised {type(err).__name__}: {str(err)[:120]}", tags + [f"raises:{err_kind(err)}"])
                            continue
                        wdt = next(iter(want.values())).dtype
                        if poisoned(R, byte):
                            ctx.fail(case, f"{da} {op} {db}: result holds coefficients that were never written (poison bytes)", tags + ["poison"])
                            continue
                        if R.dtype != wdt:
                            ctx.fail(case, f"{da} {op} {db} (shapes {shapes}) has dtype {R.dtype}; numpy promotes to {wdt}", tags + ["dtype"])
                            continue
                        got = {int(e[0]): c for e, c in zip(R.exponents.tolist(), R.coefficients)}
                        for k, w in want.items():
                            g = got.get(k, numpy.zeros(w.shape, dtype=wdt))
                            if not exact_equal(g, w.astype(wdt)) and numpy.any(w):
                                ctx.fail(case, f"{da} {op} {db}: coefficient of q0**{k} is {numpy.asarray(g).tolist()}, numpy arithmetic gives {w.tolist()}", tags + ["value"])
                                break
            # a typed 0-d constant as the other operand - a 0-d constant polynomial, a numpy scalar, a 0-d array: unlike a Python
            # number it carries its type into the promotion (seeded change C12-14: its *value* was handed to result_type)
            for db in DTYPES:
                xa, ya, yb = data(da), data(da)[::-1].copy(), data(db, ())
                A = numpoly.polynomial_from_attributes([[1], [0]], [xa, ya], ("q0",), dtype=da)
                for carrier, B in (("0-d constant polynomial", numpoly.polynomial_from_attributes([[0]], [yb], ("q0",), dtype=db)),
                                   ("numpy scalar", yb[()]), ("0-d array", yb)):
                    for op in ("add", "mul"):
                        try:
                            want = {1: numpy_arith("mul", xa, yb), 0: numpy_arith("mul", ya, yb)} if op == "mul" else \
                                {1: xa.astype(numpy.result_type(xa, yb)), 0: numpy_arith("add", ya, yb)}
                        except TypeError:
                            continue
                        case = {"kind": "arith", "op": op, "a": da, "b": db, "shapes": [[3], []], "carrier": carrier}
                        tags = ["arith", f"op:{op}", f"a:{da}", f"b:{db}", "typed-0d"]
                        ctx.evaluations += 1
                        ctx.count("arith.typed-0d")
                        try:
                            R = A * B if op == "mul" else A + B
                        except Exception as err:  # noqa: BLE001
                            ctx.fail(case, f"{da} {op} {db} ({carrier}) raised {type(err).__name__}: {str(err)[:120]}", tags + [f"raises:{err_kind(err)}"])
                            continue
                        wdt = want[0].dtype
                        if R.dtype != wdt:
                            ctx.fail(case, f"{da} polynomial {op} {db} {carrier} has dtype {R.dtype}; numpy promotes to {wdt}", tags + ["dtype"])
                            continue
                        got = {int(e[0]): c for e, c in zip(R.exponents.tolist(), R.coefficients)}
                        for k, w in want.items():
                            g = got.get(k, numpy.zeros(w.shape, dtype=wdt))
                            if not exact_equal(g, w.astype(wdt)) and numpy.any(w):
                                ctx.fail(case, f"{da} polynomial {op} {db} {carrier}: coefficient of q0**{k} is {numpy.asarray(g).tolist()}, numpy arithmetic gives {w.tolist()}", tags + ["value"])
                                break
            # an operand that *stores* an all-zero term (retained zero constant row): every cell of the product
            # must still be written, on the compiled path and on the numpy path
            za = numpy.zeros(3, dtype=da)
            Z = numpoly.polynomial_from_attributes([[1], [0]], [data(da), za], ("q0",), dtype=da, retain_coefficients=True)
            Y = numpoly.polynomial_from_attributes([[1], [0]], [data(da), data(da)[::-1].copy()], ("q0",), dtype=da)
            for label, f in (("zero-term * poly", lambda: Z * Y), ("poly * zero-term", lambda: Y * Z), ("zero-term ** 2", lambda: Z ** 2),
                             ("zero-term * high exponent", lambda: Z * numpoly.polynomial_from_attributes([[70], [0]], [data(da), data(da)], ("q0",), dtype=da))):
                ctx.evaluations += 1
                try:
                    R = f()
                except Exception as err:  # noqa: BLE001
                    if da != "bool":
                        ctx.fail({"kind": "arith", "op": label, "a": da}, f"{label} in {da} raised {type(err).__name__}: {str(err)[:100]}", ["arith", "zero-term", "raises"])
                    continue
                if poisoned(R, byte) or R.dtype != numpy.dtype(da):
                    ctx.fail({"kind": "arith", "op": label, "a": da}, f"{label} in {da}: result holds coefficients that were never written (poison bytes) or has dtype {R.dtype}: {R!r}"[:300], ["arith", "zero-term", "poison"])
                    continue
                c0 = {int(e[0]): c for e, c in zip(R.exponents.tolist(), R.coefficients)}.get(0)
                if label == "zero-term * poly" and c0 is not None and numpy.any(c0):
                    ctx.fail({"kind": "arith", "op": label, "a": da}, f"{label} in {da}: constant term {c0.tolist()} should be 0", ["arith", "zero-term", "value"])
            # power keeps the dtype
            A = numpoly.polynomial_from_attributes([[1], [0]], [data(da), data(da)[::-1].copy()], ("q0",), dtype=da)
            for klabel, k in (("2", 2), ("0", 0), ("1", 1), ("int64(0)", numpy.int64(0)), ("array(0)", numpy.array(0)),
                              ("array([0, 0, 0])", numpy.array([0, 0, 0])), ("array([0, 2, 1])", numpy.array([0, 2, 1]))):
                try:
                    R = A ** k
                    ctx.evaluations += 1
                    if R.dtype != numpy.dtype(da) or poisoned(R, byte):
                        ctx.fail({"kind": "arith", "op": "pow", "a": da, "k": klabel}, f"({da} polynomial)**{klabel} has dtype {R.dtype} / poison {poisoned(R, byte)}", ["arith", "op:pow", f"a:{da}"])
                    elif klabel in ("0", "int64(0)", "array(0)", "array([0, 0, 0])") and not (R.isconstant() and numpy.all(R.tonumpy() == 1)):
                        ctx.fail({"kind": "arith", "op": "pow", "a": da, "k": klabel}, f"({da} polynomial)**{klabel} is {R}, not 1", ["arith", "op:pow", "value"])
                except Exception as err:  # noqa: BLE001
                    if da != "bool":
                        ctx.fail({"kind": "arith", "op": "pow", "a": da, "k": klabel}, f"({da} polynomial)**{klabel} raised {type(err).__name__}: {err}", ["arith", "op:pow", "raises"])


def run_shape_functions(ctx, byte):
    with warnings.catch_warnings():
        warnings.simplefilter("ignore")
        for dt in DTYPES:
            x, y = data(dt, (2, 3)), data(dt, (2, 3))[::-1].copy()
            A = numpoly.polynomial_from_attributes([[1], [0]], [x, y], ("q0",), dtype=dt)
            ops = {
                "getitem": (lambda: A[1], lambda c: c[1]),
                "getitem-slice": (lambda: A[:, ::2], lambda c: c[:, ::2]),
                "reshape": (lambda: numpoly.reshape(A, (3, 2)), lambda c: c.reshape(3, 2)),
                "transpose": (lambda: numpoly.transpose(A), lambda c: c.T),
                "concatenate": (lambda: numpoly.concatenate([A, A]), lambda c: numpy.concatenate([c, c])),
                "where": (lambda: numpoly.where(x.astype(bool), A, A), lambda c: c),
                "ravel": (lambda: A.ravel(), lambda c: c.ravel()),
                "copy": (lambda: A.copy(), lambda c: c),
                "repeat": (lambda: numpoly.repeat(A, 2, axis=0), lambda c: numpy.repeat(c, 2, axis=0)),
            }
            for name, (f, g) in ops.items():
                case = {"kind": "shape", "op": name, "dtype": dt}
                ctx.evaluations += 1
                try:
                    R = f()
                except Exception as err:  # noqa: BLE001
                    ctx.fail(case, f"{name} on a {dt} polynomial raised {type(err).__name__}: {str(err)[:100]}", ["shape", f"op:{name}", "raises"])
                    continue
                got = {int(e[0]): c for e, c in zip(R.exponents.tolist(), R.coefficients)}
                if R.dtype != numpy.dtype(dt) or poisoned(R, byte):
                    ctx.fail(case, f"{name} on a {dt} polynomial gives dtype {R.dtype} (poison: {poisoned(R, byte)})", ["shape", f"op:{name}", "dtype"])
                elif not (exact_equal(got.get(1, numpy.zeros_like(g(x))), g(x)) and exact_equal(got.get(0, numpy.zeros_like(g(y))), g(y))) and dt != "bool":
                    ctx.fail(case, f"{name} on a {dt} polynomial changed coefficient values", ["shape", f"op:{name}", "value"])


def run_empty_results(ctx, byte):
    """results whose terms all cancel, are filtered away, or are empty"""
    q0, q1 = numpoly.variable(2)
    P = numpoly.polynomial([3 * q1, q1 + q0 * q1])
    cases = {
        "p-p": lambda: P - P,
        "p*0": lambda: P * 0,
        "p*zeros": lambda: P * numpy.zeros(2, dtype=int),
        "set_dimensions drop all": lambda: numpoly.set_dimensions(P, 1),
        "derivative of constant": lambda: numpoly.derivative(numpoly.polynomial([1, 2]) + 0 * q0, "q0"),
        "where all second": lambda: numpoly.where([False, False], P, numpoly.polynomial([0, 0])),
        "full(zero poly)": lambda: numpoly.full((2,), 0 * q0),
        "zeros": lambda: numpoly.zeros((2, 2)),
        "diff of constant": lambda: numpoly.diff(numpoly.polynomial([q0, q0, q0])),
        "call partial to zero": lambda: (q0 * q1)(q0=0),
        "decompose zero": lambda: numpoly.decompose(0 * P),
        "sum of cancelling": lambda: numpoly.sum(numpoly.polynomial([q0, -q0])),
        "clean all-zero": lambda: numpoly.polynomial_from_attributes([[1, 0], [0, 2]], [numpy.zeros(3, int), numpy.zeros(3, int)]),
        "retain=True all-zero": lambda: numpoly.polynomial_from_attributes([[1, 0]], [numpy.zeros(3, int)], retain_coefficients=True),
        # exponent rows without any coefficient (D59): whatever comes back was written
        "rows without coefficients": lambda: numpoly.polynomial_from_attributes([[1], [2]], []),
        "rows without coefficients, float": lambda: numpoly.polynomial_from_attributes([[1, 0], [0, 3], [2, 2]], [], dtype=float),
        "rows without coefficients, retained": lambda: numpoly.polynomial_from_attributes([[5]], [], ("q3",), retain_coefficients=True),
    }
    for name, f in cases.items():
        case = {"kind": "empty", "what": name}
        ctx.evaluations += 1
        try:
            R = f()
        except Exception as err:  # noqa: BLE001
            ctx.fail(case, f"{name} raised {type(err).__name__}: {str(err)[:120]}", ["empty", "raises"])
            continue
        if isinstance(R, numpoly.ndpoly):
            if poisoned(R, byte):
                ctx.fail(case, f"{name}: returned coefficients that were never computed (poison bytes): {R!r}", ["empty", "poison"])
            elif any(numpy.any(c) for c in R.coefficients):
                ctx.fail(case, f"{name}: expected the zero polynomial, got {R!r}", ["empty", "value"])
        elif numpy.any(numpy.asarray(R)):
            ctx.fail(case, f"{name}: expected zeros, got {R!r}", ["empty", "value"])
    # selections in which every term is filtered away must keep the dtype and hold zeros (no constant row stored)
    with warnings.catch_warnings():
        warnings.simplefilter("ignore")
        for dt in DTYPES:
            x = numpy.array([3, 0, 0, 1]).astype(dt)
            Pz = numpoly.polynomial_from_attributes([[1]], [x], ("q0",), dtype=dt)
            sel = {"p[1]": lambda: Pz[1], "p[1:3]": lambda: Pz[1:3], "list(p)[2]": lambda: list(Pz)[2],
                   "reshape(p[1:3])": lambda: numpoly.reshape(Pz[1:3], (2, 1)), "transpose(p[1:3])": lambda: numpoly.transpose(Pz[1:3]),
                   "repeat(p[1:2])": lambda: numpoly.repeat(Pz[1:2], 2)}
            for label, f in sel.items():
                ctx.evaluations += 1
                try:
                    R = f()
                except Exception as err:  # noqa: BLE001
                    ctx.fail({"kind": "empty", "what": label, "dtype": dt}, f"{label} on a {dt} polynomial raised {type(err).__name__}: {str(err)[:100]}", ["empty", "raises"])
                    continue
                if R.dtype != numpy.dtype(dt) or poisoned(R, byte) or any(numpy.any(c) for c in R.coefficients):
                    ctx.fail({"kind": "empty", "what": label, "dtype": dt}, f"{label} on a {dt} polynomial whose selected elements are all zero: dtype {R.dtype}, value {R!r}", ["empty", "dtype", f"dtype:{dt}"])
    # size-0 arrays (D16)
    size0 = {
        "polynomial([]) + 1": (lambda: numpoly.polynomial([]) + 1, (0,)),
        "polynomial([]) * q0": (lambda: numpoly.polynomial([]) * q0, (0,)),
        "ediff1d of size-1": (lambda: numpoly.ediff1d(numpoly.polynomial([q0])), (0,)),
        "diff along length-1 axis": (lambda: numpoly.diff(numpoly.polynomial([[q0], [q1]]), axis=1), (2, 0)),
        "empty slice": (lambda: numpoly.polynomial([q0, q1])[:0], (0,)),
    }
    for name, (f, shape) in size0.items():
        case = {"kind": "size0", "what": name}
        ctx.evaluations += 1
        try:
            R = f()
        except Exception as err:  # noqa: BLE001
            ctx.fail(case, f"{name} raised {type(err).__name__}: {str(err)[:120]}", ["size0", "raises"])
            continue
        if tuple(getattr(R, "shape", ())) != shape or (isinstance(R, numpoly.ndpoly) and poisoned(R, byte)):
            ctx.fail(case, f"{name}: expected an empty result of shape {shape}, got shape {getattr(R, "shape", None)}: {R!r}", ["size0"])


def run_float_rounding(ctx, byte):
    """products in the narrow floating types are numpy's arithmetic in THAT type, rounded after every operation
    (seeded change C12-11: narrow operands multiplied in float64 and cast back once): for (a0 + a1*q0)*(b0 + b1*q0) the
    coefficient of q0 is fl(fl(a0*b1) + fl(a1*b0))"""
    rng = numpy.random.default_rng(12345)
    for dt in ("float16", "float32", "complex64"):
        T = numpy.dtype(dt).type
        for k in range(40):
            vals = [T(v) for v in rng.uniform(0.001, 3.0, size=4) * rng.choice([1, -1], size=4)]
            if k % 5 == 0 and dt == "float16":
                vals = [T(250.0), T(-250.0), T(251.0), T(249.0)]      # partial products near the float16 limit
            a0, a1, b0, b1 = vals
            with numpy.errstate(all="ignore"), warnings.catch_warnings():
                warnings.simplefilter("ignore")
                want = {0: a0 * b0, 1: a0 * b1 + a1 * b0, 2: a1 * b1}
                A = numpoly.polynomial_from_attributes([[0], [1]], [numpy.array(a0), numpy.array(a1)], ("q0",), dtype=dt)
                B = numpoly.polynomial_from_attributes([[0], [1]], [numpy.array(b0), numpy.array(b1)], ("q0",), dtype=dt)
                case = {"kind": "arith", "op": "float-rounding", "a": dt, "values": [repr(v) for v in vals]}
                ctx.evaluations += 1
                ctx.count("float-rounding")
                try:
                    R = A * B
                except Exception as err:  # noqa: BLE001
                    ctx.fail(case, f"{dt} product raised {type(err).__name__}: {str(err)[:100]}", ["arith", "float-rounding", "raises"])
                    continue
                got = {int(e[0]): c for e, c in zip(R.exponents.tolist(), R.coefficients)}
                for e, w in want.items():
                    g = got.get(e, T(0))
                    if R.dtype != numpy.dtype(dt) or not (numpy.asarray(g) == w or (numpy.isnan(g) and numpy.isnan(w))):
                        if w == 0 and e not in got:
                            continue
                        ctx.fail(case, f"({dt}) ({a0!r} + {a1!r}*q0) * ({b0!r} + {b1!r}*q0): coefficient of q0**{e} is {g!r} "
                                 f"(dtype {R.dtype}), {dt} arithmetic gives {w!r}", ["arith", "float-rounding", "value"])
                        break


def run_readonly(ctx, byte):
    """coefficient data the constructors may only read (frozen arrays, views of immutable buffers), already contiguous and
    of the final dtype (seeded change C12-12: the writable requirement dropped before the compiled writer)"""
    for dt in DTYPES:
        x = data(dt)
        frozen = x.copy()
        frozen.setflags(write=False)
        buf = numpy.frombuffer(x.tobytes(), dtype=dt)
        for label, src in (("frozen array", frozen), ("frombuffer", buf)):
            routes = {"polynomial": lambda: numpoly.polynomial(src), "aspolynomial": lambda: numpoly.aspolynomial(src),
                      "from_attributes": lambda: numpoly.polynomial_from_attributes([[0]], [src]),
                      "x + q0": lambda: src + numpoly.variable(), "x * q0": lambda: src * numpoly.variable()}
            for route, f in routes.items():
                case = {"kind": "readonly", "dtype": dt, "source": label, "route": route}
                ctx.evaluations += 1
                ctx.count("readonly")
                try:
                    with warnings.catch_warnings():
                        warnings.simplefilter("ignore")
                        R = f()
                except Exception as err:  # noqa: BLE001
                    if dt == "bool" and route in ("x + q0", "x * q0"):
                        continue
                    ctx.fail(case, f"{route} of read-only {dt} data ({label}) raised {type(err).__name__}: {str(err)[:100]}", ["readonly", "raises"])
                    continue
                if poisoned(R, byte):
                    ctx.fail(case, f"{route} of read-only {dt} data ({label}) holds unwritten memory", ["readonly", "poison"])
                elif not numpy.array_equal(src, x):
                    ctx.fail(case, f"{route} changed its read-only input", ["readonly", "mutated"])


def run(ctx):
    ctx.rule = RULE
    ctx.exhaustive = True
    # the model's tables must be the working tree's: ask the driver what it believes about a few cells
    bytes_ = [0xA5] if ctx.quick else [0xA5, 0x5A]
    run_model_promotion(ctx)
    for byte in bytes_:
        with poison(byte):
            run_constructors(ctx, byte)
            run_mixed(ctx, byte)
            run_inferred_dtype(ctx, byte)
            run_weak_scalars(ctx, byte)
            run_arithmetic(ctx, byte)
            run_shape_functions(ctx, byte)
            run_empty_results(ctx, byte)
            run_float_rounding(ctx, byte)
            run_readonly(ctx, byte)
    ctx.extra["poison_bytes"] = [hex(b) for b in bytes_]
    ctx.sample({"constructor": "polynomial", "src": "int32", "req": "float32", "data": data("int32").tolist(),
                "expected": data("int32").astype("float32").tolist()})
    ctx.sample({"arith": "add", "a": "uint8", "b": "int8", "shapes": [[3], [2, 3]], "expected_dtype": str(numpy.result_type("uint8", "int8"))})


def search(ctx):
    """a changed dtype switch / guard: the dtype-by-dtype run above already exercises every entry"""
    return


def replay(ctx, case):
    n = len(ctx.failures)
    with poison(0xA5):
        if case["kind"] == "arith" and case.get("op") == "float-rounding":
            run_float_rounding(ctx, 0xA5)
        else:
            {"constructor": run_constructors, "mixed": run_mixed, "weak": run_weak_scalars, "inferred": run_inferred_dtype, "arith": run_arithmetic,
             "shape": run_shape_functions, "empty": run_empty_results, "size0": run_empty_results, "readonly": run_readonly}[case["kind"]](ctx, 0xA5)
    keys = [k for k in ("constructor", "src", "req", "op", "a", "b", "what", "dtype") if k in case]
    hits = [f for f in ctx.failures[n:] if all(f["case"].get(k) == case[k] for k in keys)]
    return hits[0]["what"] if hits else None

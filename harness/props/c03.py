"""C03 - results are well-formed and regenerate from their attributes; constructors clean exactly what they should."""
from __future__ import annotations

import json
from fractions import Fraction

from ..core import (numpy, numpoly, run_driver, poly_to_struct, den_of_struct, den_key, err_kind, wf_problems,
                    coef_json, coef_from_json, exact_to_py, struct_to_poly)
from .. import gen, catalogue

RULE = ("(a) attribute triples (redundant zero terms, unused names, unsorted rows, duplicate rows/names, wrong counts) "
        "x all four retain flag settings through polynomial_from_attributes, compared with the Lean constructor at "
        "representation level (which rows and names are kept, or PolynomialConstructionError); (b) every polynomial "
        "returned by the operation catalogue (~95 public constructors/operations on C01 inputs) is checked for the "
        "well-formedness invariant and rebuilt three ways (attributes, raw structured view + names, todict); "
        "non-trivial = (a) something is dropped or rejected, (b) result has >= 2 terms; distinct by case text")


def gen_attr_case(rng, i):
    names = gen.gen_names(rng)
    shape = gen.gen_shape(rng, 2)
    s = gen.gen_struct(rng, names=names, shape=shape, kind=gen.choice(rng, ["int", "float"]), zero_prob=.3)
    expos = [t[0] for t in s["terms"]]
    cols = [t[1] for t in s["terms"]]
    order = rng.permutation(len(expos))
    expos, cols = [expos[int(k)] for k in order], [cols[int(k)] for k in order]
    mal = None
    r = rng.random()
    if r < .08 and expos:
        k = int(rng.integers(len(expos)))
        expos.append(list(expos[k]))
        cols.append(cols[k] if rng.random() < .5 else [0] * len(cols[k]))
        mal = "duplicate-row"
    elif r < .14:
        cols = cols[:-1] if len(cols) > 1 and rng.random() < .5 else cols + [cols[0]]
        mal = "count"
    elif r < .2 and len(names) >= 2:
        names = [names[0]] * 2 + names[2:]
        mal = "duplicate-name"
    elif r < .26:
        # one name too many, one too few, or none at all (D63: an empty name tuple slipped through `if names:`)
        names = gen.choice(rng, [names + [11], names[:-1] or [0, 1], [], names[:-1] or [0, 1]])
        mal = "name-width"
    # coefficient arrays of different dtypes in one triple (the narrower one first as often as not)
    col_dtypes = None
    if mal is None and rng.random() < .3 and len(cols) >= 2:
        from fractions import Fraction
        from ..core import coef_json
        col_dtypes = [gen.choice(rng, ["int64", "float64", "int32", "float32"]) for _ in cols]
        for k, dt in enumerate(col_dtypes):
            if dt.startswith("float"):
                cols[k] = [coef_json(Fraction(int(rng.integers(-7, 8)), 4)) for _ in cols[k]]
            else:
                cols[k] = [int(rng.integers(-3, 4)) for _ in cols[k]]
    given = names if rng.random() < .85 or mal else None
    # an explicit storage allocation (any number >= the rows passed in) never changes what is built (D41)
    alloc = len(expos) + int(rng.integers(0, 2 * len(expos) + 3)) if rng.random() < .3 else None
    if given is None:
        width = len(expos[0])
        s_names = list(range(width))
    return {"id": i, "kind": "attrs", "names": given, "expos": expos, "cols": cols, "shape": list(shape), "dtype": s["dtype"],
            "rc": bool(rng.integers(2)), "rn": bool(rng.integers(2)), "mal": mal, "col_dtypes": col_dtypes, "allocation": alloc,
            "global": ({"retain_coefficients": bool(rng.integers(2)), "retain_names": bool(rng.integers(2))} if rng.random() < .4 else None)}


def attr_driver(c):
    return {"id": c["id"], "op": "fromattr", "opts": {"retain_coefficients": c["rc"], "retain_names": c["rn"]},
            "shape": c["shape"], "names": c["names"], "expos": c["expos"], "cols": c["cols"]}


def check_attrs(ctx, c, model):
    tags = ["attrs"] + ([f"malformed:{c['mal']}"] if c["mal"] else [])
    dtype = numpy.dtype(c["dtype"])
    dts = [numpy.dtype(d) for d in c["col_dtypes"]] if c.get("col_dtypes") else [dtype] * len(c["cols"])
    cols = [numpy.array([exact_to_py(coef_from_json(v), dt) for v in col], dtype=dt).reshape(tuple(c["shape"])) for col, dt in zip(c["cols"], dts)]
    if c.get("allocation") is not None:
        tags = tags + ["allocation"]
        ctx.count("attrs.allocation")
    if c.get("col_dtypes"):
        tags = tags + ["mixed-dtypes"]
        ctx.count("attrs.mixed-dtypes")
    names = None if c["names"] is None else tuple(f"q{n}" for n in c["names"])
    ctx.evaluations += 1
    ctx.count(f"attrs.malformed={c['mal']}")
    # explicit flags win over the global options in force (seeded change C03-11: `flag or option`)
    glob = c.get("global") or {}
    # default flags by omission, outside any option block: what an earlier block set must not linger (seeded change
    # C03-14: get_options() handed out the live dict, so no block ever restored anything)
    omit = not glob and c["rc"] is False and c["rn"] is True and c["id"] % 2 == 0
    try:
      if omit:
        ctx.count("attrs.flags-omitted")
        p = numpoly.polynomial_from_attributes(numpy.array(c["expos"], dtype=int).reshape(len(c["expos"]), -1), cols, names,
                                               **({"allocation": c["allocation"]} if c.get("allocation") is not None else {}))
      else:
       with numpoly.global_options(**glob):
        p = numpoly.polynomial_from_attributes(numpy.array(c["expos"], dtype=int).reshape(len(c["expos"]), -1), cols, names,
                                               retain_coefficients=c["rc"], retain_names=c["rn"],
                                               **({"allocation": c["allocation"]} if c.get("allocation") is not None else {}))
    except numpoly.construct.clean.PolynomialConstructionError:
        if model.get("status") != "err":
            ctx.fail(c, "PolynomialConstructionError for a valid attribute triple", tags + ["raises:construction"])
        else:
            ctx.nontrivial_add(("a", c["id"]))
        return
    except Exception as err:  # noqa: BLE001
        ctx.fail(c, f"polynomial_from_attributes raised {type(err).__name__}: {str(err)[:150]}", tags + [f"raises:{err_kind(err)}"])
        return
    if model.get("status") == "err":
        ctx.fail(c, f"malformed attributes ({c['mal']}) were accepted", tags + ["accepted"])
        return
    if wf_problems(p):
        ctx.fail(c, f"result not well-formed: {wf_problems(p)}", tags + ["wf"])
        return
    s = poly_to_struct(p)
    inp = {"names": c["names"] if c["names"] is not None else list(range(len(c["expos"][0]))), "shape": c["shape"],
           "terms": [[e, col] for e, col in zip(c["expos"], c["cols"])]}
    if den_of_struct(s) != den_of_struct(inp) or s["shape"] != c["shape"]:
        ctx.fail(c, f"constructor changed the polynomial: {den_key(den_of_struct(s))[:150]} vs {den_key(den_of_struct(inp))[:150]}", tags + ["value"])
    elif (s["names"], sorted(map(tuple, (t[0] for t in s["terms"])))) != (model["names"], sorted(map(tuple, (t[0] for t in model["terms"])))):
        ctx.fail(c, f"kept names/rows {s['names']} {[t[0] for t in s['terms']]} but exactly {model['names']} {[t[0] for t in model['terms']]} should be kept (retain_coefficients={c['rc']}, retain_names={c['rn']})", tags + ["cleaning"])
    if len(s["terms"]) != len(c["expos"]) or len(s["names"]) != len(inp["names"]):
        ctx.nontrivial_add(("a", c["id"]))


def regenerate_problems(p):
    """rebuild p three ways; -> list of problems"""
    probs = []
    base = poly_to_struct(p)

    def same(q, how):
        if not isinstance(q, numpoly.ndpoly):
            probs.append(f"{how}: not a polynomial")
            return
        s = poly_to_struct(q)
        if s["shape"] != base["shape"] or s["dtype"] != base["dtype"]:
            probs.append(f"{how}: shape/dtype {s['shape']} {s['dtype']} != {base['shape']} {base['dtype']}")
        elif den_of_struct(s) != den_of_struct(base):
            probs.append(f"{how}: different polynomial")
        elif not set(n for n in base["names"] if any(t[0][base["names"].index(n)] for t in base["terms"])) <= set(s["names"]):
            probs.append(f"{how}: names {s['names']} lost an indeterminate of {base['names']}")
    try:
        same(numpoly.ndpoly.from_attributes(p.exponents, p.coefficients, p.names, dtype=p.dtype,
                                            retain_coefficients=True, retain_names=True), "attributes")
        same(numpoly.aspolynomial(p.values, names=p.names), "values+names")
        if p.size:
            # no dtype argument: the dictionary's values carry the coefficient dtype themselves
            same(numpoly.polynomial(p.todict(), names=p.names), "todict")
    except Exception as err:  # noqa: BLE001
        probs.append(f"regeneration raised {type(err).__name__}: {str(err)[:120]}")
    return probs


def run_dtypes(ctx):
    """regeneration for every numeric coefficient dtype (the catalogue's operands are int64/float64)"""
    rng = ctx.rng("dtypes")
    from ..core import DTYPES
    for dt in DTYPES:
        for shape in [(), (), (2,), (1, 2)]:
            kind = "complex" if dt.startswith("complex") else "float" if dt.startswith("float") else "int"
            s = gen.gen_struct(rng, shape=shape, kind=kind, nterms=int(rng.integers(1, 4)), maxexp=2, lim=1 if dt == "bool" else 3)
            if dt == "bool" or dt.startswith("uint"):
                for t in s["terms"]:
                    t[1] = [abs(int(x)) % (2 if dt == "bool" else 100) if isinstance(x, int) else x for x in t[1]]
            s["dtype"] = dt
            case = {"kind": "dtype-regenerate", "a": s}
            try:
                p = struct_to_poly(s, dtype=dt)
            except Exception as err:  # noqa: BLE001
                ctx.fail(case, f"constructing a {dt} polynomial raised {type(err).__name__}: {str(err)[:100]}", [f"dtype:{dt}", "raises"])
                continue
            ctx.evaluations += 1
            ctx.count("dtype-regenerate")
            rp = regenerate_problems(p)
            if rp:
                ctx.fail(case, f"{dt} polynomial of shape {shape} does not regenerate: {rp}", [f"dtype:{dt}", "regenerate"])


def run_mixed_numbers(ctx):
    """coefficient lists mixing narrow numpy scalars with plain Python numbers: the constructor must denote exactly the
    numbers passed in"""
    from fractions import Fraction
    narrow = [numpy.int8(1), numpy.uint8(7), numpy.int16(-3), numpy.float32(0.5), numpy.array([2, 3], dtype="int8")]
    py = [1000, -70000, 2 ** 40, 0.25]
    for x in narrow:
        for y in py:
            for label, f in (("polynomial_from_attributes", lambda: numpoly.polynomial_from_attributes([[0], [1]], [x, y * numpy.ones(numpy.shape(x), dtype=type(y)) if numpy.shape(x) else y])),
                             ("polynomial(dict)", lambda: numpoly.polynomial({(0,): x, (1,): y * numpy.ones(numpy.shape(x), dtype=type(y)) if numpy.shape(x) else y}))):
                case = {"kind": "mixed-numbers", "route": label, "narrow": repr(x), "python": repr(y)}
                ctx.evaluations += 1
                ctx.count("mixed-numbers")
                try:
                    p = f()
                except Exception as err:  # noqa: BLE001
                    ctx.fail(case, f"{label}({x!r}, {y!r}) raised {type(err).__name__}: {str(err)[:100]}", ["mixed-numbers", "raises"])
                    continue
                got = den_of_struct(poly_to_struct(p))
                xs = [Fraction(v) for v in numpy.atleast_1d(x).tolist()]
                want = {(): tuple(xs), ((0, 1),): tuple(Fraction(y) for _ in xs)}
                if got != want:
                    ctx.fail(case, f"{label}({x!r}, {y!r}) denotes {den_key(got)[:150]}, the attributes say {den_key(want)[:150]}", ["mixed-numbers", "value"])


def run_odd_keys(ctx):
    """terms whose storage key is a character that string predicates treat specially (digits such as the superscripts,
    whitespace, control characters, separators): they are terms like any other (seeded change C03-8: keys for which
    str.isdigit() holds were skipped by `exponents` / `coefficients`)"""
    odd = gen.odd_exponents()
    for k, e in enumerate(odd):
        e2 = odd[(k + 7) % len(odd)]
        for label, names, terms in (("q0**e", [0], [[[e], [2]]]),
                                    ("2*q0**e+1", [0], [[[0], [1]], [[e], [2]]]),
                                    ("q0**e*q1**e2 + q1", [0, 1], [[[e, e2], [3]], [[0, 1], [1]]]),
                                    ("[q0**e, q0**e2]", [0], [[[e], [1, 0]], [[e2], [0, 1]]])):
            shape = [len(terms[0][1])] if len(terms[0][1]) > 1 else []
            s = {"names": names, "shape": shape, "dtype": "int64", "kind": "int", "terms": terms}
            case = {"kind": "odd-keys", "a": s, "exponent": e, "key": repr(chr(e + 59))}
            ctx.evaluations += 1
            ctx.count("odd-keys")
            try:
                p = struct_to_poly(s, dtype="int64")
                probs = wf_problems(p)
                if not probs and den_of_struct(poly_to_struct(p)) != den_of_struct(s):
                    probs = [f"attributes read back as {den_key(den_of_struct(poly_to_struct(p)))[:100]}"]
                if not probs and len(numpy.asarray(p.exponents)) != len(p.values.dtype.names):
                    probs = ["fewer exponent rows than stored fields"]
                probs = probs or regenerate_problems(p)
                # arithmetic goes through the attributes as well
                if not probs:
                    doubled = p + p
                    want = {m: tuple(2 * c for c in cs) for m, cs in den_of_struct(s).items()}
                    if den_of_struct(poly_to_struct(doubled)) != want:
                        probs = [f"p + p reads {den_key(den_of_struct(poly_to_struct(doubled)))[:100]}"]
            except Exception as err:  # noqa: BLE001
                probs = [f"raised {type(err).__name__}: {str(err)[:100]}"]
            if probs:
                ctx.fail(case, f"{label} with e={e} (storage key {chr(e + 59)!r}): {probs}", ["odd-keys", "wf"])


def run_byteorder(ctx):
    """coefficient types with an explicit non-native byte order: same numbers, same polynomial (seeded change C03-10: the
    compiled writer selected by dtype *name* leaves such storage unwritten)"""
    expos = [[0, 0], [1, 0], [0, 2]]
    for dt in (">i8", ">f8", ">c16", ">u4", ">i2", ">f4", ">u8"):
        kind = numpy.dtype(dt).kind
        vals = [[1, 2], [3, 0], [0, 5]]
        want = {(): (Fraction(1), Fraction(2)), ((0, 1),): (Fraction(3), Fraction(0)), ((1, 2),): (Fraction(0), Fraction(5))}
        native = numpy.dtype(dt).newbyteorder("=")
        cols = [numpy.array(v, dtype=native) for v in vals]
        routes = {
            "polynomial_from_attributes(dtype=)": lambda: numpoly.polynomial_from_attributes(expos, cols, ("q0", "q1"), dtype=dt),
            "polynomial_from_attributes(swapped arrays)": lambda: numpoly.polynomial_from_attributes(expos, [c.astype(dt) for c in cols], ("q0", "q1")),
            "polynomial(dict, dtype=)": lambda: numpoly.polynomial({tuple(e): c for e, c in zip(expos, cols)}, names=("q0", "q1"), dtype=dt),
            "astype": lambda: numpoly.polynomial_from_attributes(expos, cols, ("q0", "q1")).astype(dt),
            "polynomial(poly, dtype=)": lambda: numpoly.polynomial(numpoly.polynomial_from_attributes(expos, cols, ("q0", "q1")), dtype=dt),
        }
        for label, make in routes.items():
            case = {"kind": "byteorder", "dtype": dt, "route": label}
            ctx.evaluations += 1
            ctx.count("byteorder")
            try:
                p = make()
                probs = wf_problems(p)
                got = den_of_struct(poly_to_struct(p))
            except Exception as err:  # noqa: BLE001
                ctx.fail(case, f"{label} with dtype {dt} raised {type(err).__name__}: {str(err)[:100]}", ["byteorder", "raises"])
                continue
            if probs:
                ctx.fail(case, f"{label} with dtype {dt}: {probs}", ["byteorder", "wf"])
            elif got != want:
                ctx.fail(case, f"{label} with dtype {dt} denotes {den_key(got)[:120]}, the attributes say {den_key(want)[:120]}", ["byteorder", "value"])
            elif numpy.dtype(p.dtype).newbyteorder("=") != native:
                ctx.fail(case, f"{label} with dtype {dt}: coefficient dtype {p.dtype}", ["byteorder", "dtype"])


def run_cast_zero(ctx):
    """a requested dtype can turn a coefficient into zero (0.4 -> int): which terms are all zero is decided in the
    requested type, so such a term is dropped exactly when retain_coefficients is off (D53)"""
    q0 = numpoly.variable()
    routes = {"polynomial_from_attributes": lambda rc: numpoly.polynomial_from_attributes([[0], [1], [2]], [1, 0.4, 2.5], dtype=int, retain_coefficients=rc),
              "polynomial(poly, dtype=int)": lambda rc: (lambda: numpoly.polynomial(0.4 * q0 + 1 + 2.5 * q0 ** 2, dtype=int))() if not rc else None,
              "from_attributes(arrays)": lambda rc: numpoly.polynomial_from_attributes([[0], [1]], [numpy.array([1.0, 2.0]), numpy.array([0.25, -0.5])], dtype="int8", retain_coefficients=rc)}
    for label, make in routes.items():
        for rc in (False, True):
            case = {"kind": "cast-zero", "route": label, "retain_coefficients": rc}
            ctx.evaluations += 1
            ctx.count("cast-zero")
            try:
                p = make(rc)
            except Exception as err:  # noqa: BLE001
                ctx.fail(case, f"{label} raised {type(err).__name__}: {str(err)[:100]}", ["cast-zero", "raises"])
                continue
            if p is None:
                continue
            zero_rows = [e for e, c in zip(p.exponents.tolist(), p.coefficients) if any(e) and not numpy.any(c)]
            if wf_problems(p):
                ctx.fail(case, f"{label}: {wf_problems(p)}", ["cast-zero", "wf"])
            elif not rc and zero_rows:
                ctx.fail(case, f"{label} with retain_coefficients off keeps the all-zero term(s) {zero_rows} (zero after the cast to the requested dtype)",
                         ["cast-zero", "cleaning"])
            elif rc and not zero_rows:
                ctx.fail(case, f"{label} with retain_coefficients on dropped the term that the cast turned into zero", ["cast-zero", "cleaning"])


def run_allocations(ctx):
    """every public constructor that takes `allocation`, for every allocation from the number of terms to three times it"""
    makers = [("variable(3)", 3, lambda a: numpoly.variable(3, allocation=a)),
              ("monomial(4)", 4, lambda a: numpoly.monomial(4, allocation=a)),
              ("symbols('q0 q1')", 2, lambda a: numpoly.symbols("q0 q1", allocation=a)),
              ("polynomial(dict)", 3, lambda a: numpoly.polynomial({(0, 0): 1, (1, 0): [2, 3], (0, 2): 4}, allocation=a)),
              ("polynomial(list)", 3, lambda a: numpoly.polynomial([numpoly.variable(2)[0] + 1, numpoly.variable(2)[1] ** 2], allocation=a)),
              ("ndpoly", 3, lambda a: numpoly.ndpoly([[0], [1], [2]], shape=(2,), allocation=a))]
    for label, k, make in makers:
        ref = None
        for a in [None] + list(range(k, 3 * k + 1)):
            case = {"kind": "allocation", "maker": label, "allocation": a}
            ctx.evaluations += 1
            ctx.count("allocation")
            try:
                p = make(a)
                if label == "ndpoly":
                    for key in p.keys:
                        p.values[key] = 1
                probs = wf_problems(p) + regenerate_problems(p)
                den = den_of_struct(poly_to_struct(p))
            except Exception as err:  # noqa: BLE001
                ctx.fail(case, f"{label} with allocation={a} raised {type(err).__name__}: {str(err)[:100]}", ["allocation", "raises"])
                continue
            if probs:
                ctx.fail(case, f"{label} with allocation={a}: {probs}", ["allocation", "wf"])
            elif ref is None:
                ref = den
            elif den != ref:
                ctx.fail(case, f"{label} with allocation={a} denotes another polynomial than without", ["allocation", "value"])


def run_catalogue(ctx):
    rng = ctx.rng("catalogue")
    reps = 12 if ctx.quick else 150
    ents = catalogue.entries()
    for e in ents:
        for _ in range(reps):
            spec = e.gen(rng)
            case = {"kind": "catalogue", "entry": e.name, "spec": spec}
            try:
                res = e.call(*catalogue.build(spec))
            except Exception as err:  # noqa: BLE001
                if isinstance(err, e.raises_ok):
                    ctx.count("entry-rejects-arguments")       # a documented rejection (e.g. a name outside varname_filter)
                    continue
                ctx.fail(case, f"{e.name} raised {type(err).__name__}: {str(err)[:150]}", [f"entry:{e.name}", f"raises:{err_kind(err)}"])
                continue
            ctx.evaluations += 1
            ctx.count(f"group={e.group}")
            for p in catalogue.results_of(res):
                if p.size == 0:
                    continue
                wf = wf_problems(p)
                if len(p.exponents) >= 2:
                    ctx.nontrivial_add(("c", e.name, json.dumps(spec, sort_keys=True, default=str)[:300]))
                if wf:
                    ctx.fail(case, f"{e.name}: result not well-formed: {wf}", [f"entry:{e.name}", "wf"])
                    break
                rp = regenerate_problems(p)
                if rp:
                    ctx.fail(case, f"{e.name}: result does not regenerate: {rp}", [f"entry:{e.name}", "regenerate"])
                    break
        if ctx.out_of_time():
            ctx.notes.append("catalogue stopped early: time budget")
            break
    ctx.extra["catalogue_entries"] = len(ents)


def run(ctx):
    ctx.rule = RULE
    rng = ctx.rng("attrs")
    n = 1500 if ctx.quick else 25000
    cases = [gen_attr_case(rng, i) for i in range(n)]
    answers = run_driver([attr_driver(c) for c in cases])
    for c, ans in zip(cases, answers):
        if ans.get("status") == "bad":
            raise RuntimeError(f"driver: {ans}")
        check_attrs(ctx, c, ans)
    ctx.sample({"attrs": {k: cases[0][k] for k in ("names", "expos", "cols", "shape", "rc", "rn")}, "model": {k: v for k, v in answers[0].items() if k != "id"}})
    run_catalogue(ctx)
    run_dtypes(ctx)
    run_mixed_numbers(ctx)
    run_allocations(ctx)
    run_odd_keys(ctx)
    run_byteorder(ctx)
    run_cast_zero(ctx)


def replay(ctx, case):
    n = len(ctx.failures)
    if case["kind"] == "dtype-regenerate":
        rp = regenerate_problems(struct_to_poly(case["a"], dtype=case["a"]["dtype"]))
        return str(rp) if rp else None
    if case["kind"] == "odd-keys":
        run_odd_keys(ctx)
        hits = [f for f in ctx.failures[n:] if f["case"].get("exponent") == case["exponent"]]
        return hits[0]["what"] if hits else None
    if case["kind"] == "cast-zero":
        run_cast_zero(ctx)
        hits = [f for f in ctx.failures[n:] if f["case"].get("route") == case["route"] and f["case"].get("retain_coefficients") == case["retain_coefficients"]]
        return hits[0]["what"] if hits else None
    if case["kind"] == "byteorder":
        run_byteorder(ctx)
        hits = [f for f in ctx.failures[n:] if f["case"].get("dtype") == case["dtype"] and f["case"].get("route") == case["route"]]
        return hits[0]["what"] if hits else None
    if case["kind"] == "allocation":
        run_allocations(ctx)
        return ctx.failures[n]["what"] if len(ctx.failures) > n else None
    if case["kind"] == "mixed-numbers":
        run_mixed_numbers(ctx)
        return ctx.failures[n]["what"] if len(ctx.failures) > n else None
    if case["kind"] == "attrs":
        check_attrs(ctx, case, run_driver([attr_driver(case)])[0])
    else:
        e = next(x for x in catalogue.entries() if x.name == case["entry"])
        res = e.call(*catalogue.build(case["spec"]))
        for p in catalogue.results_of(res):
            if wf_problems(p) or regenerate_problems(p):
                return str(wf_problems(p) + regenerate_problems(p))
    return ctx.failures[n]["what"] if len(ctx.failures) > n else None

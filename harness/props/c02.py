"""C02 - evaluation and substitution compute the polynomial's value (all carrier types agree)."""
from __future__ import annotations

from fractions import Fraction

from ..core import (numpy, numpoly, run_driver, poly_to_struct, any_to_struct, den_of_struct, den_key, err_kind,
                    Monitor, coef_json, coef_from_json, to_exact, wf_problems)
from .. import gen

RULE = ("C01 polynomial arrays (exponents <= 3) x argument assignments: full / partial, positional / keyword / None "
        "placeholders, numbers (small ints incl. negative, ints > 2**16, dyadic floats, complex), array arguments of "
        "shapes () .. (2,1,3) broadcasting among themselves, polynomial-valued arguments incl. swaps q0<->q1; every "
        "numeric argument is additionally re-sent as each Python / numpy carrier type that represents it exactly "
        "(int, bool, float, complex, every numpy width, 0-d array) and all answers must equal the model's; staged "
        "evaluation is compared with evaluation at once; unknown / doubly supplied names must raise TypeError. "
        "non-trivial = polynomial has >= 2 non-zero terms and at least one bound name occurs in it")

ARG_SHAPES = [(), (), (), (2,), (3,), (1,), (2, 1), (1, 3), (2, 1, 3), (2, 2)]
INT_CARRIERS = ["int", "int8", "int16", "int32", "int64", "float", "float32", "float64", "complex", "0d"]
UINT_CARRIERS = ["uint8", "uint16", "uint32", "uint64", "bool"]


NEAR_LIMIT = {"int8": [100, -100, 127], "int16": [20000, -30000], "int32": [70000, -50000], "uint8": [200, 255]}


def gen_value(rng, big_ok, narrow=None, array=False):
    r = rng.random()
    if array and r < .3:
        # array arguments whose entries fit a narrow carrier while their squares do not (seeded change C02-7)
        return Fraction(int(gen.choice(rng, [100, -100, 127, 200, 255, 20000, -30000, 70000])))
    if narrow and big_ok and r < .45:
        # values that fit the polynomial's narrow coefficient dtype but whose squares / products do not
        return Fraction(int(gen.choice(rng, NEAR_LIMIT[narrow])))
    if r < .55:
        return Fraction(int(rng.integers(-3, 4)))
    if r < .65 and big_ok:
        return Fraction(int(gen.choice(rng, [70000, 2 ** 16 + 1, -70001, 100003])))
    if r < .85:
        return Fraction(int(rng.integers(-6, 7)), 2)
    return (Fraction(int(rng.integers(-2, 3))), Fraction(int(rng.integers(-2, 3)) or 1))


def gen_case(rng, i):
    a = gen.gen_struct(rng, kind=gen.choice(rng, ["int", "float"], p=[.75, .25]), maxexp=3, lim=3,
                       shape=gen.gen_shape(rng, maxdim=2))
    names = a["names"]
    maxdeg = max((sum(t[0]) for t in a["terms"]), default=0)
    big_ok = maxdeg <= 2
    mode = gen.choice(rng, ["full", "partial", "poly", "swap", "error"], p=[.45, .2, .15, .1, .1])
    r = rng.random()
    if a["kind"] == "int" and r < .2:
        # narrow coefficient dtypes: the value of a call must not depend on the coefficient dtype either (arguments are
        # raised and multiplied in the promoted type, never in the polynomial's own narrow one)
        a["dtype"] = gen.choice(rng, ["int8", "int16", "int32", "uint8"])
        if a["dtype"] == "uint8":
            for t in a["terms"]:
                t[1] = [abs(v) if isinstance(v, int) else v for v in t[1]]
    elif a["kind"] == "float" and r < .25:
        # tiny but non-zero coefficients (2**-60 scale): a partially evaluated polynomial stays a polynomial
        for t in a["terms"]:
            t[1] = [coef_json(coef_from_json(v) / 2 ** 60) for v in t[1]]
    args, kwargs = [], []
    bound = {}
    # argument shapes broadcasting among themselves
    common = gen.choice(rng, ARG_SHAPES)
    for k, nm in enumerate(names):
        if mode == "partial" and rng.random() < .5:
            continue
        if mode == "swap":
            other = names[(k + 1) % len(names)]
            bound[nm] = {"names": [other], "shape": [], "dtype": "int64", "kind": "int", "terms": [[[1], [1]]], "as": "poly"}
            continue
        if mode == "poly" and rng.random() < .6:
            if rng.random() < .4:
                # three or more terms in one indeterminate (evenly spaced exponents collide when such an argument is
                # squared: seeded change C02-14 lost a cross term landing on a square's exponent)
                s = gen.gen_struct(rng, names=gen.gen_names(rng, 1, 1), shape=gen.sub_shape(rng, common), kind="int", nterms=3, maxexp=2, lim=2, zero_prob=0.)
            else:
                s = gen.gen_struct(rng, names=gen.gen_names(rng, 1, 2), shape=gen.sub_shape(rng, common), kind="int", nterms=2, maxexp=1, lim=2)
            s["as"] = "poly"
            if rng.random() < .3:
                # a polynomial argument whose coefficients have a type without a compiled product kernel: its powers are
                # formed on the numpy path of multiply (seeded change C02-15: products filed under another pair's exponent)
                s["dtype"] = gen.choice(rng, ["int32", "int16"])
            bound[nm] = s
            continue
        shape = gen.sub_shape(rng, common)
        size = int(numpy.prod(shape, dtype=int))
        vals = [gen_value(rng, big_ok and not shape, a["dtype"] if a.get("dtype") in NEAR_LIMIT else None,
                          array=big_ok and bool(shape)) for _ in range(size)]
        kind = "complex" if any(isinstance(v, tuple) for v in vals) else ("float" if any(v.denominator != 1 for v in vals) else "int")
        bound[nm] = {"names": [0], "shape": list(shape), "dtype": gen.KIND_DTYPE[kind], "kind": kind,
                     "terms": [[[0], [coef_json(v) for v in vals]]], "as": "scalar" if not shape else "ndarray"}
    # split into positional / keyword
    positional = True
    for k, nm in enumerate(names):
        if nm in bound and positional and rng.random() < .6:
            while len(args) < k:
                args.append(None)
            args.append(bound[nm])
        else:
            if nm not in bound:
                if rng.random() < .5:
                    positional = positional and True
                if rng.random() < .3:
                    # `None` as a keyword value: a placeholder like a positional None (D55)
                    kwargs.append([nm, None])
                    positional = False
                continue
            positional = positional and rng.random() < .5
            kwargs.append([nm, bound[nm]])
    err = None
    if mode == "error":
        if rng.random() < .5 or not args:
            kwargs.append([gen.choice(rng, [7, 8, 11]), None if rng.random() < .25 else gen.gen_const_struct(rng, shape=(), kind="int") | {"as": "scalar"}])
            err = "unknown"
        else:
            k = next(i for i, x in enumerate(args) if x is not None)
            kwargs.append([names[k], args[k]])
            err = "double"
    if len(names) >= 2 and mode != "error" and rng.random() < .15:
        # the polynomial's own names declared in a rotated / reversed order; positional arguments follow the stored name
        # tuple, so every argument goes by keyword (seeded change C02-13: a reorder of the exponent columns by the inverse
        # permutation, invisible for two names and for reversals)
        a["as"] = gen.choice(rng, ["poly_rot", "poly_perm"])
        kwargs = [[names[k], x] for k, x in enumerate(args) if x is not None] + kwargs
        args = []
    # bound the magnitude: values up to 1e5 squared with coefficient 3 and 6 terms stay far below 2**52
    return {"id": i, "kind": "c02", "a": a, "args": args, "kwargs": kwargs, "mode": mode, "err": err}


def strip(s):
    return None if s is None else {k: s[k] for k in ("names", "shape", "terms")}


def driver_case(c):
    return {"id": c["id"], "op": "call", "opts": {"retain_coefficients": False, "retain_names": True},
            "a": strip(c["a"]), "args": [strip(x) for x in c["args"]], "kwargs": [[k, strip(v)] for k, v in c["kwargs"]]}


def carrier_variants(struct):
    """all Python/numpy objects that carry the same numeric scalar exactly"""
    if struct.get("as") == "ndarray" and struct.get("kind") == "int":
        arr = gen.materialize(struct, "ndarray")
        out = []
        for name in ("int8", "uint8", "int16", "uint16", "int32", "uint32", "float16", "float32"):
            with numpy.errstate(all="ignore"):
                cast = arr.astype(name)
            if numpy.array_equal(cast.astype(object), arr.astype(object)):
                out.append((name + "-array", cast))
        return out
    if struct.get("as") != "scalar":
        return [("as-is", gen.materialize(struct, struct.get("as", "ndarray")))]
    v = coef_from_json(struct["terms"][0][1][0])
    out = []
    if isinstance(v, tuple):
        c = complex(float(v[0]), float(v[1]))
        return [("complex", c), ("complex128", numpy.complex128(c)), ("complex64", numpy.complex64(c))]
    if v.denominator == 1:
        n = int(v)
        out.append(("int", n))
        for name in ("int8", "int16", "int32", "int64"):
            # any width that represents the value itself: powers and products must be formed in the promoted type
            # (the repair of D32), never in the carrier's own narrow type
            if abs(n) <= numpy.iinfo(name).max:
                out.append((name, numpy.dtype(name).type(n)))
        if n >= 0:
            for name in ("uint8", "uint16", "uint32", "uint64"):
                if n <= numpy.iinfo(name).max and (name != "uint64" or n < 2 ** 20):
                    out.append((name, numpy.dtype(name).type(n)))
        if n in (0, 1):
            out.append(("bool", bool(n)))
            out.append(("bool_", numpy.bool_(n)))
        out.append(("0d", numpy.array(n)))
        for name in ("int8", "uint8", "int16", "int32", "float16", "float32"):
            with numpy.errstate(all="ignore"):
                cast = numpy.array(n).astype(name)
            if cast.astype(object).item() == n:
                out.append(("0d-" + name, cast))
    f = float(v)
    out.append(("float", f))
    out.append(("float64", numpy.float64(f)))
    with numpy.errstate(all="ignore"):
        if float(numpy.float32(f)) == f:
            out.append(("float32", numpy.float32(f)))
        if float(numpy.float16(f)) == f and abs(f) < 60000:
            out.append(("float16", numpy.float16(f)))
    out.append(("complex", complex(f)))
    return out


def result_struct(res):
    if isinstance(res, numpoly.ndpoly):
        s = poly_to_struct(res)
        s["is_poly"] = True
        return s
    s = any_to_struct(numpy.asarray(res))
    s["is_poly"] = False
    return s


def call_impl(p, args, kwargs):
    return p(*args, **{f"q{k}" if isinstance(k, int) else k: v for k, v in kwargs})


def check(ctx, c, model, monitor=None):
    tags = [f"mode:{c['mode']}"]
    p = gen.materialize(c["a"], c["a"].get("as", "poly"))
    ctx.evaluations += 1
    ctx.count(f"mode={c['mode']}")
    if c["a"].get("as", "poly") != "poly":
        ctx.count("names-declared-in-another-order")
    den_p = den_of_struct(c["a"])
    used = {n for m in den_p for n, _ in m}
    boundnames = {c["a"]["names"][k] for k, x in enumerate(c["args"]) if x is not None} | {k for k, _ in c["kwargs"]}
    if len(den_p) >= 2 and used & boundnames:
        ctx.nontrivial_add((c["id"],))
    # the list of argument materialisations: first the generator's own choice, then one carrier swap at a time
    base_args = [None if x is None else gen.materialize(x, x.get("as", "poly")) for x in c["args"]]
    base_kwargs = [[k, None if v is None else gen.materialize(v, v.get("as", "poly"))] for k, v in c["kwargs"]]
    variants = [("base", base_args, base_kwargs)]
    slots = [("arg", i, x) for i, x in enumerate(c["args"]) if x is not None] + [("kw", i, v) for i, (_, v) in enumerate(c["kwargs"]) if v is not None]
    for where, i, x in slots:
        for cname, obj in carrier_variants(x)[:32] if x.get("as") == "scalar" or (x.get("as") == "ndarray" and x.get("kind") == "int") else []:
            a2, k2 = list(base_args), [list(kv) for kv in base_kwargs]
            if where == "arg":
                a2[i] = obj
            else:
                k2[i][1] = obj
            variants.append((f"{where}{i}:{cname}", a2, k2))
    variants.append(("function-spelling, kwargs dict used twice", base_args, base_kwargs))
    for vname, args, kwargs in variants:
        ctx.count("calls")
        try:
            if vname.startswith("function-spelling"):
                d = {f"q{k}" if isinstance(k, int) else k: v for k, v in kwargs}
                keys_before = list(d)
                first = numpoly.call(p, tuple(args), d)
                res = numpoly.call(p, tuple(args), d)
                if list(d) != keys_before:
                    ctx.fail(c, f"numpoly.call(poly, args, kwargs) changed the caller's kwargs dict: {keys_before} -> {list(d)}", tags + ["kwargs-mutated"])
                    return
                if result_struct(first) != result_struct(res):
                    ctx.fail(c, "numpoly.call(poly, args, kwargs) gives different results on the first and the second call with the same dict", tags + ["kwargs-mutated", "value"])
                    return
            elif monitor:
                with monitor.watch("C02:call", p, *[x for x in args if x is not None], *[v for _, v in kwargs if v is not None]):
                    res = call_impl(p, args, kwargs)
            else:
                res = call_impl(p, args, kwargs)
        except TypeError as err:
            if model.get("status") == "err" and model.get("kind") == "typeError":
                continue
            ctx.fail(c, f"call raised TypeError: {err} [{vname}]", tags + ["raises:typeError"])
            return
        except Exception as err:  # noqa: BLE001
            ctx.fail(c, f"call raised {type(err).__name__}: {str(err)[:150]} [{vname}]", tags + [f"raises:{err_kind(err)}", f"carrier:{vname.split(':')[-1]}"])
            return
        if model.get("status") == "err":
            if model.get("kind") == "typeError":
                ctx.fail(c, f"{c['err']} keyword accepted without TypeError [{vname}]", tags + ["no-typeerror"])
            elif model.get("kind") == "valueError":
                ctx.fail(c, "argument shapes do not broadcast but a value was returned", tags)
            return
        s = result_struct(res)
        want_poly = model["kind"] == "poly"
        wshape = model["shape"]
        if want_poly:
            dm = den_of_struct(model)
        else:
            dm = den_of_struct({"names": [0], "shape": wshape, "terms": [[[0], model["value"]]]})
        if s["shape"] != wshape:
            ctx.fail(c, f"result shape {s['shape']} != poly.shape + broadcast(argument shapes) = {wshape} [{vname}]", tags + ["shape"])
            return
        if den_of_struct(s) != dm:
            ctx.fail(c, f"value {den_key(den_of_struct(s))[:200]} != exact {den_key(dm)[:200]} [{vname}]",
                     tags + ["value", f"carrier:{vname.split(':')[-1]}"])
            return
        if s["is_poly"] != want_poly:
            ctx.fail(c, f"result is {'a polynomial' if s['is_poly'] else 'a plain array'} but should be {'a polynomial' if want_poly else 'a plain array'} [{vname}]", tags + ["kind"])
            return
        if s["is_poly"] and wf_problems(res):
            ctx.fail(c, f"result not well-formed {wf_problems(res)}", tags + ["wf"])
            return
    # staged evaluation: bind the first bound name alone, then the rest
    if model.get("status") == "ok" and c["mode"] in ("full", "partial") and len(c["kwargs"]) + sum(x is not None for x in c["args"]) >= 2:
        allk = [[c["a"]["names"][k], gen.materialize(x, x.get("as", "poly"))] for k, x in enumerate(c["args"]) if x is not None] + [kv for kv in base_kwargs if kv[1] is not None]
        try:
            first = call_impl(p, [], allk[:1])
            if isinstance(first, numpoly.ndpoly):
                rest = [kv for kv in allk[1:] if f"q{kv[0]}" in first.names]
                staged = call_impl(first, [], rest)
                once = call_impl(p, [], allk)
                # compare values where shapes coincide (staging moves argument axes)
                if numpy.asarray(staged if not isinstance(staged, numpoly.ndpoly) else 0).shape == numpy.asarray(once if not isinstance(once, numpoly.ndpoly) else 0).shape \
                        and not isinstance(staged, numpoly.ndpoly) and not isinstance(once, numpoly.ndpoly):
                    ctx.count("staged")
                    if all(not kv[1].shape if hasattr(kv[1], "shape") else True for kv in allk):
                        if not numpy.array_equal(numpy.asarray(staged), numpy.asarray(once)):
                            ctx.fail(c, f"staged evaluation {staged} != evaluation at once {once}", tags + ["staged"])
        except Exception as err:  # noqa: BLE001
            ctx.fail(c, f"staged evaluation raised {type(err).__name__}: {str(err)[:120]}", tags + ["staged", "raises"])


def corpus():
    one = lambda names, shape, terms: {"names": names, "shape": shape, "dtype": "int64", "kind": "int", "terms": terms}
    sc = lambda v: {"names": [0], "shape": [], "dtype": "int64", "kind": "int", "terms": [[[0], [v]]], "as": "scalar"}
    return [
        {"id": "corpus-D2a", "kind": "c02", "a": one([0], [], [[[3], [1]]]), "args": [sc(-1)], "kwargs": [], "mode": "full", "err": None},
        {"id": "corpus-D2b", "kind": "c02", "a": one([0], [], [[[2], [1]]]), "args": [sc(70000)], "kwargs": [], "mode": "full", "err": None},
        # narrow coefficient types evaluated at numbers whose powers leave that type, through every carrier that holds the
        # number itself (seeded change C02-11: the argument promoted with the polynomial's dtype instead of int64)
        {"id": "corpus-narrow16", "kind": "c02", "a": dict(one([0], [], [[[2], [2]], [[1], [-1]], [[0], [1]]]), dtype="int16"),
         "args": [sc(200)], "kwargs": [], "mode": "full", "err": None},
        {"id": "corpus-narrow8", "kind": "c02", "a": dict(one([0], [], [[[2], [1]], [[0], [3]]]), dtype="int8"),
         "args": [sc(100)], "kwargs": [], "mode": "full", "err": None},
        {"id": "corpus-narrow32", "kind": "c02", "a": dict(one([0, 1], [2], [[[2, 0], [1, 0]], [[1, 1], [0, 1]]]), dtype="int32"),
         "args": [sc(70000), sc(3)], "kwargs": [], "mode": "full", "err": None},
        {"id": "corpus-narrowu8", "kind": "c02", "a": dict(one([0], [], [[[3], [1]]]), dtype="uint8"),
         "args": [sc(20)], "kwargs": [], "mode": "full", "err": None},
    ]


def run(ctx):
    ctx.rule = RULE
    rng = ctx.rng("cases")
    monitor = Monitor()
    n = 700 if ctx.quick else 8000
    cases = corpus() + [gen_case(rng, i) for i in range(n)]
    answers = run_driver([driver_case(c) for c in cases])
    for c, ans in zip(cases, answers):
        if ans.get("status") == "bad":
            raise RuntimeError(f"driver: {ans}")
        ctx.count(f"model={ans.get('status')}:{ans.get('kind')}")
        check(ctx, c, ans, monitor)
        if ctx.out_of_time():
            ctx.notes.append("stopped early: time budget")
            break
    ctx.sample({"a": cases[3]["a"], "args": cases[3]["args"], "kwargs": cases[3]["kwargs"], "model": {k: v for k, v in answers[3].items() if k != "id"}})
    ctx.extra["argument_monitor"] = {"calls": monitor.calls, "mutations": monitor.events[:5]}


def replay(ctx, case):
    n = len(ctx.failures)
    check(ctx, case, run_driver([driver_case(case)])[0])
    return ctx.failures[n]["what"] if len(ctx.failures) > n else None

"""C11 - on constant polynomials every mirrored function behaves exactly like numpy."""
from __future__ import annotations

import itertools
import warnings

from ..core import numpy, numpoly, run_driver, err_kind, Monitor
from .. import gen

RULE = ("every registered function (table of argument grids; functions without a numeric meaning on constants - "
        "array_repr/array_str/savetxt - are listed as skipped) x numeric arrays of 0-3 dimensions with repeated values, "
        "negatives, zeros, ints and dyadic floats x all axis / keepdims arguments valid for the shape: numpoly on the "
        "constant polynomial(s) next to numpy on the raw array(s); values, shape and (for boolean / index results) the "
        "type must agree; the numeric division functions with a non-constant divisor must raise FeatureNotSupported. "
        "Each function must be classified in the Lean pattern table (obligation checked by decide). "
        "non-trivial = the array has >= 2 elements and a repeated value")

FNS = numpoly.baseclass.FeatureNotSupported


def arr(rng, shape=None, kind=None, lo=-3, hi=3):
    shape = gen.gen_shape(rng) if shape is None else shape
    kind = kind or gen.choice(rng, ["int", "float"], p=[.6, .4])
    a = rng.integers(lo, hi + 1, size=shape)
    if kind == "float":
        a = a / 2.0
    return numpy.asarray(a)


def axes(nd, tuples=False):
    out = [None] + list(range(-nd, nd))
    if tuples and nd >= 2:
        out += list(itertools.combinations(range(nd), 2))
        out += [(a, b - nd) for a, b in itertools.combinations(range(nd), 2)]
    return out


def table():
    """name -> rng -> (arrays, f(np_or_numpoly_module, converted arrays) , info, tags)"""
    T = {}
    sh13 = lambda r: gen.choice(r, [(3,), (4,), (2, 3), (3, 2), (2, 2, 2), (2, 1, 3), (1, 4)])

    def unary(nm, kind=None):
        T[nm] = lambda r: ([arr(r, kind=kind)], lambda M, a: getattr(M, nm)(a), {}, [])
    for nm in ("absolute", "negative", "positive", "square", "isfinite"):
        unary(nm)
    for nm in ("ceil", "floor", "rint"):
        unary(nm, "float")
    T["around"] = lambda r: (lambda d: ([arr(r, kind="float")], lambda M, a: M.around(a, d), {"decimals": d}, []))(int(r.integers(0, 2)))
    T["round"] = lambda r: (lambda d: ([arr(r, kind="float")], lambda M, a: M.round(a, d), {"decimals": d}, []))(int(r.integers(0, 2)))

    def binary(nm, kinds=None, nonzero_b=False):
        def mk(r):
            sa, sb = gen.gen_shape_pair(r)
            k = kinds or gen.choice(r, ["int", "float"])
            a, b = arr(r, sa, k), arr(r, sb, k)
            if nonzero_b:
                b = numpy.where(b == 0, 2 if k == "int" else 1.5, b)
            return [a, b], lambda M, x, y: getattr(M, nm)(x, y), {}, []
        T[nm] = mk
    for nm in ("add", "subtract", "multiply", "equal", "not_equal", "greater", "greater_equal", "less", "less_equal",
               "maximum", "minimum", "logical_and", "logical_or"):
        binary(nm)
    def float_division(nm):
        # binary fractions hide rounding: 1.0 // 0.1 is 9.0 (the remainder is just below 0.1), not floor(1.0 / 0.1) = 10.0
        def mk(r):
            if r.random() < .35:
                sa, sb = gen.gen_shape_pair(r)
                k = gen.choice(r, ["int", "float"])
                a, b = arr(r, sa, k), arr(r, sb, k)
                b = numpy.where(b == 0, 2 if k == "int" else 1.5, b)
                return [a, b], lambda M, x, y: getattr(M, nm)(x, y), {}, []
            sh = gen.choice(r, [(), (3,), (4,), (2, 2), (2, 3)])
            a = r.choice([1.0, 0.7, 2.0, -1.0, 0.3, 4.9, -0.7, 5.0, 7.0, 3.0], size=sh)
            b = r.choice([0.1, 0.3, 0.7, -0.1, 0.2, 3.0, 10.0, 2.5], size=sh if r.random() < .5 else ())
            return [numpy.asarray(a), numpy.asarray(b)], lambda M, x, y: getattr(M, nm)(x, y), {"values": "decimal fractions"}, []
        T[nm] = mk
    for nm in ("floor_divide", "divide", "true_divide", "remainder", "mod", "divmod"):
        float_division(nm)

    def closeness(nm):
        # tolerances given positionally (numpy's order: rtol, atol), by keyword, or left out; values chosen so that the
        # two tolerances matter differently
        def mk(r):
            sa, sb = gen.gen_shape_pair(r)
            if r.random() < .7:
                sb = sa
            if r.random() < .2:
                # the tolerance is relative to the SECOND operand: pairs whose distance lies between rtol*|a| and rtol*|b|
                # (seeded change C11-9: operands swapped)
                pairs = [(1.0, 1.11), (1.11, 1.0), (10.0, 11.05), (11.05, 10.0), (-2.0, -2.21), (0.0, 1e-9), (1e-9, 0.0)]
                pick = [pairs[int(k)] for k in r.integers(len(pairs), size=4)]
                a = numpy.array([x for x, _ in pick]); b = numpy.array([y for _, y in pick])
                how = gen.choice(r, ["positional", "keyword"])
                f = (lambda M, x, y: getattr(M, nm)(x, y, 0.1, 0.0)) if how == "positional" else (lambda M, x, y: getattr(M, nm)(x, y, rtol=0.1, atol=0.0))
                return [a, b], f, {"rtol": 0.1, "atol": 0.0, "how": how, "values": "asymmetric"}, []
            if r.random() < .3:
                # integers that differ but lie within the tolerance (large ones under the defaults, small ones with atol >= 1)
                big = r.random() < .5
                a = r.integers(100000, 3000000, size=sa) if big else r.integers(-5, 6, size=sa)
                b = (a if sb == sa else (r.integers(100000, 3000000, size=sb) if big else r.integers(-5, 6, size=sb))) + r.integers(0, 3, size=sb)
                rtol, atol = [(1e-5, 1e-8), (0.0, 1.0), (0.0, 2.5), (0.5, 0.0)][int(r.integers(4))] if not big else (1e-5, 1e-8)
                how = "default" if big else gen.choice(r, ["positional", "keyword"])
                f = {"default": lambda M, x, y: getattr(M, nm)(x, y), "positional": lambda M, x, y: getattr(M, nm)(x, y, rtol, atol),
                     "keyword": lambda M, x, y: getattr(M, nm)(x, y, rtol=rtol, atol=atol)}[how]
                return [numpy.asarray(a), numpy.asarray(b)], f, {"rtol": rtol, "atol": atol, "how": how, "values": "integers"}, []
            a = arr(r, sa, "float") * 2.0
            b = (a if sb == sa else arr(r, sb, "float") * 2.0) + r.choice([0.0, 0.05, 0.25, -0.25, 0.5], size=sb)
            rtol, atol = [(0.3, 0.05), (0.05, 0.3), (0.0, 0.25), (0.25, 0.0)][int(r.integers(4))]
            how = gen.choice(r, ["positional", "keyword", "default", "rtol-only"])
            if how == "positional":
                f = lambda M, x, y: getattr(M, nm)(x, y, rtol, atol)
            elif how == "keyword":
                f = lambda M, x, y: getattr(M, nm)(x, y, atol=atol, rtol=rtol)
            elif how == "rtol-only":
                f = lambda M, x, y: getattr(M, nm)(x, y, rtol)
            else:
                f = lambda M, x, y: getattr(M, nm)(x, y)
            return [a, b], f, {"rtol": rtol, "atol": atol, "how": how}, []
        T[nm] = mk
    closeness("isclose")
    closeness("allclose")
    T["power"] = lambda r: (lambda k: ([arr(r, kind="int")], lambda M, a: M.power(a, k), {"exponent": k}, []))(int(r.integers(0, 4)))

    def reduction(nm, keepdims=True, tuples=False, kind=None):
        def mk(r):
            sh = sh13(r)
            ax = gen.choice(r, axes(len(sh), tuples))
            kw = {} if ax is None else {"axis": ax}
            if keepdims and r.random() < .4:
                kw["keepdims"] = True
            tags = (["axis"] if ax is not None else []) + (["keepdims"] if kw.get("keepdims") else []) + \
                (["axis-tuple", "axis-tuple-keepdims" if kw.get("keepdims") else "axis-tuple-nokeepdims"] if isinstance(ax, tuple) else [])
            return [arr(r, sh, kind, lo=-2, hi=2)], lambda M, a: getattr(M, nm)(a, **kw), kw, tags
        T[nm] = mk
    for nm in ("sum", "mean", "all", "any", "amax", "amin", "max", "min", "count_nonzero"):
        reduction(nm, True, nm in ("sum", "all", "any", "amax", "amin", "max", "min", "mean", "count_nonzero"))
    reduction("prod", True, True, "int")
    reduction("cumsum", False)
    reduction("argmax", False)
    reduction("argmin", False)
    # the ufunc.reduce / ufunc.accumulate spellings with the axis left out (numpy's default there is axis 0, not None)
    for nm, u in (("sum", "add"), ("prod", "multiply"), ("amax", "maximum"), ("amin", "minimum"), ("all", "logical_and"), ("any", "logical_or")):
        T[nm + "/reduce"] = (lambda u: lambda r: ([arr(r, sh13(r), "int", lo=-2, hi=2)], lambda M, a: getattr(numpy, u).reduce(a), {"spelling": f"numpy.{u}.reduce(a)"}, ["axis"]))(u)
    T["cumsum/accumulate"] = lambda r: ([arr(r, sh13(r), "int")], lambda M, a: numpy.add.accumulate(a), {"spelling": "numpy.add.accumulate(a)"}, [])
    T["nonzero"] = lambda r: ([arr(r, sh13(r))], lambda M, a: M.nonzero(a), {}, [])
    T["reshape"] = lambda r: ([arr(r, (2, 3))], lambda M, a: M.reshape(a, (3, 2)), {}, [])
    # order="A" reads a Fortran-contiguous operand (a transposed view) in Fortran order (seeded change C11-16: the reshape went
    # through C-ordered copies of the coefficients)
    T["reshape/order-A-of-transposed"] = lambda r: (lambda o: ([arr(r, gen.choice(r, [(2, 3), (3, 2), (2, 2, 2)]))], lambda M, a: M.reshape(a.T, -1, order=o), {"order": o}, []))(
        gen.choice(r, ["A", "A", "F", "C"]))
    T["transpose"] = lambda r: ([arr(r, sh13(r))], lambda M, a: M.transpose(a), {}, [])
    T["moveaxis"] = lambda r: ([arr(r, (2, 1, 3))], lambda M, a: M.moveaxis(a, 0, -1), {}, [])
    T["expand_dims"] = lambda r: ([arr(r)], lambda M, a: M.expand_dims(a, 0), {}, [])
    for nm in ("atleast_1d", "atleast_2d", "atleast_3d", "zeros_like", "ones_like"):
        T[nm] = (lambda nm: lambda r: ([arr(r)], lambda M, a: getattr(M, nm)(a), {}, []))(nm)
    T["repeat"] = lambda r: (lambda ax: ([arr(r, sh13(r))], (lambda M, a: M.repeat(a, 2)) if ax == "default" else (lambda M, a: M.repeat(a, 2, axis=ax)),
                                         {"axis": ax}, ["default-axis"] if ax == "default" else []))(gen.choice(r, ["default", 0, 0, -1]))
    T["tile"] = lambda r: ([arr(r)], lambda M, a: M.tile(a, 2), {}, [])
    for nm in ("concatenate", "stack", "hstack", "vstack", "dstack"):
        # operands of different types side by side (int first, halves second, and the other way round): the result has
        # numpy's common type (seeded change C11-13: the first operand's type)
        T[nm] = (lambda nm: lambda r: (lambda sh: ([arr(r, sh, gen.choice(r, ["int", "int", "float"])), arr(r, sh, gen.choice(r, ["int", "float"]))],
                                                   lambda M, a, b: getattr(M, nm)([a, b]), {}, []))(sh13(r)))(nm)
    T["split"] = lambda r: ([arr(r, (4, 2))], lambda M, a: M.split(a, 2), {}, [])
    T["array_split"] = lambda r: ([arr(r, (5,))], lambda M, a: M.array_split(a, 3), {}, [])
    T["hsplit"] = lambda r: ([arr(r, (2, 4))], lambda M, a: M.hsplit(a, 2), {}, [])
    T["vsplit"] = lambda r: ([arr(r, (4, 2))], lambda M, a: M.vsplit(a, 2), {}, [])
    T["dsplit"] = lambda r: ([arr(r, (1, 2, 4))], lambda M, a: M.dsplit(a, 2), {}, [])
    T["diag"] = lambda r: ([arr(r, gen.choice(r, [(3,), (2, 2), (1, 3), (2, 3)]))], lambda M, a: M.diag(a), {}, [])
    T["diagonal"] = lambda r: ([arr(r, gen.choice(r, [(2, 2), (1, 3), (2, 3)]))], lambda M, a: M.diagonal(a), {}, [])
    T["broadcast_arrays"] = lambda r: (lambda s: ([arr(r, s[0]), arr(r, s[1])], lambda M, a, b: M.broadcast_arrays(a, b), {}, []))(gen.gen_shape_pair(r))
    def where_(r):
        sh = sh13(r)
        how = gen.choice(r, ["alternating", "all-true", "all-false", "scalar-operands"])
        if how == "alternating":
            cond = numpy.arange(int(numpy.prod(sh))).reshape(sh) % 2 == 0
            ops = [arr(r, sh, "int"), arr(r, sh, "int")]
        else:
            # a uniform condition whose shape is larger than the operands': the condition takes part in the broadcast
            # (seeded change C11-10: uniform conditions returned one operand as it is)
            cond = numpy.full((2,) + tuple(sh), how != "all-false")
            ops = [arr(r, sh, "int"), arr(r, (), "int")] if how != "scalar-operands" else [arr(r, (), "int"), arr(r, (), "float")]
        return ops, lambda M, a, b: M.where(cond, a, b), {"condition": how}, []
    T["where"] = where_
    T["choose"] = lambda r: ([arr(r, (3,), "int"), arr(r, (3,), gen.choice(r, ["int", "float"]))], lambda M, a, b: M.choose(numpy.array([0, 1, 0]), [a, b]), {}, [])
    T["full_like"] = lambda r: ([arr(r, sh13(r), "int")], lambda M, a: M.full_like(a, 7), {}, [])
    T["diff"] = lambda r: ([arr(r, gen.choice(r, [(4,), (2, 3)]))], lambda M, a: M.diff(a), {}, [])
    T["ediff1d"] = lambda r: ([arr(r, (4,))], lambda M, a: M.ediff1d(a), {}, [])
    T["inner"] = lambda r: ([arr(r, (3,), "int"), arr(r, (3,), "int")], lambda M, a, b: M.inner(a, b), {}, [])
    # numpy.outer flattens its operands: any rank on either side (seeded change C11-14: the multiply.outer reading)
    T["outer"] = lambda r: ([arr(r, gen.choice(r, [(2,), (2,), (), (2, 3), (1, 2), (2, 1, 2)]), "int"), arr(r, gen.choice(r, [(3,), (3,), (), (2, 2), (3, 1)]), "int")],
                            lambda M, a, b: M.outer(a, b), {}, [])
    T["matmul"] = lambda r: (lambda s: ([arr(r, s[0], "int"), arr(r, s[1], "int")], lambda M, a, b: M.matmul(a, b), {}, ["vector-operand"] if 1 in (len(s[0]), len(s[1])) else []))(
        gen.choice(r, [((2, 3), (3, 2)), ((2, 2), (2, 2)), ((2, 2, 3), (3, 2)), ((3,), (3,)), ((2, 3), (3,))]))
    T["det"] = lambda r: (lambda k: ([arr(r, (k, k), "int")], lambda M, a: (M.det(a) if M is numpoly else numpy.rint(numpy.linalg.det(a)).astype(int)), {"n": k}, []))(int(r.integers(1, 5)))
    T["apply_along_axis"] = lambda r: ([arr(r, (2, 3), "int")], lambda M, a: M.apply_along_axis(numpy.sum, 0, a), {}, [])
    T["apply_over_axes"] = lambda r: ([arr(r, (2, 3), "int")], lambda M, a: M.apply_over_axes(numpy.sum, a, [0]), {}, [])
    T["result_type"] = lambda r: ([arr(r, (2,), "int"), arr(r, (2,), "float")], lambda M, a, b: M.result_type(a, b), {}, [])
    T["common_type"] = lambda r: ([arr(r, (2,), "float")], lambda M, a: M.common_type(a), {}, [])
    T["copyto"] = lambda r: (lambda sh: ([arr(r, sh, "int"), arr(r, sh, "int")], lambda M, a, b: (lambda d: (M.copyto(d, b), d)[1])(a.copy()), {}, []))(sh13(r))
    return T


SKIPPED = {"array_repr": "text output", "array_str": "text output", "savetxt": "file output", "full": "no array argument",
           "zeros": "no array argument", "ones": "no array argument"}


def plain(x):
    """numpoly result -> plain numpy value (constant polynomials via tonumpy)"""
    if isinstance(x, numpoly.ndpoly):
        return ("poly", numpy.asarray(x.tonumpy()))
    if isinstance(x, (list, tuple)):
        return ("seq", [plain(y) for y in x])
    if isinstance(x, (type, numpy.dtype)):
        return ("type", numpy.dtype(x))
    return ("plain", x)


SUMMING = {"sum", "cumsum", "prod", "cumprod", "mean", "inner", "dot", "matmul", "tensordot", "einsum", "outer", "diff", "ediff1d",
           "add/reduce", "multiply/reduce", "add/accumulate", "cumsum/accumulate"}


def same(got, want, nm):
    kind, g = got
    if isinstance(want, (list, tuple)):
        if kind != "seq" or len(g) != len(want):
            return f"returned {kind} of length {len(g) if kind == 'seq' else '-'}, numpy returns a sequence of {len(want)}"
        for gg, ww in zip(g, want):
            r = same(gg, ww, nm)
            if r:
                return r
        return None
    if kind == "type":
        return None if numpy.dtype(want) == g else f"{g} != {numpy.dtype(want)}"
    g_arr, w_arr = numpy.asarray(g), numpy.asarray(want)
    if g_arr.shape != w_arr.shape:
        return f"shape {g_arr.shape} != numpy's {w_arr.shape}"
    if w_arr.dtype.kind in "bi" and kind != "poly" and g_arr.dtype.kind != w_arr.dtype.kind:
        return f"result type {g_arr.dtype} but numpy returns {w_arr.dtype}"
    if w_arr.dtype.kind in "fc" or g_arr.dtype.kind in "fc":
        if nm in SUMMING:
            # sums of several floating-point terms: the order of summation is not part of the claim
            ok = numpy.allclose(g_arr.astype(complex), w_arr.astype(complex), rtol=1e-12, atol=1e-12)
        else:
            # element-wise functions, bit for bit: a constant polynomial goes through the same numpy kernel as the plain
            # array (seeded change C11-8: x * (1/d) instead of x / d is one ulp off); nan == nan here
            ok = numpy.array_equal(g_arr.astype(complex), w_arr.astype(complex), equal_nan=True)
    else:
        ok = numpy.array_equal(g_arr, w_arr)
    return None if ok else f"values {g_arr.tolist()} != numpy's {w_arr.tolist()}"


def run_table(ctx, monitor):
    rng = ctx.rng("table")
    T = table()
    reps = 12 if ctx.quick else 120
    from ..extract import tables
    registered = {k.split(".")[-1] for k, _ in tables()["ufuncRegistry"]} | {k.split(".")[-1] for k, _ in tables()["functionRegistry"]}
    missing = sorted(n for n in registered if n not in T and n not in SKIPPED)
    ctx.extra["registered_functions_without_grid"] = missing
    ctx.extra["skipped"] = SKIPPED
    for nm in sorted(T):
        if nm.split("/")[0] not in registered:
            continue
        for _ in range(reps):
            arrays, f, info, tags = T[nm](rng)
            case = {"kind": "const", "function": nm, "arrays": [a.tolist() for a in arrays], "dtypes": [str(a.dtype) for a in arrays], "args": {k: (list(v) if isinstance(v, tuple) else v) for k, v in info.items()}}
            tags = [f"fn:{nm}"] + tags + (["extreme-with-axis"] if nm.split("/")[0] in ("amax", "amin", "max", "min") and "axis" in tags else [])
            with warnings.catch_warnings():
                warnings.simplefilter("ignore")
                try:
                    with numpy.errstate(all="ignore"):
                        want = f(numpy, *[a.copy() for a in arrays])
                except Exception:  # noqa: BLE001
                    ctx.count("numpy-rejects-arguments")
                    continue
                ctx.evaluations += 1
                ctx.count(f"fn={nm}")
                if any(a.size >= 2 and len(set(a.ravel().tolist())) < a.size for a in arrays):
                    ctx.nontrivial_add((nm, ctx.evaluations))
                polys = [numpoly.polynomial(a) for a in arrays]
                try:
                    with monitor.watch(f"C11:{nm}", *polys):
                        got = f(numpoly, *polys)
                except Exception as err:  # noqa: BLE001
                    ctx.fail(case, f"numpoly.{nm}{info} on constant polynomial(s) raised {type(err).__name__}: {str(err)[:120]}; numpy returns {str(want)[:80]}", tags + [f"raises:{err_kind(err)}"])
                    continue
                try:
                    diff = same(plain(got), want, nm)
                except FNS:
                    diff = "result is a non-constant polynomial"
                if diff:
                    ctx.fail(case, f"numpoly.{nm}{info} on constants {[a.tolist() for a in arrays]}: {diff}", tags + ["value" if "values" in diff else "shape" if "shape" in diff else "type"])


REDUCTIONS = {"sum": (True, True, None), "mean": (True, True, None), "all": (True, True, None), "any": (True, True, None),
              "amax": (True, True, None), "amin": (True, True, None), "max": (True, True, None), "min": (True, True, None),
              "count_nonzero": (True, True, None), "prod": (True, True, "int"), "cumsum": (False, False, None),
              "argmax": (False, False, None), "argmin": (False, False, None)}


def run_reduction_grid(ctx, monitor):
    """every axis (negative ones and pairs included) x keepdims for every reduction, on one array per shape: the
    property quantifies over *all* axis/keepdims arguments, so this part is exhaustive rather than sampled"""
    rng = ctx.rng("grid")
    from ..extract import tables
    registered = {k.split(".")[-1] for k, _ in tables()["ufuncRegistry"]} | {k.split(".")[-1] for k, _ in tables()["functionRegistry"]}
    shapes = [(4,), (2, 3), (2, 1, 3)] if ctx.quick else [(4,), (1, 4), (2, 3), (3, 2), (2, 2, 2), (2, 1, 3)]
    for nm, (kd, tuples, kind) in sorted(REDUCTIONS.items()):
        if nm not in registered:
            continue
        for sh in shapes:
            a = arr(rng, sh, kind, lo=-2, hi=2)
            for ax in axes(len(sh), tuples):
                for keep in ([False, True] if kd else [False]):
                    kw = ({} if ax is None else {"axis": ax}) | ({"keepdims": True} if keep else {})
                    tags = [f"fn:{nm}", "grid"] + (["axis"] if ax is not None else []) + (["keepdims"] if keep else []) + \
                        (["axis-tuple", "axis-tuple-keepdims" if keep else "axis-tuple-nokeepdims"] if isinstance(ax, tuple) else []) + \
                        (["extreme-with-axis"] if nm in ("amax", "amin", "max", "min") and ax is not None else [])
                    case = {"kind": "const", "function": nm, "arrays": [a.tolist()], "dtypes": [str(a.dtype)],
                            "args": {k: (list(v) if isinstance(v, tuple) else v) for k, v in kw.items()}, "grid": True}
                    with warnings.catch_warnings():
                        warnings.simplefilter("ignore")
                        try:
                            want = getattr(numpy, nm)(a.copy(), **kw)
                        except Exception:  # noqa: BLE001
                            ctx.count("numpy-rejects-arguments")
                            continue
                        ctx.evaluations += 1
                        ctx.count("grid")
                        p = numpoly.polynomial(a)
                        try:
                            with monitor.watch(f"C11:{nm}", p):
                                got = getattr(numpoly, nm)(p, **kw)
                            diff = same(plain(got), want, nm)
                        except FNS:
                            diff = "result is a non-constant polynomial"
                        except Exception as err:  # noqa: BLE001
                            ctx.fail(case, f"numpoly.{nm}{kw} on a constant polynomial of shape {sh} raised {type(err).__name__}: {str(err)[:120]}", tags + [f"raises:{err_kind(err)}"])
                            continue
                        if diff:
                            ctx.fail(case, f"numpoly.{nm}{kw} on constants {a.tolist()}: {diff}", tags + ["value" if "values" in diff else "shape" if "shape" in diff else "type"])


def run_narrow_reductions(ctx, monitor):
    """reductions of constants stored in integer types narrower than the platform integer, with values whose sum /
    product leaves the narrow type: numpy accumulates in the platform integer (D47)"""
    from ..extract import tables
    registered = {k.split(".")[-1] for k, _ in tables()["ufuncRegistry"]} | {k.split(".")[-1] for k, _ in tables()["functionRegistry"]}
    data = {"uint8": [[16, 16], [200, 100, 3], [[16, 16], [3, 5]]], "int8": [[100, 100], [-100, 50, 2], [[64, 2], [2, 64]]],
            "int16": [[300, 300], [[20000, 2], [2, 20000]]], "uint16": [[300, 300]], "int32": [[2 ** 20, 2 ** 20], [2 ** 30, 2 ** 30, 2]],
            "uint32": [[2 ** 20, 2 ** 20]], "bool": [[True, True, True], [[True, False], [True, True]]]}
    for nm in ("sum", "prod", "cumsum", "cumprod", "mean"):
        if nm not in registered:
            continue
        for dt, arrays in data.items():
            for values in arrays:
                a = numpy.array(values, dtype=dt)
                for ax in [None] + list(range(-a.ndim, a.ndim)):
                    kw = {} if ax is None else {"axis": ax}
                    case = {"kind": "const", "function": nm, "arrays": [a.tolist()], "dtypes": [dt], "args": dict(kw), "grid": True}
                    tags = [f"fn:{nm}", "narrow-dtype", f"dtype:{dt}"]
                    with warnings.catch_warnings():
                        warnings.simplefilter("ignore")
                        want = getattr(numpy, nm)(a.copy(), **kw)
                        ctx.evaluations += 1
                        ctx.count("narrow-reductions")
                        p = numpoly.polynomial(a)
                        try:
                            with monitor.watch(f"C11:{nm}", p):
                                got = getattr(numpoly, nm)(p, **kw)
                            diff = same(plain(got), want, nm)
                        except Exception as err:  # noqa: BLE001
                            ctx.fail(case, f"numpoly.{nm}{kw} on {dt} constants {a.tolist()} raised {type(err).__name__}: {str(err)[:120]}", tags + [f"raises:{err_kind(err)}"])
                            continue
                        if diff:
                            ctx.fail(case, f"numpoly.{nm}{kw} on {dt} constants {a.tolist()}: {diff}", tags + ["value" if "values" in diff else "shape" if "shape" in diff else "type"])


def run_model_constfns(ctx):
    """numpy's semantics on integer / rational value arrays is part of the model (Np/Model/ConstFns.lean: argmax/argmin
    with first occurrence, amax/amin, count_nonzero, nonzero, any/all, floor division and remainder, floor/ceil/rint,
    isclose): on a grid the model's values must be numpy's. A disagreement is an error of the model (RuntimeError)."""
    from fractions import Fraction
    rng = ctx.rng("model-const")
    reqs, wants = [], []
    for sh in [(4,), (1,), (2, 3), (3, 1), (2, 1, 3), (2, 2, 2)]:
        for _ in range(3):
            a = rng.integers(-2, 3, size=sh)
            xs = [int(x) for x in a.ravel()]
            for ax in range(len(sh)):
                for fn, f in (("argmax", numpy.argmax), ("argmin", numpy.argmin), ("amax", numpy.amax), ("amin", numpy.amin),
                              ("count_nonzero", numpy.count_nonzero), ("any", numpy.any), ("all", numpy.all)):
                    out = numpy.asarray(f(a, axis=ax))
                    reqs.append({"op": "constfn", "fn": fn, "shape": list(sh), "xs": xs, "axis": ax})
                    wants.append({"shape": list(out.shape), "values": [x.item() for x in out.ravel()]})
            reqs.append({"op": "constfn", "fn": "argmax_flat", "xs": xs}); wants.append({"value": int(numpy.argmax(a))})
            reqs.append({"op": "constfn", "fn": "argmin_flat", "xs": xs}); wants.append({"value": int(numpy.argmin(a))})
            reqs.append({"op": "constfn", "fn": "nonzero", "shape": list(sh), "xs": xs})
            wants.append({"values": [[int(v) for v in col] for col in numpy.nonzero(a)]})
    a = rng.integers(-9, 10, size=60); b = rng.integers(-4, 5, size=60)
    with numpy.errstate(all="ignore"):
        q, r = numpy.divmod(a, b)
    reqs.append({"op": "constfn", "fn": "divmod", "a": [int(x) for x in a], "b": [int(x) for x in b]})
    wants.append({"q": [int(x) for x in q], "r": [int(x) for x in r]})
    qs = [(int(n), int(d)) for n in range(-13, 14) for d in (1, 2, 4, 8)]
    vals = numpy.array([n / d for n, d in qs])
    reqs.append({"op": "constfn", "fn": "round", "qs": [list(x) for x in qs]})
    wants.append({"floor": [int(x) for x in numpy.floor(vals)], "ceil": [int(x) for x in numpy.ceil(vals)], "rint": [int(x) for x in numpy.rint(vals)]})
    for rtol, atol in [((1, 4), (0, 1)), ((0, 1), (1, 2)), ((1, 8), (1, 8)), ((1, 2), (0, 1))]:
        pa = [(int(n), 8) for n in rng.integers(-24, 25, size=30)]; pb = [(int(n), 8) for n in rng.integers(-24, 25, size=30)]
        fa = numpy.array([n / d for n, d in pa]); fb = numpy.array([n / d for n, d in pb])
        reqs.append({"op": "constfn", "fn": "isclose", "a": [list(x) for x in pa], "b": [list(x) for x in pb], "rtol": list(rtol), "atol": list(atol)})
        wants.append({"values": [bool(x) for x in numpy.isclose(fa, fb, rtol=rtol[0] / rtol[1], atol=atol[0] / atol[1])]})
    # element-wise functions with broadcasting (Np/Model/ElemFns.lean)
    fns = {"add": numpy.add, "subtract": numpy.subtract, "multiply": numpy.multiply, "maximum": numpy.maximum, "minimum": numpy.minimum,
           "floor_divide": numpy.floor_divide, "remainder": numpy.remainder, "equal": numpy.equal, "not_equal": numpy.not_equal,
           "less": numpy.less, "less_equal": numpy.less_equal, "greater": numpy.greater, "greater_equal": numpy.greater_equal,
           "logical_and": numpy.logical_and, "logical_or": numpy.logical_or, "logical_xor": numpy.logical_xor, "power": numpy.power}
    for sa, sb in [((3,), (3,)), ((2, 1), (3,)), ((), (2, 2)), ((2, 3), (3,)), ((1, 2, 1), (2, 1, 3)), ((2,), (3,)), ((2, 2), (3, 2)), ((), ())]:
        x = rng.integers(-4, 5, size=sa); y = rng.integers(-3, 4, size=sb)
        for fn, f in fns.items():
            yy = numpy.abs(y) if fn == "power" else y
            try:
                with numpy.errstate(all="ignore"):
                    out = numpy.asarray(f(x, yy))
                want = {"shape": list(out.shape), "values": [v.item() for v in out.ravel()]}
            except ValueError:
                want = {"kind": "none"}
            reqs.append({"op": "elemfn", "fn": fn, "sa": list(sa), "sb": list(sb), "xs": [int(v) for v in x.ravel()], "ys": [int(v) for v in yy.ravel()]})
            wants.append(want)
    bad = []
    for k, (req, want, ans) in enumerate(zip(reqs, wants, run_driver([dict(r, id=i) for i, r in enumerate(reqs)]))):
        ctx.count("model-constfn")
        got = {key: ans.get(key) for key in want}
        if got != want:
            bad.append(f"{ {a: b for a, b in req.items() if a != 'op'} }: model {str(got)[:150]}, numpy {str(want)[:150]}")
    if bad:
        raise RuntimeError(f"Np.ConstFns and numpy disagree on {len(bad)} of {len(reqs)} cases:\n" + "\n".join(bad[:6]))
    ctx.extra["model_constfn_cases"] = len(reqs)


def run_division(ctx):
    q0, q1 = numpoly.variable(2)
    divisors = [q0, numpoly.polynomial([q0, 2]), q0 * q1 + 1]
    nums = [numpoly.polynomial([4, 6]), numpoly.polynomial(8), q0 ** 2]
    for nm in ("floor_divide", "true_divide", "divide", "remainder", "divmod", "mod"):
        for d in divisors:
            for n in nums:
                for M in (numpoly, numpy):
                    f = getattr(M, nm, None)
                    if f is None:
                        continue
                    case = {"kind": "division", "function": f"{M.__name__}.{nm}", "dividend": str(n), "divisor": str(d)}
                    ctx.evaluations += 1
                    try:
                        r = f(n, d)
                        ctx.fail(case, f"{M.__name__}.{nm}({n}, {d}) returned {r} instead of raising FeatureNotSupported", ["division", f"fn:{nm}", "returned"])
                    except FNS:
                        ctx.count("division.refused")
                    except Exception as err:  # noqa: BLE001
                        ctx.fail(case, f"{M.__name__}.{nm}({n}, {d}) raised {type(err).__name__}: {str(err)[:100]} instead of FeatureNotSupported", ["division", f"fn:{nm}", "other-error"])


def run_python_scalars(ctx):
    """a plain Python number next to a constant polynomial of a narrow type: numpy treats the Python number as weakly
    typed (NEP 50: float32 array > 0.1 compares in float32, int8 array * 3 stays int8); the comparison functions must give
    numpy's truth values, the arithmetic functions numpy's values (known finding D62: Python numbers are converted to
    64-bit constants first)"""
    f32 = numpy.float32([0.1, 1.0, 0.3])
    i8 = numpy.int8([100, -100, 7])
    probes = [("greater", f32, 0.1), ("less", f32, 0.3), ("equal", f32, 0.1), ("not_equal", f32, 0.3), ("greater_equal", f32, 0.1),
              ("less_equal", f32, 0.3), ("subtract", f32, 0.1), ("multiply", i8, 3), ("add", i8, 100), ("isclose", f32, 0.1)]
    for nm, arr_, py in probes:
        for M in (numpoly, numpy):
            ctx.evaluations += 1
            ctx.count("python-scalar")
            case = {"kind": "python-scalar", "function": f"{M.__name__}.{nm}", "array": arr_.tolist(), "dtype": str(arr_.dtype), "python": py}
            with warnings.catch_warnings():
                warnings.simplefilter("ignore")
                want = getattr(numpy, nm)(arr_, py)
                try:
                    got = getattr(M, nm)(numpoly.polynomial(arr_), py)
                    got = got.tonumpy() if isinstance(got, numpoly.ndpoly) else got
                except Exception as err:  # noqa: BLE001
                    ctx.fail(case, f"{M.__name__}.{nm}(<{arr_.dtype} constants>, {py!r}) raised {type(err).__name__}: {str(err)[:100]}", ["python-scalar", f"fn:{nm}", "raises"])
                    continue
            got = numpy.asarray(got)
            if got.shape != want.shape or not numpy.array_equal(got.astype(want.dtype) if got.dtype.kind == want.dtype.kind else got, want):
                ctx.fail(case, f"{M.__name__}.{nm}(<{arr_.dtype} constants {arr_.tolist()}>, {py!r}): {got.tolist()}, numpy on the plain array gives {want.tolist()}",
                         ["python-scalar", "weak-python-scalar", f"fn:{nm}", "value"])


def run_inplace_division(ctx):
    """the division functions with the dividend itself as explicit output target, and the in-place operator: the values
    numpy gives for the same call on the plain array (seeded change C11-15: an aligner that hands back the caller's own
    object made `p /= d` clear the dividend before reading it)"""
    rng = ctx.rng("inplace-division")
    for _ in range(6 if ctx.quick else 60):
        shape = gen.choice(rng, [(3,), (2, 2), ()])
        a = (rng.integers(-6, 7, size=shape) * 1.0) + 0.5
        d = gen.choice(rng, [2.0, 4.0, -0.5])
        darr = numpy.full(shape, d) if rng.random() < .5 else d
        routes = [("p /= d", lambda p, n=False: p.__itruediv__(darr) if not n else n.__itruediv__(darr)),
                  ("numpy.true_divide(p, d, out=p)", None), ("numpoly.floor_divide(p, d, out=p)", None)]
        for label, _f in routes:
            p = numpoly.polynomial(a.copy())
            n = a.copy()
            ctx.evaluations += 1
            ctx.count("inplace-division")
            case = {"kind": "inplace-division", "call": label, "dividend": a.tolist(), "divisor": d}
            try:
                with warnings.catch_warnings():
                    warnings.simplefilter("ignore")
                    if label == "p /= d":
                        p /= darr
                        n /= darr
                        got, want = p, n
                    elif label.startswith("numpy.true_divide"):
                        got = numpy.true_divide(p, darr, out=p) if p.ndim else None
                        want = numpy.true_divide(n, darr, out=n) if n.ndim else None
                    else:
                        got = numpoly.floor_divide(p, darr, out=p) if p.ndim else None
                        want = numpy.floor_divide(n, darr, out=n) if n.ndim else None
            except Exception as err:  # noqa: BLE001
                ctx.fail(case, f"{label} on the constant {a.tolist()} raised {type(err).__name__}: {str(err)[:100]}; numpy performs it", ["inplace-division", "raises"])
                continue
            if got is None:
                continue
            gv = numpy.asarray(got.tonumpy() if isinstance(got, numpoly.ndpoly) else got)
            if gv.shape != numpy.asarray(want).shape or not numpy.array_equal(gv, numpy.asarray(want)):
                ctx.fail(case, f"{label} on the constant {a.tolist()} with divisor {d}: {gv.tolist()}, numpy gives {numpy.asarray(want).tolist()}", ["inplace-division", "value"])


def run(ctx):
    ctx.rule = RULE
    monitor = Monitor()
    run_table(ctx, monitor)
    run_reduction_grid(ctx, monitor)
    run_narrow_reductions(ctx, monitor)
    run_model_constfns(ctx)
    run_division(ctx)
    run_inplace_division(ctx)
    run_python_scalars(ctx)
    ctx.extra["argument_monitor"] = {"calls": monitor.calls, "mutations": monitor.events[:5]}
    ctx.sample({"function": "argmax", "array": [[3, 1, 3]], "axis": 1, "numpy": [0]})


def replay(ctx, case):
    n = len(ctx.failures)
    if case["kind"] == "python-scalar":
        run_python_scalars(ctx)
        hits = [f for f in ctx.failures[n:] if f["case"].get("function") == case["function"]]
        return hits[0]["what"] if hits else None
    if case["kind"] == "inplace-division":
        run_inplace_division(ctx)
        return ctx.failures[n]["what"] if len(ctx.failures) > n else None
    if case["kind"] == "division":
        run_division(ctx)
        return ctx.failures[n]["what"] if len(ctx.failures) > n else None
    T = table()
    nm = case["function"]
    arrays = [numpy.array(a, dtype=d) for a, d in zip(case["arrays"], case["dtypes"])]
    if case.get("grid"):
        kw = {k: (tuple(v) if isinstance(v, list) else v) for k, v in case["args"].items()}
        try:
            diff = same(plain(getattr(numpoly, nm)(numpoly.polynomial(arrays[0]), **kw)), getattr(numpy, nm)(arrays[0], **kw), nm)
        except Exception as err:  # noqa: BLE001
            return f"numpoly.{nm}{kw} raised {type(err).__name__}: {err}"
        return f"numpoly.{nm}{kw}: {diff}" if diff else None
    # the argument grid of the stored case is re-drawn; replay all grids of this function on the stored arrays
    from ..core import make_rng
    rng = make_rng(0, "C11/replay")
    for _ in range(60):
        _, f, info, tags = T[nm](rng)
        try:
            want = f(numpy, *[a.copy() for a in arrays])
            got = f(numpoly, *[numpoly.polynomial(a) for a in arrays])
            diff = same(plain(got), want, nm)
        except Exception as err:  # noqa: BLE001
            continue
        if diff:
            return f"numpoly.{nm}{info}: {diff}"
    return None

"""C14 - options are scoped, restored, atomic: all bounded histories against the Lean state machine."""
from __future__ import annotations

import itertools
import json

from ..core import numpoly, run_driver

RULE = ("all flat histories up to length L (quick 4, thorough 5) over 13 events {enter{a}, enter{a,b}, enter{bad}, "
        "enter{a,bad}, exit, raise, set{a}, set{b}, set{a'}, set{bad,a}, set{a,bad}, mutate get_options() result, "
        "mutate get_options(defaults=True) result}; well-bracketed ones are turned into structured programs, open "
        "blocks are closed at the end; get_options() and get_options(defaults=True) are read after every event; "
        "non-trivial = contains a block with at least one event inside; distinct by event sequence; exhaustive")

A, B = "retain_names", "sort_graded"
EVENTS = {
    "Ea": ("enter", [[A, False]]),
    "Eab": ("enter", [[A, True], [B, False]]),
    "Ebad": ("enter", [["no_such_option", 1]]),
    "Eabad": ("enter", [[A, False], ["no_such_option", 1]]),
    "X": ("exit", None),
    "R": ("raise", None),
    "Sa": ("set", [[A, False]]),
    "Sb": ("set", [[B, False]]),
    "Sa2": ("set", [[A, True], ["display_exponent", "^"]]),
    "Sbada": ("set", [["no_such_option", 1], [A, False]]),
    "Sabad": ("set", [[B, False], ["no_such_option", 1]]),
    "Mg": ("mutget", [A, "mutated"]),
    "Md": ("mutdef", [A, "mutated"]),
}


def is_bad(kw):
    return any(k == "no_such_option" for k, _ in kw)


def structure(seq):
    """flat event names -> structured program (list of stmts with 'obs' after every event); None if ill-bracketed"""
    pos = 0

    def block(depth):
        nonlocal pos
        out = []
        while pos < len(seq):
            name = seq[pos]
            kind, arg = EVENTS[name]
            if kind == "exit":
                if depth == 0:
                    return None
                pos += 1
                return out, "exit"
            if kind == "raise":
                pos += 1
                if depth == 0:
                    out.append(["try", [["raise", "RuntimeError"]]])
                    out.append(["obs"])
                    continue
                out.append(["raise", "RuntimeError"])
                return out, "raise"
            pos += 1
            if kind == "enter":
                if is_bad(arg):
                    out.append(["try", [["with", arg, []]]])
                    out.append(["obs"])
                    continue
                res = block(depth + 1)
                if res is None:
                    return None
                body, how = res
                stmt = ["with", arg, [["obs"]] + body]
                out.append(["try", [stmt]] if how == "raise" else stmt)
                out.append(["obs"])
            elif kind == "set":
                out.append(["try", [["set", arg]]] if is_bad(arg) else ["set", arg])
                out.append(["obs"])
            elif kind in ("mutget", "mutdef"):
                out.append([kind, arg[0], arg[1]])
                out.append(["obs"])
        return out, "end"

    res = block(0)
    if res is None:
        return None
    return res[0]


def enc(v):
    return repr(v)


def to_model(prog):
    out = []
    for st in prog:
        k = st[0]
        if k == "set":
            out.append(["set", [[a, enc(b)] for a, b in st[1]]])
        elif k == "with":
            out.append(["with", [[a, enc(b)] for a, b in st[1]], to_model(st[2])])
        elif k == "try":
            out.append(["try", to_model(st[1])])
        elif k in ("mutget", "mutdef"):
            out.append(["mut", st[1], enc(st[2])])
        else:
            out.append(st)
    return out


class _Escape(Exception):
    pass


class _Control(BaseException):
    """a control-flow exception that does not derive from Exception (like pytest's skip / KeyboardInterrupt)"""


# how a history is spelled on the implementation side; the model does not distinguish the spellings
EXC_CLASSES = [RuntimeError, KeyboardInterrupt, _Control, GeneratorExit, SystemExit, ArithmeticError]
# values an unknown option name is passed with: the name alone decides that the call is rejected (seeded change C14-8)
BAD_VALUES = [1, None, 0, False, "", ()]
# names an unknown option goes by: far from every real option, or one edit away from one (seeded change C14-12: a "did you
# mean" hint that raised TypeError exactly when a close match exists)
BAD_NAMES = ["no_such_option", "display_revers", "sort_grade", "retain_name", "default_varnames", "Display_graded",
             "retain-names", "displaygraded", "sort_reversed", "x"]
VARIANT = {"exc": RuntimeError, "decorator": False, "bad_value": 1, "bad_name": "no_such_option"}


def kw_of(pairs):
    return {(VARIANT["bad_name"] if k == "no_such_option" else k): (VARIANT["bad_value"] if k == "no_such_option" else v) for k, v in pairs}


def exec_impl(prog, log, defaults):
    for st in prog:
        k = st[0]
        if k == "set":
            numpoly.set_options(**kw_of(st[1]))
        elif k == "with":
            if VARIANT["decorator"]:
                # the decorator spelling of the same block
                @numpoly.global_options(**kw_of(st[1]))
                def body():
                    exec_impl(st[2], log, defaults)
                body()
            else:
                with numpoly.global_options(**kw_of(st[1])):
                    exec_impl(st[2], log, defaults)
        elif k == "try":
            try:
                exec_impl(st[1], log, defaults)
            except (KeyError, *EXC_CLASSES):
                pass
        elif k == "raise":
            raise VARIANT["exc"]("inside block")
        elif k == "mutget":
            d = numpoly.get_options()
            d[st[1]] = st[2]
        elif k == "mutdef":
            d = numpoly.get_options(defaults=True)
            d[st[1]] = st[2]
        elif k == "obs":
            log.append((numpoly.get_options(), numpoly.get_options(defaults=True)))


def reset_options(saved):
    try:
        store = numpoly.option._NUMPOLY_OPTIONS
        store.clear()
        store.update(saved)
    except Exception:  # noqa: BLE001
        numpoly.set_options(**saved)


def run_impl(prog, saved, shipped):
    log = []
    outcome = "normal"
    try:
        exec_impl(prog, log, shipped)
    except BaseException as err:  # noqa: BLE001
        outcome = "RuntimeError" if isinstance(err, tuple(EXC_CLASSES)) else type(err).__name__
    final = (numpoly.get_options(), numpoly.get_options(defaults=True))
    reset_options(saved)
    return log, outcome, final


def opts_key(d):
    return [[k, enc(v)] for k, v in d.items()]


def programs(maxlen):
    names = list(EVENTS)
    for n in range(1, maxlen + 1):
        for seq in itertools.product(names, repeat=n):
            prog = structure(seq)
            if prog is not None:
                yield seq, prog


def check_one(ctx, seq, prog, model, saved, shipped, variant=0):
    VARIANT["exc"] = EXC_CLASSES[variant % len(EXC_CLASSES)]
    VARIANT["decorator"] = (variant // len(EXC_CLASSES)) % 2 == 1
    VARIANT["bad_value"] = BAD_VALUES[(variant // (2 * len(EXC_CLASSES)) + variant) % len(BAD_VALUES)]
    VARIANT["bad_name"] = BAD_NAMES[(variant * 7 + variant // 3) % len(BAD_NAMES)]
    log, outcome, final = run_impl(prog, saved, shipped)
    case = {"events": list(seq), "prog": prog, "variant": variant,
            "spelling": {"exception": VARIANT["exc"].__name__, "decorator": VARIANT["decorator"],
                         "unknown_option_value": repr(VARIANT["bad_value"]), "unknown_option_name": VARIANT["bad_name"]}}
    tags = ["history"]
    init = opts_key(saved)
    mlog = [sorted(map(tuple, o)) for o in model["log"]]
    ilog = [sorted(map(tuple, opts_key(o))) for o, _ in log]
    if model["outcome"] != "normal" or outcome != "normal":
        if model["outcome"] != outcome:
            ctx.fail(case, f"history ended with {outcome}, model says {model['outcome']}", tags + ["outcome"])
            return
    if ilog != mlog:
        i = next((i for i, (a, b) in enumerate(zip(ilog, mlog)) if a != b), min(len(ilog), len(mlog)))
        got = dict(ilog[i]) if i < len(ilog) else None
        exp = dict(mlog[i]) if i < len(mlog) else None
        diff = {k: (got.get(k), exp.get(k)) for k in (exp or {}) if got is None or got.get(k) != exp.get(k)} if exp else {}
        ctx.fail(case, f"get_options() after event {i} differs from the model (option: (got, expected)) {diff}", tags + ["state"])
        return
    if sorted(map(tuple, opts_key(final[0]))) != sorted(map(tuple, model["final"])):
        ctx.fail(case, "final options differ from the model", tags + ["final"])
        return
    for i, (_, dflt) in enumerate(log + [final]):
        if dflt != shipped:
            ctx.fail(case, f"get_options(defaults=True) changed after event {i}", tags + ["defaults"])
            return


def run_reentrant(ctx, saved):
    """one decorated function re-entering itself (one manager object, several live entries), with and without an
    exception at the innermost level: afterwards the options are those from before the outermost call"""
    for kw in ({A: False}, {A: False, "display_exponent": "^"}):
        for depth in (1, 2, 3):
            for exc in [None] + EXC_CLASSES:
                seen = []

                @numpoly.global_options(**kw)
                def f(n):
                    seen.append({k: numpoly.get_options()[k] for k in kw})
                    if n:
                        return f(n - 1)
                    if exc is not None:
                        raise exc("innermost")
                ctx.evaluations += 1
                ctx.count("reentrant")
                try:
                    f(depth)
                except BaseException as err:  # noqa: BLE001
                    if exc is None or not isinstance(err, exc):
                        ctx.fail({"events": ["reentrant"], "kw": kw, "depth": depth}, f"re-entrant decorated call raised {type(err).__name__}: {err}", ["reentrant", "raises"])
                        reset_options(saved)
                        continue
                after = numpoly.get_options()
                case = {"events": ["reentrant"], "kw": {k: repr(v) for k, v in kw.items()}, "depth": depth, "exception": getattr(exc, "__name__", None)}
                if any(s_ != kw for s_ in seen):
                    ctx.fail(case, f"inside the decorated function the options were {seen}, expected {kw} at every depth", ["reentrant", "inside"])
                if after != saved:
                    diff = {k: (after[k], saved[k]) for k in saved if after[k] != saved[k]}
                    ctx.fail(case, f"after a decorated function re-entered itself {depth} time(s) (left by {getattr(exc, '__name__', 'return')}) the options are not restored: {diff}", ["reentrant", "leak"])
                reset_options(saved)


def run(ctx):
    ctx.rule = RULE
    ctx.exhaustive = True
    maxlen = 4 if ctx.quick else 5
    saved = numpoly.get_options()
    shipped = numpoly.get_options(defaults=True)
    from ..extract import tables
    # the table the Lean theorem `defaults_good` is checked against must be what the code ships
    if {k: v for k, v in tables()["optionDefaults"].items()} != shipped:
        ctx.fail({"events": []}, "get_options(defaults=True) differs from option.GLOBAL_OPTIONS_DEFAULTS", ["defaults"])
    batch, metas = [], []

    def flush():
        models = run_driver(batch)
        for (seq, prog), model in zip(metas, models):
            if model.get("status") != "ok":
                raise RuntimeError(f"driver: {model}")
            # the exception class leaving a block and the statement / decorator spelling rotate over the histories
            check_one(ctx, seq, prog, model, saved, shipped, variant=ctx.evaluations)
            ctx.evaluations += 1
            if any(EVENTS[e][0] == "enter" and not is_bad(EVENTS[e][1]) for e in seq[:-1]):
                ctx.nontrivial_add(seq)
            ctx.count(f"len={len(seq)}")
        batch.clear()
        metas.clear()

    init = opts_key(saved)
    for seq, prog in programs(maxlen):
        batch.append({"id": len(batch), "op": "opts", "init": init, "prog": to_model(prog)})
        metas.append((seq, prog))
        if len(batch) >= 5000:
            flush()
            if len(ctx.failures) > 20:
                break
    flush()
    run_reentrant(ctx, saved)
    seq = ("Ea", "Sb", "Eab", "R")
    ctx.sample({"events": list(seq), "program": structure(seq)})
    reset_options(saved)


def replay(ctx, case):
    saved = numpoly.get_options()
    shipped = numpoly.get_options(defaults=True)
    prog = case.get("prog", [])
    model = run_driver([{"id": 0, "op": "opts", "init": opts_key(saved), "prog": to_model(prog)}])[0]
    n = len(ctx.failures)
    if case["events"] == ["reentrant"]:
        run_reentrant(ctx, saved)
        return ctx.failures[n]["what"] if len(ctx.failures) > n else None
    check_one(ctx, tuple(case["events"]), prog, model, saved, shipped, variant=case.get("variant", 0))
    reset_options(saved)
    return ctx.failures[n]["what"] if len(ctx.failures) > n else None

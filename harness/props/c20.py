"""C20 - monomials are never confused, whatever the exponent size."""
from __future__ import annotations

import io
import pickle
from fractions import Fraction

from ..core import (numpy, numpoly, run_driver, poly_to_struct, den_of_struct, den_key, err_kind, time_limit,
                    CaseTimeout)
from .. import gen, oracle

RULE = ("(a) every exponent 0..1114200 through construct -> raw structured view -> reconstruct, in blocks, with the "
        "set of unrepresentable exponents compared with the Lean codec (exhaustive); (b) all pairs (a,b) with a+b <= 200 "
        "(quick) / 600 (thorough) through (c*q0**a+1)*(d*q0**b+1); (c) random exponent tuples up to 1e5 in 1-3 "
        "indeterminates through construction, alignment, *, **, differentiation, evaluation at +-1, pickling and the "
        "text round trip. non-trivial = exponent >= 69 somewhere (beyond the byte formatter) or a product with >= 3 terms")

TOP = 1_114_200


def mono(expo, coef, names=None):
    expo = [int(x) for x in expo]
    names = names or tuple(f"q{i}" for i in range(len(expo)))
    return numpoly.ndpoly.from_attributes([expo], [numpy.array(coef)], names, retain_names=True)


def block_ok(lo, hi):
    """construct one polynomial whose terms have exponents lo..hi-1; -> (ok, detail)"""
    exps = numpy.arange(lo, hi, dtype=numpy.int64)
    try:
        p = numpoly.ndpoly(exponents=exps[:, None], shape=(), names=("q0",))
        got = numpy.asarray(p.exponents).ravel().astype(numpy.int64)
        if not numpy.array_equal(got, exps):
            return False, "exponents differ after construction"
        names = p.values.dtype.names
        dec = numpy.array([ord(k) for k in names], dtype=numpy.int64) - p.KEY_OFFSET
        if not numpy.array_equal(dec, exps):
            return False, "field names do not decode to the exponents"
        r = numpoly.aspolynomial(p.values, names=p.names)
        if not numpy.array_equal(numpy.asarray(r.exponents).ravel().astype(numpy.int64), exps):
            return False, "raw view -> polynomial changes the exponents"
        return True, None
    except Exception as err:  # noqa: BLE001
        return None, f"{type(err).__name__}: {str(err)[:80]}"


def find_bad(lo, hi, out, budget):
    """exponents in [lo,hi) that cannot be stored (error) or are confused (wrong); bisection"""
    ok, detail = block_ok(lo, hi)
    budget[0] += 1
    if ok:
        return
    if hi - lo == 1:
        out.append((lo, "error" if ok is None else "wrong", detail))
        return
    mid = (lo + hi) // 2
    find_bad(lo, mid, out, budget)
    find_bad(mid, hi, out, budget)


def run_codec(ctx):
    step = 1000
    impl_bad = []
    budget = [0]
    for lo in range(0, TOP, step):
        find_bad(lo, min(lo + step, TOP), impl_bad, budget)
    model = run_driver([{"id": 0, "op": "keyrange", "lo": 0, "hi": TOP}])[0]
    model_bad = set(model["value"])
    if model_bad != {e for e in range(55237, TOP) if not representable(e)}:
        raise RuntimeError("harness mirror `representable` differs from the Lean codec")
    ctx.evaluations += TOP
    ctx.count("codec.exponents", TOP)
    ctx.count("codec.constructions", budget[0])
    ctx.extra["codec"] = {"exhaustive_range": [0, TOP], "impl_rejects": len(impl_bad), "model_rejects": len(model_bad)}
    for e, kind, detail in impl_bad:
        if kind == "wrong":
            ctx.fail({"kind": "codec", "exponent": e}, f"exponent {e} is confused with another monomial: {detail}", ["codec", "wrong"])
        elif e not in model_bad:
            ctx.fail({"kind": "codec", "exponent": e},
                     f"exponent {e} is representable (Lean codec) but construction raises {detail}", ["codec", "rejects-valid"])
    rejected = {e for e, k, _ in impl_bad if k == "error"}
    silently = sorted(model_bad - rejected)
    # the implementation may accept more than the model (single surrogates do round-trip); it must never confuse them,
    # which block_ok has checked.  Record the difference as drift.
    if silently:
        ctx.drift.append({"codec": f"{len(silently)} exponents the model rejects are stored correctly by the implementation",
                          "first": silently[:3]})
    ctx.nontrivial_add(("codec", TOP))
    ctx.nontrivial_add(("codec-bad", len(impl_bad)))
    ctx.sample({"op": "keyrange", "lo": 0, "hi": TOP, "model_rejects_first": sorted(model_bad)[:3],
                "model_rejects": len(model_bad), "implementation_rejects": len(rejected)})


def expect_pair(a, b, c, d):
    out = {}
    for e, v in ((a + b, c * d), (a, c), (b, d), (0, 1)):
        out[e] = out.get(e, 0) + v
    return {e: v for e, v in out.items() if v}


def run_pairs(ctx):
    rng = ctx.rng("pairs")
    top = 200 if ctx.quick else 600
    drv = []
    for a in range(top + 1):
        for b in range(top + 1 - a):
            c, d = int(rng.integers(1, 5)), int(rng.integers(-4, 0))
            case = {"kind": "pair", "a": a, "b": b, "c": c, "d": d}
            try:
                x = numpoly.ndpoly.from_attributes([[a], [0]] if a else [[0]], [numpy.array(c), numpy.array(1)] if a else [numpy.array(c + 1)], ("q0",))
                y = numpoly.ndpoly.from_attributes([[b], [0]] if b else [[0]], [numpy.array(d), numpy.array(1)] if b else [numpy.array(d + 1)], ("q0",))
                r = x * y
                got = {int(e[0]): int(v) for e, v in zip(r.exponents.tolist(), r.coefficients) if int(v)}
            except Exception as err:  # noqa: BLE001
                got = f"{type(err).__name__}: {str(err)[:80]}"
            want = expect_pair(a, b, c, d)
            ctx.evaluations += 1
            if a + b >= 69:
                ctx.nontrivial_add(("pair", a, b))
            if got != want:
                tags = ["op:mul", "pair"] + (["raises"] if isinstance(got, str) else ["value"])
                ctx.fail(case, f"({c}*q0**{a}+1)*({d}*q0**{b}+1) gave {got}, exact {want}", tags)
            if (a * 7 + b) % 97 == 0:
                drv.append({"id": len(drv), "op": "mulkey", "e1": [a], "e2": [b]})
    ctx.count("pairs", ctx.dist.get("pairs", 0) + (top + 1) * (top + 2) // 2)
    for ans in run_driver(drv):
        if ans["value"] != ans["exact"]:
            raise RuntimeError(f"model key path not exact: {ans}")
    ctx.count("pairs.model_key_cases", len(drv))


def representable(e):
    """mirror of the Lean codec's domain (checked against the driver in run_codec)"""
    return e < 55237 or 57284 < e <= 1114052


def big_struct(rng, names, nterms, top):
    rows = set()
    if rng.random() < .25:
        # structured tuples: powers of two and their neighbours (where positional row codes would collide modulo 2**32
        # or 2**64), two rows that differ in the first entry only
        e = [int(2 ** int(rng.integers(1, 17)) - int(rng.integers(0, 2))) for _ in names]
        rows.add(tuple(e))
        rows.add(tuple([0] + e[1:]))
    while len(rows) < nterms:
        rows.add(tuple(int(rng.integers(0, top)) if rng.random() < .7 else int(rng.integers(0, 3)) for _ in names))
    return {"names": list(names), "shape": [], "dtype": "int64", "kind": "int",
            "terms": [[list(e), [int(rng.integers(1, 4)) * (1 if rng.random() < .5 else -1)]] for e in sorted(rows)]}


def run_tuples(ctx):
    rng = ctx.rng("tuples")
    n = 150 if ctx.quick else 1500
    for it in range(n):
        k = int(rng.integers(1, 4))
        names = sorted(int(x) for x in rng.choice([0, 1, 2, 3], size=k, replace=False))
        top = int(gen.choice(rng, [100, 1000, 55000, 100000]))
        sa = big_struct(rng, names, int(rng.integers(1, 4)), top)
        sb = big_struct(rng, names if rng.random() < .6 else sorted(set(names) | {int(rng.integers(0, 4))}), int(rng.integers(1, 3)), top)
        case = {"kind": "tuple", "a": sa, "b": sb}
        da, db = den_of_struct(sa), den_of_struct(sb)
        try:
            with time_limit(30):
                a, b = gen.materialize(sa), gen.materialize(sb)
                checks = []
                checks.append(("construct", den_of_struct(poly_to_struct(a)), da))
                checks.append(("values-roundtrip", den_of_struct(poly_to_struct(numpoly.aspolynomial(a.values, names=a.names))), da))
                # the exponent matrix handed over in column-major memory order, and the cleaning of unused names (which hands
                # such a matrix on): rows are rows whatever the memory layout (seeded change C20-15: keys read in memory order)
                ef = numpy.asfortranarray(numpy.array(a.exponents, dtype="int64"))
                checks.append(("construct-fortran", den_of_struct(poly_to_struct(numpoly.polynomial_from_attributes(
                    ef, a.coefficients, a.names, retain_coefficients=True, retain_names=True))), da))
                checks.append(("construct-transposed", den_of_struct(poly_to_struct(numpoly.polynomial_from_attributes(
                    numpy.ascontiguousarray(ef.T).T, a.coefficients, a.names))), da))
                checks.append(("construct-drop-names", den_of_struct(poly_to_struct(numpoly.polynomial_from_attributes(
                    numpy.hstack([ef, numpy.zeros((len(ef), 1), dtype="int64")]), a.coefficients, tuple(a.names) + ("q9",), retain_names=False))), da))
                al = numpoly.align_polynomials(a, b)
                checks.append(("align", den_of_struct(poly_to_struct(al[0])), da))
                checks.append(("align", den_of_struct(poly_to_struct(al[1])), db))
                checks.append(("mul", den_of_struct(poly_to_struct(a * b)), oracle.dmul(da, db)))
                checks.append(("add", den_of_struct(poly_to_struct(a + b)), oracle.dadd(da, db)))
                if len(sa["terms"]) <= 2:
                    checks.append(("pow", den_of_struct(poly_to_struct(a ** 2)), oracle.dmul(da, da)))
                v = names[0]
                checks.append(("derivative", den_of_struct(poly_to_struct(numpoly.derivative(a, f"q{v}"))), oracle.dderiv(da, v)))
                # the same indeterminate twice in one call: the factor n*(n-1) does not fit the exponents' own 32 bits from
                # n = 65537 on (seeded change C20-16: the falling factorial accumulated in the uint32 exponent array)
                checks.append(("derivative-twice", den_of_struct(poly_to_struct(numpoly.derivative(a, f"q{v}", f"q{v}"))),
                               oracle.dderiv(oracle.dderiv(da, v), v)))
                checks.append(("pickle", den_of_struct(poly_to_struct(pickle.loads(pickle.dumps(a)))), da))
                for sign in (1, -1):
                    point = {nm: Fraction(sign) for nm in names}
                    val = a(**{f"q{nm}": sign for nm in names})
                    want = oracle.deval(da, point, 1)[0]
                    checks.append((f"call({sign})", {(): (Fraction(int(numpy.asarray(val).item())),)} if int(numpy.asarray(val).item()) else {}, {(): (want,)} if want else {}))
        except (Exception, CaseTimeout) as err:  # noqa: BLE001
            ctx.evaluations += 1
            big = max(max(e) for e, _ in sa["terms"] + sb["terms"])
            involved = [x for e, _ in sa["terms"] + sb["terms"] for x in e]
            involved += [x + y for e1, _ in sa["terms"] for x in e1 for e2, _ in sb["terms"] for y in e2]
            involved += [2 * x for e, _ in sa["terms"] for x in e]
            if not all(representable(x) for x in involved) and not isinstance(err, CaseTimeout):
                ctx.count("tuples.error-on-unrepresentable")
                continue
            ctx.fail(case, f"operation raised {type(err).__name__}: {str(err)[:100]} (largest exponent {big})",
                     ["tuple", f"raises:{err_kind(err)}"])
            continue
        ctx.evaluations += 1
        if top >= 1000:
            ctx.nontrivial_add(("tuple", it))
        for what, got, want in checks:
            ctx.count(f"tuples.{what.split('(')[0]}")
            if got != want:
                ctx.fail(case, f"{what}: got {den_key(got)[:200]} exact {den_key(want)[:200]}", ["tuple", f"op:{what.split('(')[0]}"])
                break
    ctx.sample({"op": "tuple-chain", "a": sa, "b": sb})


def run_wide(ctx):
    """four and five indeterminates with exponents whose ranges multiply to more than 2**64: rows stay distinct through
    alignment, addition and subtraction (seeded change C20-9: rows told apart by a mixed-radix rank in int64)"""
    rows = [([16, 32767, 32767, 32767, 32767], [0, 32767, 32767, 32767, 32767]),
            ([65536, 65535, 65535, 65535], [0, 65535, 65535, 65535]),
            ([1, 0, 50000, 50000, 50000], [0, 1, 50000, 50000, 50000]),
            ([4096, 4095, 4095, 4095, 4095], [0, 4095, 4095, 4095, 4095]),
            ([2 ** 20, 2 ** 20 - 1, 2 ** 20 - 1, 3], [0, 2 ** 20 - 1, 2 ** 20 - 1, 3])]
    for ea, eb in rows:
        names = list(range(len(ea)))
        sa = {"names": names, "shape": [], "dtype": "int64", "kind": "int", "terms": [[ea, [3]]]}
        sb = {"names": names, "shape": [], "dtype": "int64", "kind": "int", "terms": [[eb, [5]], [[0] * len(eb), [1]]]}
        case = {"kind": "wide", "a": sa, "b": sb}
        da, db = den_of_struct(sa), den_of_struct(sb)
        ctx.evaluations += 1
        ctx.count("wide")
        try:
            with time_limit(30):
                a, b = gen.materialize(sa), gen.materialize(sb)
                al = numpoly.align_polynomials(a, b)
                checks = [("align", den_of_struct(poly_to_struct(al[0])), da), ("align", den_of_struct(poly_to_struct(al[1])), db),
                          ("add", den_of_struct(poly_to_struct(a + b)), oracle.dadd(da, db)),
                          ("sub", den_of_struct(poly_to_struct(a - b)), oracle.dadd(da, {m: tuple(-c for c in cs) for m, cs in db.items()})),
                          ("equal", bool(a == b), False)]
        except (Exception, CaseTimeout) as err:  # noqa: BLE001
            ctx.fail(case, f"exponents {ea} / {eb}: raised {type(err).__name__}: {str(err)[:100]}", ["wide", "raises"])
            continue
        for what, got, want in checks:
            if got != want:
                ctx.fail(case, f"{what} with exponent rows {ea} and {eb}: got {str(got)[:120]}, exact {str(want)[:120]}", ["wide", f"op:{what}"])
                break


def run_unrepresentable(ctx):
    """products / constructions reaching beyond the representable range must raise, never store another monomial"""
    for a, b in ((1114052, 1), (1114000, 100), (600000, 600000)):
        case = {"kind": "overflow", "a": a, "b": b}
        try:
            r = mono([a], 2) * mono([b], 3)
            got = {int(e[0]): int(v) for e, v in zip(r.exponents.tolist(), r.coefficients)}
            if got != {a + b: 6}:
                ctx.fail(case, f"q0**{a} * q0**{b} stored {got} instead of raising", ["overflow", "wrong"])
        except Exception:  # noqa: BLE001
            pass
        ctx.evaluations += 1
    # the constructor's accept / refuse decision and the stored key against the model's storeKey (store_roundtrip,
    # store_rejects_out_of_range), on exponent rows around every boundary
    rows = [[e] for e in (0, 58, 59, 55236, 55237, 57284, 57285, 1114052, 1114053, 2 ** 31, 2 ** 32 - 60, 2 ** 32 - 59, 2 ** 32 - 1, 2 ** 32,
                          2 ** 32 + 5, 2 ** 40, 2 ** 62, -1, -59, -60)] + [[3, 2 ** 32 + 1], [2 ** 40, 1], [1114052, 0], [0, 1114053], [-1, 5]]
    answers = run_driver([{"id": i, "op": "storekey", "e": r} for i, r in enumerate(rows)])
    for r, ans in zip(rows, answers):
        ctx.evaluations += 1
        ctx.count("storekey-vs-model")
        case = {"kind": "overflow", "a": r[0], "b": 0, "op": "construct", "route": "model storeKey", "row": r}
        try:
            p = numpoly.polynomial_from_attributes(numpy.array([r], dtype="int64"), [2], tuple(f"q{i}" for i in range(len(r))))
            got = [ord(c) for c in str(p.keys[0])]
            if [int(x) for x in p.exponents[0]] != r:
                got = ("other monomial", [int(x) for x in p.exponents[0]])
        except Exception:  # noqa: BLE001
            got = None
        if any(55237 <= x <= 57284 for x in r):
            # key code points in the surrogate block: numpy's UCS-4 strings hold them, text files cannot; the model counts them
            # as "may be refused" (invalidKey_errors), the implementation stores them - either way never another monomial
            ok = got is None or got == [x + 59 for x in r]
        else:
            ok = got == ans["value"]
        if not ok:
            ctx.fail(case, f"exponent row {r}: the constructor gives key {got} (None = raises), the model's storeKey {ans['value']} (before D56: {ans['old']})",
                     ["overflow", "wrong", "construct"])
    # exponents beyond the storage type handed to the constructors: an error, never the exponent modulo 2**32 (D56)
    for e in (2 ** 32 - 1, 2 ** 32, 2 ** 32 + 5, 2 ** 33 + 7, 2 ** 40, 2 ** 62, 1114053, 2 ** 31):
        for route, build in (("from_attributes", lambda e=e: numpoly.polynomial_from_attributes([[e]], [2], ("q0",))),
                             ("dict", lambda e=e: numpoly.polynomial({(e,): 2})),
                             ("from_attributes, two names", lambda e=e: numpoly.polynomial_from_attributes([[e, 1], [0, 1]], [2, 3])),
                             ("int64 exponent array", lambda e=e: numpoly.polynomial_from_attributes(numpy.array([[e]], dtype="int64"), [2])),
                             ("then times q0", lambda e=e: numpoly.polynomial_from_attributes([[e]], [2], ("q0",)) * numpoly.variable())):
            case = {"kind": "overflow", "a": e, "b": 0, "op": "construct", "route": route}
            ctx.evaluations += 1
            ctx.count("construct-beyond-range")
            try:
                r = build()
            except Exception:  # noqa: BLE001
                continue
            rows = [[int(x) for x in row] for row in r.exponents.tolist()]
            want = e + (1 if route == "then times q0" else 0)
            if not any(row[0] == want for row in rows):
                ctx.fail(case, f"{route}: exponent {e} was stored as rows {rows} instead of raising (it is not representable)", ["overflow", "wrong", "construct"])
    # powers whose exponent leaves 32 bits must raise as well, never wrap (seeded change C20-12: a fast path that scales
    # the exponent row of a single-term base)
    for a, n in ((65536, 65536), (46341, 92682), (2 ** 20, 2 ** 12)):
        case = {"kind": "overflow", "a": a, "b": n, "op": "power"}
        ctx.evaluations += 1
        try:
            with time_limit(60):
                r = mono([a], 1) ** n
            got = {int(e[0]): int(v) for e, v in zip(r.exponents.tolist(), r.coefficients)}
            if got != {a * n: 1}:
                ctx.fail(case, f"(q0**{a})**{n} stored {got} instead of raising (the exponent {a * n} is not representable)", ["overflow", "wrong"])
        except CaseTimeout:
            ctx.notes.append(f"(q0**{a})**{n} did not finish in 60 s")
        except Exception:  # noqa: BLE001
            pass
    # products written into a caller's target (zero-filled, holding the product's term among others, in any order):
    # the coefficient lands on the product's own monomial (seeded change C20-11: keys taken by position)
    for ea, eb, extra in ((40, 50, [0]), (70, 3, [0, 1]), (1, 2, [7, 0]), (100, 200, [300, 5, 0])):
        for dt in ("int64", "int32"):
            case = {"kind": "overflow", "a": ea, "b": eb, "op": "multiply-out", "dtype": dt}
            ctx.evaluations += 1
            try:
                keys = sorted(set(extra + [ea + eb]), reverse=True)
                target = numpoly.polynomial_from_attributes([[k] for k in keys], [numpy.zeros((), dtype=dt) for _ in keys], ("q0",),
                                                            dtype=dt, retain_coefficients=True, retain_names=True)
                x = numpoly.polynomial_from_attributes([[ea]], [numpy.array(2, dtype=dt)], ("q0",), dtype=dt)
                y = numpoly.polynomial_from_attributes([[eb]], [numpy.array(3, dtype=dt)], ("q0",), dtype=dt)
                r = numpoly.multiply(x, y, out=target)
                got = {int(e[0]): int(v) for e, v in zip(target.exponents.tolist(), target.coefficients) if int(v)}
                if got != {ea + eb: 6}:
                    ctx.fail(case, f"multiply(2*q0**{ea}, 3*q0**{eb}, out=<terms {keys}>) [{dt}] stored {got}, the product is {{{ea + eb}: 6}}", ["overflow", "out-target"])
            except Exception as err:  # noqa: BLE001
                ctx.fail(case, f"multiply(..., out=) raised {type(err).__name__}: {str(err)[:100]}", ["overflow", "out-target", "raises"])


def run_narrow(ctx):
    """exponent arrays of narrow integer dtypes reaching the constructors unchanged: exponent + KEY_OFFSET must not
    wrap in the array's own dtype (every exponent here is representable, so no error is acceptable either)"""
    limits = {"uint8": 255, "int8": 127, "uint16": 65535, "int16": 32767, "uint32": 70000, "int32": 70000, "int64": 70000, "uint64": 70000}
    for dt, top in limits.items():
        if top <= 255:
            values = list(range(top + 1))
        else:
            values = sorted(set(list(range(0, 300, 7)) + list(range(max(top - 130, 0), top + 1)) + [top // 2]))
            values = [v for v in values if representable(v)]
        if ctx.quick and len(values) > 140:
            values = values[::2] + values[-70:]
        for e in values:
            rows = numpy.array([[0, 0], [e, 2]], dtype=dt)
            want = {(): (Fraction(1),), tuple(sorted(((0, e), (1, 2)) if e else ((1, 2),))): (Fraction(3),)}
            routes = [
                ("ndpoly(exponents=...)", lambda: _fill(numpoly.ndpoly(exponents=rows, shape=(), names=("q0", "q1"), dtype=int), [1, 3])),
                ("from_attributes(retain_coefficients=True)", lambda: numpoly.ndpoly.from_attributes(rows, [numpy.array(1), numpy.array(3)], ("q0", "q1"), retain_coefficients=True)),
                ("from_attributes under global retain_coefficients", lambda: _with_rc(lambda: numpoly.ndpoly.from_attributes(rows, [numpy.array(1), numpy.array(3)], ("q0", "q1")))),
                ("from_attributes", lambda: numpoly.ndpoly.from_attributes(rows, [numpy.array(1), numpy.array(3)], ("q0", "q1"))),
            ]
            for label, f in routes:
                case = {"kind": "narrow", "dtype": dt, "exponent": e, "route": label}
                ctx.evaluations += 1
                ctx.count(f"narrow.{dt}")
                try:
                    p = f()
                    got = den_of_struct(poly_to_struct(p))
                except Exception as err:  # noqa: BLE001
                    ctx.fail(case, f"{label} with {dt} exponents [[0,0],[{e},2]] raised {type(err).__name__}: {str(err)[:100]}", ["narrow", f"dtype:{dt}", "raises"])
                    break
                if got != want:
                    ctx.fail(case, f"{label} with {dt} exponents [[0,0],[{e},2]] stored {den_key(got)[:120]}", ["narrow", f"dtype:{dt}", "value"])
                    break
        ctx.nontrivial_add(("narrow", dt))


def _fill(p, coefs):
    for key, c in zip(p.keys, coefs):
        p.values[key] = c
    return p


def _with_rc(f):
    with numpoly.global_options(retain_coefficients=True):
        return f()


def run_text(ctx):
    """exponents whose storage key is not ASCII (>= 69) through the text format, over every save/load route: either the
    exact polynomial comes back or the route raises - never another monomial"""
    import io
    import os
    import tempfile
    import warnings
    exps = [5, 68, 69, 70, 100, 127, 128, 150, 196, 197, 200, 255, 256, 1000] if ctx.quick else list(range(60, 300, 3)) + [1000, 5000]
    # exponents whose key character is a Unicode blank, placed where a header field ends (last term, last indeterminate;
    # seeded change C20-13: a header pattern with \s / \S cut that key short)
    blanks = [74, 101, 5701, 8133, 8143, 8173, 8228, 12229]
    exps = exps + (blanks[:4] if ctx.quick else blanks)
    with tempfile.TemporaryDirectory() as tmp, warnings.catch_warnings():
        warnings.simplefilter("ignore")
        for e in exps:
            p = numpoly.ndpoly.from_attributes([[2, 0], [e, 1]] if e not in blanks else [[0, 0], [1, e]],
                                               [numpy.array([1.0, 2.0]), numpy.array([3.0, -1.0])], ("q0", "q1"))
            want = den_of_struct(poly_to_struct(p))
            routes = []
            for saver in (numpoly.savetxt, numpy.savetxt):
                routes.append((f"{saver.__module__.split('.')[0]}.savetxt -> BytesIO", lambda saver=saver: _via_buffer(io.BytesIO(), saver, p)))
                routes.append((f"{saver.__module__.split('.')[0]}.savetxt -> StringIO", lambda saver=saver: _via_buffer(io.StringIO(), saver, p)))
                for enc in (None, "latin1", "utf-8"):
                    routes.append((f"{saver.__module__.split('.')[0]}.savetxt -> path, encoding={enc}",
                                   lambda saver=saver, enc=enc: _via_path(os.path.join(tmp, "t.txt"), saver, p, enc)))
            for label, f in routes:
                ctx.evaluations += 1
                ctx.count("text")
                try:
                    r = f()
                except Exception:  # noqa: BLE001
                    ctx.count("text.error-instead-of-value")
                    continue
                got = den_of_struct(poly_to_struct(r)) if isinstance(r, numpoly.ndpoly) else None
                if got != want:
                    ctx.fail({"kind": "text", "exponent": e, "route": label},
                             f"q0**{e} saved through {label} loads as {den_key(got)[:120] if got is not None else type(r).__name__} without any error",
                             ["text", "value"])
                    break


def _via_buffer(buf, saver, p):
    saver(buf, p)
    buf.seek(0)
    return numpoly.loadtxt(buf)


def _via_path(path, saver, p, enc):
    kw = {} if enc is None else {"encoding": enc}
    saver(path, p, **kw)
    return numpoly.loadtxt(path, **kw)


def run(ctx):
    ctx.rule = RULE
    run_narrow(ctx)
    run_text(ctx)
    run_pairs(ctx)
    run_tuples(ctx)
    run_wide(ctx)
    run_unrepresentable(ctx)
    run_codec(ctx)
    ctx.exhaustive = True
    ctx.notes.append("exhaustive applies to parts (a) and (b); part (c) is sampled")


def search(ctx):
    """a changed KEY_OFFSET or key path: look for a confused or rejected small exponent"""
    run_codec(ctx)
    if not ctx.failures:
        run_pairs(ctx)


def replay(ctx, case):
    n = len(ctx.failures)
    if case["kind"] == "text":
        run_text(ctx)
        hits = [f["what"] for f in ctx.failures[n:] if f["case"].get("exponent") == case["exponent"]]
        return hits[0] if hits else None
    if case["kind"] == "wide":
        run_wide(ctx)
        return ctx.failures[n]["what"] if len(ctx.failures) > n else None
    if case["kind"] == "narrow":
        run_narrow(ctx)
        hits = [f["what"] for f in ctx.failures[n:] if f["case"]["dtype"] == case["dtype"]]
        return hits[0] if hits else None
    if case["kind"] == "pair":
        a, b, c, d = case["a"], case["b"], case["c"], case["d"]
        try:
            x = numpoly.ndpoly.from_attributes([[a], [0]] if a else [[0]], [numpy.array(c), numpy.array(1)] if a else [numpy.array(c + 1)], ("q0",))
            y = numpoly.ndpoly.from_attributes([[b], [0]] if b else [[0]], [numpy.array(d), numpy.array(1)] if b else [numpy.array(d + 1)], ("q0",))
            r = x * y
            got = {int(e[0]): int(v) for e, v in zip(r.exponents.tolist(), r.coefficients) if int(v)}
        except Exception as err:  # noqa: BLE001
            got = f"{type(err).__name__}: {err}"
        want = expect_pair(a, b, c, d)
        return None if got == want else f"got {got}, exact {want}"
    if case["kind"] == "codec":
        out = []
        find_bad(case["exponent"], case["exponent"] + 1, out, [0])
        return str(out[0]) if out else None
    return "replay of this case kind is not implemented"
